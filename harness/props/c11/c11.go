// Package c11: role state/status aggregation.
//
// Input  : (tree updates)
//
//	tree    := (T crit [TRIGGER]) | (C crit [TRIGGER]) | (A tree*) | (N tree*)
//	           -- (N …): aggregator made by workflow.NewAggregatorRole (born UNKNOWN/UNDEFINED) instead of loaded from YAML
//	           -- (born STANDBY/INACTIVE); only the root and children of an N can be an N. See buildPreset, preset.go.
//	           -- task leaf, call leaf, aggregator; the root is an (A …). A leaf with a third element is a HOOK:
//	           -- its YAML has `trigger: TRIGGER` (e.g. before_CONFIGURE, after_START_ACTIVITY+10), so the loaded role
//	           -- has non-empty Traits.Trigger/Await and the 30 s hook timeout. Critical or not is said by `crit` alone.
//	updates := ((S (i j k) STATE) | (U (i j k) STATUS))*  -- child-index path from the root to a leaf
//
// Obs    : (dump0 dump1 … dumpN)  one dump before any update and one after
// each; a dump is the pre-order list of (STATE STATUS) of every role.
//
// The real tree is built by unmarshalling generated YAML with the package's
// own unmarshallers and workflow.LinkChildrenToParents; updates go through the
// exported UpdateState/UpdateStatus of the leaf roles.
//
// A second input form, (conc tree pre threads sched), delivers updates from several
// goroutines under a controlled interleaving: see conc.go (harness) and sim.go (generator).
package c11

import (
	"fmt"
	"go/ast"
	"go/parser"
	"go/printer"
	"go/token"
	"path/filepath"
	"strings"

	"github.com/AliceO2Group/Control/core/task"
	"github.com/AliceO2Group/Control/core/task/sm"
	"github.com/AliceO2Group/Control/core/workflow"
	"gopkg.in/yaml.v3"

	"verifharness/fw"
	"verifharness/rng"
	"verifharness/sx"
)

var stateNames = []string{"UNKNOWN", "STANDBY", "CONFIGURED", "RUNNING", "ERROR", "DONE", "MIXED", "INVARIANT"}
var statusNames = []string{"UNDEFINED", "INACTIVE", "PARTIAL", "ACTIVE", "UNDEPLOYABLE"}

func stateOf(s string) sm.State {
	for i, n := range stateNames {
		if n == s {
			return sm.State(i)
		}
	}
	return sm.UNKNOWN
}
func statusOf(s string) task.Status {
	for i, n := range statusNames {
		if n == s {
			return task.Status(i)
		}
	}
	return task.UNDEFINED
}

// raw names: String() folds INVARIANT to "UNKNOWN", so print by index.
func stName(s sm.State) string {
	if int(s) < len(stateNames) {
		return stateNames[s]
	}
	return fmt.Sprintf("S%d", int(s))
}
func suName(s task.Status) string {
	if int(s) < len(statusNames) {
		return statusNames[s]
	}
	return fmt.Sprintf("U%d", int(s))
}

func yamlOf(n *sx.Node, name string, indent string, b *strings.Builder, top bool) {
	kind := n.At(0).Str()
	pre := indent + "- "
	cont := indent + "  "
	if top {
		pre, cont = "", ""
	}
	fmt.Fprintf(b, "%sname: %s\n", pre, name)
	switch kind {
	case "T":
		fmt.Fprintf(b, "%stask:\n%s  load: cls\n%s  critical: %v\n", cont, cont, cont, n.At(1).Bool())
		if n.Len() >= 3 {
			fmt.Fprintf(b, "%s  trigger: %s\n", cont, n.At(2).Str())
		}
	case "C":
		fmt.Fprintf(b, "%scall:\n%s  func: noop()\n%s  critical: %v\n", cont, cont, cont, n.At(1).Bool())
		if n.Len() >= 3 {
			fmt.Fprintf(b, "%s  trigger: %s\n", cont, n.At(2).Str())
		}
	case "A":
		if n.Len() == 1 {
			fmt.Fprintf(b, "%sroles: []\n", cont)
			return
		}
		fmt.Fprintf(b, "%sroles:\n", cont)
		for i := 1; i < n.Len(); i++ {
			yamlOf(n.At(i), fmt.Sprintf("%s_%d", name, i-1), cont+"  ", b, false)
		}
	}
}

// hasN: the tree contains a constructed aggregator `(N …)` (see buildPreset).
func hasN(tree *sx.Node) bool {
	if tree.At(0).Str() == "N" {
		return true
	}
	if tree.At(0).Str() == "A" {
		for i := 1; i < tree.Len(); i++ {
			if hasN(tree.At(i)) {
				return true
			}
		}
	}
	return false
}

// buildPreset builds a tree whose upper aggregators `(N kids…)` are made by the exported constructor
// workflow.NewAggregatorRole (state and status are the ZERO values UNKNOWN/UNDEFINED: such a role has folded
// nothing yet), while everything below an N that is not an N itself is loaded from YAML as before (every loaded
// role is born STANDBY/INACTIVE — the same presets taskRole.copy() gives an iterator-generated task). So the
// initial values of leaves and of their ancestors differ and no aggregator is the fold of its subtree before the
// first update reaches it. An N can only sit below an N (YAML cannot contain one).
func buildPreset(tree *sx.Node, name string) (workflow.Role, error) {
	if tree.At(0).Str() != "N" {
		// load (A tree) and take its only child: the loaded role itself, parent set below
		var b strings.Builder
		wrap := sx.L(sx.A("A"), tree)
		yamlOfNamed(wrap, "w", []string{name}, &b)
		w := workflow.NewAggregatorRole("", nil)
		if err := yaml.Unmarshal([]byte(b.String()), w); err != nil {
			return nil, fmt.Errorf("yaml: %v\n%s", err, b.String())
		}
		if len(w.GetRoles()) != 1 {
			return nil, fmt.Errorf("c11: wrapper loaded %d roles", len(w.GetRoles()))
		}
		return w.GetRoles()[0], nil
	}
	var kids []workflow.Role
	for i := 1; i < tree.Len(); i++ {
		k, err := buildPreset(tree.At(i), fmt.Sprintf("%s_%d", name, i-1))
		if err != nil {
			return nil, err
		}
		kids = append(kids, k)
	}
	return workflow.NewAggregatorRole(name, kids), nil
}

// yamlOfNamed: yamlOf for a wrapper whose children get the given names.
func yamlOfNamed(wrap *sx.Node, name string, kidNames []string, b *strings.Builder) {
	fmt.Fprintf(b, "name: %s\nroles:\n", name)
	for i := 1; i < wrap.Len(); i++ {
		yamlOf(wrap.At(i), kidNames[i-1], "  ", b, false)
	}
}

func build(tree *sx.Node) (workflow.Role, error) {
	if hasN(tree) {
		root, err := buildPreset(tree, "r")
		if err != nil {
			return nil, err
		}
		workflow.LinkChildrenToParents(root)
		if err := checkTraits(tree, root); err != nil {
			return nil, err
		}
		// the class needs what it says: constructed aggregators start at the zero values, loaded roles at the presets
		if err := checkPresets(tree, root); err != nil {
			return nil, err
		}
		return root, nil
	}
	var b strings.Builder
	yamlOf(tree, "r", "", &b, true)
	root := workflow.NewAggregatorRole("", nil)
	if err := yaml.Unmarshal([]byte(b.String()), root); err != nil {
		return nil, fmt.Errorf("yaml: %v\n%s", err, b.String())
	}
	workflow.LinkChildrenToParents(root)
	if err := checkTraits(tree, root); err != nil {
		return nil, err
	}
	return root, nil
}

// checkTraits makes sure the loaded leaves ARE what the input says (a hook really has a non-empty
// Trigger, criticality as written): a tree the YAML step built differently is infrastructure trouble.
func checkPresets(tree *sx.Node, r workflow.Role) error {
	var wantS sm.State = sm.STANDBY
	var wantU task.Status = task.INACTIVE
	if tree.At(0).Str() == "N" {
		wantS, wantU = sm.State(0), task.Status(0)
	}
	if r.GetState() != wantS || r.GetStatus() != wantU {
		return fmt.Errorf("c11: %s born %s/%s", tree.String(), stName(r.GetState()), suName(r.GetStatus()))
	}
	if k := tree.At(0).Str(); k == "A" || k == "N" {
		for i, c := range r.GetRoles() {
			if err := checkPresets(tree.At(i+1), c); err != nil {
				return err
			}
		}
	}
	return nil
}

func checkTraits(tree *sx.Node, r workflow.Role) error {
	if k := tree.At(0).Str(); k == "A" || k == "N" {
		kids := r.GetRoles()
		if len(kids) != tree.Len()-1 {
			return fmt.Errorf("c11: %d children loaded for %s", len(kids), tree.String())
		}
		for i, k := range kids {
			if err := checkTraits(tree.At(i+1), k); err != nil {
				return err
			}
		}
		return nil
	}
	tt, ok := r.(interface{ GetTaskTraits() task.Traits })
	if !ok {
		return fmt.Errorf("c11: leaf %s loaded as %T", tree.String(), r)
	}
	want := ""
	if tree.Len() >= 3 {
		want = tree.At(2).Str()
	}
	if tr := tt.GetTaskTraits(); tr.Trigger != want || tr.Critical != tree.At(1).Bool() || (want != "") != (tr.Await != "") {
		return fmt.Errorf("c11: leaf %s loaded with traits %+v", tree.String(), tr)
	}
	return nil
}

func dump(root workflow.Role) *sx.Node {
	d := sx.L()
	var walk func(r workflow.Role)
	walk = func(r workflow.Role) {
		d.Add(sx.L(sx.A(stName(r.GetState())), sx.A(suName(r.GetStatus()))))
		for _, c := range r.GetRoles() {
			walk(c)
		}
	}
	walk(root)
	return d
}

func runImpl(input string) (string, error) {
	in, err := sx.Parse(input)
	if err != nil {
		return "", err
	}
	if isConc(input) {
		return runConc(in)
	}
	root, err := build(in.At(0))
	if err != nil {
		return "", err
	}
	obs := sx.L(dump(root))
	for _, u := range in.At(1).List {
		r := root
		for _, ix := range u.At(1).List {
			kids := r.GetRoles()
			if ix.Int() >= len(kids) {
				return "", fmt.Errorf("bad path")
			}
			r = kids[ix.Int()]
		}
		pu, ok := r.(workflow.PublicUpdatable)
		if !ok {
			return "", fmt.Errorf("path does not end at a leaf")
		}
		if u.At(0).Str() == "S" {
			pu.UpdateState(stateOf(u.At(2).Str()))
		} else {
			pu.UpdateStatus(statusOf(u.At(2).Str()))
		}
		obs.Add(dump(root))
	}
	return obs.String(), nil
}

// ---- generator -------------------------------------------------------------------

type leafPath []int

// triggers a hook can carry in a workflow template (callable.ParseTriggerExpression: name, optional weight)
var triggerNames = []string{"before_CONFIGURE", "after_CONFIGURE", "before_START_ACTIVITY", "after_START_ACTIVITY+10",
	"before_STOP_ACTIVITY-5", "enter_RUNNING", "leave_RUNNING", "DEPLOY", "before_DESTROY+100"}

// hookP (0..10) is the probability, per leaf, of making it a hook; one draw per tree in genCase/genConcRandom.
func genTree(r *rng.R, depth, maxKids int, critP int, paths *[]leafPath, cur leafPath, budget *int) *sx.Node {
	return genTreeH(r, depth, maxKids, critP, 0, paths, cur, budget)
}

func genTreeH(r *rng.R, depth, maxKids int, critP, hookP int, paths *[]leafPath, cur leafPath, budget *int) *sx.Node {
	n := sx.L(sx.A("A"))
	// no empty aggregators: the loader prunes them (C15), so they never reach aggregation
	k := r.Range(1, maxKids)
	if *budget <= 0 {
		*budget = 1
	}
	for i := 0; i < k && *budget > 0; i++ {
		*budget--
		p := append(append(leafPath{}, cur...), i)
		if depth < 3 && r.P(1, 3) {
			n.Add(genTreeH(r, depth+1, maxKids, critP, hookP, paths, p, budget))
		} else {
			kind := "T"
			if r.P(1, 4) {
				kind = "C"
			}
			leaf := sx.L(sx.A(kind), sx.B(r.P(critP, 10)))
			if hookP > 0 && r.P(hookP, 10) {
				leaf.Add(sx.A(rng.Pick(r, triggerNames)))
			}
			n.Add(leaf)
			*paths = append(*paths, p)
		}
	}
	return n
}

func pathNode(p leafPath) *sx.Node {
	n := sx.L()
	for _, i := range p {
		n.Add(sx.I(i))
	}
	return n
}

func genCase(r *rng.R, maxUpd int) fw.Case {
	var paths []leafPath
	budget := r.Range(1, 14)
	critP := rng.Pick(r, []int{10, 9, 7, 5})
	hookP := rng.Pick(r, []int{0, 0, 2, 4, 6})
	tree := genTreeH(r, 0, r.Range(1, 4), critP, hookP, &paths, nil, &budget)
	ups := sx.L()
	tags := []string{}
	if len(paths) > 0 {
		n := r.Range(0, maxUpd)
		// realistic states mostly; the odd MIXED/INVARIANT/UNKNOWN sometimes
		common := []string{"STANDBY", "CONFIGURED", "RUNNING", "ERROR", "DONE", "STANDBY", "CONFIGURED", "RUNNING"}
		for i := 0; i < n; i++ {
			p := rng.Pick(r, paths)
			if r.P(3, 5) {
				s := rng.Pick(r, common)
				if r.P(1, 10) {
					s = rng.Pick(r, stateNames)
				}
				ups.Add(sx.L(sx.A("S"), pathNode(p), sx.A(s)))
			} else {
				s := rng.Pick(r, []string{"INACTIVE", "ACTIVE", "ACTIVE", "UNDEPLOYABLE", "UNDEFINED", "PARTIAL"})
				ups.Add(sx.L(sx.A("U"), pathNode(p), sx.A(s)))
			}
		}
	}
	if critP == 10 {
		tags = append(tags, "all-critical")
	} else {
		tags = append(tags, "mixed-critical")
	}
	tags = append(tags, fmt.Sprintf("leaves=%d", min(len(paths), 8)), fmt.Sprintf("updates~%d", (ups.Len()+4)/5*5))
	tags = append(tags, hookTags(tree)...)
	return fw.Case{Input: sx.L(tree, ups).String(), Tags: tags}
}

// hookTags: which kinds of hook leaves a tree contains (so the distribution shows in the evidence).
func hookTags(tree *sx.Node) []string {
	seen := map[string]bool{}
	var walk func(n *sx.Node)
	walk = func(n *sx.Node) {
		if k := n.At(0).Str(); k == "A" || k == "N" {
			for i := 1; i < n.Len(); i++ {
				walk(n.At(i))
			}
			return
		}
		if n.Len() >= 3 {
			k := "task"
			if n.At(0).Str() == "C" {
				k = "call"
			}
			c := "noncritical"
			if n.At(1).Bool() {
				c = "critical"
			}
			seen["hook-"+c+"-"+k] = true
		}
	}
	walk(tree)
	if len(seen) == 0 {
		return []string{"no-hooks"}
	}
	out := []string{"hooks"}
	for _, k := range []string{"hook-critical-task", "hook-noncritical-task", "hook-critical-call", "hook-noncritical-call"} {
		if seen[k] {
			out = append(out, k)
		}
	}
	return out
}

// ---- fixed scenarios: a hook next to ordinary children, two updates in both orders ----------------
//
// Class of behaviour: the arrival order of updates to DIFFERENT leaves. One leaf H (a task or call role,
// hook or not, critical or not) sits next to an ordinary critical sibling S below one aggregator (at the
// root, one level down, or with H/S themselves one level further down, plus a bystander); H receives
// value vH and S receives vS, once H first and once S first, optionally after everything was brought to a
// common healthy state and optionally followed by a second healthy update of S. After every single
// update all roles are compared, so both the merge shortcut (which stores an incoming ERROR/MIXED without
// folding) and the re-fold triggered by the sibling are seen.
func hookOrderCases(tier string) []fw.Case {
	type shape struct {
		tmpl string // @H and @S are substituted
		h, s string // paths
	}
	shapes := []shape{
		{"(A @H @S)", "(0)", "(1)"},
		{"(A @S @H)", "(1)", "(0)"},
		{"(A (A @H @S) (T 1))", "(0 0)", "(0 1)"},
		{"(A (T 1) (A @S @H))", "(1 1)", "(1 0)"},
		{"(A @H (A @S (T 1)))", "(0)", "(1 0)"},
		{"(A (A @H) @S (C 1))", "(0 0)", "(1)"},
	}
	hs := []string{"(T 1 before_CONFIGURE)", "(T 0 before_CONFIGURE)", "(C 1 after_START_ACTIVITY+10)", "(C 0 enter_RUNNING)", "(T 1)", "(T 1 leave_RUNNING-5)"}
	ss := []string{"(T 1)", "(C 1)", "(T 1 after_CONFIGURE)"}
	vals := [][2]string{{"ERROR", "CONFIGURED"}, {"ERROR", "RUNNING"}, {"DONE", "CONFIGURED"}, {"CONFIGURED", "ERROR"}, {"MIXED", "RUNNING"}}
	if tier != "thorough" {
		shapes = shapes[:5]
		hs = hs[:5]
		ss = ss[:2]
		vals = vals[:4]
	}
	var cs []fw.Case
	for _, sh := range shapes {
		for _, h := range hs {
			for _, sib := range ss {
				tree := strings.Replace(strings.Replace(sh.tmpl, "@H", h, 1), "@S", sib, 1)
				for _, v := range vals {
					uh := fmt.Sprintf("(S %s %s)", sh.h, v[0])
					us := fmt.Sprintf("(S %s %s)", sh.s, v[1])
					for _, warm := range []string{"", fmt.Sprintf("(S %s STANDBY) (S %s STANDBY) ", sh.h, sh.s)} {
						for oi, order := range []string{uh + " " + us, us + " " + uh} {
							tail := ""
							if v[1] != "ERROR" {
								tail = fmt.Sprintf(" (S %s %s)", sh.s, "RUNNING")
							}
							in := sx.MustParse(fmt.Sprintf("(%s (%s%s%s))", tree, warm, order, tail))
							tags := append([]string{"hook-order", []string{"hook-order-h-first", "hook-order-sibling-first"}[oi]}, hookTags(in.At(0))...)
							cs = append(cs, fw.Case{Input: in.String(), Tags: tags})
						}
					}
				}
			}
		}
	}
	return cs
}

func generate(tier string, r *rng.R) []fw.Case {
	n, maxUpd := 2000, 20
	if tier == "thorough" {
		n, maxUpd = 40000, 40
	}
	// fixed: hooks next to ordinary children, both arrival orders (shuffled: the framework keeps the first few disagreements only)
	cs := hookOrderCases(tier)
	rng.Shuffle(r.Fork(), cs)
	for i := 0; i < n; i++ {
		cs = append(cs, genCase(r.Fork(), maxUpd))
	}
	// repeated reports and trees whose leaves and ancestors are born with different values (preset.go)
	cs = append(cs, presetCases(tier, r.Fork())...)
	// concurrent delivery under a controlled interleaving (conc.go)
	cs = append(cs, generateConc(tier, r.Fork())...)
	return cs
}

func nontrivial(input, obs string) bool {
	in, err := sx.Parse(input)
	if err != nil {
		return false
	}
	if isConc(input) {
		return nontrivialConc(in)
	}
	// at least two leaves, at least one nested aggregator or >=3 leaves, and >= 3 updates
	leaves, aggs := 0, 0
	var walk func(n *sx.Node)
	walk = func(n *sx.Node) {
		if k := n.At(0).Str(); k == "A" || k == "N" {
			aggs++
			for i := 1; i < n.Len(); i++ {
				walk(n.At(i))
			}
		} else {
			leaves++
		}
	}
	walk(in.At(0))
	return leaves >= 2 && (aggs >= 2 || leaves >= 3) && in.At(1).Len() >= 3
}

// shrink: drop one update, or drop one subtree that no update addresses.
func shrinkCands(input string) []string {
	in, err := sx.Parse(input)
	if err != nil {
		return nil
	}
	if isConc(input) {
		return shrinkConc(in)
	}
	var out []string
	ups := in.At(1)
	for i := range ups.List {
		n := sx.L()
		n.List = append(append([]*sx.Node{}, ups.List[:i]...), ups.List[i+1:]...)
		out = append(out, sx.L(in.At(0), n).String())
	}
	return out
}

func init() {
	fw.Register(&fw.Property{
		ID:         "C11",
		Generate:   generate,
		RunImpl:    runImpl,
		Nontrivial: nontrivial,
		Rule: "random role trees (depth<=4, <=14 roles, task/call leaves, critical with p in {1,.9,.7,.5}; per tree a hook probability in " +
			"{0,0,.2,.4,.6}: a hook leaf is loaded from YAML with a `trigger:` from a list of real trigger expressions, so it has non-empty " +
			"Traits.Trigger/Await — checked on the loaded role) built from YAML through the " +
			"package's unmarshallers, 0..20 (thorough 0..40) leaf state/status updates; after every update the state and status of EVERY " +
			"role is compared with the Lean model; non-trivial = >=2 leaves, (>=2 aggregators or >=3 leaves) and >=3 updates; distinct by input text. " +
			"FIXED cases (tag hook-order): a leaf H (critical/non-critical task or call hook, or a plain task) next to an ordinary critical sibling S " +
			"in 5 (thorough 6) tree shapes, H and S each get one value (ERROR/healthy pairs) in BOTH arrival orders, cold or after a common " +
			"STANDBY, followed by one more healthy update of S. " +
			"REPEATED REPORTS and NON-UNIFORM PRESETS (tags repeat-update, first-report-equals-preset, preset-tree): update sequences in which a leaf is " +
			"sent the value it already holds (also as its very first update: the preset STANDBY/INACTIVE), on loaded trees and on trees whose upper " +
			"aggregators `(N …)` are made by workflow.NewAggregatorRole (born UNKNOWN/UNDEFINED, nothing folded yet) over loaded subtrees (born " +
			"STANDBY/INACTIVE like the copies an iterator generates); fixed shapes x report scripts + random ones; on N-trees Spec = after every status update " +
			"every aggregator above the updated leaf is the fold of its children and the leaf holds the value. " +
			"CONCURRENT cases (tag conc): 2..4 goroutines deliver UpdateState to the real roles under a controlled interleaving (held in SendEvent " +
			"between a role's merge and its parent's, and in GetState of every child a fold reads; lock waits observed in the goroutine dump); the " +
			"schedule is replayed by the Lean small-step model, outcome of every entry and every role's state/status at quiescence are compared, " +
			"Spec = never lost (every aggregator, and the root) + never invented + leaves hold what was delivered. ALL schedules of two threads on " +
			"different critical leaves of the small trees (tag conc-exhaustive-2-threads), random trees/threads/schedules from the PRNG (conc-random); " +
			"non-trivial = >=2 threads and >=2 schedule entries",
		Shrink:  shrinkCands,
		Search:  searchCases,
		Workers: 8,
		TrustedBase: []string{
			"harness/props/c11 (YAML builder, tree dump)", "gopkg.in/yaml.v3 unmarshalling of the role union",
			"harness/props/c11 buildPreset: (N …) nodes are workflow.NewAggregatorRole(name, children) linked with workflow.LinkChildrenToParents; " +
				"the born values (N: UNKNOWN/UNDEFINED, loaded: STANDBY/INACTIVE) are checked on the built roles before the first update",
			"harness/props/c11/conc.go: the controller (hold points, replacement of children by gated roles through reflection, " +
				"reading 'waits for a SafeState lock' from runtime.Stack); lean Model/RoleTreeConc.lean macroStep/replay (the replay policy: not covered by a theorem, " +
				"it only selects a fine schedule, the compared states are exec of that schedule)",
		},
		Assumptions: []string{
			"event publication inside updateState/updateStatus (the.EventWriterWithTopic → DummyWriter) has no effect on the aggregation",
			"concurrent mode: holding a goroutine inside SendEvent or inside GetState of a child does not change what the roles compute; " +
				"the `r.state.get()` calls updateState makes for its log line and its event are reads without effect (they can only delay the thread)",
			"concurrent mode covers state updates; concurrent STATUS updates are not exercised",
		},
	})
	fw.RegisterGen(fw.GenFile{Name: "StateAlgebra.lean", Make: genAlgebra})
}

// genAlgebra tabulates sm.State.X and task.Status.X on their whole domain by
// EVALUATING the linked implementation.
func genAlgebra(string) (string, error) {
	var b strings.Builder
	b.WriteString("namespace Gen\n\n/-- sm.State.X, row = receiver, column = argument (indices in declaration order). -/\ndef stateXTable : List (List Nat) := [\n")
	for i := 0; i < 8; i++ {
		b.WriteString("  [")
		for j := 0; j < 8; j++ {
			if j > 0 {
				b.WriteString(", ")
			}
			fmt.Fprintf(&b, "%d", int(sm.State(i).X(sm.State(j))))
		}
		b.WriteString("]")
		if i < 7 {
			b.WriteString(",")
		}
		b.WriteString("\n")
	}
	b.WriteString("]\n\n/-- task.Status.X (STATUS_PRODUCT). -/\ndef statusXTable : List (List Nat) := [\n")
	for i := 0; i < 5; i++ {
		b.WriteString("  [")
		for j := 0; j < 5; j++ {
			if j > 0 {
				b.WriteString(", ")
			}
			fmt.Fprintf(&b, "%d", int(task.Status(i).X(task.Status(j))))
		}
		b.WriteString("]")
		if i < 4 {
			b.WriteString(",")
		}
		b.WriteString("\n")
	}
	b.WriteString("]\n\n/-- sm.State.String() for indices 0..7. -/\ndef stateStrings : List String := [")
	for i := 0; i < 8; i++ {
		if i > 0 {
			b.WriteString(", ")
		}
		fmt.Fprintf(&b, "%q", sm.State(i).String())
	}
	b.WriteString("]\n\n/-- sm.StateFromString(name_i) for the eight declared names. -/\ndef stateFromString : List Nat := [")
	for i, n := range stateNames {
		if i > 0 {
			b.WriteString(", ")
		}
		fmt.Fprintf(&b, "%d", int(sm.StateFromString(n)))
	}
	b.WriteString("]\n\nend Gen\n")
	return b.String(), nil
}

// ---- go/ast facts: the merge functions are atomic ------------------------------------------------
//
// The sequential theorems of Props/C11.lean speak about the code only if a whole merge (compare,
// shortcuts, re-aggregation of the children, store) happens under the role's own mutex, so that
// merges on one role are serialised. These facts are re-extracted on every run.

func genMergeFacts(repo string) (string, error) {
	fset := token.NewFileSet()
	var b strings.Builder
	b.WriteString("namespace Gen\n\n/-- (file, function, first statement locks t.mu, second statement defers the unlock, number of OTHER Lock/Unlock/RLock/RUnlock calls on t.mu in the body, the aggregate function is called inside this body, number of assignments to the guarded field) -/\ndef mergeFacts : List (String × String × Bool × Bool × Nat × Bool × Nat) := [")
	first := true
	for _, spec := range [][3]string{{"core/workflow/safestate.go", "aggregateState", "state"}, {"core/workflow/safestatus.go", "aggregateStatus", "status"}} {
		f, err := parser.ParseFile(fset, filepath.Join(repo, spec[0]), nil, 0)
		if err != nil {
			return "", err
		}
		for _, d := range f.Decls {
			fd, ok := d.(*ast.FuncDecl)
			if !ok || fd.Name.Name != "merge" || fd.Body == nil {
				continue
			}
			str := func(n ast.Node) string { var sb strings.Builder; printer.Fprint(&sb, fset, n); return sb.String() }
			firstLock, secondDefer := false, false
			if len(fd.Body.List) >= 2 {
				firstLock = str(fd.Body.List[0]) == "t.mu.Lock()"
				secondDefer = str(fd.Body.List[1]) == "defer t.mu.Unlock()"
			}
			others, callsAgg, assigns := 0, false, 0
			ast.Inspect(fd.Body, func(n ast.Node) bool {
				switch x := n.(type) {
				case *ast.CallExpr:
					s := str(x.Fun)
					if s == "t.mu.Lock" || s == "t.mu.Unlock" || s == "t.mu.RLock" || s == "t.mu.RUnlock" {
						others++
					}
					if s == spec[1] {
						callsAgg = true
					}
				case *ast.AssignStmt:
					for _, l := range x.Lhs {
						if str(l) == "t."+spec[2] {
							assigns++
						}
					}
				}
				return true
			})
			if firstLock {
				others--
			}
			if secondDefer {
				others--
			}
			if !first {
				b.WriteString(", ")
			}
			first = false
			fmt.Fprintf(&b, "(%q, %q, %v, %v, %d, %v, %d)", spec[0], "merge", firstLock, secondDefer, others, callsAgg, assigns)
		}
	}
	b.WriteString("]\n\nend Gen\n")
	return b.String(), nil
}

func init() {
	fw.RegisterGen(fw.GenFile{Name: "MergeFacts.lean", Make: genMergeFacts})
	fw.RegisterGen(fw.GenFile{Name: "FoldFacts.lean", Make: genFoldFacts})
}

// ---- go/ast facts: which children the fold leaves out, which leaves tell their parent -------------------
//
// Model/RoleTraits.lean writes `skipped` (the `continue` conditions of aggregateState) and `forwards` (the guard of
// the parent call at the end of a leaf's updateState/updateStatus) after the code. These facts pin the text of
// exactly those conditions: every statement of interest is listed with the stack of `if` conditions around it
// (an else branch contributes "not(<cond>)").

func guardStacks(fset *token.FileSet, body *ast.BlockStmt, want func(ast.Stmt) (string, bool)) [][2]string {
	str := func(n ast.Node) string { var sb strings.Builder; printer.Fprint(&sb, fset, n); return sb.String() }
	var out [][2]string
	var walkStmt func(st ast.Stmt, stack []string)
	walkBlock := func(b *ast.BlockStmt, stack []string) {
		if b == nil {
			return
		}
		for _, st := range b.List {
			walkStmt(st, stack)
		}
	}
	walkStmt = func(st ast.Stmt, stack []string) {
		if txt, ok := want(st); ok {
			out = append(out, [2]string{strings.Join(stack, " && "), txt})
		}
		switch x := st.(type) {
		case *ast.IfStmt:
			cond := str(x.Cond)
			walkBlock(x.Body, append(append([]string{}, stack...), cond))
			if x.Else != nil {
				walkStmt(x.Else, append(append([]string{}, stack...), "not("+cond+")"))
			}
		case *ast.BlockStmt:
			walkBlock(x, stack)
		case *ast.ForStmt:
			walkBlock(x.Body, stack)
		case *ast.RangeStmt:
			walkBlock(x.Body, stack)
		case *ast.SwitchStmt:
			for _, c := range x.Body.List {
				cc := c.(*ast.CaseClause)
				g := "case " + str(x.Tag) + ":"
				for i, e := range cc.List {
					if i > 0 {
						g += ","
					}
					g += str(e)
				}
				for _, s2 := range cc.Body {
					walkStmt(s2, append(append([]string{}, stack...), g))
				}
			}
		}
	}
	walkBlock(body, nil)
	return out
}

func genFoldFacts(repo string) (string, error) {
	fset := token.NewFileSet()
	str := func(n ast.Node) string { var sb strings.Builder; printer.Fprint(&sb, fset, n); return sb.String() }
	funcOf := func(file, recv, name string) (*ast.FuncDecl, error) {
		f, err := parser.ParseFile(fset, filepath.Join(repo, file), nil, 0)
		if err != nil {
			return nil, err
		}
		for _, d := range f.Decls {
			fd, ok := d.(*ast.FuncDecl)
			if !ok || fd.Name.Name != name || fd.Body == nil {
				continue
			}
			r := ""
			if fd.Recv != nil && len(fd.Recv.List) == 1 {
				r = str(fd.Recv.List[0].Type)
			}
			if r == recv {
				return fd, nil
			}
		}
		return nil, fmt.Errorf("c11 facts: %s: func (%s) %s not found", file, recv, name)
	}
	var b strings.Builder
	b.WriteString("namespace Gen\n\n")
	agg, err := funcOf("core/workflow/safestate.go", "", "aggregateState")
	if err != nil {
		return "", err
	}
	// the type assertions the switch is about
	b.WriteString("/-- aggregateState: `v, ok := c.(T)` assignments as (v, ok, T). -/\ndef foldAsserts : List (String × String × String) := [")
	n := 0
	ast.Inspect(agg.Body, func(nd ast.Node) bool {
		as, ok := nd.(*ast.AssignStmt)
		if !ok || len(as.Lhs) != 2 || len(as.Rhs) != 1 {
			return true
		}
		ta, ok := as.Rhs[0].(*ast.TypeAssertExpr)
		if !ok {
			return true
		}
		if n > 0 {
			b.WriteString(", ")
		}
		n++
		fmt.Fprintf(&b, "(%q, %q, %q)", str(as.Lhs[0]), str(as.Lhs[1]), str(ta.X)+".("+str(ta.Type)+")")
		return true
	})
	b.WriteString("]\n\n")
	list := func(name, doc string, rows [][2]string) {
		fmt.Fprintf(&b, "/-- %s -/\ndef %s : List (String × String) := [", doc, name)
		for i, r := range rows {
			if i > 0 {
				b.WriteString(", ")
			}
			fmt.Fprintf(&b, "(%q, %q)", r[0], r[1])
		}
		b.WriteString("]\n\n")
	}
	list("foldSkips", "aggregateState: every `continue`/`break`/`return`/`goto` of the function as (conditions around it, statement).",
		guardStacks(fset, agg.Body, func(st ast.Stmt) (string, bool) {
			switch x := st.(type) {
			case *ast.BranchStmt:
				return str(x), true
			case *ast.ReturnStmt:
				return "return", true
			}
			return "", false
		}))
	list("foldCombines", "aggregateState: every assignment to the result as (conditions around it, statement).",
		guardStacks(fset, agg.Body, func(st ast.Stmt) (string, bool) {
			if as, ok := st.(*ast.AssignStmt); ok && len(as.Lhs) == 1 && str(as.Lhs[0]) == "s" {
				return str(as), true
			}
			return "", false
		}))
	aggU, err := funcOf("core/workflow/safestatus.go", "", "aggregateStatus")
	if err != nil {
		return "", err
	}
	list("statusFoldSkips", "aggregateStatus: every `continue`/`break`/`return`/`goto` of the function as (conditions around it, statement).",
		guardStacks(fset, aggU.Body, func(st ast.Stmt) (string, bool) {
			switch x := st.(type) {
			case *ast.BranchStmt:
				return str(x), true
			case *ast.ReturnStmt:
				return "return", true
			}
			return "", false
		}))
	list("statusFoldCombines", "aggregateStatus: every assignment to the result as (conditions around it, statement).",
		guardStacks(fset, aggU.Body, func(st ast.Stmt) (string, bool) {
			if as, ok := st.(*ast.AssignStmt); ok && len(as.Lhs) == 1 && str(as.Lhs[0]) == "status" {
				return str(as), true
			}
			return "", false
		}))
	var fw2 [][2]string
	for _, spec := range [][3]string{
		{"core/workflow/taskrole.go", "*taskRole", "updateState"}, {"core/workflow/taskrole.go", "*taskRole", "updateStatus"},
		{"core/workflow/callrole.go", "*callRole", "updateState"}, {"core/workflow/callrole.go", "*callRole", "updateStatus"},
	} {
		fd, err := funcOf(spec[0], spec[1], spec[2])
		if err != nil {
			return "", err
		}
		for _, r := range guardStacks(fset, fd.Body, func(st ast.Stmt) (string, bool) {
			if es, ok := st.(*ast.ExprStmt); ok {
				if s := str(es.X); strings.HasPrefix(s, "t.parent.") {
					return s, true
				}
			}
			return "", false
		}) {
			fw2 = append(fw2, [2]string{spec[1] + "." + spec[2] + ": " + r[0], r[1]})
		}
	}
	list("leafForwards", "leaf roles: every call on t.parent in updateState/updateStatus as (receiver.function: conditions around it, call).", fw2)
	// every way OUT of an update function before its parent call, and the parent calls of the aggregator:
	// "a report is handed upward whether or not it changed this role" (Model/RoleTraits updStateT/updStatusT)
	var exits, aggFw [][2]string
	for _, spec := range [][3]string{
		{"core/workflow/taskrole.go", "*taskRole", "updateState"}, {"core/workflow/taskrole.go", "*taskRole", "updateStatus"},
		{"core/workflow/callrole.go", "*callRole", "updateState"}, {"core/workflow/callrole.go", "*callRole", "updateStatus"},
		{"core/workflow/aggregatorrole.go", "*aggregatorRole", "updateState"}, {"core/workflow/aggregatorrole.go", "*aggregatorRole", "updateStatus"},
	} {
		fd, err := funcOf(spec[0], spec[1], spec[2])
		if err != nil {
			return "", err
		}
		for _, r := range guardStacks(fset, fd.Body, func(st ast.Stmt) (string, bool) {
			switch x := st.(type) {
			case *ast.BranchStmt:
				return str(x), true
			case *ast.ReturnStmt:
				return "return", true
			case *ast.ExprStmt:
				if s := str(x.X); strings.HasPrefix(s, "panic(") {
					return "panic", true
				}
			}
			return "", false
		}) {
			exits = append(exits, [2]string{spec[1] + "." + spec[2] + ": " + r[0], r[1]})
		}
		if spec[1] != "*aggregatorRole" {
			continue
		}
		for _, r := range guardStacks(fset, fd.Body, func(st ast.Stmt) (string, bool) {
			if es, ok := st.(*ast.ExprStmt); ok {
				if s := str(es.X); strings.HasPrefix(s, "r.parent.") {
					return s, true
				}
			}
			return "", false
		}) {
			aggFw = append(aggFw, [2]string{spec[1] + "." + spec[2] + ": " + r[0], r[1]})
		}
	}
	list("updateExits", "task/call/aggregator roles: every return/break/continue/goto/panic statement of updateState/updateStatus as (receiver.function: conditions around it, statement).", exits)
	list("aggForwards", "aggregator role: every call on r.parent in updateState/updateStatus as (receiver.function: conditions around it, call).", aggFw)
	b.WriteString("end Gen\n")
	return b.String(), nil
}
