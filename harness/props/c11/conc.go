// Concurrent mode of the C11 harness: the REAL roles, updated from several goroutines under a CONTROLLED
// interleaving, replayed step by step by the Lean model of Model/RoleTreeConc.lean.
//
// Input : (conc TREE PRE THREADS SCHED)
//
//	TREE    as in c11.go
//	PRE     updates applied one after the other before the threads start ((S path STATE) | (U path STATUS))*
//	THREADS ((leaf STATE)*)   leaf = pre-order number of a task/call role; thread i delivers UpdateState(STATE) to it
//	SCHED   (i j k …)         thread numbers; after the list the threads are released round robin until all returned
//
// Obs   : (conc TRACE DUMP)   TRACE = one (P w…)|(B)|(-) per schedule entry (round-robin entries included),
// DUMP = pre-order (STATE STATUS) of every role when every UpdateState has returned.
//
// Where a real goroutine can be held without touching /repo:
//
//	(a) in the SendEvent every updateState makes AFTER its merge and BEFORE it calls the parent's updateState
//	    (the root's parent is a workflow.ParentAdapter whose SendEvents callback is ours), and
//	(b) in GetState of a child while the parent's merge folds its children: every child that aggregateState
//	    looks at (aggregators, critical task/call roles) is replaced in the parent's Roles slice by a `gated`
//	    role that embeds the real one.
//
// One schedule entry = release thread i from where it is held and wait until it is held again, has returned (P) or
// sits in the Lock/RLock of a SafeState whose holder is being held (B). "Sits in a lock" is read from the goroutine
// dump (state sync.*Lock and the first frame outside sync/runtime is a method of workflow.SafeState) taken when no
// thread of the case is running, so it is an observation, not a deadline. A wait that ends neither way returns an
// error (inconclusive case).
package c11

import (
	"bytes"
	"fmt"
	"reflect"
	"runtime"
	"sort"
	"strconv"
	"strings"
	"time"
	"unsafe"

	"github.com/AliceO2Group/Control/common/event"
	"github.com/AliceO2Group/Control/common/gera"
	"github.com/AliceO2Group/Control/common/utils/uid"
	"github.com/AliceO2Group/Control/core/task/sm"
	"github.com/AliceO2Group/Control/core/workflow"

	"verifharness/fw"
	"verifharness/rng"
	"verifharness/sx"
)

// ---- the controller ---------------------------------------------------------------------------------

type evKind int

const (
	evSend evKind = iota // held in SendEvent of role `node`
	evFold               // held in GetState of child `node` of role `parent`
	evFinished
)

type cEvent struct {
	th     int
	kind   evKind
	node   int
	parent int
}

type thStatus int

const (
	stParked thStatus = iota
	stRunning
	stBlocked
	stFinished
)

type posKind int

const (
	posStart posKind = iota
	posSend
	posFold
)

type cthread struct {
	id       int
	leaf     int
	s        sm.State
	goid     uint64
	gate     chan struct{}
	status   thStatus
	pos      posKind
	node     int // posSend: the role whose merge is done; posFold: the child about to be read
	holding  int // the role this thread is folding (it holds that lock, if the code is what the model says), or -1
	waitNode int // stBlocked: the role whose lock the harness expected it to run into, or -1
}

type ctl struct {
	roles   []workflow.Role // the real roles, pre-order
	parent  []int
	isAgg   []bool
	crit    []bool
	byName  map[string]int
	th      []*cthread
	byGoid  map[uint64]*cthread
	events  chan cEvent
	abortCh chan struct{}
}

func goid() uint64 {
	var buf [64]byte
	n := runtime.Stack(buf[:], false)
	// "goroutine 123 [running]:"
	f := bytes.Fields(buf[:n])
	if len(f) < 2 {
		return 0
	}
	id, _ := strconv.ParseUint(string(f[1]), 10, 64)
	return id
}

func (c *ctl) current() *cthread {
	if len(c.byGoid) == 0 {
		return nil
	}
	return c.byGoid[goid()]
}

func (c *ctl) hold(t *cthread, ev cEvent) {
	ev.th = t.id
	c.events <- ev
	select {
	case <-t.gate:
	case <-c.abortCh:
	}
}

// gated stands in for a child in its parent's Roles slice. Every method is the real role's, except that a
// thread of the case that asks for the state (the parent's fold does) is held first.
type gated struct {
	workflow.Role
	c      *ctl
	idx    int
	parent int
}

func (g *gated) GetState() sm.State {
	if t := g.c.current(); t != nil {
		g.c.hold(t, cEvent{kind: evFold, node: g.idx, parent: g.parent})
	}
	return g.Role.GetState()
}

func (c *ctl) onEvent(ev event.Event) {
	re, ok := ev.(*event.RoleEvent)
	if !ok || re.State == "" {
		return
	}
	t := c.current()
	if t == nil {
		return
	}
	idx, ok := c.byName[re.Name]
	if !ok || idx == 0 {
		return // the root hands its state to the ParentAdapter and returns
	}
	if !c.isAgg[idx] && !c.crit[idx] {
		return // a non-critical leaf does not call its parent
	}
	c.hold(t, cEvent{kind: evSend, node: idx})
}

func setRoles(agg workflow.Role, roles []workflow.Role) error {
	v := reflect.ValueOf(agg)
	if v.Kind() != reflect.Ptr || v.Elem().Kind() != reflect.Struct {
		return fmt.Errorf("aggregator is a %T", agg)
	}
	f := v.Elem().FieldByName("Roles")
	if !f.IsValid() || !f.CanAddr() || f.Type() != reflect.TypeOf(roles) {
		return fmt.Errorf("no Roles []Role field in %T", agg)
	}
	*(*[]workflow.Role)(unsafe.Pointer(f.UnsafeAddr())) = roles
	return nil
}

// instrument numbers the roles in pre-order, replaces the children the fold looks at by gated ones and
// hangs the root below a ParentAdapter that reports every SendEvent.
func instrument(root workflow.Role, tree *sx.Node) (*ctl, error) {
	c := &ctl{byName: map[string]int{}, byGoid: map[uint64]*cthread{}, abortCh: make(chan struct{})}
	var walk func(r workflow.Role, t *sx.Node, par int) error
	walk = func(r workflow.Role, t *sx.Node, par int) error {
		idx := len(c.roles)
		c.roles = append(c.roles, r)
		c.parent = append(c.parent, par)
		kind := t.At(0).Str()
		c.isAgg = append(c.isAgg, kind == "A")
		c.crit = append(c.crit, kind != "A" && t.At(1).Bool())
		c.byName[r.GetName()] = idx
		if kind != "A" {
			return nil
		}
		kids := r.GetRoles()
		if len(kids) != t.Len()-1 {
			return fmt.Errorf("tree shape lost in YAML round trip")
		}
		repl := make([]workflow.Role, len(kids))
		for i, k := range kids {
			kidx := len(c.roles)
			if err := walk(k, t.At(1+i), idx); err != nil {
				return err
			}
			if c.isAgg[kidx] || c.crit[kidx] {
				repl[i] = &gated{Role: k, c: c, idx: kidx, parent: idx}
			} else {
				repl[i] = k
			}
		}
		return setRoles(r, repl)
	}
	if err := walk(root, tree, -1); err != nil {
		return nil, err
	}
	if len(c.byName) != len(c.roles) {
		return nil, fmt.Errorf("role names are not unique")
	}
	empty := gera.MakeMap[string, string]()
	adapter := workflow.NewParentAdapter(
		func() uid.ID { return uid.NilID() },
		func() uint32 { return 0 },
		func() gera.Map[string, string] { return empty },
		func() gera.Map[string, string] { return empty },
		func() gera.Map[string, string] { return empty },
		c.onEvent,
	)
	workflow.SetParentForVerif(root, adapter)
	return c, nil
}

func (c *ctl) locked(n int) bool {
	for _, t := range c.th {
		if t.status != stFinished && t.holding == n {
			return true
		}
	}
	return false
}

func (c *ctl) hasWaiter(n int) bool {
	for _, t := range c.th {
		if t.status == stBlocked && t.waitNode == n {
			return true
		}
	}
	return false
}

func (c *ctl) apply(ev cEvent) {
	t := c.th[ev.th]
	switch ev.kind {
	case evFinished:
		t.status, t.holding = stFinished, -1
	case evSend:
		t.status, t.pos, t.node, t.holding = stParked, posSend, ev.node, -1
	case evFold:
		t.status, t.pos, t.node, t.holding = stParked, posFold, ev.node, ev.parent
	}
}

var lockStates = map[string]bool{"sync.Mutex.Lock": true, "sync.RWMutex.Lock": true, "sync.RWMutex.RLock": true, "semacquire": true}

// inSafeStateLock reports whether goroutine `id` of the dump waits for a mutex inside a method of workflow.SafeState.
func inSafeStateLock(dump []byte, id uint64) bool {
	head := []byte(fmt.Sprintf("goroutine %d [", id))
	i := bytes.Index(dump, head)
	for i > 0 && dump[i-1] != '\n' {
		j := bytes.Index(dump[i+1:], head)
		if j < 0 {
			return false
		}
		i += 1 + j
	}
	if i < 0 {
		return false
	}
	blk := dump[i:]
	if e := bytes.Index(blk, []byte("\n\n")); e >= 0 {
		blk = blk[:e]
	}
	lines := strings.Split(string(blk), "\n")
	st := lines[0][len(head):]
	if k := strings.IndexAny(st, ",]"); k >= 0 {
		st = st[:k]
	}
	if !lockStates[st] {
		return false
	}
	for _, l := range lines[1:] {
		if l == "" || l[0] == '\t' {
			continue
		}
		if strings.HasPrefix(l, "sync.") || strings.HasPrefix(l, "runtime.") || strings.HasPrefix(l, "internal/") {
			continue
		}
		return strings.Contains(l, "core/workflow.(*SafeState).")
	}
	return false
}

func allStacks() []byte {
	buf := make([]byte, 256<<10)
	for {
		n := runtime.Stack(buf, true)
		if n < len(buf) {
			return buf[:n]
		}
		buf = make([]byte, 2*len(buf))
	}
}

var settleCeiling = 30 * time.Second

// settle waits until no thread of the case is running: each is held, has returned, or waits for a SafeState lock.
func (c *ctl) settle() error {
	deadline := time.Now().Add(settleCeiling)
	wait := 100 * time.Microsecond
	for {
	drain:
		for {
			select {
			case ev := <-c.events:
				c.apply(ev)
			default:
				break drain
			}
		}
		var open []*cthread
		for _, t := range c.th {
			if t.status == stRunning || t.status == stBlocked {
				open = append(open, t)
			}
		}
		if len(open) == 0 {
			return nil
		}
		select {
		case ev := <-c.events:
			c.apply(ev)
			continue
		case <-time.After(wait):
		}
		if len(c.events) > 0 {
			continue
		}
		dump := allStacks()
		all := true
		for _, t := range open {
			if !inSafeStateLock(dump, t.goid) {
				all = false
				break
			}
		}
		if all && len(c.events) == 0 {
			for _, t := range open {
				t.status = stBlocked
			}
			return nil
		}
		if time.Now().After(deadline) {
			return fmt.Errorf("c11 conc: a thread neither reached a hold point nor a SafeState lock within %s", settleCeiling)
		}
		if wait < 5*time.Millisecond {
			wait *= 2
		}
	}
}

// macro = one schedule entry; mirrors RoleTree.Conc.macroStep.
func (c *ctl) macro(i int) (*sx.Node, error) {
	skip := sx.L(sx.A("-"))
	if i < 0 || i >= len(c.th) {
		return skip, nil
	}
	t := c.th[i]
	if t.status == stFinished || t.status == stBlocked {
		return skip, nil
	}
	target := -1
	switch t.pos {
	case posSend:
		if c.locked(t.node) {
			return skip, nil
		}
		if p := c.parent[t.node]; p >= 0 && c.locked(p) {
			target = p
		}
	case posFold:
		if c.locked(t.node) {
			target = t.node
		}
	}
	if target >= 0 && c.hasWaiter(target) {
		return skip, nil
	}
	var was []*cthread
	for _, o := range c.th {
		if o.status == stBlocked && o.waitNode >= 0 {
			was = append(was, o)
		}
	}
	t.status, t.waitNode = stRunning, target
	t.gate <- struct{}{}
	if err := c.settle(); err != nil {
		return nil, err
	}
	if t.status == stBlocked && t.waitNode >= 0 {
		return sx.L(sx.A("B")), nil
	}
	// (t may sit in one of the `r.state.get()` that updateState makes AFTER its merge, for the log and the event,
	// because the waiter it woke by releasing the lock is now folding under that lock: the merge step itself is
	// complete, the thread will reach its SendEvent when the other one stores. The model has it at `read`/`done`
	// and skips its entries while the lock is held, exactly as the `stBlocked` test above does.)
	out := sx.L(sx.A("P"))
	// A thread that waited for a lock is woken when it is no longer blocked — or when the lock it waited for has been
	// released and it is blocked again: it went through (nothing is running any more) and now sits in one of the
	// `r.state.get()` after its own merge, behind the waiter that IT woke (see above).
	var woken []int
	for _, o := range was {
		if o.status != stBlocked {
			woken = append(woken, o.id)
		} else if !c.locked(o.waitNode) {
			o.waitNode = -1
			woken = append(woken, o.id)
		}
	}
	sort.Ints(woken)
	for _, w := range woken {
		out.Add(sx.I(w))
	}
	return out, nil
}

func (c *ctl) allFinished() bool {
	for _, t := range c.th {
		if t.status != stFinished {
			return false
		}
	}
	return true
}

const drainRounds = 200

func applyUpdate(root workflow.Role, u *sx.Node) error {
	r := root
	for _, ix := range u.At(1).List {
		kids := r.GetRoles()
		if ix.Int() >= len(kids) {
			return fmt.Errorf("bad path")
		}
		r = kids[ix.Int()]
	}
	if g, ok := r.(*gated); ok {
		r = g.Role
	}
	pu, ok := r.(workflow.PublicUpdatable)
	if !ok {
		return fmt.Errorf("path does not end at a leaf")
	}
	if u.At(0).Str() == "S" {
		pu.UpdateState(stateOf(u.At(2).Str()))
	} else {
		pu.UpdateStatus(statusOf(u.At(2).Str()))
	}
	return nil
}

func runConc(in *sx.Node) (string, error) {
	if in.Len() != 5 {
		return "", fmt.Errorf("conc: want (conc tree pre threads sched)")
	}
	root, err := build(in.At(1))
	if err != nil {
		return "", err
	}
	c, err := instrument(root, in.At(1))
	if err != nil {
		return "", err
	}
	for _, u := range in.At(2).List {
		if err := applyUpdate(root, u); err != nil {
			return "", err
		}
	}
	nT := in.At(3).Len()
	c.events = make(chan cEvent, 4*nT+4)
	ready := make(chan struct{}, nT)
	for i, td := range in.At(3).List {
		leaf := td.At(0).Int()
		if leaf < 0 || leaf >= len(c.roles) || c.isAgg[leaf] {
			return "", fmt.Errorf("conc: thread %d does not address a leaf", i)
		}
		t := &cthread{id: i, leaf: leaf, s: stateOf(td.At(1).Str()), gate: make(chan struct{}), holding: -1, waitNode: -1}
		c.th = append(c.th, t)
	}
	// the map goroutine-id → thread is complete before any thread runs and read-only afterwards
	ids := make([]uint64, nT)
	for i, t := range c.th {
		i, t := i, t
		go func() {
			ids[i] = goid()
			ready <- struct{}{}
			select {
			case <-t.gate:
			case <-c.abortCh:
				return
			}
			c.roles[t.leaf].(workflow.PublicUpdatable).UpdateState(t.s)
			c.events <- cEvent{th: t.id, kind: evFinished}
		}()
	}
	for range c.th {
		<-ready
	}
	for i, t := range c.th {
		t.goid = ids[i]
		c.byGoid[ids[i]] = t
	}
	defer close(c.abortCh)

	trace := sx.L()
	for _, e := range in.At(4).List {
		o, err := c.macro(e.Int())
		if err != nil {
			return "", err
		}
		trace.Add(o)
	}
	for r := 0; r < drainRounds && !c.allFinished(); r++ {
		for i := range c.th {
			o, err := c.macro(i)
			if err != nil {
				return "", err
			}
			trace.Add(o)
		}
	}
	if !c.allFinished() {
		return "", fmt.Errorf("c11 conc: threads still not returned after %d round-robin rounds", drainRounds)
	}
	return sx.L(sx.A("conc"), trace, dump(root)).String(), nil
}

// ---- generator ------------------------------------------------------------------------------------------

func leafIndices(tree *sx.Node) (all []int, critical []int) {
	n := 0
	var walk func(t *sx.Node)
	walk = func(t *sx.Node) {
		idx := n
		n++
		if t.At(0).Str() == "A" {
			for i := 1; i < t.Len(); i++ {
				walk(t.At(i))
			}
			return
		}
		all = append(all, idx)
		if t.At(1).Bool() {
			critical = append(critical, idx)
		}
	}
	walk(tree)
	return
}

func leafPaths(tree *sx.Node) map[int]leafPath {
	out := map[int]leafPath{}
	n := 0
	var walk func(t *sx.Node, p leafPath)
	walk = func(t *sx.Node, p leafPath) {
		idx := n
		n++
		if t.At(0).Str() == "A" {
			for i := 1; i < t.Len(); i++ {
				walk(t.At(i), append(append(leafPath{}, p...), i-1))
			}
			return
		}
		out[idx] = p
	}
	walk(tree, nil)
	return out
}

func concInput(tree *sx.Node, pre *sx.Node, thr [][2]string, sched []int) string {
	th := sx.L()
	for _, t := range thr {
		th.Add(sx.L(sx.A(t[0]), sx.A(t[1])))
	}
	sc := sx.L()
	for _, s := range sched {
		sc.Add(sx.I(s))
	}
	return sx.L(sx.A("conc"), tree, pre, th, sc).String()
}

// Small trees on which EVERY schedule of two threads is enumerated: two or three children below one
// aggregator in every order of (updated, updated, bystander), one and two levels, a non-critical sibling.
var smallTrees = []string{
	"(A (T 1) (T 1))",
	"(A (T 1) (T 1) (C 1))",
	"(A (T 1) (T 0) (T 1))",
	"(A (A (T 1) (T 1)))",
	"(A (A (T 1)) (T 1))",
	"(A (T 1) (A (T 1)))",
	"(A (A (T 1)) (A (T 1)))",
}

// simAfter runs the given leaf updates one after the other in the generator's copy of the model.
func simAfter(tree *sx.Node, nRoles int, ups [][2]int) []sm.State {
	st := make([]sm.State, nRoles)
	for i := range st {
		st[i] = sm.STANDBY
	}
	for _, u := range ups {
		T := simTopoOf(tree, [][2]int{u})
		c := &simCfg{st: st, pc: []simPC{{kind: "start"}}}
		for k := 0; k < 1000 && c.pc[0].kind != "done"; k++ {
			T.step(c, 0)
		}
		st = c.st
	}
	return st
}

// genConcExhaustive: for each small tree, every ordered pair of distinct critical leaves, the listed value pairs,
// the tree as loaded or with every critical leaf RUNNING: EVERY schedule of the two threads (all interleavings of
// their hold points, including every way of sending one into a lock the other holds).
func genConcExhaustive(trees []string, values [][2]string, perConfig int) []fw.Case {
	var cs []fw.Case
	for _, ts := range trees {
		tree := sx.MustParse(ts)
		all, crit := leafIndices(tree)
		paths := leafPaths(tree)
		nRoles := 0
		for _, l := range all {
			if l >= nRoles {
				nRoles = l + 1
			}
		}
		for _, warm := range []bool{false, true} {
			pre := sx.L()
			var preUps [][2]int
			if warm {
				for _, l := range crit {
					pre.Add(sx.L(sx.A("S"), pathNode(paths[l]), sx.A("RUNNING")))
					preUps = append(preUps, [2]int{l, int(sm.RUNNING)})
				}
			}
			init := simAfter(tree, nRoles, preUps)
			for _, a := range crit {
				for _, b := range crit {
					if a == b {
						continue
					}
					for _, v := range values {
						thr := [][2]int{{a, int(stateOf(v[0]))}, {b, int(stateOf(v[1]))}}
						for _, sc := range allSchedules(tree, init, thr, perConfig) {
							cs = append(cs, fw.Case{
								Input: concInput(tree, pre, [][2]string{{strconv.Itoa(a), v[0]}, {strconv.Itoa(b), v[1]}}, sc),
								Tags:  []string{"conc", "conc-exhaustive-2-threads"},
							})
						}
					}
				}
			}
		}
	}
	return cs
}

func genConcRandom(r *rng.R) fw.Case {
	var paths []leafPath
	budget := r.Range(2, 12)
	critP := rng.Pick(r, []int{10, 10, 9, 7})
	tree := genTreeH(r, 0, r.Range(2, 4), critP, rng.Pick(r, []int{0, 0, 3}), &paths, nil, &budget)
	all, crit := leafIndices(tree)
	lp := leafPaths(tree)
	pre := sx.L()
	common := []string{"STANDBY", "CONFIGURED", "RUNNING", "ERROR", "DONE", "CONFIGURED", "RUNNING"}
	for i, n := 0, r.Range(0, 6); i < n; i++ {
		pre.Add(sx.L(sx.A("S"), pathNode(lp[rng.Pick(r, all)]), sx.A(rng.Pick(r, common))))
	}
	nT := r.Range(2, 4)
	var thr [][2]string
	pool := crit
	if len(pool) == 0 || r.P(1, 6) {
		pool = all
	}
	for i := 0; i < nT; i++ {
		s := rng.Pick(r, common)
		if r.P(1, 3) {
			s = "ERROR"
		}
		if r.P(1, 15) {
			s = rng.Pick(r, stateNames)
		}
		thr = append(thr, [2]string{strconv.Itoa(rng.Pick(r, pool)), s})
	}
	var sched []int
	for n := r.Range(0, 30); len(sched) < n; {
		t := r.N(nT)
		for k := r.Range(1, 4); k > 0; k-- { // bursts: a thread usually makes a few steps in a row
			sched = append(sched, t)
		}
	}
	tags := []string{"conc", "conc-random", fmt.Sprintf("conc-threads=%d", nT)}
	if ht := hookTags(tree); ht[0] == "hooks" {
		tags = append(tags, "conc-hooks")
	}
	return fw.Case{Input: concInput(tree, pre, thr, sched), Tags: tags}
}

var concValuesQuick = [][2]string{{"CONFIGURED", "ERROR"}, {"CONFIGURED", "RUNNING"}}
var concValuesMore = [][2]string{{"ERROR", "ERROR"}, {"CONFIGURED", "CONFIGURED"}, {"MIXED", "ERROR"}, {"DONE", "MIXED"}, {"ERROR", "INVARIANT"}}

func generateConc(tier string, r *rng.R) []fw.Case {
	trees, nRandom, values := smallTrees[:4], 1500, concValuesQuick
	if tier == "thorough" {
		trees, nRandom, values = smallTrees, 20000, append(append([][2]string{}, concValuesQuick...), concValuesMore...)
	}
	cs := genConcExhaustive(trees, values, 100000)
	// no fixed order: the framework keeps the first few disagreements only
	rng.Shuffle(r.Fork(), cs)
	for i := 0; i < nRandom; i++ {
		cs = append(cs, genConcRandom(r.Fork()))
	}
	return cs
}

// searchCases is the wider stream the framework runs after the correspondence broke without a Spec violation among
// the first disagreements: the concurrent cases first (all small trees, all value pairs), then sequential ones.
func searchCases(r *rng.R) []fw.Case {
	cs := genConcExhaustive(smallTrees, append(append([][2]string{}, concValuesQuick...), concValuesMore[:2]...), 100000)
	rng.Shuffle(r.Fork(), cs)
	if len(cs) > 12000 {
		cs = cs[:12000]
	}
	for i := 0; i < 4000; i++ {
		cs = append(cs, genConcRandom(r.Fork()))
	}
	for i := 0; i < 4000; i++ {
		cs = append(cs, genCase(r.Fork(), 40))
	}
	return cs
}

func isConc(input string) bool { return strings.HasPrefix(input, "(conc ") }

func nontrivialConc(in *sx.Node) bool {
	return in.Len() == 5 && in.At(3).Len() >= 2 && in.At(4).Len() >= 2
}

// shrink: drop one schedule entry, one preparatory update, or the last thread.
func shrinkConc(in *sx.Node) []string {
	var out []string
	mk := func(pre, thr, sc *sx.Node) { out = append(out, sx.L(sx.A("conc"), in.At(1), pre, thr, sc).String()) }
	drop := func(l *sx.Node, i int) *sx.Node {
		n := sx.L()
		n.List = append(append([]*sx.Node{}, l.List[:i]...), l.List[i+1:]...)
		return n
	}
	for i := range in.At(4).List {
		mk(in.At(2), in.At(3), drop(in.At(4), i))
	}
	for i := range in.At(2).List {
		mk(drop(in.At(2), i), in.At(3), in.At(4))
	}
	if n := in.At(3).Len(); n > 1 {
		mk(in.At(2), drop(in.At(3), n-1), in.At(4))
	}
	return out
}
