package c11

// Repeated reports and non-uniform presets.
//
// Class of behaviour: (1) update sequences that send a leaf the value it ALREADY holds — state and status, also as the
// very first update (the task manager's first report for a fresh task is INACTIVE, which is the value the role is born
// with); (2) trees in which a leaf and its ancestors are born with DIFFERENT values, so that no ancestor is the fold of
// its subtree before the first update reaches it: `(N kids…)` = aggregator made by workflow.NewAggregatorRole (zero
// values UNKNOWN/UNDEFINED) over loaded subtrees (born STANDBY/INACTIVE, the presets taskRole.copy() also gives every
// iterator-generated task). An idempotent update must still be handed upward: the parent may never have folded it.

import (
	"fmt"
	"strings"

	"verifharness/fw"
	"verifharness/rng"
	"verifharness/sx"
)

// toPreset turns the root and, with probability p/10 each, aggregators whose ancestors are all N into N.
func toPreset(r *rng.R, n *sx.Node, p int, root bool) {
	if n.At(0).Str() != "A" {
		return
	}
	if !root && !r.P(p, 10) {
		return
	}
	n.List[0] = sx.A("N")
	for i := 1; i < n.Len(); i++ {
		toPreset(r, n.At(i), p, false)
	}
}

func genRepeatCase(r *rng.R, maxUpd int, preset bool) fw.Case {
	var paths []leafPath
	budget := r.Range(1, 10)
	critP := rng.Pick(r, []int{10, 9, 7})
	hookP := rng.Pick(r, []int{0, 0, 3})
	tree := genTreeH(r, 0, r.Range(1, 3), critP, hookP, &paths, nil, &budget)
	tags := []string{"repeat-update"}
	if preset {
		toPreset(r, tree, rng.Pick(r, []int{3, 7, 10}), true)
		tags = append(tags, "preset-tree")
	} else {
		tags = append(tags, "loaded-tree")
	}
	curS, curU := map[string]string{}, map[string]string{}
	ups := sx.L()
	n := r.Range(1, maxUpd)
	first := false
	for i := 0; i < n && len(paths) > 0; i++ {
		p := rng.Pick(r, paths)
		k := pathNode(p).String()
		if _, ok := curS[k]; !ok {
			curS[k], curU[k] = "STANDBY", "INACTIVE"
		}
		_, seen := curS[k+"!"]
		if r.P(2, 5) { // state
			v := curS[k]
			if !r.P(2, 5) {
				v = rng.Pick(r, []string{"STANDBY", "CONFIGURED", "RUNNING", "ERROR", "DONE", "CONFIGURED", "RUNNING"})
			}
			if v == curS[k] && !seen {
				first = true
			}
			curS[k] = v
			ups.Add(sx.L(sx.A("S"), pathNode(p), sx.A(v)))
		} else {
			v := curU[k]
			if !r.P(2, 5) {
				v = rng.Pick(r, []string{"INACTIVE", "ACTIVE", "ACTIVE", "UNDEPLOYABLE", "UNDEFINED", "PARTIAL"})
			}
			if v == curU[k] && !seen {
				first = true
			}
			curU[k] = v
			ups.Add(sx.L(sx.A("U"), pathNode(p), sx.A(v)))
		}
		curS[k+"!"] = ""
	}
	if first {
		tags = append(tags, "first-report-equals-preset")
	}
	tags = append(tags, hookTags(tree)...)
	return fw.Case{Input: sx.L(tree, ups).String(), Tags: tags}
}

// fixed: shapes x report scripts. @L = a leaf.
func presetFixed(tier string) []fw.Case {
	type shape struct {
		tmpl  string
		paths []string
	}
	shapes := []shape{
		{"(N @L @L)", []string{"(0)", "(1)"}},
		{"(N (N @L @L))", []string{"(0 0)", "(0 1)"}},
		{"(N (N @L) (A @L @L))", []string{"(0 0)", "(1 0)", "(1 1)"}},
		{"(N (A @L @L) @L)", []string{"(0 0)", "(0 1)", "(1)"}},
		{"(N (N (N @L @L) @L))", []string{"(0 0 0)", "(0 0 1)", "(0 1)"}},
		{"(A (A @L @L) @L)", []string{"(0 0)", "(0 1)", "(1)"}},
	}
	leaves := []string{"(T 1)", "(C 1)", "(T 1 before_CONFIGURE)", "(T 0)"}
	if tier != "thorough" {
		leaves = leaves[:3]
	}
	// scripts: per leaf in turn (a) or only the first leaf (b)
	scripts := [][]string{
		{"U INACTIVE"},
		{"U INACTIVE", "U INACTIVE", "U ACTIVE", "U ACTIVE"},
		{"S STANDBY"},
		{"S STANDBY", "S CONFIGURED", "S CONFIGURED"},
		{"U INACTIVE", "S STANDBY", "U ACTIVE", "S CONFIGURED", "U ACTIVE", "S CONFIGURED"},
		{"U ACTIVE", "U INACTIVE", "U INACTIVE"},
	}
	var cs []fw.Case
	for _, sh := range shapes {
		for _, l := range leaves {
			tree := strings.ReplaceAll(sh.tmpl, "@L", l)
			for _, sc := range scripts {
				for _, all := range []bool{true, false} {
					var ups []string
					for pi, p := range sh.paths {
						if !all && pi > 0 {
							break
						}
						for _, step := range sc {
							f := strings.Fields(step)
							ups = append(ups, fmt.Sprintf("(%s %s %s)", f[0], p, f[1]))
						}
					}
					in := sx.MustParse(fmt.Sprintf("(%s (%s))", tree, strings.Join(ups, " ")))
					tags := []string{"repeat-update", "repeat-fixed"}
					if strings.HasPrefix(sh.tmpl, "(N") {
						tags = append(tags, "preset-tree")
					} else {
						tags = append(tags, "loaded-tree")
					}
					if sc[0] == "U INACTIVE" || sc[0] == "S STANDBY" {
						tags = append(tags, "first-report-equals-preset")
					}
					cs = append(cs, fw.Case{Input: in.String(), Tags: append(tags, hookTags(in.At(0))...)})
				}
			}
		}
	}
	return cs
}

func presetCases(tier string, r *rng.R) []fw.Case {
	n, maxUpd := 500, 12
	if tier == "thorough" {
		n, maxUpd = 8000, 25
	}
	cs := presetFixed(tier)
	rng.Shuffle(r.Fork(), cs)
	for i := 0; i < n; i++ {
		cs = append(cs, genRepeatCase(r.Fork(), maxUpd, i%3 != 0))
	}
	return cs
}
