// A Go copy of RoleTree.Conc.step / macroStep, used ONLY by the generator to enumerate, for a small tree and two
// threads, every schedule in which each entry moves its thread (P) or sends it into a held lock (B) — i.e. all
// interleavings at the granularity the harness controls, without the skipped entries a blind enumeration of
// {0,1}^n is full of. It never contributes to a verdict: what the model says comes from the Lean driver; if this
// copy were wrong the enumeration would merely contain skipped entries or miss schedules (visible in the tags).
package c11

import (
	"github.com/AliceO2Group/Control/core/task/sm"

	"verifharness/sx"
)

type simPC struct {
	kind string // start read enter fold done
	n    int
	v    sm.State
	todo []int
	acc  sm.State
}

type simTopo struct {
	parent []int
	agg    []bool
	crit   []bool
	kids   [][]int
	leaf   []int
	val    []sm.State
}

type simCfg struct {
	st      []sm.State
	pc      []simPC
	waiters [][2]int
}

func (c *simCfg) clone() *simCfg {
	n := &simCfg{st: append([]sm.State{}, c.st...), pc: make([]simPC, len(c.pc)), waiters: append([][2]int{}, c.waiters...)}
	for i, p := range c.pc {
		p.todo = append([]int{}, p.todo...)
		n.pc[i] = p
	}
	return n
}

func simTopoOf(tree *sx.Node, thr [][2]int) *simTopo {
	T := &simTopo{}
	var walk func(t *sx.Node, par int)
	walk = func(t *sx.Node, par int) {
		idx := len(T.parent)
		T.parent = append(T.parent, par)
		isAgg := t.At(0).Str() == "A"
		T.agg = append(T.agg, isAgg)
		T.crit = append(T.crit, !isAgg && t.At(1).Bool())
		T.kids = append(T.kids, nil)
		if par >= 0 && (isAgg || T.crit[idx]) {
			T.kids[par] = append(T.kids[par], idx)
		}
		if isAgg {
			for i := 1; i < t.Len(); i++ {
				walk(t.At(i), idx)
			}
		}
	}
	walk(tree, -1)
	for _, t := range thr {
		T.leaf = append(T.leaf, t[0])
		T.val = append(T.val, sm.State(t[1]))
	}
	return T
}

func (T *simTopo) locked(c *simCfg, n int) bool {
	for _, p := range c.pc {
		if p.kind == "fold" && p.n == n {
			return true
		}
	}
	return false
}

func (T *simTopo) after(p int) simPC {
	if T.parent[p] >= 0 {
		return simPC{kind: "read", n: p}
	}
	return simPC{kind: "done"}
}

func (T *simTopo) step(c *simCfg, i int) {
	pc := c.pc[i]
	switch pc.kind {
	case "start":
		l := T.leaf[i]
		if T.agg[l] {
			c.pc[i] = simPC{kind: "done"}
			return
		}
		c.st[l] = T.val[i]
		if T.crit[l] && T.parent[l] >= 0 {
			c.pc[i] = simPC{kind: "enter", n: l, v: T.val[i]}
		} else {
			c.pc[i] = simPC{kind: "done"}
		}
	case "read":
		if !T.locked(c, pc.n) {
			c.pc[i] = simPC{kind: "enter", n: pc.n, v: c.st[pc.n]}
		}
	case "enter":
		p := T.parent[pc.n]
		if p < 0 {
			c.pc[i] = simPC{kind: "done"}
			return
		}
		switch {
		case T.locked(c, p):
		case c.st[p] == pc.v:
			c.pc[i] = T.after(p)
		case pc.v == sm.MIXED && c.st[p] != sm.ERROR:
			c.st[p] = sm.MIXED
			c.pc[i] = T.after(p)
		case pc.v == sm.ERROR:
			c.st[p] = sm.ERROR
			c.pc[i] = T.after(p)
		default:
			c.pc[i] = simPC{kind: "fold", n: p, todo: append([]int{}, T.kids[p]...), acc: sm.INVARIANT}
		}
	case "fold":
		if len(pc.todo) == 0 {
			c.st[pc.n] = pc.acc
			c.pc[i] = T.after(pc.n)
			return
		}
		k := pc.todo[0]
		if !T.locked(c, k) {
			c.pc[i] = simPC{kind: "fold", n: pc.n, todo: pc.todo[1:], acc: pc.acc.X(c.st[k])}
		}
	}
}

func (T *simTopo) transient(p simPC) bool {
	return (p.kind == "enter" && T.agg[p.n]) || (p.kind == "fold" && len(p.todo) == 0)
}

func (T *simTopo) runToPark(c *simCfg, i int) {
	for fuel := 0; fuel < 4; fuel++ {
		T.step(c, i)
		if !T.transient(c.pc[i]) {
			return
		}
	}
}

// macro returns false when the entry would be skipped.
func (T *simTopo) macro(c *simCfg, i int) bool {
	pc := c.pc[i]
	if pc.kind == "done" {
		return false
	}
	for _, w := range c.waiters {
		if w[0] == i {
			return false
		}
	}
	target := -1
	switch pc.kind {
	case "enter":
		if p := T.parent[pc.n]; p >= 0 && T.locked(c, p) {
			target = p
		}
	case "read":
		if T.locked(c, pc.n) {
			return false
		}
		if p := T.parent[pc.n]; p >= 0 && T.locked(c, p) {
			target = p
		}
	case "fold":
		if len(pc.todo) > 0 && T.locked(c, pc.todo[0]) {
			target = pc.todo[0]
		}
	}
	if target >= 0 {
		for _, w := range c.waiters {
			if w[1] == target {
				return false
			}
		}
		if pc.kind == "read" {
			T.step(c, i)
		}
		c.waiters = append(c.waiters, [2]int{i, target})
		return true
	}
	T.runToPark(c, i)
	for fuel := len(c.waiters) + 1; fuel > 0; fuel-- {
		found := -1
		for k, w := range c.waiters {
			if !T.locked(c, w[1]) {
				found = k
				break
			}
		}
		if found < 0 {
			break
		}
		w := c.waiters[found]
		c.waiters = append(append([][2]int{}, c.waiters[:found]...), c.waiters[found+1:]...)
		T.runToPark(c, w[0])
	}
	return true
}

// allSchedules enumerates every maximal schedule of effective entries (depth first, thread 0 first), up to `limit`.
func allSchedules(tree *sx.Node, init []sm.State, thr [][2]int, limit int) [][]int {
	T := simTopoOf(tree, thr)
	c0 := &simCfg{st: append([]sm.State{}, init...)}
	for range thr {
		c0.pc = append(c0.pc, simPC{kind: "start"})
	}
	var out [][]int
	var rec func(c *simCfg, pre []int)
	rec = func(c *simCfg, pre []int) {
		if len(out) >= limit || len(pre) > 64 {
			return
		}
		moved := false
		for i := range thr {
			n := c.clone()
			if T.macro(n, i) {
				moved = true
				rec(n, append(append([]int{}, pre...), i))
			}
		}
		if !moved {
			out = append(out, pre)
		}
	}
	rec(c0, nil)
	return out
}
