// Package c12: "each control command gets exactly one answer per target, never
// someone else's" — the real controlcommands.Servent + CommandQueue, driven by a
// scripted scenario through the exported API only.
//
// Input  : (cmds script) | (cmds script executors)
//
//	executors := ((t e)*)   optional: target t (its TaskId "t<t>") sits behind AgentId "a<e>" and
//	          ExecutorId "e<e>"; a target that is not listed has agent and executor of its own
//	          ("a<t>", "e<t>"). Any partition of the targets into executors can be written; several
//	          targets of ONE command behind one executor (differing only in the task id) is the
//	          production layout (one executor per agent). The identity of a target is still t.
//
//	cmds   := ((q tmo (t mode [arg])*)*)   command index = position; model id = 100+index
//	          q    queue index (queues share ONE Servent; the core has one queue)
//	          tmo  ResponseTimeout in ms, 0 = long (30 s, never expected to fire)
//	          mode ok | fail | (auto tag err) | (auto tag err fail)
//	               what the injected send function does:
//	               return nil / return an error / hand the target's reply to
//	               ProcessResponse from inside the send call, then return nil
//	               (tag+t odd: the send call also yields the processor once, so the
//	               reply is usually looked up BEFORE the send call returns) /
//	               "delivered and answered, but the send is reported as failed": hand the
//	               reply to ProcessResponse from inside the send call, wait until that
//	               ProcessResponse has looked the call up (goroutine dump: it is parked in
//	               its hand-over `call.Done <- …`, or it returned), then return an ERROR —
//	               the reply meets the caller in the window "no longer listening, entry
//	               still pending" deterministically, without any clock
//	          arg  optional, >= 1: the command's argument map binds this target to
//	               {"k": "v<arg>"} (no arg: no binding for the target)
//	script := (action*)               executed in order by ONE driver goroutine
//	          (E c+)          Enqueue; several commands = concurrently, from one goroutine each
//	          (W c t)         wait until the send function has been called for (c,t)
//	          (R c t tag err) ProcessResponse(reply carrying the id of command c, sender t)
//	          (F n t tag err) ProcessResponse(reply carrying the n-th foreign id, sender t)
//	          (D c)           wait until the callback of command c has been received
//	          (L c)           "late listener": a command that has an (L c) in the script gets its
//	                          callback listener only HERE (every other command is listened to
//	                          from the start, as a caller that does Enqueue; <-notify)
//	          (B c)           before (L c), c at the head of its queue: wait until the queue's
//	                          consumer goroutine is AT REST with respect to c and record where —
//	                          `held`: blocked in the send on c's callback channel inside
//	                          CommandQueue.Start's closure (goroutine dump: `[chan send]`);
//	                          `idle`: parked in its receive on the queue channel although
//	                          Enqueue(c) had returned, or `passed`: the send function was called
//	                          for a command enqueued behind c on the same queue — both mean that
//	                          the loop body of c is OVER while nobody has received from c's
//	                          (unbuffered) callback channel: the consumer did not wait for the
//	                          caller (with a non-blocking hand-over the answer is gone for good)
//
// Obs    : (events final)   the linearisation the harness observed (one mutex):
//
//	(S c t ok tmo arg)         send function ENTERED for (c,t) (it returns ok/error); the
//	                           command object it was handed — the one RunCommand registers
//	                           and arms its timer with — has GetResponseTimeout() = tmo
//	                           (ms; 0 = the long value given to the command) and
//	                           Arguments = {"k": "v<arg>"} (0 = the empty map); any other
//	                           deviation from "the command restricted to t" (name, id,
//	                           environment, target list, transition fields, nil arguments)
//	                           is appended as an atom, which the Lean side rejects
//	(R id t tag err)           ProcessResponse issued (id = 100+c, or 900+n), recorded BEFORE the call
//	(P id t tag err early)     that ProcessResponse returned, recorded AFTER the return; early =
//	                           less than the handed command's response timeout had passed since
//	                           (S c t ..) was recorded (monotonic clock): the caller's timer,
//	                           armed only after the send function returned, cannot have fired
//	                           before this reply was looked up. A clock reading is used only
//	                           as a witness of an ORDER, never as a deadline.
//	(D c result)               a value arrived on c's callback channel
//	(L c)                      the listener of late-listener command c is started (recorded BEFORE)
//	(B c held|idle|passed)     where the consumer goroutine of c's queue was found (see above). Also
//	                           recorded (idle/passed only) while WAITING for a callback, when one
//	                           stop-the-world goroutine dump shows the consumer past c and c's
//	                           listener parked in its receive with nothing received: a proof that
//	                           the answer will never come, not a deadline
//	(stuck c L S)              PROOF, read off two identical stop-the-world goroutine dumps, that
//	                           command c will never complete although it was enqueued and its
//	                           caller listens: every goroutine inside a method of the Servent is
//	                           parked — L >= 1 of them (per-target callers spawned by the commit
//	                           of c's queue among them) in sync.(*Mutex).Lock called from
//	                           RunCommand, S in ProcessResponse's blocking send on call.Done,
//	                           none in RunCommand's select, none running — so the servent mutex
//	                           is held by a goroutine that can never release it (see stuck.go).
//	                           The scenario ends there (every further command would hang too).
//	                           Never derived from a deadline: a bare ceiling stays `inconclusive`
//	final := ((c result)*)     every received result read AGAIN at the very end
//	result := nil | (single entry) | (multi id ((t entry)*) (errs t*))
//	entry  := (own id sender tag err) | (synth id send|timeout) | (other text)
//
// The Lean side replays the events on the model as a monitor (ACCEPT/REJECT)
// and evaluates Spec.C12 on them. Wall-clock never decides anything: every wait
// is on an observable condition with a ceiling (20 s) that yields `inconclusive`.
package c12

import (
	"encoding/json"
	"errors"
	"fmt"
	"os"
	"path/filepath"
	"runtime"
	"sort"
	"strconv"
	"strings"
	"sync"
	"time"

	"github.com/AliceO2Group/Control/common/utils/uid"
	"github.com/AliceO2Group/Control/core/controlcommands"
	mesos "github.com/mesos/mesos-go/api/v1/lib"
	"github.com/rs/xid"

	"verifharness/fw"
	"verifharness/sx"
)

const sendErrText = "c12 injected send failure"

// Waiting budget. On the unchanged tree no "long" ResponseTimeout ever fires and
// no ceiling is ever hit. When that happens repeatedly (a mutated tree that
// loses replies, or a hopelessly overloaded machine) more patience only burns
// hours: after a few occurrences the process switches to short values. Neither
// value is ever a verdict: a ceiling yields `inconclusive`, and the length of a
// ResponseTimeout is a parameter the property is quantified over.
var (
	tripMu sync.Mutex
	trips  int
)

func trip() {
	tripMu.Lock()
	trips++
	tripMu.Unlock()
}

func tripped() bool {
	tripMu.Lock()
	defer tripMu.Unlock()
	return trips >= 3
}

func ceiling() time.Duration {
	if tripped() {
		return 2 * time.Second
	}
	return 20 * time.Second
}

func longTimeout() time.Duration {
	if tripped() {
		return 400 * time.Millisecond
	}
	return 30 * time.Second
}

func target(n int) controlcommands.MesosCommandTarget {
	return controlcommands.MesosCommandTarget{
		AgentId:    mesos.AgentID{Value: "a" + strconv.Itoa(n)},
		ExecutorId: mesos.ExecutorID{Value: "e" + strconv.Itoa(n)},
		TaskId:     mesos.TaskID{Value: "t" + strconv.Itoa(n)},
	}
}

func targetNo(t controlcommands.MesosCommandTarget) int { return targetNoEx(t, nil) }

// targetEx: target n under an assignment of targets to executors (nil / unlisted: an executor of its own).
func targetEx(n int, ex map[int]int) controlcommands.MesosCommandTarget {
	e, ok := ex[n]
	if !ok {
		e = n
	}
	return controlcommands.MesosCommandTarget{
		AgentId:    mesos.AgentID{Value: "a" + strconv.Itoa(e)},
		ExecutorId: mesos.ExecutorID{Value: "e" + strconv.Itoa(e)},
		TaskId:     mesos.TaskID{Value: "t" + strconv.Itoa(n)},
	}
}

// targetNoEx: the number of a target the harness made (all three components must be the ones it gave it), else 999.
func targetNoEx(t controlcommands.MesosCommandTarget, ex map[int]int) int {
	v := t.TaskId.Value
	if len(v) < 2 || v[0] != 't' {
		return 999
	}
	n, err := strconv.Atoi(v[1:])
	if err != nil || t != targetEx(n, ex) {
		return 999
	}
	return n
}

// parseExecutors: the optional third field of the input.
func parseExecutors(in *sx.Node) (map[int]int, error) {
	if in.Len() < 3 {
		return nil, nil
	}
	ex := map[int]int{}
	for _, p := range in.At(2).List {
		if p.Len() != 2 || p.At(0).Int() < 0 || p.At(1).Int() < 0 {
			return nil, fmt.Errorf("bad executor assignment")
		}
		if _, dup := ex[p.At(0).Int()]; dup {
			return nil, fmt.Errorf("target assigned twice")
		}
		ex[p.At(0).Int()] = p.At(1).Int()
	}
	return ex, nil
}

type tspec struct {
	t    int
	mode string // ok | fail | auto | autofail (reply from inside the send call, then the send is reported as failed)
	tag  int
	err  bool
	arg  int // >= 1: argMap[target] = {"k": "v<arg>"}; 0: no binding
}

type cspec struct {
	q       int
	tmo     time.Duration
	long    bool // tmo is the "never expected to fire" value
	targets []tspec
}

type run struct {
	mu      sync.Mutex
	events  *sx.Node
	cmds    []cspec
	real    []*controlcommands.MesosCommand_Transition
	idOf    map[xid.ID]int // real command id -> model id (100+c / 900+n)
	foreign []xid.ID
	servent *controlcommands.Servent
	ex      map[int]int // target -> executor (nil / unlisted: its own)

	sendSeen map[[2]int]chan struct{}
	sendAt   map[[2]int]time.Time     // (c,t) -> when (S c t ..) was recorded
	sendDur  map[[2]int]time.Duration // (c,t) -> GetResponseTimeout() of the command handed to the send function
	closed   bool                     // the observation has been read: nothing is recorded any more
	doneCh   []chan struct{}
	results  [][]controlcommands.MesosCommandResponse // per command: everything received on its callback
	firstS   []time.Time
	lastKey  map[[2]int]chan struct{} // model (id,t) -> previous ProcessResponse on that key returned
	endCh    chan struct{}
	fail     error

	// the hand-over of the answer (see handover.go)
	qOf       []int         // command -> queue
	late      []bool        // the script has an (L c): the listener starts only there
	listening []bool        // listener started (guarded by mu)
	lisGid    []int64       // goroutine id of c's listener, 0 until it runs (guarded by mu)
	lost      []bool        // a (B c idle|passed) has been recorded: c's answer is gone (guarded by mu)
	consGid   map[int]int64 // queue -> id of the goroutine that called Start()
	qorder    map[int][]int // queue -> sequentially enqueued commands, in order (guarded by mu)
	notify    []chan controlcommands.MesosCommandResponse

	// the servent found wedged (see stuck.go)
	enq      []bool                  // Enqueue(c) has returned (guarded by mu)
	isWedged bool                    // a (stuck c ..) has been recorded (guarded by mu)
	prGid    map[chan struct{}]int64 // ProcessResponse call (by its `returned` channel) -> goroutine id (guarded by mu)
}

// errWedged: a command is PROVEN stuck for ever (stuck.go); the scenario ends with what was observed so far.
var errWedged = errors.New("c12: servent wedged")

func sxStuck(c, nLock, nSend int) *sx.Node {
	return sx.L(sx.A("stuck"), sx.I(c), sx.I(nLock), sx.I(nSend))
}

// isFail: the send function returns an error for this target.
func (ts *tspec) isFail() bool { return ts.mode == "fail" || ts.mode == "autofail" }

// passedBy: the send function has been entered for a command enqueued behind c on c's queue.
// Call with mu held.
func (r *run) passedBy(c int) bool {
	after := false
	for _, x := range r.qorder[r.qOf[c]] {
		if x == c {
			after = true
		} else if after && !r.firstS[x].IsZero() {
			return true
		}
	}
	return false
}

// headOf: every command enqueued (sequentially) before c on c's queue has been answered or is known lost.
// Call with mu held.
func (r *run) headOf(c int) bool {
	for _, x := range r.qorder[r.qOf[c]] {
		if x == c {
			return true
		}
		select {
		case <-r.doneCh[x]:
		default:
			if !r.lost[x] {
				return false
			}
		}
	}
	return false
}

// lossProof: "idle" / "passed" when ONE goroutine dump shows that the consumer of c's queue is
// past c (parked in its receive on the queue channel although Enqueue(c) had returned, or the
// send function had already been entered for a command behind c) while c's listener is parked
// in its receive and has received nothing. The hand-over statement of c has then been executed
// without its only possible receiver: no answer will ever arrive. "" = no proof (keep waiting).
func (r *run) lossProof(c int) string {
	r.mu.Lock()
	gid, passed, listening := r.lisGid[c], r.passedBy(c), r.listening[c]
	r.mu.Unlock()
	if !listening || gid == 0 {
		return ""
	}
	dump := allStacks()
	cons := consumerIn(dump, r.consGid[r.qOf[c]])
	if !parkedIn(dump, gid) {
		return ""
	}
	r.mu.Lock()
	n := len(r.results[c])
	r.mu.Unlock()
	if n != 0 {
		return ""
	}
	switch {
	case cons == "recv":
		return "idle"
	case passed:
		return "passed"
	}
	return ""
}

// awaitDone waits for c's callback. A missing answer becomes part of the observation only
// with a proof (lossProof); the ceiling alone yields `inconclusive`.
func (r *run) awaitDone(c int) error {
	r.mu.Lock()
	gone := r.lost[c]
	r.mu.Unlock()
	if gone {
		return nil
	}
	limit := ceiling() + r.cmds[c].tmo
	t0 := time.Now()
	tick := 100 * time.Millisecond
	for {
		select {
		case <-r.doneCh[c]:
			return nil
		case <-time.After(tick):
		}
		if why := r.lossProof(c); why != "" {
			r.mu.Lock()
			r.record(sx.L(sx.A("B"), sx.I(c), sx.A(why)))
			r.lost[c] = true
			r.mu.Unlock()
			return nil
		}
		if r.wedged() {
			return errWedged
		}
		if time.Since(t0) > limit {
			trip()
			return fmt.Errorf("inconclusive: command %d not completed within ceiling + its ResponseTimeout", c)
		}
		if tick < time.Second {
			tick *= 2
		}
	}
}

// probe: the (B c) action. No listener of c exists yet, so nobody can have received its answer.
func (r *run) probe(c int) error {
	t0 := time.Now()
	pause := 100 * time.Microsecond
	for {
		r.mu.Lock()
		passed := r.passedBy(c)
		r.mu.Unlock()
		st := ""
		switch cons := consumerIn(allStacks(), r.consGid[r.qOf[c]]); {
		case cons == "send":
			st = "held"
		case cons == "recv":
			st = "idle"
		case passed:
			st = "passed"
		}
		if st != "" {
			r.mu.Lock()
			r.record(sx.L(sx.A("B"), sx.I(c), sx.A(st)))
			if st != "held" {
				r.lost[c] = true
			}
			r.mu.Unlock()
			return nil
		}
		if time.Since(t0) > 100*time.Millisecond && pause >= 20*time.Millisecond && r.wedged() {
			return errWedged
		}
		if time.Since(t0) > ceiling()+r.cmds[c].tmo {
			trip()
			return fmt.Errorf("inconclusive: the consumer of command %d's queue did not come to rest within its ceiling", c)
		}
		time.Sleep(pause)
		if pause < 20*time.Millisecond {
			pause *= 2
		}
	}
}

// commitOver: c is a late-listener command nobody listens to yet, it is at the head of its
// queue and the consumer is blocked handing over: every per-target call of c has returned.
func (r *run) commitOver(c int) bool {
	if c < 0 || c >= len(r.cmds) || !r.late[c] {
		return false
	}
	r.mu.Lock()
	ok := !r.listening[c] && r.headOf(c)
	r.mu.Unlock()
	return ok && consumerIn(allStacks(), r.consGid[r.qOf[c]]) == "send"
}

func (r *run) record(n *sx.Node) {
	r.events.Add(n)
}

func (r *run) modelID(id xid.ID) int {
	if v, ok := r.idOf[id]; ok {
		return v
	}
	return 998
}

// respObj builds the reply a task would send for command id `id` (a real
// *MesosCommandResponse_Transition, as core/task/scheduler.go unmarshals it).
func respObj(name string, id xid.ID, env uid.ID, t, tag int, isErr bool) *controlcommands.MesosCommandResponse_Transition {
	es := ""
	if isErr {
		es = "task error " + strconv.Itoa(tag)
	}
	return &controlcommands.MesosCommandResponse_Transition{
		MesosCommandResponseBase: controlcommands.MesosCommandResponseBase{
			CommandName: name, CommandId: id, EnvironmentId: env, ErrorString: es, MessageType: "MesosCommandResponse",
		},
		CurrentState: "tag" + strconv.Itoa(tag),
		TaskId:       "t" + strconv.Itoa(t),
	}
}

// issue records the arrival and hands the reply to the real ProcessResponse in
// its own goroutine (as the scheduler does). Responses on one key are issued
// one after the other: the previous one must have returned, or its command
// must have completed (a response taken by a caller that then timed out blocks
// for ever in the real code — see notes/C12.md).
// Returns the channel closed when ProcessResponse returned.
func (r *run) issue(mid, c, t, tag int, isErr bool, id xid.ID) (chan struct{}, error) {
	key := [2]int{mid, t}
	r.mu.Lock()
	prev := r.lastKey[key]
	r.mu.Unlock()
	if prev != nil && !r.failKey(c, t) {
		if err := r.settle(prev, c); err != nil {
			return nil, err
		}
	}
	env := uid.NilID()
	if c >= 0 {
		env = r.real[c].EnvironmentId
	}
	res := respObj("MesosCommand_Transition", id, env, t, tag, isErr)
	returned := make(chan struct{})
	r.mu.Lock()
	r.lastKey[key] = returned
	r.record(sx.L(sx.A("R"), sx.I(mid), sx.I(t), sx.I(tag), sx.B(isErr)))
	r.mu.Unlock()
	go func() {
		gid := curGoid()
		r.mu.Lock()
		r.prGid[returned] = gid
		r.mu.Unlock()
		r.servent.ProcessResponse(res, targetEx(t, r.ex))
		now := time.Now()
		r.mu.Lock()
		if !r.closed {
			early := false
			if c >= 0 {
				if st, ok := r.sendAt[[2]int{c, t}]; ok {
					early = now.Sub(st) < r.sendDur[[2]int{c, t}]
				}
			}
			r.record(sx.L(sx.A("P"), sx.I(mid), sx.I(t), sx.I(tag), sx.B(isErr), sx.B(early)))
		}
		r.mu.Unlock()
		close(returned)
	}()
	return returned, nil
}

// failKey: replies to a target whose send fails are never waited for. The real
// RunCommand unregisters only AFTER SendFunc returned its error, so a reply that
// arrives in between is taken by ProcessResponse, which then blocks for ever on
// call.Done (the caller returns the send error without looking) — while the
// command may still be waiting for other targets. Either way the reply is inert.
func (r *run) failKey(c, t int) bool {
	if c < 0 || c >= len(r.cmds) {
		return false
	}
	for _, ts := range r.cmds[c].targets {
		if ts.t == t {
			return ts.isFail()
		}
	}
	return false
}

func (r *run) settle(returned chan struct{}, c int) error {
	var done chan struct{}
	if c >= 0 && c < len(r.doneCh) {
		done = r.doneCh[c]
	}
	t0 := time.Now()
	var nextWedge time.Duration
	for hold := c >= 0 && c < len(r.cmds) && r.late[c]; hold; {
		// a reply taken by a caller that then timed out blocks in ProcessResponse for ever; its
		// command normally completes (done) — unless nobody listens yet: then the end of its commit
		// shows as the consumer blocked in the hand-over
		select {
		case <-returned:
			return nil
		case <-done:
			return nil
		case <-time.After(10 * time.Millisecond):
		}
		if r.commitOver(c) {
			return nil
		}
		r.mu.Lock()
		hold = !r.listening[c]
		r.mu.Unlock()
		if d := time.Since(t0); d > 200*time.Millisecond && d > nextWedge {
			nextWedge = 2 * d
			if r.wedged() {
				return errWedged
			}
		}
		if time.Since(t0) > ceiling() {
			break
		}
	}
	tick := 100 * time.Millisecond
	t1 := time.Now()
	for waited := true; waited; {
		select {
		case <-returned:
			return nil
		case <-done:
			return nil
		case <-time.After(tick):
		}
		if r.wedged() {
			return errWedged
		}
		if tick < time.Second {
			tick *= 2
		}
		waited = time.Since(t1) <= ceiling()
	}
	select {
	case <-returned:
	case <-done:
	default:
		trip()
		if os.Getenv("C12_DEBUG") != "" {
			buf := make([]byte, 1<<22)
			n := runtime.Stack(buf, true)
			os.WriteFile(fmt.Sprintf("/verif/.work/C12/dbg/stack-%d.txt", time.Now().UnixNano()), buf[:n], 0o644)
		}
		return fmt.Errorf("inconclusive: ProcessResponse neither returned nor did its command complete within its ceiling")
	}
	return nil
}

func (r *run) send(command controlcommands.MesosCommand, receiver controlcommands.MesosCommandTarget) error {
	mid := r.modelID(command.GetId())
	c := mid - 100
	t := targetNoEx(receiver, r.ex)
	var spec *tspec
	if c >= 0 && c < len(r.cmds) {
		for i := range r.cmds[c].targets {
			if r.cmds[c].targets[i].t == t {
				spec = &r.cmds[c].targets[i]
			}
		}
	}
	if spec == nil {
		r.mu.Lock()
		r.record(sx.L(sx.A("S"), sx.I(c), sx.I(t), sx.A("unknown")))
		r.mu.Unlock()
		return nil
	}
	ok := !spec.isFail()
	// what the send function is handed: RunCommand's `cmd`, i.e. what commit made
	// of the command for this target (MakeSingleTarget)
	d := command.GetResponseTimeout()
	tmoMs := int(d / time.Millisecond)
	if r.cmds[c].long {
		if d == r.cmds[c].tmo {
			tmoMs = 0
		} else if tmoMs == 0 {
			tmoMs = 1
		}
	}
	arg, anomalies := r.singleView(c, command, receiver)
	ev := sx.L(sx.A("S"), sx.I(c), sx.I(t), sx.B(ok), sx.I(tmoMs), sx.I(arg))
	for _, a := range anomalies {
		ev.Add(sx.A(a))
	}
	r.mu.Lock()
	if r.firstS[c].IsZero() {
		r.firstS[c] = time.Now()
	}
	if _, seen := r.sendAt[[2]int{c, t}]; !seen {
		r.sendAt[[2]int{c, t}] = time.Now()
		r.sendDur[[2]int{c, t}] = d
	}
	r.record(ev)
	ch := r.sendSeen[[2]int{c, t}]
	r.mu.Unlock()
	if spec.mode == "auto" || spec.mode == "autofail" {
		// issued BEFORE the driver is told that the send happened: a scripted reply on
		// this key must queue up behind this one (it could otherwise be taken first and
		// block on call.Done while this goroutine — the caller — waits for it).
		ret, err := r.issue(mid, c, t, spec.tag, spec.err, command.GetId())
		if err != nil {
			r.mu.Lock()
			r.fail = err
			r.mu.Unlock()
		} else if spec.mode == "autofail" {
			// "delivered and answered, but the send is reported as failed": the send call returns
			// its error only when the reply's ProcessResponse has looked the call up — it is parked
			// in the hand-over on call.Done (this goroutine, the caller, is not receiving and never
			// will), or it has returned. The reply then meets a caller that has stopped listening
			// while its entry is still pending. A goroutine dump, no clock.
			if err := r.awaitLookup(ret); err != nil {
				r.mu.Lock()
				r.fail = err
				r.mu.Unlock()
			}
		}
		if (spec.tag+spec.t)%2 == 1 {
			// let the goroutine that carries the reply run first: the class "the reply is
			// processed before the send call returns" (a fast executor, a slow scheduler
			// call) is then met on purpose rather than by luck. No clock involved.
			runtime.Gosched()
		}
	}
	select {
	case <-ch:
	default:
		close(ch)
	}
	if !ok {
		return errors.New(sendErrText)
	}
	return nil
}

// awaitLookup: the ProcessResponse call identified by `returned` has returned, or is parked in
// its blocking send on call.Done.
func (r *run) awaitLookup(returned chan struct{}) error {
	t0 := time.Now()
	pause := 20 * time.Microsecond
	for {
		select {
		case <-returned:
			return nil
		default:
		}
		r.mu.Lock()
		gid := r.prGid[returned]
		r.mu.Unlock()
		if gid != 0 && parkedInHandover(allStacks(), gid) {
			return nil
		}
		if time.Since(t0) > ceiling() {
			trip()
			return fmt.Errorf("inconclusive: a reply issued from inside the send call was not looked up within its ceiling")
		}
		runtime.Gosched()
		time.Sleep(pause)
		if pause < 200*time.Millisecond {
			pause *= 2 // a lookup takes microseconds; one that has not happened after milliseconds waits for s.mu
		}
	}
}

// singleView reads off the command object handed to the send function everything
// MakeSingleTarget must preserve. The argument token and the response timeout go
// into the event as data; anything else that deviates is named.
func (r *run) singleView(c int, command controlcommands.MesosCommand, receiver controlcommands.MesosCommandTarget) (arg int, anomalies []string) {
	orig := r.real[c]
	tc, ok := command.(*controlcommands.MesosCommand_Transition)
	if !ok || tc == nil {
		return 0, []string{fmt.Sprintf("not-a-transition:%T", command)}
	}
	if command.IsMultiCmd() || len(tc.TargetList) != 1 || tc.TargetList[0] != receiver {
		anomalies = append(anomalies, "not-single-target")
	}
	if tc.GetName() != orig.GetName() {
		anomalies = append(anomalies, "other-name")
	}
	if tc.GetId() != orig.GetId() {
		anomalies = append(anomalies, "other-id")
	}
	if tc.GetEnvironmentId() != orig.GetEnvironmentId() {
		anomalies = append(anomalies, "other-environment")
	}
	if tc.Source != orig.Source || tc.Event != orig.Event || tc.Destination != orig.Destination {
		anomalies = append(anomalies, "other-transition")
	}
	switch {
	case tc.Arguments == nil:
		anomalies = append(anomalies, "nil-arguments")
	case len(tc.Arguments) == 0:
		arg = 0
	case len(tc.Arguments) == 1 && strings.HasPrefix(tc.Arguments["k"], "v"):
		n, err := strconv.Atoi(tc.Arguments["k"][1:])
		if err != nil || n < 1 {
			anomalies = append(anomalies, "other-arguments")
		}
		arg = n
	default:
		anomalies = append(anomalies, "other-arguments")
	}
	return arg, anomalies
}

// entry classifies one per-target response found in a result.
func (r *run) entry(v controlcommands.MesosCommandResponse) *sx.Node {
	switch x := v.(type) {
	case *controlcommands.MesosCommandResponse_Transition:
		if x == nil {
			return sx.L(sx.A("other"), sx.A("nil-transition"))
		}
		t, tag := 999, -1
		if strings.HasPrefix(x.TaskId, "t") {
			if n, err := strconv.Atoi(x.TaskId[1:]); err == nil {
				t = n
			}
		}
		if strings.HasPrefix(x.CurrentState, "tag") {
			if n, err := strconv.Atoi(x.CurrentState[3:]); err == nil {
				tag = n
			}
		}
		return sx.L(sx.A("own"), sx.I(r.modelID(x.GetCommandId())), sx.I(t), sx.I(tag), sx.B(x.Err() != nil))
	case *controlcommands.MesosCommandResponseBase:
		if x == nil {
			return sx.L(sx.A("other"), sx.A("nil-base"))
		}
		kind := ""
		es := ""
		if e := x.Err(); e != nil {
			es = e.Error()
		}
		switch {
		case es == sendErrText:
			kind = "send"
		case strings.Contains(es, "timed out for task"):
			kind = "timeout"
		default:
			return sx.L(sx.A("other"), sx.A("base:"+es))
		}
		if x.GetCommandName() != "MesosCommand_Transition" {
			return sx.L(sx.A("other"), sx.A("synth-name:"+x.GetCommandName()))
		}
		return sx.L(sx.A("synth"), sx.I(r.modelID(x.GetCommandId())), sx.A(kind))
	case nil:
		return sx.L(sx.A("other"), sx.A("nil-entry"))
	default:
		return sx.L(sx.A("other"), sx.A(fmt.Sprintf("%T", v)))
	}
}

func (r *run) result(v controlcommands.MesosCommandResponse) *sx.Node {
	if v == nil {
		return sx.A("nil")
	}
	if !v.IsMultiResponse() {
		return sx.L(sx.A("single"), r.entry(v))
	}
	m, ok := v.(*controlcommands.MesosCommandMultiResponse)
	if !ok || m == nil {
		return sx.L(sx.A("single"), sx.L(sx.A("other"), sx.A(fmt.Sprintf("multi:%T", v))))
	}
	type kv struct {
		t int
		e *sx.Node
	}
	var kvs []kv
	for k, e := range m.GetResponses() {
		kvs = append(kvs, kv{targetNoEx(k, r.ex), r.entry(e)})
	}
	sort.Slice(kvs, func(i, j int) bool { return kvs[i].t < kvs[j].t })
	ents := sx.L()
	for _, x := range kvs {
		ents.Add(sx.L(sx.I(x.t), x.e))
	}
	var errs []int
	for k := range m.Errors() {
		errs = append(errs, targetNoEx(k, r.ex))
	}
	sort.Ints(errs)
	en := sx.L(sx.A("errs"))
	for _, t := range errs {
		en.Add(sx.I(t))
	}
	return sx.L(sx.A("multi"), sx.I(r.modelID(m.GetCommandId())), ents, en)
}

func parseInput(in *sx.Node) ([]cspec, []*sx.Node, error) {
	if in.Len() != 2 && in.Len() != 3 {
		return nil, nil, fmt.Errorf("bad input")
	}
	if _, err := parseExecutors(in); err != nil {
		return nil, nil, err
	}
	var cmds []cspec
	for _, cn := range in.At(0).List {
		if cn.Len() < 2 {
			return nil, nil, fmt.Errorf("bad command")
		}
		cs := cspec{q: cn.At(0).Int(), tmo: time.Duration(cn.At(1).Int()) * time.Millisecond}
		if cs.tmo == 0 {
			cs.tmo, cs.long = longTimeout(), true
		}
		for _, tn := range cn.List[2:] {
			if tn.Len() != 2 && tn.Len() != 3 {
				return nil, nil, fmt.Errorf("bad target")
			}
			ts := tspec{t: tn.At(0).Int()}
			if tn.Len() == 3 {
				ts.arg = tn.At(2).Int()
				if ts.arg < 1 {
					return nil, nil, fmt.Errorf("bad arg")
				}
			}
			m := tn.At(1)
			if m.IsList {
				if m.Len() != 3 && m.Len() != 4 {
					return nil, nil, fmt.Errorf("bad mode")
				}
				ts.mode, ts.tag, ts.err = m.At(0).Str(), m.At(1).Int(), m.At(2).Bool()
				if ts.mode != "auto" || (m.Len() == 4 && m.At(3).Str() != "fail") {
					return nil, nil, fmt.Errorf("bad mode")
				}
				if m.Len() == 4 {
					ts.mode = "autofail"
				}
			} else {
				ts.mode = m.Str()
				if ts.mode != "ok" && ts.mode != "fail" {
					return nil, nil, fmt.Errorf("bad mode %q", ts.mode)
				}
			}
			cs.targets = append(cs.targets, ts)
		}
		cmds = append(cmds, cs)
	}
	return cmds, in.At(1).List, nil
}

func runImpl(input string) (obs string, err error) {
	if os.Getenv("C12_DEBUG") != "" {
		t0 := time.Now()
		defer func() {
			if d := time.Since(t0); d > time.Second {
				fmt.Fprintf(os.Stderr, "c12 slow case %.1fs tripped=%v err=%v input=%s\n", d.Seconds(), tripped(), err, input)
			}
		}()
	}
	in, err := sx.Parse(input)
	if err != nil {
		return "", err
	}
	cmds, script, err := parseInput(in)
	if err != nil {
		return "", err
	}
	r := &run{events: sx.L(), cmds: cmds, idOf: map[xid.ID]int{}, sendSeen: map[[2]int]chan struct{}{},
		sendAt: map[[2]int]time.Time{}, sendDur: map[[2]int]time.Duration{},
		lastKey: map[[2]int]chan struct{}{}, endCh: make(chan struct{}),
		qOf: make([]int, len(cmds)), late: make([]bool, len(cmds)), listening: make([]bool, len(cmds)),
		lisGid: make([]int64, len(cmds)), lost: make([]bool, len(cmds)), consGid: map[int]int64{}, qorder: map[int][]int{},
		enq: make([]bool, len(cmds)), prGid: map[chan struct{}]int64{}}
	r.ex, _ = parseExecutors(in)
	for _, a := range script {
		if a.At(0).Str() == "L" {
			if c := a.At(1).Int(); a.Len() == 2 && c >= 0 && c < len(cmds) && !r.late[c] {
				r.late[c] = true
			} else {
				return "", fmt.Errorf("bad L")
			}
		}
	}
	r.servent = controlcommands.NewServent(r.send)
	queues := map[int]*controlcommands.CommandQueue{}
	notify := make([]chan controlcommands.MesosCommandResponse, len(cmds))
	r.notify = notify
	env := uid.New()
	for c, cs := range cmds {
		var recv []controlcommands.MesosCommandTarget
		var args controlcommands.PropertyMapsMap // nil unless some target has arguments
		for _, ts := range cs.targets {
			recv = append(recv, targetEx(ts.t, r.ex))
			r.sendSeen[[2]int{c, ts.t}] = make(chan struct{})
			if ts.arg > 0 {
				if args == nil {
					args = controlcommands.PropertyMapsMap{}
				}
				args[targetEx(ts.t, r.ex)] = controlcommands.PropertyMap{"k": "v" + strconv.Itoa(ts.arg)}
			}
		}
		cmd := controlcommands.NewMesosCommand_Transition(env, recv, "STANDBY", "CONFIGURE", "CONFIGURED", args)
		cmd.ResponseTimeout = cs.tmo // the exported field, as core/task/manager.go sets it
		r.real = append(r.real, cmd)
		r.idOf[cmd.Id] = 100 + c
		r.doneCh = append(r.doneCh, make(chan struct{}))
		r.results = append(r.results, nil)
		r.firstS = append(r.firstS, time.Time{})
		notify[c] = make(chan controlcommands.MesosCommandResponse) // unbuffered, as the callers in core/task
		r.qOf[c] = cs.q
		if queues[cs.q] == nil {
			q := controlcommands.NewCommandQueue(r.servent)
			// started from a goroutine of its own whose id is known: the dump names the
			// creator of the consumer goroutine
			started := make(chan int64)
			go func() {
				id := curGoid()
				q.Start()
				started <- id
			}()
			r.consGid[cs.q] = <-started
			queues[cs.q] = q
		}
	}
	// foreign ids are allocated up front: idOf is read-only while the scenario runs
	for _, a := range script {
		if a.At(0).Str() == "F" {
			for n := a.At(1).Int(); n >= 0 && n < 64 && len(r.foreign) <= n; {
				id := xid.New()
				r.idOf[id] = 900 + len(r.foreign)
				r.foreign = append(r.foreign, id)
			}
		}
	}
	normal, wedgedExit := false, false
	defer func() {
		// Stop() takes the queue mutex, which the worker holds while a commit is in
		// progress and while it hands over a callback: never wait for it here. The
		// callback listeners are released only when every command was awaited;
		// after an aborted scenario they stay, so the worker can always hand over.
		for _, q := range queues {
			go q.Stop()
		}
		if normal || wedgedExit {
			// (after a wedge nothing will ever arrive any more: the listeners may go)
			close(r.endCh)
		}
		// a late-listener command whose listener was never started (aborted scenario): take its
		// answer, should the consumer be (or get) blocked handing it over
		r.mu.Lock()
		for c := range cmds {
			if r.late[c] && !r.listening[c] {
				go func(ch chan controlcommands.MesosCommandResponse) {
					select {
					case <-ch:
					case <-time.After(2 * longTimeout()):
					}
				}(notify[c])
			}
		}
		r.mu.Unlock()
	}()
	// one listener per callback channel: records every value that ever arrives. A caller that
	// does `Enqueue(cmd, notify); <-notify` is listening "from the start"; a late-listener
	// command gets its listener at its (L c).
	listen := func(c int) {
		r.mu.Lock()
		r.listening[c] = true
		r.mu.Unlock()
		go func(c int) {
			gid := curGoid()
			r.mu.Lock()
			r.lisGid[c] = gid
			r.mu.Unlock()
			first := true
			for {
				select {
				case v := <-notify[c]:
					now := time.Now()
					r.mu.Lock()
					r.results[c] = append(r.results[c], v)
					rn := r.result(v)
					r.record(sx.L(sx.A("D"), sx.I(c), rn))
					st := r.firstS[c]
					r.mu.Unlock()
					if first {
						first = false
						if !st.IsZero() && !cmds[c].long && !r.late[c] { // a late listener's own delay is not the servent's
							noteRatio(float64(now.Sub(st)) / float64(cmds[c].tmo))
						}
						if cmds[c].long && strings.Contains(rn.String(), "timeout") {
							trip() // a "never fires" timeout fired
						}
						close(r.doneCh[c])
					}
				case <-r.endCh:
					return
				}
			}
		}(c)
	}
	for c := range cmds {
		if !r.late[c] {
			listen(c)
		}
	}

	valid := func(c int) bool { return c >= 0 && c < len(cmds) }
	enqueued := make([]bool, len(cmds))
	exec := func() (string, error) {
		for _, a := range script {
			switch a.At(0).Str() {
			case "E":
				var cs []int
				for _, n := range a.List[1:] {
					if !valid(n.Int()) || enqueued[n.Int()] {
						return "", fmt.Errorf("bad E")
					}
					enqueued[n.Int()] = true
					cs = append(cs, n.Int())
				}
				if len(cs) == 1 {
					r.mu.Lock()
					r.qorder[cmds[cs[0]].q] = append(r.qorder[cmds[cs[0]].q], cs[0])
					r.mu.Unlock()
					if err := queues[cmds[cs[0]].q].Enqueue(r.real[cs[0]], notify[cs[0]]); err != nil {
						return "", err
					}
					r.mu.Lock()
					r.enq[cs[0]] = true
					r.mu.Unlock()
				} else {
					for _, c := range cs {
						if r.late[c] {
							return "", fmt.Errorf("bad E: late-listener command in a concurrent group")
						}
					}
					var wg sync.WaitGroup
					errs := make([]error, len(cs))
					for i, c := range cs {
						wg.Add(1)
						go func(i, c int) {
							defer wg.Done()
							errs[i] = queues[cmds[c].q].Enqueue(r.real[c], notify[c])
						}(i, c)
					}
					wg.Wait()
					for _, e := range errs {
						if e != nil {
							return "", e
						}
					}
					r.mu.Lock()
					for _, c := range cs {
						r.enq[c] = true
					}
					r.mu.Unlock()
				}
			case "W":
				ch := r.sendSeen[[2]int{a.At(1).Int(), a.At(2).Int()}]
				if ch == nil {
					return "", fmt.Errorf("bad W")
				}
				t0, tick := time.Now(), 100*time.Millisecond
				for seen := false; !seen; {
					select {
					case <-ch:
						seen = true
						continue
					case <-time.After(tick):
					}
					if r.wedged() {
						return "", errWedged
					}
					if tick < time.Second {
						tick *= 2
					}
					if time.Since(t0) > ceiling() {
						trip()
						return "", fmt.Errorf("inconclusive: send (%d,%d) not observed within its ceiling", a.At(1).Int(), a.At(2).Int())
					}
				}
			case "R":
				c := a.At(1).Int()
				if !valid(c) {
					return "", fmt.Errorf("bad R")
				}
				ret, err := r.issue(100+c, c, a.At(2).Int(), a.At(3).Int(), a.At(4).Bool(), r.real[c].Id)
				if err != nil {
					return "", err
				}
				if !r.failKey(c, a.At(2).Int()) {
					if err := r.settle(ret, c); err != nil {
						return "", err
					}
				}
			case "F":
				n := a.At(1).Int()
				if n < 0 || n >= len(r.foreign) {
					return "", fmt.Errorf("bad F")
				}
				ret, err := r.issue(900+n, -1, a.At(2).Int(), a.At(3).Int(), a.At(4).Bool(), r.foreign[n])
				if err != nil {
					return "", err
				}
				if err := r.settle(ret, -1); err != nil {
					return "", err
				}
			case "D":
				c := a.At(1).Int()
				if !valid(c) || !enqueued[c] {
					return "", fmt.Errorf("bad D")
				}
				r.mu.Lock()
				l := r.listening[c]
				r.mu.Unlock()
				if !l {
					return "", fmt.Errorf("bad D: nobody listens to command %d", c)
				}
				if err := r.awaitDone(c); err != nil {
					return "", err
				}
			case "L":
				c := a.At(1).Int()
				r.mu.Lock()
				l := r.listening[c]
				if !l {
					r.record(sx.L(sx.A("L"), sx.I(c)))
				}
				r.mu.Unlock()
				if l {
					return "", fmt.Errorf("bad L")
				}
				listen(c)
			case "B":
				c := a.At(1).Int()
				if a.Len() != 2 || !valid(c) || !enqueued[c] || !r.late[c] {
					return "", fmt.Errorf("bad B")
				}
				r.mu.Lock()
				ok := !r.listening[c] && r.headOf(c)
				r.mu.Unlock()
				if !ok {
					return "", fmt.Errorf("bad B: command %d is listened to already or not at the head of its queue", c)
				}
				if err := r.probe(c); err != nil {
					return "", err
				}
			default:
				return "", fmt.Errorf("bad action %q", a.At(0).Str())
			}
		}
		// everything enqueued must have completed before the final reading
		for c := range cmds {
			if !enqueued[c] {
				continue
			}
			if err := r.awaitDone(c); err != nil {
				return "", err
			}
		}
		return "", nil
	}
	_, err = exec()
	r.mu.Lock()
	if err == nil && r.fail == errWedged {
		err = errWedged
	}
	wedged := r.isWedged
	r.mu.Unlock()
	if err == errWedged && !wedged {
		return "", fmt.Errorf("inconclusive: wedge reported without its proof")
	}
	if err != nil && err != errWedged {
		return "", err
	}
	// A scenario that found the servent wedged ends here: the events up to the proof(s) and what
	// was received so far are the observation (nothing can complete any more; the goroutines of
	// this scenario stay parked for ever).
	normal, wedgedExit = err == nil, err == errWedged
	r.mu.Lock()
	defer r.mu.Unlock()
	if r.fail != nil && r.fail != errWedged {
		return "", r.fail
	}
	r.closed = true
	final := sx.L()
	for c := range cmds {
		for _, v := range r.results[c] {
			final.Add(sx.L(sx.I(c), r.result(v)))
		}
	}
	return sx.L(r.events, final).String(), nil
}

// ---- "within its response timeout": observed, reported as a number, never a verdict ----

var (
	ratioMu  sync.Mutex
	ratioMax float64
	ratioN   int
	workDir  string
)

func noteRatio(x float64) {
	ratioMu.Lock()
	ratioN++
	if x > ratioMax {
		ratioMax = x
	}
	ratioMu.Unlock()
}

func setup(work string) error {
	workDir = work
	ratioMu.Lock()
	ratioMax, ratioN = 0, 0
	ratioMu.Unlock()
	return nil
}

func teardown() {
	if workDir == "" {
		return
	}
	ratioMu.Lock()
	b, _ := json.Marshal(map[string]any{
		"what": "commands with a shortened ResponseTimeout: (first send .. callback) / ResponseTimeout; " +
			"the code promises <= 1 + scheduling delay; observed only, never a verdict",
		"commands": ratioN, "max_ratio": ratioMax,
	})
	ratioMu.Unlock()
	os.WriteFile(filepath.Join(workDir, "timing.json"), b, 0o644)
}

func init() {
	fw.Register(&fw.Property{
		ID:         "C12",
		Generate:   generate,
		RunImpl:    runImpl,
		Nontrivial: nontrivial,
		Rule: "scripted scenarios on the real Servent+CommandQueue(s): 1..4 commands x 0..8 targets from a shared pool of 10, " +
			"per-target behaviour in {reply, error reply, send failure, silence->timeout (ResponseTimeout 25..60 ms), reply from inside send " +
			"(half of them with a yield so that the reply is processed before the send call returns), delivered-and-answered-but-the-send-reports-" +
			"an-error (reply from inside send; the send call returns its error once a goroutine dump shows that reply's ProcessResponse parked in its " +
			"hand-over or returned: the reply meets a caller that has stopped listening while its entry is still pending — class reply-in-leave-window)}, " +
			"optional per-target arguments, " +
			"1 scenario in 6 with an assignment of the targets to executors (any partition: all tasks behind one agent+executor — the production " +
			"layout —, a few executors, or some targets left on their own: targets of one command, and of overlapping commands, that share agent id " +
			"and executor id and differ only in the task id), " +
			"plus duplicate / late / early / foreign-id / wrong-sender / other-command replies in scripted arrival orders, sequential or " +
			"concurrent Enqueue, one queue (as the core) or two queues on one Servent; 1 scenario in 7 has LATE LISTENERS: 1..4 fast commands " +
			"enqueued while nobody receives on their callback channel (also pipelined: all enqueued first), the consumer goroutine probed by " +
			"goroutine dump (must be blocked in the send on the callback channel; replies / foreign ids / further Enqueues meanwhile), " +
			"listeners started in any order (before the Enqueue, during the commit, while held, while queued behind a held command); " +
			"the observed linearisation is replayed on the Lean " +
			"model as a monitor (incl. the response timeout and arguments of the command object each send call is handed, and the returns " +
			"of ProcessResponse) and Spec.C12 is evaluated on it; a command that never completes enters the observation as (stuck c ..) only with a " +
			"goroutine-dump proof that the servent mutex is held by a goroutine that can never release it (else: ceiling => inconclusive); non-trivial = >=2 commands or >=2 targets, and >=1 reply that is not the " +
			"first own reply of a pending call (dup/late/early/foreign/wrong) or >=1 timeout/send failure; distinct by input text",
		Shrink:   shrinkCands,
		Search:   search,
		Workers:  8,
		Setup:    setup,
		Teardown: teardown,
		TrustedBase: []string{
			"harness/props/c12 (scenario driver, event recorder under one mutex, result classifier by response object fields / error text)",
			"Lean driver Driver/C12.lean (monitor replay: internal steps timeout/recv placed from the reported outcomes; the rendezvous of a callback placed no later than the next send of the same queue)",
			"harness/props/c12/handover.go (reading of runtime.Stack: consumer goroutine of a queue recognised by the id of the goroutine that called Start(); `[chan send]` / `[chan receive]` with the closure of CommandQueue.Start as innermost non-runtime frame)",
			"harness/props/c12/stuck.go (reading of runtime.Stack: the goroutines inside one scenario's Servent known by ancestry — created by (*CommandQueue).commit in a consumer goroutine of the scenario, or started by the harness for a ProcessResponse call; classes `sync.Mutex.Lock` under RunCommand/ProcessResponse, `chan send` in ProcessResponse, `select` in RunCommand, anything else = not at rest; two identical dumps)",
		},
		Assumptions: []string{
			"distinct command ids (xid.New) and per-command distinct targets (Tasks.GetMesosCommandTargets)",
			"the order in which the harness records events under its mutex is a linearisation of the calls it makes/receives; a reply is issued on a key only after the previous reply on that key returned or its command completed",
			"wall-clock: 'within its response timeout' is observed (timing.json: max (send..callback)/ResponseTimeout), not verified; what IS checked without a clock: every target is waited for with the command's own ResponseTimeout (the value carried by the command object handed to the send function, which RunCommand arms its timer with)",
			"Go channel semantics used as PROOF (never a deadline): a goroutine parked in a receive on a buffered channel means the channel is empty; after Enqueue(c) returned, a consumer parked in its receive on the queue channel has finished the loop body of c; an unbuffered callback channel whose only receiver is parked with nothing received has handed nothing over. A missing answer enters the observation only with such a proof (event `(B c idle|passed)`); a bare ceiling stays `inconclusive`",
			"the servent mutex s.mu is private to Servent and used only inside RunCommand and ProcessResponse; the only receiver on a Call's Done channel is the RunCommand that owns the Call, in its select, and RunCommand locks s.mu after that select only to unregister and return: so when one stop-the-world dump shows every goroutine inside a scenario's Servent parked — at least one in s.mu.Lock(), the rest in ProcessResponse's send on call.Done, none in RunCommand's select — the mutex is held by a goroutine that can never release it; with the consumer of command c's queue inside commit and one of its per-target goroutines among those parked in Lock, c never completes (event `(stuck c L S)`, after which the scenario ends). Used as PROOF, never as a deadline",
			"Go timers do not fire early on the monotonic clock: a ProcessResponse that returned less than the call's response timeout after the send function was entered was looked up before the caller's timeout branch could run (flag `early` of the P event)",
		},
	})
}
