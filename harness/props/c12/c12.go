// Package c12: correspondence harness for property C12 (stub — registers nothing yet).
package c12
