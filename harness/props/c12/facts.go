package c12

import (
	"bytes"
	"fmt"
	"go/ast"
	"go/parser"
	"go/printer"
	"go/token"
	"sort"
	"strconv"
	"strings"
	"time"

	"github.com/AliceO2Group/Control/common/utils/uid"
	"github.com/AliceO2Group/Control/core/controlcommands"

	"verifharness/fw"
)

// go/ast facts about core/controlcommands that the model's `step` relies on and
// that the black-box run cannot see (they only show as leaked goroutines or a
// growing map). Regenerated on every check into Gen/ServentFacts.lean and
// identified with the model's assumptions by `C12_*_is_code` theorems. Make
// never fails: a fact that cannot be established is emitted as false/empty.

func src(fset *token.FileSet, n ast.Node) string {
	var b bytes.Buffer
	printer.Fprint(&b, fset, n)
	return strings.Join(strings.Fields(b.String()), " ")
}

func funcDecl(f *ast.File, recv, name string) *ast.FuncDecl {
	for _, d := range f.Decls {
		fd, ok := d.(*ast.FuncDecl)
		if !ok || fd.Name.Name != name {
			continue
		}
		if recv == "" && fd.Recv == nil {
			return fd
		}
		if recv != "" && fd.Recv != nil && len(fd.Recv.List) == 1 {
			if st, ok := fd.Recv.List[0].Type.(*ast.StarExpr); ok {
				if id, ok := st.X.(*ast.Ident); ok && id.Name == recv {
					return fd
				}
			}
		}
	}
	return nil
}

// lockedOps lists, in source order, the statements of interest in a function
// together with whether they sit between s.mu.Lock() and s.mu.Unlock().
func lockedOps(fset *token.FileSet, fd *ast.FuncDecl) []string {
	var out []string
	if fd == nil {
		return out
	}
	locked := false
	ast.Inspect(fd.Body, func(n ast.Node) bool {
		switch x := n.(type) {
		case *ast.ExprStmt:
			s := src(fset, x.X)
			switch {
			case s == "s.mu.Lock()":
				locked = true
			case s == "s.mu.Unlock()":
				locked = false
			case strings.HasPrefix(s, "delete(s.pending,"):
				out = append(out, fmt.Sprintf("%s locked=%v", s, locked))
			}
		case *ast.AssignStmt:
			s := src(fset, x)
			if strings.Contains(s, "s.pending[") {
				out = append(out, fmt.Sprintf("%s locked=%v", s, locked))
			} else if strings.HasPrefix(s, "call.Response =") || strings.HasPrefix(s, "call.Error =") {
				out = append(out, s)
			}
		case *ast.SendStmt:
			out = append(out, src(fset, x))
		}
		return true
	})
	return out
}

// lockFlow lists, in source order, what a Servent method does with s.mu — Lock, Unlock,
// `defer s.mu.Unlock()` (from there on the mutex stays held to the end of the function) — and
// its BLOCKING operations — a send statement, a select, the call of the injected send
// function — each with whether s.mu is held there. spans = some blocking operation sits
// inside a critical section of s.mu.
func lockFlow(fset *token.FileSet, fd *ast.FuncDecl) (out []string, spans bool) {
	if fd == nil {
		return nil, true // nothing established: not the code the model is about
	}
	locked, deferred := false, false
	inComm := map[ast.Node]bool{}
	note := func(what string) {
		out = append(out, fmt.Sprintf("%s locked=%v", what, locked))
		if locked {
			spans = true
		}
	}
	ast.Inspect(fd.Body, func(n ast.Node) bool {
		switch x := n.(type) {
		case *ast.ExprStmt:
			switch src(fset, x.X) {
			case "s.mu.Lock()":
				out = append(out, "s.mu.Lock()")
				locked = true
			case "s.mu.Unlock()":
				out = append(out, "s.mu.Unlock()")
				if !deferred {
					locked = false
				}
			}
		case *ast.DeferStmt:
			if src(fset, x.Call) == "s.mu.Unlock()" {
				out = append(out, "defer s.mu.Unlock()")
				deferred = true
			}
			return false
		case *ast.GoStmt:
			return false
		case *ast.SelectStmt:
			for _, c := range x.Body.List {
				if cc, ok := c.(*ast.CommClause); ok && cc.Comm != nil {
					inComm[cc.Comm] = true
				}
			}
			note("select")
		case *ast.SendStmt:
			if !inComm[x] {
				note("send " + src(fset, x))
			}
		case *ast.CallExpr:
			if src(fset, x.Fun) == "s.SendFunc" {
				note("call s.SendFunc")
			}
		}
		return true
	})
	return out, spans
}

func callIdLiteral(fset *token.FileSet, fd *ast.FuncDecl) string {
	res := ""
	if fd == nil {
		return res
	}
	ast.Inspect(fd.Body, func(n ast.Node) bool {
		if cl, ok := n.(*ast.CompositeLit); ok {
			if id, ok := cl.Type.(*ast.Ident); ok && id.Name == "CallId" && res == "" {
				res = src(fset, cl)
			}
		}
		return true
	})
	return res
}

func leanList(xs []string) string {
	q := make([]string, len(xs))
	for i, x := range xs {
		q[i] = fmt.Sprintf("%q", x)
	}
	return "[" + strings.Join(q, ", ") + "]"
}

// flowOps lists, in source order, the statements of RunCommand that say WHICH
// object is used for what: the id that makes the key, the registration, the send
// call and the select clauses (all on the parameter `cmd`).
func flowOps(fset *token.FileSet, fd *ast.FuncDecl) []string {
	var out []string
	if fd == nil {
		return out
	}
	params := []string{}
	for _, f := range fd.Type.Params.List {
		for _, n := range f.Names {
			params = append(params, n.Name)
		}
	}
	out = append(out, "params "+strings.Join(params, ","))
	ast.Inspect(fd.Body, func(n ast.Node) bool {
		switch x := n.(type) {
		case *ast.AssignStmt:
			s := src(fset, x)
			if strings.Contains(s, "s.pending[") || strings.Contains(s, "s.SendFunc(") || strings.Contains(s, ".GetId()") {
				out = append(out, s)
			}
		case *ast.CommClause:
			if x.Comm != nil {
				out = append(out, "case "+src(fset, x.Comm))
			}
		}
		return true
	})
	return out
}

// commitCalls: how commit obtains the per-target command and what it hands to RunCommand.
func commitCalls(fset *token.FileSet, fd *ast.FuncDecl) []string {
	var out []string
	if fd == nil {
		return out
	}
	ast.Inspect(fd.Body, func(n ast.Node) bool {
		if x, ok := n.(*ast.AssignStmt); ok {
			s := src(fset, x)
			if strings.Contains(s, ".MakeSingleTarget(") || strings.Contains(s, ".RunCommand(") {
				out = append(out, s)
			}
		}
		return true
	})
	return out
}

// startLoopOps: the consumer goroutine of CommandQueue.Start, in source order: the loop, every
// select with its number of communication clauses and whether it has a default, every
// communication clause, every send that is a statement of its own ("stmt …": a plain
// BLOCKING send), the queue lock / unlock and the call of commit.
func startLoopOps(fset *token.FileSet, fd *ast.FuncDecl) []string {
	var out []string
	if fd == nil {
		return out
	}
	var lit *ast.FuncLit
	ast.Inspect(fd.Body, func(n ast.Node) bool {
		if g, ok := n.(*ast.GoStmt); ok && lit == nil {
			if fl, ok := g.Call.Fun.(*ast.FuncLit); ok {
				lit = fl
			}
		}
		return true
	})
	if lit == nil {
		return out
	}
	inComm := map[ast.Node]bool{}
	ast.Inspect(lit.Body, func(n ast.Node) bool {
		switch x := n.(type) {
		case *ast.ForStmt:
			if x.Cond == nil && x.Init == nil && x.Post == nil {
				out = append(out, "for")
			} else {
				out = append(out, "for "+src(fset, x.Cond))
			}
		case *ast.GoStmt:
			out = append(out, "go")
		case *ast.SelectStmt:
			cases, def := 0, false
			for _, c := range x.Body.List {
				if cc, ok := c.(*ast.CommClause); ok {
					if cc.Comm == nil {
						def = true
					} else {
						cases++
						inComm[cc.Comm] = true
					}
				}
			}
			out = append(out, fmt.Sprintf("select cases=%d default=%v", cases, def))
		case *ast.CommClause:
			if x.Comm != nil {
				out = append(out, "case "+src(fset, x.Comm))
			} else {
				out = append(out, "default")
			}
		case *ast.SendStmt:
			if !inComm[x] {
				out = append(out, "stmt "+src(fset, x))
			}
		case *ast.ExprStmt:
			if s := src(fset, x.X); s == "m.Lock()" || s == "m.Unlock()" {
				out = append(out, s)
			}
		case *ast.DeferStmt:
			out = append(out, "defer "+src(fset, x.Call))
		case *ast.AssignStmt:
			if s := src(fset, x); strings.Contains(s, ".commit(") {
				out = append(out, s)
			}
		}
		return true
	})
	return out
}

// singleTargetTable evaluates the LINKED MakeSingleTarget (through the wrappers
// the core enqueues: Transition, TriggerHook, and the base itself) on a few
// commands and tabulates what the per-target command carries. Row:
// (kind, id, targets, tmo ms, args, receiver, out) with out = none (nil) or
// some (id — 0 if it is not the command's —, targets, tmo ms, argument token of
// the receiver — 0 the empty map, 999 nil/other —, everything else preserved).
func singleTargetTable() string {
	type row struct {
		kind    string
		targets []int
		tmo     time.Duration // 0: leave the constructor's default
		args    map[int]int
		nilArgs bool
		recv    []int
	}
	rows := []row{
		{"transition", []int{1}, 0, nil, true, []int{1, 2}},
		{"transition", []int{1, 2, 3}, 30 * time.Millisecond, map[int]int{2: 7}, false, []int{1, 2, 3, 4}},
		{"transition", []int{4, 2}, 120 * time.Second, map[int]int{4: 1, 2: 2}, false, []int{2, 4}},
		{"transition", []int{5, 6}, 1500 * time.Millisecond, map[int]int{}, false, []int{6}},
		{"transition", []int{}, 10 * time.Second, nil, true, []int{1}},
		{"triggerhook", []int{3, 1}, 45 * time.Second, nil, false, []int{1, 3, 2}},
		{"base", []int{7, 8}, 200 * time.Millisecond, map[int]int{8: 12}, false, []int{7, 8, 9}},
	}
	var b strings.Builder
	b.WriteString("def singleTargetTable : List (String × Nat × List Nat × Nat × List (Nat × Nat) × Nat × Option (Nat × List Nat × Nat × Nat × Bool)) := [\n")
	first := true
	for ri, rw := range rows {
		env := uid.New()
		var recv []controlcommands.MesosCommandTarget
		for _, t := range rw.targets {
			recv = append(recv, target(t))
		}
		var am controlcommands.PropertyMapsMap
		if !rw.nilArgs {
			am = controlcommands.PropertyMapsMap{}
			for t, a := range rw.args {
				am[target(t)] = controlcommands.PropertyMap{"k": "v" + strconv.Itoa(a)}
			}
		}
		var cmd controlcommands.MesosCommand
		var base *controlcommands.MesosCommandBase
		switch rw.kind {
		case "transition":
			c := controlcommands.NewMesosCommand_Transition(env, recv, "SRC", "EV", "DST", am)
			cmd, base = c, &c.MesosCommandBase
		case "triggerhook":
			c := controlcommands.NewMesosCommand_TriggerHook(env, recv)
			cmd, base = c, &c.MesosCommandBase
		default:
			c := controlcommands.NewMesosCommand("MesosCommand_X", env, recv, am)
			cmd, base = c, c
		}
		if rw.tmo != 0 {
			base.ResponseTimeout = rw.tmo // the exported field, as core/task/manager.go sets it
		}
		id := 100 + ri
		var ks []int
		for t := range rw.args {
			ks = append(ks, t)
		}
		sort.Ints(ks)
		var al []string
		for _, t := range ks {
			al = append(al, fmt.Sprintf("(%d, %d)", t, rw.args[t]))
		}
		var tl []string
		for _, t := range rw.targets {
			tl = append(tl, strconv.Itoa(t))
		}
		for _, rc := range rw.recv {
			out := "none"
			func() {
				defer func() {
					if recover() != nil {
						out = "some (0, [], 0, 999, false)"
					}
				}()
				sc := cmd.MakeSingleTarget(target(rc))
				if sc == nil {
					return
				}
				var sb *controlcommands.MesosCommandBase
				rest := true
				switch x := sc.(type) {
				case *controlcommands.MesosCommand_Transition:
					if x == nil {
						return
					}
					sb = &x.MesosCommandBase
					o, ok := cmd.(*controlcommands.MesosCommand_Transition)
					rest = ok && x.Source == o.Source && x.Event == o.Event && x.Destination == o.Destination
				case *controlcommands.MesosCommand_TriggerHook:
					if x == nil {
						return
					}
					sb = &x.MesosCommandBase
					_, rest = cmd.(*controlcommands.MesosCommand_TriggerHook)
				case *controlcommands.MesosCommandBase:
					if x == nil {
						return
					}
					sb = x
					_, rest = cmd.(*controlcommands.MesosCommandBase)
				default:
					out = "some (0, [], 0, 999, false)"
					return
				}
				rest = rest && sc.GetName() == cmd.GetName() && sc.GetEnvironmentId() == cmd.GetEnvironmentId() &&
					sc.IsMutator() == cmd.IsMutator()
				sid := 0
				if sc.GetId() == cmd.GetId() {
					sid = id
				}
				var stl []string
				for _, t := range sb.TargetList {
					stl = append(stl, strconv.Itoa(targetNo(t)))
				}
				arg := 999
				switch {
				case sb.Arguments == nil:
				case len(sb.Arguments) == 0:
					arg = 0
				case len(sb.Arguments) == 1 && strings.HasPrefix(sb.Arguments["k"], "v"):
					if n, err := strconv.Atoi(sb.Arguments["k"][1:]); err == nil {
						arg = n
					}
				}
				out = fmt.Sprintf("some (%d, [%s], %d, %d, %v)", sid, strings.Join(stl, ", "),
					sc.GetResponseTimeout().Milliseconds(), arg, rest)
			}()
			if !first {
				b.WriteString(",\n")
			}
			first = false
			fmt.Fprintf(&b, "  (%q, %d, [%s], %d, [%s], %d, %s)", rw.kind, id, strings.Join(tl, ", "),
				base.ResponseTimeout.Milliseconds(), strings.Join(al, ", "), rc, out)
		}
	}
	b.WriteString("]\n")
	return b.String()
}

func genFacts(repo string) (string, error) {
	fset := token.NewFileSet()
	var fields, runOps, prOps, selectCases, consol, flow, commitOps, startOps []string
	runLit, prLit := "", ""
	var runLock, prLock []string
	lockSpans := true
	if f, err := parser.ParseFile(fset, repo+"/core/controlcommands/mesoscommandservent.go", nil, 0); err == nil {
		ast.Inspect(f, func(n ast.Node) bool {
			if ts, ok := n.(*ast.TypeSpec); ok && ts.Name.Name == "CallId" {
				if st, ok := ts.Type.(*ast.StructType); ok {
					for _, fl := range st.Fields.List {
						for _, nm := range fl.Names {
							fields = append(fields, nm.Name+" "+src(fset, fl.Type))
						}
					}
				}
			}
			return true
		})
		run := funcDecl(f, "Servent", "RunCommand")
		runOps = lockedOps(fset, run)
		flow = flowOps(fset, run)
		runLit = callIdLiteral(fset, run)
		if run != nil {
			ast.Inspect(run.Body, func(n ast.Node) bool {
				if cc, ok := n.(*ast.CommClause); ok && cc.Comm != nil {
					selectCases = append(selectCases, src(fset, cc.Comm))
				}
				return true
			})
		}
		pr := funcDecl(f, "Servent", "ProcessResponse")
		prOps = lockedOps(fset, pr)
		prLit = callIdLiteral(fset, pr)
		var a, b bool
		runLock, a = lockFlow(fset, run)
		prLock, b = lockFlow(fset, pr)
		lockSpans = a || b
	}
	if f, err := parser.ParseFile(fset, repo+"/core/controlcommands/commandqueue.go", nil, 0); err == nil {
		commitOps = commitCalls(fset, funcDecl(f, "CommandQueue", "commit"))
		startOps = startLoopOps(fset, funcDecl(f, "CommandQueue", "Start"))
	}
	if f, err := parser.ParseFile(fset, repo+"/core/controlcommands/multiresponse.go", nil, 0); err == nil {
		if fd := funcDecl(f, "", "consolidateResponses"); fd != nil {
			for _, st := range fd.Body.List {
				switch x := st.(type) {
				case *ast.IfStmt:
					consol = append(consol, "if "+src(fset, x.Cond))
				case *ast.ReturnStmt:
					s := src(fset, x)
					if i := strings.Index(s, "{"); i > 0 {
						s = s[:i]
					}
					consol = append(consol, s)
				}
			}
		}
	}
	var b strings.Builder
	b.WriteString("namespace Gen.C12\n\n")
	b.WriteString("/-- fields of `type CallId struct` (mesoscommandservent.go) -/\n")
	fmt.Fprintf(&b, "def callIdFields : List String := %s\n\n", leanList(fields))
	b.WriteString("/-- the CallId literal built in RunCommand / ProcessResponse -/\n")
	fmt.Fprintf(&b, "def runCommandKey : String := %q\n", runLit)
	fmt.Fprintf(&b, "def processResponseKey : String := %q\n\n", prLit)
	b.WriteString("/-- accesses of s.pending and channel sends, in source order, with whether s.mu is held -/\n")
	fmt.Fprintf(&b, "def runCommandOps : List String := %s\n", leanList(runOps))
	fmt.Fprintf(&b, "def processResponseOps : List String := %s\n\n", leanList(prOps))
	b.WriteString("/-- what RunCommand / ProcessResponse do with s.mu (Lock, Unlock, defer Unlock) and their blocking operations (send statement, select, the injected send function) with whether s.mu is held there, in source order -/\n")
	fmt.Fprintf(&b, "def runCommandLock : List String := %s\n", leanList(runLock))
	fmt.Fprintf(&b, "def processResponseLock : List String := %s\n", leanList(prLock))
	b.WriteString("/-- some blocking operation of a Servent method sits inside a critical section of s.mu -/\n")
	fmt.Fprintf(&b, "def lockSpansBlocking : Bool := %v\n\n", lockSpans)
	b.WriteString("/-- the communication clauses of RunCommand's select -/\n")
	fmt.Fprintf(&b, "def runCommandSelect : List String := %s\n\n", leanList(selectCases))
	b.WriteString("/-- top-level statements of consolidateResponses (multiresponse.go) -/\n")
	fmt.Fprintf(&b, "def consolidateShape : List String := %s\n\n", leanList(consol))
	b.WriteString("/-- RunCommand: its parameters, where the key's id comes from, registration, the send call and the select clauses, in source order -/\n")
	fmt.Fprintf(&b, "def runCommandFlow : List String := %s\n\n", leanList(flow))
	b.WriteString("/-- commit: how the per-target command is made and what RunCommand is handed -/\n")
	fmt.Fprintf(&b, "def commitCalls : List String := %s\n\n", leanList(commitOps))
	b.WriteString("/-- the consumer goroutine of CommandQueue.Start: loop, selects (clauses, default?), communication clauses, plain send statements, queue lock/unlock, commit — in source order -/\n")
	fmt.Fprintf(&b, "def startLoop : List String := %s\n\n", leanList(startOps))
	b.WriteString("/-- the LINKED MakeSingleTarget evaluated on a few commands: (kind, id, targets, tmo ms, args, receiver,\n    none | some (id or 0, targets, tmo ms, receiver's argument token (0 empty map, 999 nil/other), everything else preserved)) -/\n")
	b.WriteString(singleTargetTable())
	b.WriteString("\nend Gen.C12\n")
	return b.String(), nil
}

func init() {
	fw.RegisterGen(fw.GenFile{Name: "ServentFacts.lean", Make: genFacts})
}
