package c12

import (
	"bytes"
	"fmt"
	"go/ast"
	"go/parser"
	"go/printer"
	"go/token"
	"strings"

	"verifharness/fw"
)

// go/ast facts about core/controlcommands that the model's `step` relies on and
// that the black-box run cannot see (they only show as leaked goroutines or a
// growing map). Regenerated on every check into Gen/ServentFacts.lean and
// identified with the model's assumptions by `C12_*_is_code` theorems. Make
// never fails: a fact that cannot be established is emitted as false/empty.

func src(fset *token.FileSet, n ast.Node) string {
	var b bytes.Buffer
	printer.Fprint(&b, fset, n)
	return strings.Join(strings.Fields(b.String()), " ")
}

func funcDecl(f *ast.File, recv, name string) *ast.FuncDecl {
	for _, d := range f.Decls {
		fd, ok := d.(*ast.FuncDecl)
		if !ok || fd.Name.Name != name {
			continue
		}
		if recv == "" && fd.Recv == nil {
			return fd
		}
		if recv != "" && fd.Recv != nil && len(fd.Recv.List) == 1 {
			if st, ok := fd.Recv.List[0].Type.(*ast.StarExpr); ok {
				if id, ok := st.X.(*ast.Ident); ok && id.Name == recv {
					return fd
				}
			}
		}
	}
	return nil
}

// lockedOps lists, in source order, the statements of interest in a function
// together with whether they sit between s.mu.Lock() and s.mu.Unlock().
func lockedOps(fset *token.FileSet, fd *ast.FuncDecl) []string {
	var out []string
	if fd == nil {
		return out
	}
	locked := false
	ast.Inspect(fd.Body, func(n ast.Node) bool {
		switch x := n.(type) {
		case *ast.ExprStmt:
			s := src(fset, x.X)
			switch {
			case s == "s.mu.Lock()":
				locked = true
			case s == "s.mu.Unlock()":
				locked = false
			case strings.HasPrefix(s, "delete(s.pending,"):
				out = append(out, fmt.Sprintf("%s locked=%v", s, locked))
			}
		case *ast.AssignStmt:
			s := src(fset, x)
			if strings.Contains(s, "s.pending[") {
				out = append(out, fmt.Sprintf("%s locked=%v", s, locked))
			} else if strings.HasPrefix(s, "call.Response =") || strings.HasPrefix(s, "call.Error =") {
				out = append(out, s)
			}
		case *ast.SendStmt:
			out = append(out, src(fset, x))
		}
		return true
	})
	return out
}

func callIdLiteral(fset *token.FileSet, fd *ast.FuncDecl) string {
	res := ""
	if fd == nil {
		return res
	}
	ast.Inspect(fd.Body, func(n ast.Node) bool {
		if cl, ok := n.(*ast.CompositeLit); ok {
			if id, ok := cl.Type.(*ast.Ident); ok && id.Name == "CallId" && res == "" {
				res = src(fset, cl)
			}
		}
		return true
	})
	return res
}

func leanList(xs []string) string {
	q := make([]string, len(xs))
	for i, x := range xs {
		q[i] = fmt.Sprintf("%q", x)
	}
	return "[" + strings.Join(q, ", ") + "]"
}

func genFacts(repo string) (string, error) {
	fset := token.NewFileSet()
	var fields, runOps, prOps, selectCases, consol []string
	runLit, prLit := "", ""
	if f, err := parser.ParseFile(fset, repo+"/core/controlcommands/mesoscommandservent.go", nil, 0); err == nil {
		ast.Inspect(f, func(n ast.Node) bool {
			if ts, ok := n.(*ast.TypeSpec); ok && ts.Name.Name == "CallId" {
				if st, ok := ts.Type.(*ast.StructType); ok {
					for _, fl := range st.Fields.List {
						for _, nm := range fl.Names {
							fields = append(fields, nm.Name+" "+src(fset, fl.Type))
						}
					}
				}
			}
			return true
		})
		run := funcDecl(f, "Servent", "RunCommand")
		runOps = lockedOps(fset, run)
		runLit = callIdLiteral(fset, run)
		if run != nil {
			ast.Inspect(run.Body, func(n ast.Node) bool {
				if cc, ok := n.(*ast.CommClause); ok && cc.Comm != nil {
					selectCases = append(selectCases, src(fset, cc.Comm))
				}
				return true
			})
		}
		pr := funcDecl(f, "Servent", "ProcessResponse")
		prOps = lockedOps(fset, pr)
		prLit = callIdLiteral(fset, pr)
	}
	if f, err := parser.ParseFile(fset, repo+"/core/controlcommands/multiresponse.go", nil, 0); err == nil {
		if fd := funcDecl(f, "", "consolidateResponses"); fd != nil {
			for _, st := range fd.Body.List {
				switch x := st.(type) {
				case *ast.IfStmt:
					consol = append(consol, "if "+src(fset, x.Cond))
				case *ast.ReturnStmt:
					s := src(fset, x)
					if i := strings.Index(s, "{"); i > 0 {
						s = s[:i]
					}
					consol = append(consol, s)
				}
			}
		}
	}
	var b strings.Builder
	b.WriteString("namespace Gen.C12\n\n")
	b.WriteString("/-- fields of `type CallId struct` (mesoscommandservent.go) -/\n")
	fmt.Fprintf(&b, "def callIdFields : List String := %s\n\n", leanList(fields))
	b.WriteString("/-- the CallId literal built in RunCommand / ProcessResponse -/\n")
	fmt.Fprintf(&b, "def runCommandKey : String := %q\n", runLit)
	fmt.Fprintf(&b, "def processResponseKey : String := %q\n\n", prLit)
	b.WriteString("/-- accesses of s.pending and channel sends, in source order, with whether s.mu is held -/\n")
	fmt.Fprintf(&b, "def runCommandOps : List String := %s\n", leanList(runOps))
	fmt.Fprintf(&b, "def processResponseOps : List String := %s\n\n", leanList(prOps))
	b.WriteString("/-- the communication clauses of RunCommand's select -/\n")
	fmt.Fprintf(&b, "def runCommandSelect : List String := %s\n\n", leanList(selectCases))
	b.WriteString("/-- top-level statements of consolidateResponses (multiresponse.go) -/\n")
	fmt.Fprintf(&b, "def consolidateShape : List String := %s\n\n", leanList(consol))
	b.WriteString("end Gen.C12\n")
	return b.String(), nil
}

func init() {
	fw.RegisterGen(fw.GenFile{Name: "ServentFacts.lean", Make: genFacts})
}
