package c12

import (
	"fmt"
	"time"

	"verifharness/fw"
	"verifharness/rng"
	"verifharness/sx"
)

func msDur(n int) time.Duration { return time.Duration(n) * time.Millisecond }

// sim tracks what a script has done so far, as far as the generator (and the
// shrinker) must know to keep scripts FEASIBLE: a script must never make the
// driver wait for something that cannot happen (that would only produce
// `inconclusive`, but slowly), and must never issue a reply whose order
// relative to the caller's registration the harness cannot observe.
type sim struct {
	cmds    []cspec
	enq     []bool
	done    []bool
	conc    []bool        // enqueued concurrently: position in its queue unknown
	queues  map[int][]int // FIFO of enqueued, not yet completed, sequentially enqueued commands
	waited  map[[2]int]bool
	replied map[[2]int]bool
	concAny bool
	// late[c]: the script starts c's callback listener only at its (L c); listening[c]: started
	late      []bool
	listening []bool
	held      []bool // a (B c) has found the consumer blocked handing c's answer over
	// classification counters (tags / non-triviality)
	n map[string]int
}

// newSim: late = the commands whose listener the script starts itself (nil: none).
func newSim(cmds []cspec, late []bool) *sim {
	s := &sim{cmds: cmds, enq: make([]bool, len(cmds)), done: make([]bool, len(cmds)), conc: make([]bool, len(cmds)),
		queues: map[int][]int{}, waited: map[[2]int]bool{}, replied: map[[2]int]bool{}, n: map[string]int{},
		late: make([]bool, len(cmds)), listening: make([]bool, len(cmds)), held: make([]bool, len(cmds))}
	for c := range cmds {
		if c < len(late) && late[c] {
			s.late[c] = true
		} else {
			s.listening[c] = true
		}
	}
	return s
}

// lateOf: the commands that have an (L c) in the script.
func lateOf(n int, script []*sx.Node) []bool {
	late := make([]bool, n)
	for _, a := range script {
		if a.At(0).Str() == "L" && a.Len() == 2 {
			if c := a.At(1).Int(); c >= 0 && c < n {
				late[c] = true
			}
		}
	}
	return late
}

func (s *sim) tspec(c, t int) *tspec {
	for i := range s.cmds[c].targets {
		if s.cmds[c].targets[i].t == t {
			return &s.cmds[c].targets[i]
		}
	}
	return nil
}

func (s *sim) long(c int) bool { return s.cmds[c].long || s.cmds[c].tmo == 0 }

func (s *sim) selfDriving(c int) bool {
	if !s.long(c) {
		return true
	}
	for _, ts := range s.cmds[c].targets {
		if ts.mode == "ok" {
			return false
		}
	}
	return true
}

func (s *sim) active(c int) bool {
	q := s.queues[s.cmds[c].q]
	return s.enq[c] && !s.done[c] && !s.conc[c] && len(q) > 0 && q[0] == c
}

// blocked: c is active and cannot complete before the driver replies — or its
// answer cannot be handed over because nobody listens yet (the consumer waits in the
// send on the callback channel) —, so nothing queued behind it can start.
func (s *sim) blocked(c int) bool {
	if s.active(c) && !s.listening[c] {
		return true
	}
	if !s.active(c) || !s.long(c) {
		return false
	}
	for _, ts := range s.cmds[c].targets {
		if ts.mode == "ok" && !s.replied[[2]int{c, ts.t}] {
			return true
		}
	}
	return false
}

func (s *sim) completable(c int) bool {
	if !s.long(c) {
		return true
	}
	for _, ts := range s.cmds[c].targets {
		if ts.mode == "ok" && !s.replied[[2]int{c, ts.t}] {
			return false
		}
	}
	return true
}

// apply checks one action and, if it is feasible, performs it.
func (s *sim) apply(a *sx.Node) error {
	valid := func(c int) bool { return c >= 0 && c < len(s.cmds) }
	switch a.At(0).Str() {
	case "E":
		if a.Len() < 2 || s.concAny {
			return fmt.Errorf("E after a concurrent group")
		}
		for _, n := range a.List[1:] {
			if !valid(n.Int()) || s.enq[n.Int()] {
				return fmt.Errorf("bad E")
			}
		}
		if a.Len() == 2 {
			c := a.At(1).Int()
			s.enq[c] = true
			s.queues[s.cmds[c].q] = append(s.queues[s.cmds[c].q], c)
			return nil
		}
		seen := map[int]bool{}
		for _, n := range a.List[1:] {
			if !s.selfDriving(n.Int()) || seen[n.Int()] || s.late[n.Int()] {
				return fmt.Errorf("concurrent E of a driver-dependent command")
			}
			seen[n.Int()] = true
		}
		for _, n := range a.List[1:] {
			s.enq[n.Int()], s.conc[n.Int()] = true, true
		}
		s.concAny = true
		s.n["concurrent-enqueue"]++
		return nil
	case "W":
		c, t := a.At(1).Int(), a.At(2).Int()
		if !valid(c) || !s.active(c) || s.tspec(c, t) == nil {
			return fmt.Errorf("W on a command that is not running")
		}
		s.waited[[2]int{c, t}] = true
		return nil
	case "R":
		c, t := a.At(1).Int(), a.At(2).Int()
		if !valid(c) {
			return fmt.Errorf("bad R")
		}
		ts := s.tspec(c, t)
		switch {
		case ts == nil:
			s.n["wrong-sender"]++
		case s.done[c]:
			s.n["late"]++
		case !s.enq[c]:
			s.n["early"]++
		case s.active(c):
			if !s.waited[[2]int{c, t}] {
				return fmt.Errorf("reply before the send was observed")
			}
			k := [2]int{c, t}
			switch {
			case ts.isFail():
				s.n["reply-after-send-failure"]++
			case ts.mode == "auto" || s.replied[k]:
				s.n["duplicate"]++
			default:
				s.n["own-reply"]++
				if !s.long(c) {
					s.n["reply-racing-timeout"]++
				}
			}
			s.replied[k] = true
		default: // queued behind another command (or enqueued concurrently)
			if s.conc[c] {
				return fmt.Errorf("reply to a concurrently enqueued command before it completed")
			}
			q := s.queues[s.cmds[c].q]
			if len(q) == 0 || !s.blocked(q[0]) {
				return fmt.Errorf("early reply while the command could start")
			}
			s.n["early-while-queued"]++
		}
		if a.At(4).Bool() {
			s.n["error-reply"]++
		}
		return nil
	case "F":
		if a.At(1).Int() < 0 || a.At(1).Int() >= 8 {
			return fmt.Errorf("bad F")
		}
		s.n["foreign-id"]++
		return nil
	case "D":
		c := a.At(1).Int()
		if !valid(c) || !s.enq[c] || s.done[c] || !s.listening[c] {
			return fmt.Errorf("bad D")
		}
		if !s.conc[c] {
			if !s.active(c) || !s.completable(c) {
				return fmt.Errorf("D on a command that cannot complete yet")
			}
			s.queues[s.cmds[c].q] = s.queues[s.cmds[c].q][1:]
		}
		s.done[c] = true
		return nil
	case "L":
		c := a.At(1).Int()
		if a.Len() != 2 || !valid(c) || !s.late[c] || s.listening[c] {
			return fmt.Errorf("bad L")
		}
		s.listening[c] = true
		s.n["late-listener"]++
		switch {
		case !s.enq[c]:
			s.n["listen-before-enqueue"]++
		case s.active(c) && !s.held[c] && !s.completable(c):
			s.n["listen-during-commit"]++
		case !s.active(c):
			s.n["listen-while-queued"]++
			for _, x := range s.queues[s.cmds[c].q] {
				if x == c {
					break
				}
				if !s.listening[x] {
					s.n["listen-out-of-order"]++
					break
				}
			}
		}
		return nil
	case "B":
		c := a.At(1).Int()
		if a.Len() != 2 || !valid(c) || !s.late[c] || s.listening[c] || !s.active(c) || !s.completable(c) {
			return fmt.Errorf("B on a command whose hand-over cannot be pending")
		}
		if s.held[c] {
			s.n["held-again"]++
		}
		s.held[c] = true
		s.n["held-probe"]++
		if len(s.queues[s.cmds[c].q]) > 1 {
			s.n["held-with-commands-behind"]++
		}
		return nil
	}
	return fmt.Errorf("bad action")
}

func (s *sim) allDone() bool {
	for c := range s.cmds {
		if !s.done[c] {
			return false
		}
	}
	return true
}

// feasible replays a whole script; all commands must be enqueued and awaited.
func feasible(cmds []cspec, script []*sx.Node) (*sim, bool) {
	s := newSim(cmds, lateOf(len(cmds), script))
	for _, a := range script {
		if s.apply(a) != nil {
			return s, false
		}
	}
	return s, s.allDone()
}

func cmdsNode(cmds []cspec) *sx.Node {
	n := sx.L()
	for _, cs := range cmds {
		ms := 0
		if !cs.long && cs.tmo != 0 {
			ms = int(cs.tmo.Milliseconds())
		}
		cn := sx.L(sx.I(cs.q), sx.I(ms))
		for _, ts := range cs.targets {
			tn := sx.L(sx.I(ts.t))
			if ts.mode == "auto" {
				tn.Add(sx.L(sx.A("auto"), sx.I(ts.tag), sx.B(ts.err)))
			} else if ts.mode == "autofail" {
				tn.Add(sx.L(sx.A("auto"), sx.I(ts.tag), sx.B(ts.err), sx.A("fail")))
			} else {
				tn.Add(sx.A(ts.mode))
			}
			if ts.arg > 0 {
				tn.Add(sx.I(ts.arg))
			}
			cn.Add(tn)
		}
		n.Add(cn)
	}
	return n
}

func genCase(r *rng.R, maxCmds, maxTargets int) fw.Case {
	tag := 0
	newTag := func() int { tag++; return tag }
	nc := r.Range(1, maxCmds)
	twoQ := r.P(1, 4)
	pool := r.Range(3, 10)
	var cmds []cspec
	for c := 0; c < nc; c++ {
		cs := cspec{}
		if twoQ {
			cs.q = r.N(2)
		}
		if r.P(7, 20) {
			cs.tmo = msDur(r.Range(25, 60))
		}
		nt := r.Range(0, maxTargets)
		if r.P(1, 12) {
			nt = 0
		} else if nt == 0 {
			nt = 1
		}
		if nt > pool {
			nt = pool
		}
		perm := make([]int, pool)
		for i := range perm {
			perm[i] = i
		}
		rng.Shuffle(r, perm)
		withArgs := r.P(2, 5) // the command carries an argument map that binds some of its targets
		for _, t := range perm[:nt] {
			ts := tspec{t: t, mode: "ok"}
			if withArgs && r.P(2, 3) {
				ts.arg = r.Range(1, 99)
			}
			switch x := r.N(10); {
			case x < 2:
				ts.mode = "fail"
				if r.P(2, 5) {
					// delivered and answered, but the send is reported as failed
					ts.mode, ts.tag, ts.err = "autofail", newTag(), r.P(1, 4)
				}
			case x < 4:
				ts.mode, ts.tag, ts.err = "auto", newTag(), r.P(1, 4)
			}
			cs.targets = append(cs.targets, ts)
		}
		cmds = append(cmds, cs)
	}
	s := newSim(cmds, nil)
	var script []*sx.Node
	try := func(a *sx.Node) bool {
		if s.apply(a) == nil {
			script = append(script, a)
			return true
		}
		return false
	}
	anyTarget := func(c int) int {
		if len(cmds[c].targets) > 0 && r.P(9, 10) {
			return rng.Pick(r, cmds[c].targets).t
		}
		return r.N(pool + 1) // possibly not a target of c: wrong sender
	}
	// maybe finish with a concurrent group: pick the suffix of self-driving commands
	concFrom := nc
	if nc >= 2 && r.P(1, 3) {
		concFrom = nc
		for concFrom > 0 && s.selfDriving(concFrom-1) {
			concFrom--
		}
		if nc-concFrom < 2 {
			concFrom = nc
		}
	}
	next := 0 // next command to enqueue sequentially
	for steps := 0; steps < 60 && !s.allDone(); steps++ {
		switch x := r.N(100); {
		case x < 18 && next < concFrom:
			if try(sx.L(sx.A("E"), sx.I(next))) {
				next++
			}
		case x < 40: // observe a send of a running command
			c := r.N(nc)
			if s.active(c) && len(cmds[c].targets) > 0 {
				try(sx.L(sx.A("W"), sx.I(c), sx.I(rng.Pick(r, cmds[c].targets).t)))
			}
		case x < 65: // a reply for a running command: own (first) or duplicate
			c := r.N(nc)
			if s.active(c) && len(cmds[c].targets) > 0 {
				t := rng.Pick(r, cmds[c].targets).t
				if !s.waited[[2]int{c, t}] {
					try(sx.L(sx.A("W"), sx.I(c), sx.I(t)))
				}
				try(sx.L(sx.A("R"), sx.I(c), sx.I(t), sx.I(newTag()), sx.B(r.P(1, 4))))
			}
		case x < 77: // a reply for any command whatever its state: late / early / wrong sender / dup
			c := r.N(nc)
			try(sx.L(sx.A("R"), sx.I(c), sx.I(anyTarget(c)), sx.I(newTag()), sx.B(r.P(1, 4))))
		case x < 84:
			try(sx.L(sx.A("F"), sx.I(r.N(3)), sx.I(r.N(pool)), sx.I(newTag()), sx.B(r.P(1, 4))))
		default: // await a running command that can complete
			c := r.N(nc)
			try(sx.L(sx.A("D"), sx.I(c)))
		}
	}
	// drive everything home: sequential commands in queue order, then the concurrent group
	for next < concFrom {
		try(sx.L(sx.A("E"), sx.I(next)))
		next++
	}
	for progress := true; progress; {
		progress = false
		for c := 0; c < concFrom; c++ {
			if !s.active(c) {
				continue
			}
			order := append([]tspec{}, cmds[c].targets...)
			rng.Shuffle(r, order)
			for _, ts := range order {
				if ts.mode == "ok" && !s.replied[[2]int{c, ts.t}] && (s.long(c) || r.P(1, 2)) {
					try(sx.L(sx.A("W"), sx.I(c), sx.I(ts.t)))
					try(sx.L(sx.A("R"), sx.I(c), sx.I(ts.t), sx.I(newTag()), sx.B(r.P(1, 4))))
					if r.P(1, 5) {
						try(sx.L(sx.A("R"), sx.I(c), sx.I(ts.t), sx.I(newTag()), sx.B(r.P(1, 4))))
					}
				}
			}
			if try(sx.L(sx.A("D"), sx.I(c))) {
				progress = true
				if r.P(1, 3) && len(cmds[c].targets) > 0 {
					try(sx.L(sx.A("R"), sx.I(c), sx.I(rng.Pick(r, cmds[c].targets).t), sx.I(newTag()), sx.B(r.P(1, 4))))
				}
			}
		}
	}
	if concFrom < nc {
		e := sx.L(sx.A("E"))
		for c := concFrom; c < nc; c++ {
			e.Add(sx.I(c))
		}
		try(e)
		if r.P(1, 2) {
			try(sx.L(sx.A("F"), sx.I(r.N(3)), sx.I(r.N(pool)), sx.I(newTag()), sx.B(false)))
		}
		order := make([]int, 0, nc-concFrom)
		for c := concFrom; c < nc; c++ {
			order = append(order, c)
		}
		rng.Shuffle(r, order)
		for _, c := range order {
			try(sx.L(sx.A("D"), sx.I(c)))
			if r.P(1, 2) && len(cmds[c].targets) > 0 {
				try(sx.L(sx.A("R"), sx.I(c), sx.I(rng.Pick(r, cmds[c].targets).t), sx.I(newTag()), sx.B(r.P(1, 4))))
			}
		}
	}
	sc := sx.L()
	sc.List = script
	sc.IsList = true
	input := sx.L(cmdsNode(cmds), sc).String()
	return fw.Case{Input: input, Tags: tagsOf(cmds, s)}
}

// genLateCase: the class "the caller is not at its receive when the answer is ready".
// 1..4 fast commands (targets that fail at send, reply inside the send call, time out after
// 25..60 ms, or are answered by the script), most of them late listeners: enqueued without
// anybody receiving on the callback channel; the script probes that the consumer goroutine
// then WAITS in the hand-over (B), lets replies / foreign ids / further Enqueues happen
// meanwhile, starts the listeners in any order (also for commands still queued behind, also
// before the Enqueue or in the middle of the commit) and collects every answer. "Pipelined":
// all commands are enqueued first, the answers collected afterwards.
func genLateCase(r *rng.R) fw.Case {
	tag := 0
	newTag := func() int { tag++; return tag }
	nc := r.Range(1, 4)
	twoQ := nc >= 2 && r.P(1, 5)
	pool := r.Range(2, 6)
	var cmds []cspec
	late := make([]bool, nc)
	anyLate := false
	for c := 0; c < nc; c++ {
		cs := cspec{}
		if twoQ {
			cs.q = r.N(2)
		}
		if r.P(1, 2) {
			cs.tmo = msDur(r.Range(25, 60))
		}
		nt := r.Range(1, 4)
		if r.P(1, 10) {
			nt = 0
		}
		if nt > pool {
			nt = pool
		}
		perm := make([]int, pool)
		for i := range perm {
			perm[i] = i
		}
		rng.Shuffle(r, perm)
		withArgs := r.P(1, 3)
		for _, t := range perm[:nt] {
			ts := tspec{t: t, mode: "ok"}
			if withArgs && r.P(1, 2) {
				ts.arg = r.Range(1, 99)
			}
			switch x := r.N(10); {
			case x < 4:
				ts.mode = "fail"
				if r.P(1, 3) {
					ts.mode, ts.tag, ts.err = "autofail", newTag(), r.P(1, 4)
				}
			case x < 7:
				ts.mode, ts.tag, ts.err = "auto", newTag(), r.P(1, 4)
			}
			cs.targets = append(cs.targets, ts)
		}
		cmds = append(cmds, cs)
		late[c] = r.P(3, 4)
		anyLate = anyLate || late[c]
	}
	if !anyLate {
		late[r.N(nc)] = true
	}
	s := newSim(cmds, late)
	var script []*sx.Node
	try := func(a *sx.Node) bool {
		if s.apply(a) == nil {
			script = append(script, a)
			return true
		}
		return false
	}
	reply := func(c, t int) {
		if !s.waited[[2]int{c, t}] {
			try(sx.L(sx.A("W"), sx.I(c), sx.I(t)))
		}
		if s.held[c] {
			s.n["reply-while-held"]++
		}
		try(sx.L(sx.A("R"), sx.I(c), sx.I(t), sx.I(newTag()), sx.B(r.P(1, 4))))
	}
	head := func() int { // a running command, or -1
		var hs []int
		for c := 0; c < nc; c++ {
			if s.active(c) {
				hs = append(hs, c)
			}
		}
		if len(hs) == 0 {
			return -1
		}
		return rng.Pick(r, hs)
	}
	next := 0
	if nc >= 2 && r.P(1, 2) {
		for next < nc {
			try(sx.L(sx.A("E"), sx.I(next)))
			next++
		}
		s.n["pipelined-enqueue"]++
	}
	for steps := 0; steps < 40 && !s.allDone(); steps++ {
		switch x := r.N(100); {
		case x < 14 && next < nc:
			if try(sx.L(sx.A("E"), sx.I(next))) {
				next++
			}
		case x < 34: // bring the running command to the end of its commit, then find its answer held
			if c := head(); c >= 0 {
				for _, ts := range cmds[c].targets {
					if ts.mode == "ok" && !s.replied[[2]int{c, ts.t}] && (s.long(c) || r.P(1, 2)) {
						reply(c, ts.t)
					}
				}
				try(sx.L(sx.A("B"), sx.I(c)))
			}
		case x < 50: // start listening to any late command, wherever it is
			try(sx.L(sx.A("L"), sx.I(r.N(nc))))
		case x < 62:
			if c := head(); c >= 0 {
				try(sx.L(sx.A("D"), sx.I(c)))
			}
		case x < 74: // a reply for any command whatever its state (held, queued behind, done, not enqueued)
			c := r.N(nc)
			t := r.N(pool + 1)
			if len(cmds[c].targets) > 0 && r.P(4, 5) {
				t = rng.Pick(r, cmds[c].targets).t
			}
			if s.active(c) && s.tspec(c, t) != nil {
				reply(c, t)
			} else {
				try(sx.L(sx.A("R"), sx.I(c), sx.I(t), sx.I(newTag()), sx.B(r.P(1, 4))))
			}
		case x < 80:
			try(sx.L(sx.A("F"), sx.I(r.N(3)), sx.I(r.N(pool)), sx.I(newTag()), sx.B(r.P(1, 4))))
		case x < 90: // is it still held?
			if c := head(); c >= 0 && s.held[c] {
				try(sx.L(sx.A("B"), sx.I(c)))
			}
		default:
			if c := head(); c >= 0 && len(cmds[c].targets) > 0 {
				try(sx.L(sx.A("W"), sx.I(c), sx.I(rng.Pick(r, cmds[c].targets).t)))
			}
		}
	}
	for next < nc {
		try(sx.L(sx.A("E"), sx.I(next)))
		next++
	}
	for progress := true; progress; {
		progress = false
		for c := 0; c < nc; c++ {
			if !s.active(c) {
				continue
			}
			for _, ts := range cmds[c].targets {
				if ts.mode == "ok" && !s.replied[[2]int{c, ts.t}] && (s.long(c) || r.P(1, 2)) {
					reply(c, ts.t)
				}
			}
			if !s.listening[c] {
				if r.P(2, 3) {
					try(sx.L(sx.A("B"), sx.I(c)))
				}
				try(sx.L(sx.A("L"), sx.I(c)))
			}
			if try(sx.L(sx.A("D"), sx.I(c))) {
				progress = true
			}
		}
	}
	// a late-listener command needs its (L c) in the script to BE one: cannot be missing here,
	// every command was driven home through L and D
	sc := sx.L()
	sc.List = script
	sc.IsList = true
	input := sx.L(cmdsNode(cmds), sc).String()
	return fw.Case{Input: input, Tags: tagsOf(cmds, s)}
}

func tagsOf(cmds []cspec, s *sim) []string {
	tags := []string{fmt.Sprintf("cmds=%d", len(cmds))}
	qs := map[int]bool{}
	maxT, short, fail, auto, silent, args, autoYield, autoLong, autoFail, autoFailOthers := 0, 0, 0, 0, 0, 0, 0, 0, 0, 0
	for c, cs := range cmds {
		qs[cs.q] = true
		if len(cs.targets) > maxT {
			maxT = len(cs.targets)
		}
		if cs.tmo != 0 && !cs.long {
			short++
		}
		for _, ts := range cs.targets {
			switch ts.mode {
			case "fail":
				fail++
			case "autofail":
				fail++
				autoFail++
				if len(cmds) > 1 || len(cs.targets) > 1 {
					autoFailOthers++
				}
			case "auto":
				auto++
				if (ts.tag+ts.t)%2 == 1 {
					autoYield++
				}
				if cs.long || cs.tmo == 0 {
					autoLong++
				}
			case "ok":
				if !s.replied[[2]int{c, ts.t}] {
					silent++
				}
			}
			if ts.arg > 0 {
				args++
			}
		}
	}
	tags = append(tags, fmt.Sprintf("queues=%d", len(qs)), fmt.Sprintf("max-targets=%d", maxT))
	if short > 0 {
		tags = append(tags, "short-timeout")
	}
	if silent > 0 {
		tags = append(tags, "silence->timeout")
	}
	if fail > 0 {
		tags = append(tags, "send-failure")
	}
	if auto > 0 {
		tags = append(tags, "reply-inside-send")
	}
	if autoYield > 0 {
		tags = append(tags, "reply-inside-send+yield")
	}
	if autoLong > 0 {
		tags = append(tags, "reply-inside-send,long-timeout")
	}
	if autoFail > 0 {
		// the class "a reply reaches ProcessResponse while its caller has stopped listening and
		// the call is still pending" (here: delivered and answered, the send reported as failed)
		tags = append(tags, "class=reply-in-leave-window", "reply-inside-send,then-send-fails")
	}
	if autoFailOthers > 0 {
		tags = append(tags, "reply-in-leave-window,other-targets-or-commands")
	}
	if args > 0 {
		tags = append(tags, "per-target-arguments")
	}
	for _, k := range []string{"own-reply", "duplicate", "late", "early", "early-while-queued", "foreign-id", "wrong-sender",
		"error-reply", "reply-after-send-failure", "reply-racing-timeout", "concurrent-enqueue",
		"late-listener", "listen-before-enqueue", "listen-during-commit", "listen-while-queued", "listen-out-of-order",
		"held-probe", "held-again", "held-with-commands-behind", "pipelined-enqueue", "reply-while-held"} {
		if s.n[k] > 0 {
			tags = append(tags, k)
		}
	}
	return tags
}

// withExecutors: the class "several tasks behind one executor". Takes a scenario and assigns its
// targets to executors — any partition: everything behind ONE agent+executor (the production
// layout: one executor per agent), a few executors chosen at random per target, or the same with
// some targets left on an executor of their own. Targets of one command (and of overlapping
// commands: the pool of targets is shared) then share agent id and executor id and differ only
// in the task id. Script and expected behaviour are untouched: the property does not depend on
// the layout.
func withExecutors(r *rng.R, c fw.Case) fw.Case {
	in, err := sx.Parse(c.Input)
	if err != nil || in.Len() != 2 {
		return c
	}
	cmds, _, err := parseInput(in)
	if err != nil {
		return c
	}
	var pool []int
	seen := map[int]bool{}
	for _, cs := range cmds {
		for _, ts := range cs.targets {
			if !seen[ts.t] {
				seen[ts.t] = true
				pool = append(pool, ts.t)
			}
		}
	}
	ex := map[int]int{}
	layout := "few-executors"
	switch r.N(3) {
	case 0:
		layout = "one-executor"
		e := r.N(3)
		for _, t := range pool {
			ex[t] = e
		}
	case 1:
		k := 1 + r.N(3)
		for _, t := range pool {
			ex[t] = r.N(k)
		}
	default:
		layout = "few-executors-some-own"
		k := 1 + r.N(2)
		for _, t := range pool {
			if !r.P(1, 3) {
				ex[t] = 20 + r.N(k) // away from the numbers of the targets left on their own
			}
		}
	}
	exOf := func(t int) int {
		if e, ok := ex[t]; ok {
			return e
		}
		return t
	}
	en := sx.L()
	for _, t := range pool {
		if e, ok := ex[t]; ok {
			en.Add(sx.L(sx.I(t), sx.I(e)))
		}
	}
	sharing, sharingCmds := false, 0
	for _, cs := range cmds {
		per := map[int]int{}
		hit := false
		for _, ts := range cs.targets {
			per[exOf(ts.t)]++
			if per[exOf(ts.t)] == 2 {
				hit = true
			}
		}
		if hit {
			sharing = true
			sharingCmds++
		}
	}
	in.Add(en)
	tags := append(append([]string{}, c.Tags...), "executors-assigned", "executors:"+layout)
	if sharing {
		tags = append(tags, "tasks-share-executor-in-one-command")
	}
	if sharingCmds >= 2 {
		tags = append(tags, "tasks-share-executor,several-commands")
	}
	return fw.Case{Input: in.String(), Tags: tags}
}

func generate(tier string, r *rng.R) []fw.Case {
	n := 2000
	if tier == "thorough" {
		n = 20000
	}
	cs := []fw.Case{}
	for i := 0; i < n; i++ {
		maxCmds, maxT := 4, 8
		if i%5 == 0 {
			maxCmds, maxT = 2, 3 // small cases: shrink-friendly, dense in corner cases
		}
		if i%7 == 3 {
			// the caller reaches its receive on the callback channel LATE (or pipelines)
			cs = append(cs, genLateCase(r.Fork()))
			continue
		}
		if i%6 == 4 {
			// several tasks behind one executor: the same scenarios with an assignment of targets to executors
			rf := r.Fork()
			cs = append(cs, withExecutors(rf, genCase(rf, maxCmds, maxT)))
			continue
		}
		cs = append(cs, genCase(r.Fork(), maxCmds, maxT))
	}
	return cs
}

// search: the wider stream used only after the correspondence broke without a
// Spec-violating input yet — many SMALL scenarios (easier to make the real
// code's deviation show at the callback).
func search(r *rng.R) []fw.Case {
	cs := []fw.Case{}
	for i := 0; i < 2500; i++ {
		if i%4 == 1 {
			cs = append(cs, genLateCase(r.Fork()))
			continue
		}
		if i%4 == 3 {
			rf := r.Fork()
			cs = append(cs, withExecutors(rf, genCase(rf, 3, 4)))
			continue
		}
		cs = append(cs, genCase(r.Fork(), 3, 4))
	}
	return cs
}

func nontrivial(input, obs string) bool {
	in, err := sx.Parse(input)
	if err != nil {
		return false
	}
	cmds, script, err := parseInput(in)
	if err != nil {
		return false
	}
	s, ok := feasible(cmds, script)
	if !ok {
		return false
	}
	maxT, fail, silent := 0, 0, 0
	for c, cs := range cmds {
		if len(cs.targets) > maxT {
			maxT = len(cs.targets)
		}
		for _, ts := range cs.targets {
			if ts.isFail() {
				fail++
			}
			if ts.mode == "ok" && !s.replied[[2]int{c, ts.t}] {
				silent++
			}
		}
	}
	stray := s.n["duplicate"] + s.n["late"] + s.n["early"] + s.n["early-while-queued"] + s.n["foreign-id"] +
		s.n["wrong-sender"] + s.n["reply-after-send-failure"]
	return (len(cmds) >= 2 || maxT >= 2) && (stray > 0 || fail > 0 || silent > 0 || s.n["held-probe"] > 0 || s.n["listen-while-queued"] > 0)
}

// shrink: drop one script action, or the last command with every action that
// names it, as long as the script stays feasible.
func shrinkCands(input string) []string {
	in, err := sx.Parse(input)
	if err != nil {
		return nil
	}
	cmds, script, err := parseInput(in)
	if err != nil {
		return nil
	}
	var out []string
	emit := func(cm []cspec, sc []*sx.Node) {
		if _, ok := feasible(cm, sc); ok {
			n := sx.L()
			n.List, n.IsList = sc, true
			cand := sx.L(cmdsNode(cm), n)
			if in.Len() == 3 {
				cand.Add(in.At(2)) // the assignment of targets to executors is kept
			}
			out = append(out, cand.String())
		}
	}
	if len(cmds) > 1 {
		last := len(cmds) - 1
		var sc []*sx.Node
		for _, a := range script {
			switch a.At(0).Str() {
			case "E":
				e := sx.L(sx.A("E"))
				for _, n := range a.List[1:] {
					if n.Int() != last {
						e.Add(n)
					}
				}
				if e.Len() > 1 {
					sc = append(sc, e)
				}
			case "F":
				sc = append(sc, a)
			default:
				if a.At(1).Int() != last {
					sc = append(sc, a)
				}
			}
		}
		emit(cmds[:last], sc)
	}
	for i := range script {
		sc := append(append([]*sx.Node{}, script[:i]...), script[i+1:]...)
		emit(cmds, sc)
	}
	// drop one target (with the actions that name it) from one command
	for c := range cmds {
		for ti := range cmds[c].targets {
			t := cmds[c].targets[ti].t
			cm := append([]cspec{}, cmds...)
			cm[c].targets = append(append([]tspec{}, cmds[c].targets[:ti]...), cmds[c].targets[ti+1:]...)
			var sc []*sx.Node
			for _, a := range script {
				k := a.At(0).Str()
				if (k == "W" || k == "R") && a.At(1).Int() == c && a.At(2).Int() == t {
					continue
				}
				sc = append(sc, a)
			}
			emit(cm, sc)
		}
	}
	return out
}
