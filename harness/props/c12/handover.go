package c12

// The hand-over of a command's answer (CommandQueue.Start: `entry.callback <- response`)
// is a rendezvous with the caller. Where the queue's consumer goroutine is can be read off
// a goroutine dump without any clock:
//
//	send   `[chan send]`, innermost non-runtime frame = the closure of CommandQueue.Start:
//	       it is blocked handing an answer to a caller that is not (yet) receiving
//	recv   `[chan receive]`, innermost frame = that closure: it is parked in `<-m.q`, the
//	       queue channel is empty and the loop body of everything enqueued so far is over
//	busy   anything else (inside commit, runnable, running, waiting for the queue mutex, or
//	       parked in a multi-way select, which this reading does not interpret)
//	gone   no such goroutine
//
// The consumer goroutine of a queue is recognised by its creator: `q.Start()` is called from
// a goroutine of the harness whose id is known, and the dump prints
// "created by …(*CommandQueue).Start in goroutine N". Goroutine ids are never reused.

import (
	"runtime"
	"strconv"
	"strings"
	"sync/atomic"
)

func curGoid() int64 {
	var buf [64]byte
	n := runtime.Stack(buf[:], false)
	f := strings.Fields(string(buf[:n]))
	if len(f) < 2 {
		return -1
	}
	id, err := strconv.ParseInt(f[1], 10, 64)
	if err != nil {
		return -1
	}
	return id
}

// stackSize: a little more than the last dump needed. Every attempt stops the world and
// formats every goroutine of the process, so the first attempt should fit.
var stackSize atomic.Int64

func allStacks() string {
	size := int(stackSize.Load())
	if size < 1<<20 {
		size = 1 << 20
	}
	buf := make([]byte, size)
	for {
		n := runtime.Stack(buf, true)
		if n < len(buf) {
			stackSize.Store(int64(n + n/4 + 1<<16))
			return string(buf[:n])
		}
		if len(buf) >= 1<<28 {
			return ""
		}
		buf = make([]byte, 2*len(buf))
	}
}

// waitOf: the wait reason in "goroutine N [reason, 3 minutes, locked to thread]:".
func waitOf(head string) string {
	i, j := strings.IndexByte(head, '['), strings.LastIndexByte(head, ']')
	if i < 0 || j < i {
		return ""
	}
	st := head[i+1 : j]
	if k := strings.IndexByte(st, ','); k >= 0 {
		st = st[:k]
	}
	return strings.TrimSpace(st)
}

// innermost: the function of the innermost frame that is not the runtime's.
func innermost(lines []string) string {
	for _, l := range lines {
		if l == "" || l[0] == '\t' || strings.HasPrefix(l, "runtime.") || strings.HasPrefix(l, "created by ") {
			continue
		}
		return l
	}
	return ""
}

const startFn = "controlcommands.(*CommandQueue).Start"

// consumerIn classifies the consumer goroutine started by goroutine `creator`.
func consumerIn(dump string, creator int64) string {
	if creator <= 0 || dump == "" {
		return "busy"
	}
	mark := "created by github.com/AliceO2Group/Control/core/" + startFn + " in goroutine " + strconv.FormatInt(creator, 10) + "\n"
	for _, g := range strings.Split(dump, "\n\n") {
		if !strings.Contains(g+"\n", mark) {
			continue
		}
		lines := strings.Split(g, "\n")
		top := innermost(lines[1:])
		if !strings.Contains(top, startFn+".func") {
			return "busy"
		}
		switch waitOf(lines[0]) {
		case "chan send":
			return "send"
		case "chan receive":
			return "recv"
		}
		return "busy"
	}
	return "gone"
}

// parkedIn: goroutine `gid` is parked in a select (the listener's `select { <-notify | <-end }`).
func parkedIn(dump string, gid int64) bool {
	if gid <= 0 {
		return false
	}
	head := "goroutine " + strconv.FormatInt(gid, 10) + " ["
	for _, g := range strings.Split(dump, "\n\n") {
		if strings.HasPrefix(g, head) {
			l, _, _ := strings.Cut(g, "\n")
			return waitOf(l) == "select"
		}
	}
	return false
}
