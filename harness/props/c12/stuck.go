package c12

// A command that never completes is, as such, only a ceiling (=> inconclusive). This file turns
// ONE way of never completing into an observation with a proof, read off goroutine dumps without
// any clock: the servent mutex is held by a goroutine that can never release it.
//
// `s.mu` is private to Servent and touched only inside RunCommand and ProcessResponse. Every
// goroutine that can be inside THIS scenario's Servent (known by ancestry, see wedgeView) is
// classified by where it is parked:
//
//	lock   wait reason `sync.Mutex.Lock`, all frames inside the Servent method's frame belong to
//	       runtime/sync: it is blocked in s.mu.Lock()
//	send   wait reason `chan send`, innermost non-runtime frame = ProcessResponse: the blocking
//	       hand-over `call.Done <- empty{}`
//	wait   wait reason `select`, innermost non-runtime frame = RunCommand: the caller's
//	       `select { <-call.Done | <-time.After }`
//	other  anything else (running, runnable, inside the injected send function, inside logrus,
//	       on its way into or out of the Servent method, …)
//
// The dump is taken with the world stopped, so it is ONE consistent state. If it shows at least
// one `lock`, no `wait` and no `other`, then:
//   - the mutex is held (a goroutine is parked in Lock; a freed mutex would have made a waiter
//     runnable, an Unlock in progress is a running goroutine = `other`);
//   - its holder is one of the `lock` / `send` goroutines (nobody else can touch s.mu);
//   - no `lock` goroutine moves before the mutex is released;
//   - no `send` goroutine ever moves: the only receiver on a call's Done channel is the RunCommand
//     that owns the call, in its select; there is none parked in a select (and a parked sender and
//     a parked receiver on one channel cannot coexist), the owners that are parked in Lock are on
//     their way OUT (RunCommand locks after its select only to unregister and return) or have not
//     registered yet (then nobody can be sending to them), and an owner that returned never comes back.
//
// So nobody ever releases the mutex: every goroutine in `lock` is parked for ever. When the
// consumer goroutine of command c's queue sits inside commit (waiting for its per-target
// goroutines) and at least one goroutine it spawned is among the `lock` ones, that commit never
// returns, and c — enqueued on that queue, not answered (its listener parked with nothing
// received) — never completes. A `wait` goroutine makes the reading refuse (its timer could
// still fire: not at rest), which only costs a proof, never a wrong verdict. The dump is taken
// twice, a few milliseconds apart, and must read the same (robustness of the reading, not part
// of the argument).

import (
	"sort"
	"strconv"
	"strings"
	"time"
)

const (
	serventFn  = "controlcommands.(*Servent)."
	runFn      = "controlcommands.(*Servent).RunCommand"
	processFn  = "controlcommands.(*Servent).ProcessResponse"
	commitFn   = "controlcommands.(*CommandQueue).commit"
	createdPfx = "created by "
)

type gor struct {
	id      int64
	wait    string
	frames  []string // function lines, innermost first
	creator int64    // "… in goroutine N" of the created-by line, 0 if none
	madeBy  string   // function named in the created-by line
}

func parseDump(dump string) []gor {
	var out []gor
	for _, g := range strings.Split(dump, "\n\n") {
		lines := strings.Split(strings.TrimSpace(g), "\n")
		if len(lines) == 0 || !strings.HasPrefix(lines[0], "goroutine ") {
			continue
		}
		f := strings.Fields(lines[0])
		if len(f) < 2 {
			continue
		}
		id, err := strconv.ParseInt(f[1], 10, 64)
		if err != nil {
			continue
		}
		x := gor{id: id, wait: waitOf(lines[0])}
		for _, l := range lines[1:] {
			if l == "" || l[0] == '\t' {
				continue
			}
			if strings.HasPrefix(l, createdPfx) {
				rest := l[len(createdPfx):]
				if i := strings.LastIndex(rest, " in goroutine "); i >= 0 {
					x.madeBy = rest[:i]
					x.creator, _ = strconv.ParseInt(strings.TrimSpace(rest[i+len(" in goroutine "):]), 10, 64)
				} else {
					x.madeBy = rest
				}
				continue
			}
			x.frames = append(x.frames, l)
		}
		out = append(out, x)
	}
	return out
}

// serventClass: "" for a goroutine that is in no Servent method.
func serventClass(g gor) string {
	at := -1
	for i, f := range g.frames {
		if strings.Contains(f, serventFn) {
			at = i
			break
		}
	}
	if at < 0 {
		return ""
	}
	for _, f := range g.frames[:at] {
		if !strings.HasPrefix(f, "runtime.") && !strings.HasPrefix(f, "sync.") && !strings.HasPrefix(f, "internal/") {
			return "other"
		}
	}
	fn := g.frames[at]
	switch {
	case g.wait == "sync.Mutex.Lock" && (strings.Contains(fn, runFn+"(") || strings.Contains(fn, processFn+"(")):
		for _, f := range g.frames[:at] {
			if strings.HasPrefix(f, "sync.(*Mutex).Lock") {
				return "lock"
			}
		}
		return "other"
	case g.wait == "chan send" && strings.Contains(fn, processFn+"("):
		return "send"
	case g.wait == "select" && strings.Contains(fn, runFn+"("):
		return "wait"
	}
	return "other"
}

// wedgeView is what one dump says about ONE scenario's servent and its queues' consumers.
// Several scenarios run in one process, each on a Servent of its own; the goroutines that can
// be inside THIS scenario's Servent are known by ancestry, not by reading pointers off the
// dump: the per-target goroutines `created by …(*CommandQueue).commit in goroutine N` with N a
// consumer goroutine of one of this scenario's queues (itself `created by …Start in goroutine
// M`, M = the harness goroutine that called Start), and the goroutines the harness started for
// its ProcessResponse calls (ids recorded by themselves). The harness never calls RunCommand
// directly.
type wedgeView struct {
	atRest bool   // >= 1 lock, no wait, no other
	nLock  int    // goroutines parked in s.mu.Lock()
	nSend  int    // ProcessResponse goroutines parked in the hand-over
	sig    string // ids and classes of all goroutines inside the Servent + consumers inside commit
	// consumer goroutine id (of a queue) -> number of its per-target goroutines parked in Lock inside RunCommand
	lockedOf map[int64]int
	// creator id (the harness goroutine that called Start) -> id of the consumer, only if it sits inside commit in `chan receive`
	inCommit map[int64]int64
}

// viewOf: starters = the harness goroutines that called Start() for this scenario's queues;
// responders = the goroutines this scenario started for ProcessResponse calls.
func viewOf(dump string, starters map[int64]bool, responders map[int64]bool) wedgeView {
	v := wedgeView{lockedOf: map[int64]int{}, inCommit: map[int64]int64{}}
	gs := parseDump(dump)
	consumers := map[int64]bool{}
	for _, g := range gs {
		if strings.HasSuffix(g.madeBy, startFn) && starters[g.creator] {
			consumers[g.id] = true
		}
	}
	var sig []string
	nWait, nOther := 0, 0
	for _, g := range gs {
		if consumers[g.id] {
			if g.wait == "chan receive" {
				for _, f := range g.frames {
					if strings.Contains(f, commitFn+"(") {
						v.inCommit[g.creator] = g.id
						sig = append(sig, "c"+strconv.FormatInt(g.id, 10))
						break
					}
				}
			}
			continue
		}
		spawned := consumers[g.creator] && (strings.HasSuffix(g.madeBy, commitFn) || strings.Contains(g.madeBy, commitFn+"."))
		if !spawned && !responders[g.id] {
			continue
		}
		cl := serventClass(g)
		if cl == "" {
			cl = "other" // on its way into or out of the Servent: not at rest
		}
		sig = append(sig, strconv.FormatInt(g.id, 10)+":"+cl)
		switch cl {
		case "lock":
			v.nLock++
			if spawned {
				v.lockedOf[g.creator]++
			}
		case "send":
			v.nSend++
		case "wait":
			nWait++
		default:
			nOther++
		}
	}
	sort.Strings(sig)
	v.sig = strings.Join(sig, " ")
	v.atRest = v.nLock >= 1 && nWait == 0 && nOther == 0
	return v
}

// parkedInHandover: goroutine gid is blocked in ProcessResponse's send on call.Done.
func parkedInHandover(dump string, gid int64) bool {
	if gid <= 0 {
		return false
	}
	head := "goroutine " + strconv.FormatInt(gid, 10) + " ["
	for _, g := range strings.Split(dump, "\n\n") {
		if strings.HasPrefix(g, head) {
			lines := strings.Split(g, "\n")
			return waitOf(lines[0]) == "chan send" && strings.Contains(innermost(lines[1:]), processFn+"(")
		}
	}
	return false
}

// wedged looks for the proof described at the top of this file. Every enqueued, unanswered
// command it holds for gets its `(stuck c L S)` event (once); true = at least one command is
// known stuck, the scenario cannot go on.
func (r *run) wedged() bool {
	r.mu.Lock()
	if r.isWedged {
		r.mu.Unlock()
		return true
	}
	starters, responders := map[int64]bool{}, map[int64]bool{}
	for _, g := range r.consGid {
		starters[g] = true
	}
	for _, g := range r.prGid {
		responders[g] = true
	}
	r.mu.Unlock()
	v1 := viewOf(allStacks(), starters, responders)
	if !v1.atRest {
		return false
	}
	time.Sleep(3 * time.Millisecond)
	dump := allStacks()
	v2 := viewOf(dump, starters, responders)
	if !v2.atRest || v2.sig != v1.sig {
		return false
	}
	r.mu.Lock()
	defer r.mu.Unlock()
	for c := range r.cmds {
		if !r.enq[c] || r.lost[c] || len(r.results[c]) != 0 {
			continue
		}
		cons, in := v2.inCommit[r.consGid[r.qOf[c]]]
		if !in || v2.lockedOf[cons] == 0 {
			continue
		}
		// the caller listens (or will): nothing has reached it — its listener, if started, is parked
		if r.listening[c] && (r.lisGid[c] == 0 || !parkedIn(dump, r.lisGid[c])) {
			continue
		}
		r.record(sxStuck(c, v2.nLock, v2.nSend))
		r.isWedged = true
	}
	return r.isWedged
}
