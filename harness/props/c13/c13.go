// Package c13: correspondence harness for property C13 (stub — registers nothing yet).
package c13
