// Package c13: outbound channels connect to where the matching inbound channel was bound.
//
// Input  : (hosts classes tree)
//
//	hosts   := ((hostname (begin end)*)*)                   one Mesos offer per host: its port ranges
//	classes := ((cname mode (bind*) (connect*) [props])*)   task templates; mode = fairmq | direct
//	props   := ((key value)*)                               the template's `properties:` block (optional 5th element)
//	tree    := (A name (bind*) (connect*) tree*)            aggregator role
//	         | (T name cname hostIdx (bind*) (connect*))    task role, launched on hosts[hostIdx]
//	bind    := (name transport addressing target global [misc])   "" = field absent in the YAML
//	connect := (name transport target [misc])
//	misc    := (type sndBufSize rcvBufSize rateLogging)     optional; "" = absent (type: push for bind, pull for connect)
//
// Obs    : (launch configure)
//
//	launch    := ((path host ((key endpoint)*) ((begin end)*))*)   per task in tree order: role path, host,
//	             the task's local bind map sorted by key, the port ranges in the Mesos TaskInfo (what ACCEPT carries)
//	endpoint  := (tcp host port transport) | (ipc path transport)    fresh IPC paths renamed @o2ipc-%N by first appearance
//	configure := (ok ((key value)*)*)                              per task: the WHOLE `arguments` map of the CONFIGURE
//	             command the executor would receive, sorted by key (the value of environment_id renamed %env)
//	           | (err alias_conflict) | (err unmatched) | (err other)
//
// What runs: the role tree and the classes are unmarshalled from generated YAML with the repo's own
// unmarshallers (channel/role/class defaults included), the root is hung under a real ParentAdapter;
// every task role's descriptor comes from the real GenerateTaskDescriptors; every task is launched by the
// real makeTaskForMesosResources on a mesos.Offer (tasks of one host share the remaining resources, as in
// the offer handler) — this is where ports are allocated into Task.localBindMap; then the real
// Manager.configureTasks runs (bind map, alias de-duplication, BuildPropertyMaps) with a command queue whose
// send function records the JSON each executor would get instead of calling Mesos.
// The Lean driver checks the launch section as a monitor (it is environment-determined which ports there are)
// and predicts the configure section from it.
//
// A second input form, (hosts classes ttree sw), describes a workflow TEMPLATE (iterator roles, templated
// names / connect targets / bind aliases) that is loaded with the real ProcessTemplates first: see tmpl.go.
package c13

import (
	"encoding/json"
	"fmt"
	"regexp"
	"sort"
	"strings"
	"sync"

	"github.com/AliceO2Group/Control/common/gera"
	"github.com/AliceO2Group/Control/common/utils/uid"
	"github.com/AliceO2Group/Control/core/controlcommands"
	"github.com/AliceO2Group/Control/core/task"
	"github.com/AliceO2Group/Control/core/task/channel"
	"github.com/AliceO2Group/Control/core/task/taskclass"
	"github.com/AliceO2Group/Control/core/workflow"
	mesos "github.com/mesos/mesos-go/api/v1/lib"
	"github.com/mesos/mesos-go/api/v1/lib/resources"
	"github.com/spf13/viper"
	"gopkg.in/yaml.v3"

	"verifharness/fw"
	"verifharness/rng"
	"verifharness/sx"
)

// ---- YAML rendering ----------------------------------------------------------------

func q(s string) string { return fmt.Sprintf("%q", s) }

func bindYAML(b *strings.Builder, ind string, list *sx.Node) {
	if list.Len() == 0 {
		return
	}
	fmt.Fprintf(b, "%sbind:\n", ind)
	for _, c := range list.List {
		fmt.Fprintf(b, "%s  - name: %s\n", ind, q(c.At(0).Str()))
		miscYAML(b, ind, c.At(5), "push")
		if v := c.At(1).Str(); v != "" {
			fmt.Fprintf(b, "%s    transport: %s\n", ind, q(v))
		}
		if v := c.At(2).Str(); v != "" {
			fmt.Fprintf(b, "%s    addressing: %s\n", ind, q(v))
		}
		if v := c.At(3).Str(); v != "" {
			fmt.Fprintf(b, "%s    target: %s\n", ind, q(v))
		}
		if v := c.At(4).Str(); v != "" {
			fmt.Fprintf(b, "%s    global: %s\n", ind, q(v))
		}
	}
}

// miscYAML: type (the direction's usual one unless the optional misc element names another) and
// the three fields of channel.Channel that only end up in the FairMQ keys.
func miscYAML(b *strings.Builder, ind string, m *sx.Node, dirType string) {
	ty := dirType
	if v := m.At(0).Str(); v != "" {
		ty = v
	}
	fmt.Fprintf(b, "%s    type: %s\n", ind, ty)
	for i, f := range []string{"sndBufSize", "rcvBufSize", "rateLogging"} {
		if v := m.At(i + 1).Str(); v != "" {
			fmt.Fprintf(b, "%s    %s: %s\n", ind, f, q(v))
		}
	}
}

func connectYAML(b *strings.Builder, ind string, list *sx.Node) {
	if list.Len() == 0 {
		return
	}
	fmt.Fprintf(b, "%sconnect:\n", ind)
	for _, c := range list.List {
		fmt.Fprintf(b, "%s  - name: %s\n", ind, q(c.At(0).Str()))
		miscYAML(b, ind, c.At(3), "pull")
		if v := c.At(1).Str(); v != "" {
			fmt.Fprintf(b, "%s    transport: %s\n", ind, q(v))
		}
		if v := c.At(2).Str(); v != "" {
			fmt.Fprintf(b, "%s    target: %s\n", ind, q(v))
		}
	}
}

func roleYAML(b *strings.Builder, n *sx.Node, ind string, top bool) {
	pre, cont := ind+"- ", ind+"  "
	if top {
		pre, cont = "", ""
	}
	fmt.Fprintf(b, "%sname: %s\n", pre, q(n.At(1).Str()))
	if n.At(0).Str() == "T" {
		fmt.Fprintf(b, "%stask:\n%s  load: %s\n", cont, cont, q(n.At(2).Str()))
		bindYAML(b, cont, n.At(4))
		connectYAML(b, cont, n.At(5))
		return
	}
	bindYAML(b, cont, n.At(2))
	connectYAML(b, cont, n.At(3))
	if n.Len() == 4 {
		fmt.Fprintf(b, "%sroles: []\n", cont)
		return
	}
	fmt.Fprintf(b, "%sroles:\n", cont)
	for i := 4; i < n.Len(); i++ {
		roleYAML(b, n.At(i), cont+"  ", false)
	}
}

func classYAML(c *sx.Node) string {
	var b strings.Builder
	fmt.Fprintf(&b, "name: %s\ncontrol:\n  mode: %s\ncommand:\n  value: \"true\"\n  user: \"nobody\"\n  shell: true\nwants:\n  cpu: 0.01\n  memory: 1\n",
		q(c.At(0).Str()), c.At(1).Str())
	bindYAML(&b, "", c.At(2))
	connectYAML(&b, "", c.At(3))
	if c.At(4).Len() > 0 {
		b.WriteString("properties:\n")
		for _, kv := range c.At(4).List {
			fmt.Fprintf(&b, "  %s: %s\n", q(kv.At(0).Str()), q(kv.At(1).Str()))
		}
	}
	return b.String()
}

// ---- running the real thing ---------------------------------------------------------

var setupOnce sync.Once

func setup() {
	setupOnce.Do(func() {
		// BuildTaskCommand/BuildPropertyMap hand the.ConfSvc() to the template engine; the
		// mock backend needs no Consul and is never consulted (no template expressions here).
		viper.Set("configServiceUri", "mock://")
	})
}

var ipcRe = regexp.MustCompile(`@o2ipc-[0-9a-v]{20}`)

type captured struct {
	mu   sync.Mutex
	args map[string]map[string]string // taskId -> arguments as serialised for the executor
}

func (c *captured) send(cmd controlcommands.MesosCommand, rcv controlcommands.MesosCommandTarget) error {
	raw, err := json.Marshal(cmd) // exactly what schedulerState.sendCommand ships in the MESSAGE call
	if err != nil {
		return err
	}
	var dec struct {
		Name      string            `json:"name"`
		Event     string            `json:"event"`
		Arguments map[string]string `json:"arguments"`
	}
	if err := json.Unmarshal(raw, &dec); err != nil {
		return err
	}
	if dec.Event == "CONFIGURE" {
		c.mu.Lock()
		c.args[rcv.TaskId.Value] = dec.Arguments
		c.mu.Unlock()
	}
	return fmt.Errorf("verif: no executor")
}

func endpointSx(e channel.Endpoint) *sx.Node {
	switch v := e.(type) {
	case channel.TcpEndpoint:
		return sx.L(sx.A("tcp"), sx.A(v.Host), sx.U64(v.Port), sx.A(v.Transport.String()))
	case channel.IpcEndpoint:
		return sx.L(sx.A("ipc"), sx.A(v.Path), sx.A(v.Transport.String()))
	}
	return sx.L(sx.A("unknown"))
}

func classify(err error) string {
	s := err.Error()
	switch {
	case strings.Contains(s, "illegal redefinition of global channel alias"):
		return "alias_conflict"
	case strings.Contains(s, "could not match target for outbound channel"):
		return "unmatched"
	}
	return "other"
}

// viperMu: viper is process-global and not safe for concurrent use. The template form
// (tmpl.go) sets the loader's three concurrency switches per case under the write lock;
// everything that may read viper (launch, BuildTaskCommand, the.ConfSvc) runs under the read lock.
var viperMu sync.RWMutex

func runImpl(input string) (string, error) {
	setup()
	in, err := sx.Parse(input)
	if err != nil {
		return "", err
	}
	if in.Len() == 4 {
		return runTemplate(in)
	}
	viperMu.RLock()
	defer viperMu.RUnlock()
	hosts, classes, tree := in.At(0), in.At(1), in.At(2)

	cap := &captured{args: map[string]map[string]string{}}
	m := task.VerifC13NewManager(cap.send)
	defer m.VerifC13Stop()
	for _, c := range classes.List {
		cl := &taskclass.Class{}
		y := classYAML(c)
		if err := yaml.Unmarshal([]byte(y), cl); err != nil {
			return "", fmt.Errorf("class yaml: %v\n%s", err, y)
		}
		m.VerifC13AddClass(c.At(0).Str(), cl)
	}

	var b strings.Builder
	roleYAML(&b, tree, "", true)
	root := workflow.NewAggregatorRole("", nil)
	if err := yaml.Unmarshal([]byte(b.String()), root); err != nil {
		return "", fmt.Errorf("role yaml: %v\n%s", err, b.String())
	}
	workflow.LinkChildrenToParents(root)
	envId := uid.New()
	empty := func() gera.Map[string, string] { return gera.MakeMap[string, string]() }
	adapter := workflow.NewParentAdapter(func() uid.ID { return envId }, func() uint32 { return 0 },
		empty, empty, empty, nil)
	workflow.VerifC13SetParent(root, adapter)

	// host index per task role, in tree order
	var hostIdx []int
	var walk func(n *sx.Node)
	walk = func(n *sx.Node) {
		if n.At(0).Str() == "T" {
			hostIdx = append(hostIdx, n.At(3).Int())
			return
		}
		for i := 4; i < n.Len(); i++ {
			walk(n.At(i))
		}
	}
	walk(tree)
	return runLoaded(m, cap, root, envId, hosts, hostIdx, false)
}

// runLoaded: descriptors of the loaded role tree, launch of every task on its host, CONFIGURE.
// withSeen adds a third section to the observation: what every descriptor carries as
// RoleBind / RoleConnect (= Collect{In,Out}boundChannels of its task role).
func runLoaded(m *task.Manager, cap *captured, root workflow.Role, envId uid.ID, hosts *sx.Node, hostIdx []int,
	withSeen bool) (string, error) {

	// one offer per host; tasks of a host share what remains of it
	type hostState struct {
		offer     *mesos.Offer
		remaining mesos.Resources
	}
	hs := make([]*hostState, hosts.Len())
	for i, h := range hosts.List {
		br := resources.BuildRanges()
		for _, r := range h.List[1:] {
			br = br.Span(uint64(r.At(0).Int64()), uint64(r.At(1).Int64()))
		}
		res := mesos.Resources{}
		res.Add1(resources.NewCPUs(64).Resource)
		res.Add1(resources.NewMemory(65536).Resource)
		res.Add1(resources.Build().Name(resources.Name("ports")).Ranges(br.Ranges.Sort().Squash()).Resource)
		off := &mesos.Offer{
			ID:        mesos.OfferID{Value: fmt.Sprintf("offer-%d", i)},
			AgentID:   mesos.AgentID{Value: fmt.Sprintf("agent-%d", i)},
			Hostname:  h.At(0).Str(),
			Resources: res,
		}
		hs[i] = &hostState{offer: off, remaining: mesos.Resources(off.Resources)}
	}

	ds := root.GenerateTaskDescriptors()
	if len(ds) != len(hostIdx) {
		return "", fmt.Errorf("descriptors %d != task roles %d", len(ds), len(hostIdx))
	}
	seenDecls := sx.L()
	if withSeen {
		for _, d := range ds {
			seenDecls.Add(sx.L(sx.A(d.TaskRole.GetPath()), seenIn(d.RoleBind), seenOut(d.RoleConnect)))
		}
	}
	launch := sx.L()
	var tasks task.Tasks
	for i, d := range ds {
		if hostIdx[i] >= len(hs) {
			return "", fmt.Errorf("bad host index")
		}
		h := hs[hostIdx[i]]
		t, ti, err := m.VerifC13Launch(h.offer, d, h.remaining, fmt.Sprintf("exec-%d", i), envId)
		if err != nil {
			return "", err
		}
		if t == nil || ti == nil {
			return sx.L(sx.L(sx.A("launchfail"), sx.I(i)), sx.L(sx.A("err"), sx.A("other"))).String(), nil
		}
		// what manager.go does with a successfully deployed task
		t.GetParent().SetTask(t)
		tasks = append(tasks, t)

		lbm := t.GetLocalBindMap()
		keys := make([]string, 0, len(lbm))
		for k := range lbm {
			keys = append(keys, k)
		}
		sort.Strings(keys)
		kv := sx.L()
		for _, k := range keys {
			kv.Add(sx.L(sx.A(k), endpointSx(lbm[k])))
		}
		ports := sx.L()
		for _, r := range ti.Resources {
			if r.GetName() == "ports" && r.GetRanges() != nil {
				for _, rg := range r.GetRanges().GetRange() {
					ports.Add(sx.L(sx.U64(rg.Begin), sx.U64(rg.End)))
				}
			}
		}
		launch.Add(sx.L(sx.A(t.GetParentRolePath()), sx.A(t.GetHostname()), kv, ports))
	}

	var cfg *sx.Node
	if len(tasks) == 0 {
		cfg = sx.L(sx.A("err"), sx.A("other"))
	} else if err := m.VerifC13Configure(envId, tasks); err != nil && len(cap.args) == 0 {
		cfg = sx.L(sx.A("err"), sx.A(classify(err)))
	} else {
		if len(cap.args) != len(tasks) {
			return "", fmt.Errorf("captured %d CONFIGURE payloads for %d tasks (err=%v)", len(cap.args), len(tasks), err)
		}
		per := sx.L()
		for _, t := range tasks {
			args := cap.args[t.GetTaskId()]
			keys := make([]string, 0, len(args))
			for k := range args {
				keys = append(keys, k)
			}
			sort.Strings(keys)
			tl := sx.L()
			for _, k := range keys {
				v := args[k]
				if k == "environment_id" && v == envId.String() {
					v = "%env"
				}
				tl.Add(sx.L(sx.A(k), sx.A(v)))
			}
			per.Add(tl)
		}
		cfg = sx.L(sx.A("ok"), per)
	}

	obs := sx.L(launch, cfg)
	if withSeen {
		obs.Add(seenDecls)
	}
	out := obs.String()
	// fresh IPC paths embed an xid: rename by first appearance
	seen := map[string]string{}
	out = ipcRe.ReplaceAllStringFunc(out, func(s string) string {
		if r, ok := seen[s]; ok {
			return r
		}
		r := fmt.Sprintf("@o2ipc-%%%d", len(seen))
		seen[s] = r
		return r
	})
	return out, nil
}


// ---- generator -----------------------------------------------------------------------

type chIn struct {
	name, transport, addressing, target, global string
	misc                                        *chMisc
}
type chOut struct {
	name, transport, target string
	misc                    *chMisc
}

type role struct {
	agg   bool
	name  string
	cls   string
	host  int
	bind  []chIn
	conn  []chOut
	kids  []*role
	path  string
	up    *role
}

type class struct {
	name, mode string
	bind       []chIn
	conn       []chOut
	props      [][2]string // the template's `properties:` block (props.go)
}

func (c *class) sx() *sx.Node {
	n := sx.L(sx.A(c.name), sx.A(c.mode), insSx(c.bind), outsSx(c.conn))
	if len(c.props) > 0 {
		pl := sx.L()
		for _, kv := range c.props {
			pl.Add(sx.L(sx.A(kv[0]), sx.A(kv[1])))
		}
		n.Add(pl)
	}
	return n
}

// inbound and outbound channels draw their names from disjoint pools and every
// declaration list has distinct names, so channel names are unique within a task
// (the theorems' namesDistinct); a channel's alias is mostly derived from its name,
// one in three is the common "g_shared" (alias redefinition within a task and across tasks).
var inNames = []string{"data", "ctl", "mon", "raw", "sync"}
var outNames = []string{"in", "feed", "dpl", "src", "aux"}
var transports = []string{"", "default", "zeromq", "nanomsg", "shmem", "zeromq", "shmem"}

func inSx(c chIn) *sx.Node {
	n := sx.L(sx.A(c.name), sx.A(c.transport), sx.A(c.addressing), sx.A(c.target), sx.A(c.global))
	if c.misc != nil {
		n.Add(c.misc.sx())
	}
	return n
}
func outSx(c chOut) *sx.Node {
	n := sx.L(sx.A(c.name), sx.A(c.transport), sx.A(c.target))
	if c.misc != nil {
		n.Add(c.misc.sx())
	}
	return n
}
func insSx(cs []chIn) *sx.Node {
	n := sx.L()
	for _, c := range cs {
		n.Add(inSx(c))
	}
	return n
}
func outsSx(cs []chOut) *sx.Node {
	n := sx.L()
	for _, c := range cs {
		n.Add(outSx(c))
	}
	return n
}
func (r *role) sx() *sx.Node {
	if !r.agg {
		return sx.L(sx.A("T"), sx.A(r.name), sx.A(r.cls), sx.I(r.host), insSx(r.bind), outsSx(r.conn))
	}
	n := sx.L(sx.A("A"), sx.A(r.name), insSx(r.bind), outsSx(r.conn))
	for _, k := range r.kids {
		n.Add(k.sx())
	}
	return n
}

type stats struct {
	inboundTarget, aliasUse, explicitOut, badOut, aliasOut bool
}

func genIn(r *rng.R, name string, st *stats, aliasP int) chIn {
	c := chIn{name: name, transport: rng.Pick(r, transports)}
	switch x := r.N(100); {
	case x < 60:
		c.addressing = "tcp"
	case x < 92:
		c.addressing = "ipc"
	}
	switch x := r.N(100); {
	case x < 3:
		c.target = fmt.Sprintf("tcp://*:%d", 40000+r.N(100))
		st.inboundTarget = true
	case x < 5:
		c.target = "ipc:///tmp/static_" + name
		st.inboundTarget = true
	case x < 6:
		c.target = "bogus"
		st.inboundTarget = true
	}
	if r.N(100) < aliasP {
		c.global = "g_" + name
		if r.P(1, 3) {
			c.global = "g_shared" // may collide with another channel of the same task
		}
		st.aliasUse = true
	}
	return c
}

func pickDistinct(r *rng.R, pool []string, n int) []string {
	p := append([]string{}, pool...)
	rng.Shuffle(r, p)
	if n > len(p) {
		n = len(p)
	}
	return p[:n]
}

func genCase(r *rng.R, maxTasks int) fw.Case {
	st := &stats{}
	nHosts := r.Range(1, 4)
	hosts := sx.L()
	for i := 0; i < nHosts; i++ {
		h := sx.L(sx.A(fmt.Sprintf("%s%d", rng.Pick(r, []string{"flp", "epn", "qc"}), i+1)))
		lo := 9000
		switch r.N(6) {
		case 0:
			lo = 8990 // the allocator must skip everything below 9000
		case 1:
			lo = 9000 + r.N(500)
		}
		if r.P(1, 4) { // fragmented offer
			h.Add(sx.L(sx.I(lo), sx.I(lo+r.Range(0, 12))), sx.L(sx.I(lo+20), sx.I(lo+90)))
		} else {
			h.Add(sx.L(sx.I(lo), sx.I(lo+90)))
		}
		cb := 30000 + 100*r.N(3)
		h.Add(sx.L(sx.I(cb), sx.I(cb+60)))
		hosts.Add(h)
	}

	nClasses := r.Range(1, 3)
	classes := make([]*class, nClasses)
	for i := range classes {
		c := &class{name: fmt.Sprintf("cls%d", i), mode: rng.Pick(r, []string{"fairmq", "fairmq", "direct"})}
		for _, n := range pickDistinct(r, inNames, r.N(4)) {
			c.bind = append(c.bind, genIn(r, n, st, 12))
		}
		for _, n := range pickDistinct(r, outNames, r.N(3)) {
			o := chOut{name: n, transport: rng.Pick(r, transports)}
			if r.P(1, 3) {
				o.target = "tcp://ignored:1" // the class loader drops template-level targets
			}
			c.conn = append(c.conn, o)
		}
		classes[i] = c
	}

	// tree
	nTasks := r.Range(1, maxTasks)
	var tasks []*role
	var aggs []*role
	root := &role{agg: true, name: "root", path: "root"}
	aggs = append(aggs, root)
	id := 0
	for len(tasks) < nTasks {
		parent := rng.Pick(r, aggs)
		depth := strings.Count(parent.path, ".")
		id++
		if depth < 3 && r.P(1, 4) {
			a := &role{agg: true, name: fmt.Sprintf("a%d", id), up: parent}
			a.path = parent.path + "." + a.name
			parent.kids = append(parent.kids, a)
			aggs = append(aggs, a)
			continue
		}
		t := &role{name: fmt.Sprintf("t%d", id), cls: rng.Pick(r, classes).name, host: r.N(nHosts), up: parent}
		t.path = parent.path + "." + t.name
		parent.kids = append(parent.kids, t)
		tasks = append(tasks, t)
	}
	// an aggregator without children is pruned by the loader; give each one a task
	for _, a := range aggs {
		if len(a.kids) == 0 {
			id++
			t := &role{name: fmt.Sprintf("t%d", id), cls: rng.Pick(r, classes).name, host: r.N(nHosts), up: a}
			t.path = a.path + "." + t.name
			a.kids = append(a.kids, t)
			tasks = append(tasks, t)
		}
	}
	// role-level inbound declarations
	for _, a := range aggs {
		if r.P(1, 6) {
			for _, n := range pickDistinct(r, inNames, r.Range(1, 2)) {
				a.bind = append(a.bind, genIn(r, n, st, 5))
			}
		}
	}
	for _, t := range tasks {
		if r.P(1, 3) {
			for _, n := range pickDistinct(r, inNames, r.Range(1, 2)) {
				t.bind = append(t.bind, genIn(r, n, st, 15))
			}
		}
	}
	classOf := func(n string) *class {
		for _, c := range classes {
			if c.name == n {
				return c
			}
		}
		return nil
	}
	// what each task will advertise (nearest role declaration, else the class's)
	var keys, aliases []string
	for _, t := range tasks {
		eff := map[string]chIn{}
		for _, c := range classOf(t.cls).bind {
			eff[c.name] = c
		}
		var chain []*role
		for x := t; x != nil; x = x.up {
			chain = append(chain, x)
		}
		for i := len(chain) - 1; i >= 0; i-- {
			for _, c := range chain[i].bind {
				eff[c.name] = c
			}
		}
		for _, n := range inNames {
			if c, ok := eff[n]; ok {
				keys = append(keys, t.path+":"+n)
				if c.global != "" {
					aliases = append(aliases, "::"+c.global)
				}
			}
		}
	}
	target := func() string {
		x := r.N(100)
		switch {
		case x < 70 && len(keys) > 0:
			return rng.Pick(r, keys)
		case x < 80 && len(aliases) > 0:
			st.aliasOut = true
			return rng.Pick(r, aliases)
		case x < 88:
			st.explicitOut = true
			return fmt.Sprintf("tcp://%s:%d", rng.Pick(r, []string{"far.host", "10.0.0.7", "flp1"}), 1000+r.N(60000))
		case x < 92:
			st.explicitOut = true
			return "ipc://@named-" + fmt.Sprint(r.N(5))
		case x < 94:
			st.badOut = true
			return rng.Pick(r, tasks).path + ":" + rng.Pick(r, []string{"nochan", "", "data2"})
		case x < 96:
			st.badOut = true
			return rng.Pick(r, tasks).path // path without a channel
		case x < 97:
			st.badOut = true
			return "::" + rng.Pick(r, []string{"g_none", "", "data"})
		case x < 98:
			st.badOut = true
			return ""
		case len(keys) > 0:
			return rng.Pick(r, keys)
		}
		st.badOut = true
		return "root.nowhere:data"
	}
	hasConn := func(x *role, n string) bool {
		for _, c := range x.conn {
			if c.name == n {
				return true
			}
		}
		return false
	}
	// role-level outbound declarations: mostly complete the class's connect list with targets
	for _, t := range tasks {
		for _, cc := range classOf(t.cls).conn {
			if !r.P(19, 20) {
				continue // left without a target: this configuration must fail
			}
			at := t
			if r.P(1, 6) && t.up != nil {
				at = t.up
			}
			if !hasConn(at, cc.name) {
				at.conn = append(at.conn, chOut{name: cc.name, transport: rng.Pick(r, transports), target: target()})
			}
		}
		if r.P(1, 3) {
			n := rng.Pick(r, outNames)
			if !hasConn(t, n) {
				t.conn = append(t.conn, chOut{name: n, transport: rng.Pick(r, transports), target: target()})
			}
		}
	}
	if r.P(1, 8) {
		a := rng.Pick(r, aggs)
		n := rng.Pick(r, outNames)
		if !hasConn(a, n) {
			a.conn = append(a.conn, chOut{name: n, transport: rng.Pick(r, transports), target: target()})
		}
	}

	// the rest of the property map: `properties:` blocks of the task templates (keys that collide with
	// generated channel keys and keys that do not) and the channel fields that only end up in FairMQ keys
	var roles []*role
	roles = append(roles, aggs...)
	roles = append(roles, tasks...)
	ptags := decorate(r.Fork(), classes, roles)

	cl := sx.L()
	for _, c := range classes {
		cl.Add(c.sx())
	}
	tags := []string{fmt.Sprintf("tasks=%d", len(tasks)), fmt.Sprintf("hosts=%d", nHosts)}
	tags = append(tags, ptags...)
	for k, v := range map[string]bool{"inbound-target": st.inboundTarget, "alias-declared": st.aliasUse,
		"explicit-outbound": st.explicitOut, "bad-outbound-target": st.badOut, "alias-outbound": st.aliasOut} {
		if v {
			tags = append(tags, k)
		}
	}
	sort.Strings(tags)
	return fw.Case{Input: sx.L(hosts, cl, root.sx()).String(), Tags: tags}
}

func generate(tier string, r *rng.R) []fw.Case {
	n, maxTasks := 10000, 6
	if tier == "thorough" {
		n, maxTasks = 150000, 10
	}
	cs := make([]fw.Case, 0, n)
	for i := 0; i < n; i++ {
		cs = append(cs, genCase(r.Fork(), maxTasks))
	}
	// the template form (tmpl.go): fixed scenarios, then generated workflow templates with iterators
	nt, maxT := 1500, 8
	if tier == "thorough" {
		nt, maxT = 20000, 12
	}
	cs = append(cs, templateScenarios()...)
	rt := r.Fork()
	for i := 0; i < nt; i++ {
		cs = append(cs, genTemplateCase(rt.Fork(), maxT))
	}
	return cs
}

// non-trivial: the configuration went through for at least two tasks and at least one
// outbound channel was resolved against the bind map (address not equal to a declared explicit target),
// or it was rejected for a reason the property names.
func nontrivial(input, obs string) bool {
	o, err := sx.Parse(obs)
	if err != nil || (o.Len() != 2 && o.Len() != 3) {
		return false
	}
	if o.At(0).Len() < 2 {
		return false
	}
	cfg := o.At(1)
	if cfg.At(0).Str() == "err" {
		return cfg.At(1).Str() == "alias_conflict" || cfg.At(1).Str() == "unmatched"
	}
	connects, binds := 0, 0
	for _, t := range cfg.At(1).List {
		for _, e := range t.List {
			if !strings.HasSuffix(e.At(0).Str(), ".0.method") {
				continue
			}
			if e.At(1).Str() == "connect" {
				connects++
			} else {
				binds++
			}
		}
	}
	return connects >= 1 && binds >= 1
}

// shrink: drop one role, one class-level or role-level channel declaration.
func shrinkCands(input string) []string {
	in, err := sx.Parse(input)
	if err != nil {
		return nil
	}
	if in.Len() == 4 {
		return shrinkTemplate(in)
	}
	var out []string
	emit := func() { out = append(out, in.String()) }
	// drop the i-th element of a list node, emit, restore
	drop := func(n *sx.Node, i int) {
		old := n.List
		n.List = append(append([]*sx.Node{}, old[:i]...), old[i+1:]...)
		emit()
		n.List = old
	}
	var walk func(n *sx.Node)
	walk = func(n *sx.Node) {
		if n.At(0).Str() == "T" {
			for _, l := range []*sx.Node{n.At(4), n.At(5)} {
				for i := range l.List {
					drop(l, i)
				}
			}
			return
		}
		for _, l := range []*sx.Node{n.At(2), n.At(3)} {
			for i := range l.List {
				drop(l, i)
			}
		}
		for i := 4; i < n.Len(); i++ {
			if n.Len() > 5 || n.At(i).At(0).Str() == "A" {
				drop(n, i)
			}
		}
		for i := 4; i < n.Len(); i++ {
			walk(n.At(i))
		}
	}
	walk(in.At(2))
	for _, c := range in.At(1).List {
		for _, l := range []*sx.Node{c.At(2), c.At(3)} {
			for i := range l.List {
				drop(l, i)
			}
		}
	}
	out = append(out, shrinkPropsAndMisc(in)...)
	return out
}

func init() {
	fw.Register(&fw.Property{
		ID:         "C13",
		Generate:   generate,
		RunImpl:    runImpl,
		Nontrivial: nontrivial,
		Rule: "random workflows: 1..6 (thorough 1..10) task roles under aggregators up to depth 4 on 1..4 hosts (one Mesos offer each: " +
			"contiguous or fragmented port ranges, some starting below 9000), 1..3 task templates (fairmq/direct) with 0..3 bind and 0..2 connect " +
			"declarations, bind/connect declarations at aggregator and task-role level overriding the template's, all four transports or none, " +
			"tcp/ipc/absent addressing, global aliases (shared templates make them collide), inbound channels with static/invalid targets, outbound " +
			"targets = advertised path:channel 70% / alias 10% / explicit tcp:// ipc:// 12% / near-miss, unknown or empty 8%, template-level connect " +
			"left without a role-level target 5%; the rest of the property map: 30% of the task templates carry a `properties:` block of 1..4 keys — " +
			"keys of a declared channel of the template or of a role (chans.<n>.0.address / transport / method / type / rateLogging / sndBufSize / " +
			"rcvBufSize / rcvKernelSize / sndKernelSize / autoBind, chans.<n>.numSockets; tags props:collide-*), keys of no channel of the task " +
			"(plain keys, environment_id, chans.<undeclared>.0.address; tag props:free), 8% of the channel declarations set type / sndBufSize / " +
			"rcvBufSize / rateLogging (tag misc); every case runs the real YAML loaders, GenerateTaskDescriptors, makeTaskForMesosResources and " +
			"configureTasks; non-trivial = >=2 tasks launched and (configuration sent with >=1 bind and >=1 connect entry, or rejected as " +
			"unmatched / alias conflict); distinct by input text. " +
			"Template form (tag tmpl, 12 fixed scenarios + 1500 generated, thorough 20000): workflow TEMPLATES with iterator roles " +
			"(`for:` begin/end or range, 1..3 values, nested up to 2 deep, around task roles and around aggregators, occasionally re-using " +
			"the outer variable's name), role names / connect targets / bind aliases written as expressions over {{ var }}, " +
			"{{ Parent().Path }}, {{ Parent().Name }}, {{ This().Path }}, {{ This().Name }}: targets name the binder of the SAME iteration " +
			"through shared variables or the parent's path, a fixed instance of a foreign iterator, a per-instance alias ::g-{{ it }}, an " +
			"explicit tcp://far-{{ it }}…, or nothing (near-miss channel, unknown role); declarations at task-role level, one aggregator up, " +
			"and in the task template (no target); loaded by the real YAML unmarshallers + ProcessTemplates under one of the 8 settings of " +
			"the loader's concurrency switches (part of the input), then as above; the observation additionally carries, per generated task " +
			"role, the RoleBind/RoleConnect of its descriptor with the resolved text; up to ~10 generated task roles spread over the hosts",
		Shrink:  shrinkCands,
		Workers: 8,
		TrustedBase: []string{
			"harness/props/c13 (YAML rendering of roles/classes, mesos.Offer construction, JSON capture of the CONFIGURE command, IPC path renaming)",
			"core/task/verif_hook_c13.go, core/workflow/verif_hook_c13.go (wiring only: Manager without Mesos, access to makeTaskForMesosResources/configureTasks/setParent)",
			"Driver/C13 parsing incl. YAML defaulting of absent transport/addressing/type/buffer sizes/rateLogging, launch monitor, " +
				"property keys text <-> structured (chans.<n>.0.<field> | chans.<n>.numSockets | verbatim; a key is read as a channel key only if rendering it gives the text back)",
			"template form: rendering of expression segments to {{ … }} text, placement convention (j-th generated task role on host (base+j) mod #hosts), " +
				"the template engine (fasttemplate + expr) as evaluator of the five expression forms; viper switches set under a process-wide lock",
		},
		Assumptions: []string{
			"plain form: targets and aliases are plain strings; template form: expressions are concatenations of literals, iteration variables and " +
				"Parent()/This() name/path accessors, every variable used is bound by an enclosing iterator, no `enabled:`/vars/defaults blocks",
			"the tasks handed to configureTasks are the environment's task roles in tree order, each launched once",
			"task classes are FAIRMQ or DIRECT (BASIC tasks receive no channel configuration)",
			"property values are plain text (no {{ }} expressions, no __ptree__: prefix), the variable pdp_override_run_start_time is not set: " +
				"the template pass over the property map and the orbit-reset-time push are not exercised here",
		},
	})
}
