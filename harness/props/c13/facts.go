package c13

import (
	"bytes"
	"fmt"
	"go/ast"
	"go/parser"
	"go/printer"
	"go/token"
	"path/filepath"
	"strings"

	"verifharness/fw"
)

// go/ast fact about core/task/manager.go, configureTasks (regenerated on every check into
// Gen/C13Facts.lean, identified with the model's configuration by C13_alias_check_is_code).
//
// declaredAliasesCheckedPerTask — holds iff, in the body of the loop `for … := range tasks`,
//   - some variable V is assigned from an expression that calls `CollectInboundChannels()` (the task's
//     channel DECLARATIONS, not its local bind map),
//   - a loop `for … := range V` stands at the top level of that body, BEFORE the loop over
//     `task.GetLocalBindMap()`, reads the `.Global` field of its loop variable, and contains a
//     `return fmt.Errorf("…illegal redefinition of global channel alias…", …)`,
//   - and that return is guarded by a condition that compares against the loop variable's `.Name`
//     (a channel does not conflict with itself).
// Then configureTasks rejects a task two of whose declared inbound channels name one global alias
// before it uses the task's local bind map (model: Cfg.aliasPerTask, aliasScan). The differential
// run is what ties the exact behaviour of the loop; this fact makes the PROOF break as well when
// the check disappears.

const aliasErrText = "illegal redefinition of global channel alias"

type aliasCheckFacts struct {
	declVars        int  // variables assigned from CollectInboundChannels() in the task loop
	declLoops       int  // top-level loops over such a variable
	rejectingLoops  int  // … that read .Global and return the alias error
	beforeLocalLoop bool // the rejecting loop stands before the loop over GetLocalBindMap()
	guardedByName   bool // the return is guarded by a comparison with .Name
	ok              bool
}

func nodeStr(fset *token.FileSet, n ast.Node) string {
	var b bytes.Buffer
	printer.Fprint(&b, fset, n)
	return strings.Join(strings.Fields(b.String()), " ")
}

func aliasCheck(repo string) (aliasCheckFacts, error) {
	var af aliasCheckFacts
	fset := token.NewFileSet()
	f, err := parser.ParseFile(fset, filepath.Join(repo, "core/task/manager.go"), nil, 0)
	if err != nil {
		return af, err
	}
	var fn *ast.FuncDecl
	for _, d := range f.Decls {
		if fd, ok := d.(*ast.FuncDecl); ok && fd.Name.Name == "configureTasks" && fd.Body != nil {
			fn = fd
		}
	}
	if fn == nil {
		return af, fmt.Errorf("core/task/manager.go: configureTasks not found")
	}
	// the loop over the tasks whose local bind maps are read
	var taskLoop *ast.RangeStmt
	for _, st := range fn.Body.List {
		rs, ok := st.(*ast.RangeStmt)
		if !ok || nodeStr(fset, rs.X) != "tasks" {
			continue
		}
		if strings.Contains(nodeStr(fset, rs.Body), "GetLocalBindMap()") {
			taskLoop = rs
			break
		}
	}
	if taskLoop == nil {
		return af, fmt.Errorf("configureTasks: loop over tasks reading GetLocalBindMap() not found")
	}
	// variables holding the declarations
	declVars := map[string]bool{}
	for _, st := range taskLoop.Body.List {
		ast.Inspect(st, func(n ast.Node) bool {
			as, ok := n.(*ast.AssignStmt)
			if !ok || len(as.Lhs) != 1 || len(as.Rhs) != 1 {
				return true
			}
			id, ok := as.Lhs[0].(*ast.Ident)
			if !ok {
				return true
			}
			if strings.Contains(nodeStr(fset, as.Rhs[0]), "CollectInboundChannels()") {
				declVars[id.Name] = true
			}
			return true
		})
	}
	af.declVars = len(declVars)
	var localLoopPos token.Pos
	for _, st := range taskLoop.Body.List {
		if rs, ok := st.(*ast.RangeStmt); ok && strings.HasSuffix(nodeStr(fset, rs.X), "GetLocalBindMap()") {
			localLoopPos = rs.Pos()
			break
		}
	}
	for _, st := range taskLoop.Body.List {
		rs, ok := st.(*ast.RangeStmt)
		if !ok {
			continue
		}
		x, ok := rs.X.(*ast.Ident)
		if !ok || !declVars[x.Name] {
			continue
		}
		af.declLoops++
		v, ok := rs.Value.(*ast.Ident)
		if !ok {
			continue
		}
		readsGlobal := strings.Contains(nodeStr(fset, rs.Body), v.Name+".Global")
		rejects, guarded := false, false
		ast.Inspect(rs.Body, func(n ast.Node) bool {
			is, ok := n.(*ast.IfStmt)
			if !ok {
				return true
			}
			for _, s := range is.Body.List {
				ret, ok := s.(*ast.ReturnStmt)
				if !ok || len(ret.Results) != 1 {
					continue
				}
				r := nodeStr(fset, ret.Results[0])
				if strings.HasPrefix(r, "fmt.Errorf(") && strings.Contains(r, aliasErrText) {
					rejects = true
					if strings.Contains(nodeStr(fset, is.Cond), "!= "+v.Name+".Name") ||
						strings.Contains(nodeStr(fset, is.Cond), v.Name+".Name !=") {
						guarded = true
					}
				}
			}
			return true
		})
		if readsGlobal && rejects {
			af.rejectingLoops++
			af.guardedByName = guarded
			af.beforeLocalLoop = localLoopPos != token.NoPos && rs.Pos() < localLoopPos
		}
	}
	af.ok = af.rejectingLoops == 1 && af.beforeLocalLoop && af.guardedByName
	return af, nil
}

// go/ast fact about core/task/task.go, BuildPropertyMap (identified with the model's configuration by
// C13_property_order_is_code).
//
// declaredPropertiesBeforeChannelConfig — holds iff, in the body of BuildPropertyMap,
//   - exactly ONE loop ranges over `t.GetProperties()` (anywhere in the function), and its body assigns its
//     key/value variables into the result map (`propMap[k] = v`),
//   - exactly one statement at the same block level contains the calls `.ToFMQMap(` (the block "For FAIRMQ
//     tasks, we append FairMQ channel configuration") and the properties loop stands BEFORE it in that block,
//   - inside that statement every `propMap[k] = v` stands in a loop over the value `ToFMQMap` returned
//     (the generated keys are written unconditionally, not "only if absent").
// Then a generated channel key always replaces a declared property of the same name (model:
// Cfg.generatedLast). The differential run ties the exact contents of the map.
type orderFacts struct {
	propLoops       int  // loops over t.GetProperties() in BuildPropertyMap
	copiesIntoMap   bool // the loop body is `propMap[k] = v`
	channelBlocks   int  // sibling statements containing .ToFMQMap(
	propsFirst      bool // the properties loop stands before the channel block, same block
	unconditionalFM bool // no `if _, ok := propMap[k]` style guard around the generated writes
	ok              bool
}

func propertyOrder(repo string) (orderFacts, error) {
	var of orderFacts
	fset := token.NewFileSet()
	f, err := parser.ParseFile(fset, filepath.Join(repo, "core/task/task.go"), nil, 0)
	if err != nil {
		return of, err
	}
	var fn *ast.FuncDecl
	for _, d := range f.Decls {
		if fd, ok := d.(*ast.FuncDecl); ok && fd.Name.Name == "BuildPropertyMap" && fd.Body != nil {
			fn = fd
		}
	}
	if fn == nil {
		return of, fmt.Errorf("core/task/task.go: BuildPropertyMap not found")
	}
	// name of the result map
	res := "propMap"
	if fn.Type.Results != nil && len(fn.Type.Results.List) > 0 && len(fn.Type.Results.List[0].Names) > 0 {
		res = fn.Type.Results.List[0].Names[0].Name
	}
	isPropLoop := func(st ast.Stmt) (*ast.RangeStmt, bool) {
		rs, ok := st.(*ast.RangeStmt)
		if !ok {
			return nil, false
		}
		return rs, strings.HasSuffix(nodeStr(fset, rs.X), ".GetProperties()")
	}
	ast.Inspect(fn.Body, func(n ast.Node) bool {
		if st, ok := n.(ast.Stmt); ok {
			if _, yes := isPropLoop(st); yes {
				of.propLoops++
			}
		}
		return true
	})
	// the block that holds the properties loop
	ast.Inspect(fn.Body, func(n ast.Node) bool {
		blk, ok := n.(*ast.BlockStmt)
		if !ok {
			return true
		}
		var loop *ast.RangeStmt
		for _, st := range blk.List {
			if rs, yes := isPropLoop(st); yes {
				loop = rs
			}
		}
		if loop == nil {
			return true
		}
		k, kok := loop.Key.(*ast.Ident)
		v, vok := loop.Value.(*ast.Ident)
		if kok && vok && len(loop.Body.List) == 1 {
			of.copiesIntoMap = nodeStr(fset, loop.Body.List[0]) == fmt.Sprintf("%s[%s] = %s", res, k.Name, v.Name)
		}
		for _, st := range blk.List {
			if _, yes := isPropLoop(st); yes {
				continue
			}
			txt := nodeStr(fset, st)
			if !strings.Contains(txt, ".ToFMQMap(") {
				continue
			}
			of.channelBlocks++
			of.propsFirst = loop.Pos() < st.Pos()
			// generated writes: every assignment into the result map inside the block is a plain `res[k] = v`
			// directly inside a range loop (no surrounding `if … ok` on the result map)
			of.unconditionalFM = true
			ast.Inspect(st, func(m ast.Node) bool {
				is, ok := m.(*ast.IfStmt)
				if !ok {
					return true
				}
				cond := nodeStr(fset, is.Cond)
				ini := ""
				if is.Init != nil {
					ini = nodeStr(fset, is.Init)
				}
				if strings.Contains(cond, res+"[") || strings.Contains(ini, res+"[") {
					of.unconditionalFM = false
				}
				return true
			})
		}
		return false
	})
	of.ok = of.propLoops == 1 && of.copiesIntoMap && of.channelBlocks == 1 && of.propsFirst && of.unconditionalFM
	return of, nil
}

func genFacts(repo string) (string, error) {
	af, err := aliasCheck(repo)
	if err != nil {
		return "", err
	}
	of, err := propertyOrder(repo)
	if err != nil {
		return "", err
	}
	var b strings.Builder
	b.WriteString("namespace Gen.C13\n\n")
	b.WriteString("/-- core/task/manager.go, configureTasks (go/ast): inside the loop over the tasks and before the loop over\n" +
		"    `task.GetLocalBindMap()`, a loop over the task's channel DECLARATIONS (a variable assigned from\n" +
		"    `CollectInboundChannels()`) reads `.Global` and returns the \"illegal redefinition of global channel alias\" error,\n" +
		"    guarded by a comparison with the channel's `.Name` -/\n")
	fmt.Fprintf(&b, "def declaredAliasesCheckedPerTask : Bool := %v\n\n", af.ok)
	fmt.Fprintf(&b, "/-- (variables holding the declarations, top-level loops over one, of which rejecting, before the local-bind-map loop, guarded by the name) -/\n"+
		"def aliasCheckCounts : Nat × Nat × Nat × Bool × Bool := (%d, %d, %d, %v, %v)\n\n",
		af.declVars, af.declLoops, af.rejectingLoops, af.beforeLocalLoop, af.guardedByName)
	b.WriteString("/-- core/task/task.go, BuildPropertyMap (go/ast): the one loop over `t.GetProperties()` copies into the result map and\n" +
		"    stands, in the same block, BEFORE the one statement that calls `ToFMQMap` and copies the generated channel keys,\n" +
		"    which are written unconditionally -/\n")
	fmt.Fprintf(&b, "def declaredPropertiesBeforeChannelConfig : Bool := %v\n\n", of.ok)
	fmt.Fprintf(&b, "/-- (loops over GetProperties(), body is `propMap[k] = v`, sibling statements calling ToFMQMap, properties first, generated writes unguarded) -/\n"+
		"def propertyOrderCounts : Nat × Bool × Nat × Bool × Bool := (%d, %v, %d, %v, %v)\n\n",
		of.propLoops, of.copiesIntoMap, of.channelBlocks, of.propsFirst, of.unconditionalFM)
	b.WriteString("end Gen.C13\n")
	return b.String(), nil
}

func init() {
	fw.RegisterGen(fw.GenFile{Name: "C13Facts.lean", Make: genFacts})
}
