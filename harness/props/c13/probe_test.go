package c13

import (
	"fmt"
	"os"
	"strings"
	"testing"

	"verifharness/rng"
	"verifharness/sx"
)

func TestProbe(t *testing.T) {
	data, _ := os.ReadFile("/tmp/c13probe/inputs.txt")
	for _, in := range strings.Split(strings.TrimSpace(string(data)), "\n") {
		if in == "" {
			continue
		}
		obs, err := runImpl(in)
		fmt.Printf("IN  %s\nOBS %s\nERR %v\n\n", in, obs, err)
	}
}

func TestDist(t *testing.T) {
	r := rng.New(7)
	cnt := map[string]int{}
	for i := 0; i < 3000; i++ {
		c := genCase(r.Fork(), 6)
		obs, err := runImpl(c.Input)
		if err != nil {
			cnt["ERR "+err.Error()[:40]]++
			continue
		}
		o, _ := sx.Parse(obs)
		cfg := o.At(1)
		k := cfg.At(0).Str()
		if k == "err" {
			k += " " + cfg.At(1).Str()
		}
		if o.At(0).At(0).Str() == "launchfail" {
			k = "launchfail"
		}
		cnt[k]++
	}
	fmt.Println(cnt)
}
