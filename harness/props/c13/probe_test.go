package c13

import (
	"fmt"
	"os"
	"strings"
	"testing"
)

func TestProbe(t *testing.T) {
	data, _ := os.ReadFile("/tmp/c13probe/inputs.txt")
	for _, in := range strings.Split(strings.TrimSpace(string(data)), "\n") {
		if in == "" { continue }
		obs, err := runImpl(in)
		fmt.Printf("IN  %s\nOBS %s\nERR %v\n\n", in, obs, err)
	}
}
