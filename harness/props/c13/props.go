package c13

// The rest of the CONFIGURE property map (class "task templates with a `properties:` block"):
//
//   - `properties:` of a task template is copied into every task's property map by
//     Task.BuildPropertyMap BEFORE the generated FairMQ channel keys are appended, so a declared key
//     that is also a generated key of one of the task's channels (chans.<n>.0.address, .transport,
//     .method, .type, .rateLogging, .sndBufSize, .rcvBufSize, .rcvKernelSize, .sndKernelSize, .autoBind,
//     chans.<n>.numSockets) never reaches the executor, and every other declared key does, unchanged;
//   - the channel fields type / sndBufSize / rcvBufSize / rateLogging only show in those generated keys.
//
// decorate() adds both to an already generated case from a forked PRNG, so the shape of the workflow
// (roles, channels, targets) for a given seed is what it was before this class existed.

import (
	"fmt"
	"sort"
	"strconv"

	"github.com/AliceO2Group/Control/core/task/channel"

	"verifharness/rng"
	"verifharness/sx"
)

// chMisc: the optional 6th / 4th element of a bind / connect declaration; "" = absent in the YAML.
type chMisc struct{ typ, snd, rcv, rate string }

func (m *chMisc) sx() *sx.Node { return sx.L(sx.A(m.typ), sx.A(m.snd), sx.A(m.rcv), sx.A(m.rate)) }

func genMisc(r *rng.R) *chMisc {
	return &chMisc{
		typ:  rng.Pick(r, []string{"", "", "push", "pull", "pub", "sub"}),
		snd:  rng.Pick(r, []string{"", "", "1", "250", "4000"}),
		rcv:  rng.Pick(r, []string{"", "", "2", "1000", "65536"}),
		rate: rng.Pick(r, []string{"", "", "0", "1", "60"}),
	}
}

// what a channel resolved from YAML carries in those fields (the `seen` section of the template form)
func seenMisc(c channel.Channel) *sx.Node {
	return sx.L(sx.A(c.Type.String()), sx.A(strconv.Itoa(c.SndBufSize)), sx.A(strconv.Itoa(c.RcvBufSize)), sx.A(c.RateLogging))
}

// every kind of key buildFMQMap writes
var fmqFields = []string{"address", "transport", "method", "type", "rateLogging", "sndBufSize", "rcvBufSize",
	"rcvKernelSize", "sndKernelSize", "autoBind"}

func collidingValue(r *rng.R, field string) string {
	switch field {
	case "address":
		return rng.Pick(r, []string{"tcp://localhost:5555", "tcp://*:5555", "ipc:///tmp/standalone", "tcp://127.0.0.1:" + strconv.Itoa(20000+r.N(100))})
	case "transport":
		return rng.Pick(r, []string{"zeromq", "shmem", "nanomsg", "default"})
	case "method":
		return rng.Pick(r, []string{"bind", "connect"})
	case "type":
		return rng.Pick(r, []string{"push", "pull", "pub", "sub", "pair"})
	case "numSockets":
		return rng.Pick(r, []string{"2", "4"})
	}
	return rng.Pick(r, []string{"0", "1", "7", "123456"})
}

var freeKeys = []string{"severity", "color", "session", "channel-config", "monitoring-url", "fairmq.rate", "chans", "chans.data",
	"chans.data.0", "chans.data.1.address", "chans.spare.0.address", "chans.spare.numSockets", "data.0.address"}

// decorate: properties for the classes, misc for class- and role-level channel declarations. Returns tags.
func decorate(r *rng.R, classes []*class, roles []*role) []string {
	tag := map[string]bool{}
	misc := func() *chMisc {
		if r.N(100) < 8 {
			tag["misc"] = true
			return genMisc(r)
		}
		return nil
	}
	for _, c := range classes {
		for i := range c.bind {
			c.bind[i].misc = misc()
		}
		for i := range c.conn {
			c.conn[i].misc = misc()
		}
	}
	for _, x := range roles {
		for i := range x.bind {
			x.bind[i].misc = misc()
		}
		for i := range x.conn {
			x.conn[i].misc = misc()
		}
	}
	for _, c := range classes {
		if r.N(100) >= 30 {
			continue
		}
		tag["props"] = true
		// channel names a task of this template may carry: the template's own, or any of the pools (role level)
		var own []string
		for _, b := range c.bind {
			own = append(own, b.name)
		}
		for _, o := range c.conn {
			own = append(own, o.name)
		}
		seen := map[string]bool{}
		for n := r.Range(1, 4); n > 0; n-- {
			var k, v string
			if r.N(100) < 50 {
				var ch string
				switch {
				case len(own) > 0 && r.N(100) < 70:
					ch = rng.Pick(r, own)
				case r.Bool():
					ch = rng.Pick(r, inNames)
				default:
					ch = rng.Pick(r, outNames)
				}
				var f string
				switch x := r.N(100); {
				case x < 35:
					f = "address"
				case x < 55:
					f = "transport"
				case x < 65:
					f = "method"
				case x < 72:
					f = "numSockets"
				default:
					f = rng.Pick(r, fmqFields[3:])
				}
				if f == "numSockets" {
					k = "chans." + ch + ".numSockets"
				} else {
					k = "chans." + ch + ".0." + f
				}
				v = collidingValue(r, f)
				switch f {
				case "address", "transport", "method":
					tag["props:collide-"+f] = true
				default:
					tag["props:collide-other"] = true
				}
			} else {
				if r.N(100) < 8 {
					k, v = "environment_id", "standalone"
				} else {
					k = rng.Pick(r, freeKeys)
					v = rng.Pick(r, []string{"info", "true", "tcp://localhost:5555", "", "a b", "42", "x=1;y=2"})
				}
				tag["props:free"] = true
			}
			if seen[k] {
				continue
			}
			seen[k] = true
			c.props = append(c.props, [2]string{k, v})
		}
	}
	var tags []string
	for k := range tag {
		tags = append(tags, k)
	}
	sort.Strings(tags)
	return tags
}

// shrink candidates: one property less, a channel declaration without its misc element
func shrinkPropsAndMisc(in *sx.Node) []string {
	var out []string
	for _, c := range in.At(1).List {
		if c.Len() == 5 {
			pl := c.List[4]
			old := pl.List
			for i := range old {
				pl.List = append(append([]*sx.Node{}, old[:i]...), old[i+1:]...)
				if len(pl.List) == 0 {
					c.List = c.List[:4]
				}
				out = append(out, in.String())
				c.List = append(c.List[:4], pl)
				pl.List = old
			}
		}
	}
	strip := func(l *sx.Node, full int) {
		for _, d := range l.List {
			if d.IsList && d.Len() == full {
				old := d.List
				d.List = old[:full-1]
				out = append(out, in.String())
				d.List = old
			}
		}
	}
	for _, c := range in.At(1).List {
		strip(c.At(2), 6)
		strip(c.At(3), 4)
	}
	var walk func(n *sx.Node)
	walk = func(n *sx.Node) {
		if !n.IsList || n.Len() == 0 {
			return
		}
		switch n.At(0).Str() {
		case "I":
			if n.Len() == 4 {
				walk(n.At(3))
			}
		case "T":
			strip(n.At(4), 6)
			strip(n.At(5), 4)
		case "A":
			strip(n.At(2), 6)
			strip(n.At(3), 4)
			for i := 4; i < n.Len(); i++ {
				walk(n.At(i))
			}
		}
	}
	walk(in.At(2))
	return out
}

var _ = fmt.Sprintf
