package c13

// The template form: workflows that are LOADED (iterators, templated targets and aliases).
//
// Input  : (hosts classes ttree sw)           -- four elements; the three-element form is the plain one in c13.go
//
//	ttree := (A name (bind*) (connect*) ttree*)
//	       | (T name cname hostBase (bind*) (connect*))
//	       | (I var (val+) ttree)                   iterator role: `for: {var, begin/end | range}` around ONE role template
//	name    := tmpl                                  (no This() in a name: it is resolved at STAGE4)
//	bind    := (name transport addressing target globalTmpl)
//	connect := (name transport targetTmpl)
//	tmpl    := atom                                  literal text ("" = field absent)
//	         | (seg+)   seg := atom | (v var) | (pp) | (pn) | (tp) | (tn)
//	                           = literal | {{ var }} | {{ Parent().Path }} | {{ Parent().Name }} | {{ This().Path }} | {{ This().Name }}
//	sw      := 0..7    bit i = viper switch concurrencyKeys[i] of the loader
//
// Obs    : (launch configure seen)
//
//	seen := ((path (bind*) (connect*))*)   per task descriptor, in tree order: the role path and what the descriptor
//	        carries as RoleBind / RoleConnect (= Collect{In,Out}boundChannels() of the generated task role) with the
//	        RESOLVED target / alias text; bind = (name transport addressing target global), connect = (name transport target)
//
// What runs: the template is rendered to YAML and unmarshalled with the package's own unmarshallers (iteratorRole,
// aggregatorTemplate, taskTemplate …), hung under a real ParentAdapter and loaded with the real ProcessTemplates
// (iteratorRole.expandTemplate → generateRole → roleBase.copy(), then the STAGE5 pass over
// wrapBindAndConnectFields of every generated role) under the given setting of the three concurrency switches;
// from there on exactly as the plain form: GenerateTaskDescriptors, makeTaskForMesosResources per task,
// configureTasks, the CONFIGURE payload per executor. The j-th generated task role (tree order) is placed on host
// (hostBase + j) mod #hosts, so the instances of one iterated template land on different hosts when there are several.

import (
	"encoding/json"
	"fmt"
	"sort"
	"strconv"
	"strings"

	"github.com/AliceO2Group/Control/common/gera"
	"github.com/AliceO2Group/Control/common/utils/uid"
	"github.com/AliceO2Group/Control/core/repos"
	"github.com/AliceO2Group/Control/core/task"
	"github.com/AliceO2Group/Control/core/task/channel"
	"github.com/AliceO2Group/Control/core/task/taskclass"
	"github.com/AliceO2Group/Control/core/workflow"
	"github.com/spf13/viper"
	"gopkg.in/yaml.v3"

	"verifharness/fw"
	"verifharness/rng"
	"verifharness/sx"
)

var concurrencyKeys = []string{
	"concurrentWorkflowTemplateProcessing",
	"concurrentWorkflowTemplateIteratorProcessing",
	"concurrentIteratorRoleExpansion",
}

var tmplRepo = repos.Repo{HostingSite: "h", Path: "p", RepoName: "r", Hash: "x", Revision: "x", DefaultRevision: "x", Protocol: "local"}

// ---- rendering -----------------------------------------------------------------------

func segText(s *sx.Node) (string, error) {
	if !s.IsList {
		if strings.Contains(s.Atom, "{{") || strings.Contains(s.Atom, "}}") {
			return "", fmt.Errorf("literal segment with template delimiters: %q", s.Atom)
		}
		return s.Atom, nil
	}
	switch s.At(0).Str() {
	case "v":
		if s.Len() == 2 && !s.At(1).IsList && s.At(1).Atom != "" {
			return "{{ " + s.At(1).Atom + " }}", nil
		}
	case "pp":
		return "{{ Parent().Path }}", nil
	case "pn":
		return "{{ Parent().Name }}", nil
	case "tp":
		return "{{ This().Path }}", nil
	case "tn":
		return "{{ This().Name }}", nil
	}
	return "", fmt.Errorf("bad template segment %s", s.String())
}

func tmplText(t *sx.Node) (string, error) {
	if !t.IsList {
		return segText(t)
	}
	var b strings.Builder
	for _, s := range t.List {
		x, err := segText(s)
		if err != nil {
			return "", err
		}
		b.WriteString(x)
	}
	return b.String(), nil
}

func isIterT(n *sx.Node) bool {
	return n.IsList && n.Len() == 4 && !n.At(0).IsList && n.At(0).Atom == "I"
}

func bindYAMLT(b *strings.Builder, ind string, list *sx.Node) error {
	if list.Len() == 0 {
		return nil
	}
	fmt.Fprintf(b, "%sbind:\n", ind)
	for _, c := range list.List {
		fmt.Fprintf(b, "%s  - name: %s\n", ind, q(c.At(0).Str()))
		miscYAML(b, ind, c.At(5), "push")
		if v := c.At(1).Str(); v != "" {
			fmt.Fprintf(b, "%s    transport: %s\n", ind, q(v))
		}
		if v := c.At(2).Str(); v != "" {
			fmt.Fprintf(b, "%s    addressing: %s\n", ind, q(v))
		}
		if v := c.At(3).Str(); v != "" {
			fmt.Fprintf(b, "%s    target: %s\n", ind, q(v))
		}
		g, err := tmplText(c.At(4))
		if err != nil {
			return err
		}
		if g != "" {
			fmt.Fprintf(b, "%s    global: %s\n", ind, q(g))
		}
	}
	return nil
}

func connectYAMLT(b *strings.Builder, ind string, list *sx.Node) error {
	if list.Len() == 0 {
		return nil
	}
	fmt.Fprintf(b, "%sconnect:\n", ind)
	for _, c := range list.List {
		fmt.Fprintf(b, "%s  - name: %s\n", ind, q(c.At(0).Str()))
		miscYAML(b, ind, c.At(3), "pull")
		if v := c.At(1).Str(); v != "" {
			fmt.Fprintf(b, "%s    transport: %s\n", ind, q(v))
		}
		t, err := tmplText(c.At(2))
		if err != nil {
			return err
		}
		if t != "" {
			fmt.Fprintf(b, "%s    target: %s\n", ind, q(t))
		}
	}
	return nil
}

// consecutive decimal values → `begin`/`end`, anything else → a JSON list in `range`.
func forYAML(b *strings.Builder, ind string, v string, vals *sx.Node) {
	fmt.Fprintf(b, "%sfor:\n", ind)
	ints := true
	first := 0
	for i, x := range vals.List {
		k, err := strconv.Atoi(x.Atom)
		if err != nil || strconv.Itoa(k) != x.Atom || (i > 0 && k != first+i) {
			ints = false
			break
		}
		if i == 0 {
			first = k
		}
	}
	if ints {
		fmt.Fprintf(b, "%s  begin: %s\n%s  end: %s\n", ind, q(strconv.Itoa(first)), ind, q(strconv.Itoa(first+vals.Len()-1)))
	} else {
		ss := make([]string, 0, vals.Len())
		for _, x := range vals.List {
			ss = append(ss, x.Atom)
		}
		js, _ := json.Marshal(ss)
		fmt.Fprintf(b, "%s  range: %s\n", ind, q(string(js)))
	}
	fmt.Fprintf(b, "%s  var: %s\n", ind, v)
}

func roleYAMLT(b *strings.Builder, n *sx.Node, ind string, top bool) error {
	pre, cont := ind+"- ", ind+"  "
	if top {
		pre, cont = "", ""
	}
	body := n
	if isIterT(n) {
		if top {
			return fmt.Errorf("the root cannot be an iterator")
		}
		body = n.At(3)
		if isIterT(body) || n.At(1).IsList || n.At(1).Atom == "" || n.At(2).Len() == 0 {
			return fmt.Errorf("malformed iterator %s", n.String())
		}
	}
	if !body.IsList || body.Len() < 4 {
		return fmt.Errorf("malformed role %s", body.String())
	}
	name, err := tmplText(body.At(1))
	if err != nil {
		return err
	}
	fmt.Fprintf(b, "%sname: %s\n", pre, q(name))
	if isIterT(n) {
		forYAML(b, cont, n.At(1).Atom, n.At(2))
	}
	switch body.At(0).Str() {
	case "T":
		if body.Len() != 6 {
			return fmt.Errorf("malformed task role %s", body.String())
		}
		fmt.Fprintf(b, "%stask:\n%s  load: %s\n", cont, cont, q(body.At(2).Str()))
		if err := bindYAMLT(b, cont, body.At(4)); err != nil {
			return err
		}
		return connectYAMLT(b, cont, body.At(5))
	case "A":
		if err := bindYAMLT(b, cont, body.At(2)); err != nil {
			return err
		}
		if err := connectYAMLT(b, cont, body.At(3)); err != nil {
			return err
		}
		if body.Len() == 4 {
			return fmt.Errorf("aggregator without children %s", body.String())
		}
		fmt.Fprintf(b, "%sroles:\n", cont)
		for i := 4; i < body.Len(); i++ {
			if err := roleYAMLT(b, body.At(i), cont+"  ", false); err != nil {
				return err
			}
		}
		return nil
	}
	return fmt.Errorf("unknown role kind %s", body.String())
}

// host base of every task role the template generates, in tree order
func hostBases(n *sx.Node, out *[]int) {
	if isIterT(n) {
		for range n.At(2).List {
			hostBases(n.At(3), out)
		}
		return
	}
	if n.At(0).Str() == "T" {
		*out = append(*out, n.At(3).Int())
		return
	}
	for i := 4; i < n.Len(); i++ {
		hostBases(n.At(i), out)
	}
}

func orDefault(s, d string) string {
	if s == "" {
		return d
	}
	return s
}

// absent transport / addressing are printed as the values the unmarshallers default to when the
// field is present but empty ("default", "tcp"): the same reading the Lean driver gives the input.
func seenIn(cs []channel.Inbound) *sx.Node {
	n := sx.L()
	for _, c := range cs {
		n.Add(sx.L(sx.A(c.Name), sx.A(orDefault(c.Transport.String(), "default")), sx.A(orDefault(c.Addressing.String(), "tcp")),
			sx.A(c.Target), sx.A(c.Global), seenMisc(c.Channel)))
	}
	return n
}

func seenOut(cs []channel.Outbound) *sx.Node {
	n := sx.L()
	for _, c := range cs {
		n.Add(sx.L(sx.A(c.Name), sx.A(orDefault(c.Transport.String(), "default")), sx.A(c.Target), seenMisc(c.Channel)))
	}
	return n
}

// ---- running the real thing ---------------------------------------------------------

func runTemplate(in *sx.Node) (string, error) {
	hosts, classes, tree, sw := in.At(0), in.At(1), in.At(2), in.At(3).Int()
	if hosts.Len() == 0 || sw < 0 || sw > 7 || in.At(3).IsList {
		return "", fmt.Errorf("malformed template-form input")
	}
	var b strings.Builder
	if err := roleYAMLT(&b, tree, "", true); err != nil {
		return "", err
	}
	repo := tmplRepo

	cap := &captured{args: map[string]map[string]string{}}
	m := task.VerifC13NewManager(cap.send)
	defer m.VerifC13Stop()
	for _, c := range classes.List {
		cl := &taskclass.Class{}
		y := classYAML(c)
		if err := yaml.Unmarshal([]byte(y), cl); err != nil {
			return "", fmt.Errorf("class yaml: %v\n%s", err, y)
		}
		// taskRole.ProcessTemplates rewrites `load: x` to the repository-qualified identifier
		m.VerifC13AddClass(repo.ResolveTaskClassIdentifier(c.At(0).Str()), cl)
	}

	root := workflow.NewAggregatorRole("", nil)
	if err := yaml.Unmarshal([]byte(b.String()), root); err != nil {
		return "", fmt.Errorf("role yaml: %v\n%s", err, b.String())
	}
	envId := uid.New()
	empty := func() gera.Map[string, string] { return gera.MakeMap[string, string]() }
	adapter := workflow.NewParentAdapter(func() uid.ID { return envId }, func() uint32 { return 0 },
		empty, empty, empty, nil)
	// as workflow.Load: parent first, then the links, then the template pass
	workflow.VerifC13SetParent(root, adapter)
	workflow.LinkChildrenToParents(root)

	viperMu.Lock()
	for i, k := range concurrencyKeys {
		viper.Set(k, sw&(1<<i) != 0)
	}
	loadErr := root.ProcessTemplates(&repo, nil, map[string]string{})
	for _, k := range concurrencyKeys {
		viper.Set(k, false)
	}
	viperMu.Unlock()
	if loadErr != nil {
		// every generated template is loadable: a load error is an observation, not an infrastructure failure
		return sx.L(sx.L(sx.A("loadfail")), sx.L(sx.A("err"), sx.A("other")), sx.L()).String(), nil
	}

	var bases []int
	hostBases(tree, &bases)
	hostIdx := make([]int, len(bases))
	for j, base := range bases {
		hostIdx[j] = (base + j) % hosts.Len()
	}
	viperMu.RLock()
	defer viperMu.RUnlock()
	return runLoaded(m, cap, root, envId, hosts, hostIdx, true)
}

// ---- generator -----------------------------------------------------------------------

type tseg struct {
	lit string
	v   string // variable name, or "pp" / "pn" / "tp" / "tn" with kind 'o'
	k   byte   // 'l' literal, 'v' variable, 'o' object accessor
}

func lit(s string) tseg { return tseg{lit: s, k: 'l'} }
func vr(v string) tseg  { return tseg{v: v, k: 'v'} }
func ob(o string) tseg  { return tseg{v: o, k: 'o'} }

func tmplSx(t []tseg) *sx.Node {
	if len(t) == 0 {
		return sx.A("")
	}
	if len(t) == 1 && t[0].k == 'l' {
		return sx.A(t[0].lit)
	}
	n := sx.L()
	for _, s := range t {
		switch s.k {
		case 'l':
			n.Add(sx.A(s.lit))
		case 'v':
			n.Add(sx.L(sx.A("v"), sx.A(s.v)))
		default:
			n.Add(sx.L(sx.A(s.v)))
		}
	}
	return n
}

type tIn struct {
	c chIn
	g []tseg
}
type tOut struct {
	name, transport string
	target          []tseg
}

type tnode struct {
	iter  bool // an iterator around body
	v     string
	vals  []string
	body  *tnode
	agg   bool
	name  []tseg
	cls   string
	host  int
	bind  []tIn
	conn  []tOut
	kids  []*tnode
	up    *tnode // enclosing ROLE template (never an iterator node)
	wrap  *tnode // the iterator node directly around this role, if any
	inCls *class
}

func (n *tnode) sx() *sx.Node {
	if n.iter {
		vs := sx.L()
		for _, x := range n.vals {
			vs.Add(sx.A(x))
		}
		return sx.L(sx.A("I"), sx.A(n.v), vs, n.body.sx())
	}
	bs, cs := sx.L(), sx.L()
	for _, b := range n.bind {
		bs.Add(sx.L(sx.A(b.c.name), sx.A(b.c.transport), sx.A(b.c.addressing), sx.A(b.c.target), tmplSx(b.g)))
	}
	for _, c := range n.conn {
		cs.Add(sx.L(sx.A(c.name), sx.A(c.transport), tmplSx(c.target)))
	}
	if !n.agg {
		return sx.L(sx.A("T"), tmplSx(n.name), sx.A(n.cls), sx.I(n.host), bs, cs)
	}
	out := sx.L(sx.A("A"), tmplSx(n.name), bs, cs)
	for _, k := range n.kids {
		if k.wrap != nil {
			out.Add(k.wrap.sx())
		} else {
			out.Add(k.sx())
		}
	}
	return out
}

// iterators around role n and its ancestors, outermost first
func (n *tnode) iterators() []*tnode {
	var out []*tnode
	for x := n; x != nil; x = x.up {
		if x.wrap != nil {
			out = append([]*tnode{x.wrap}, out...)
		}
	}
	return out
}

// instances: how many roles the template role n generates
func (n *tnode) instances() int {
	k := 1
	for _, it := range n.iterators() {
		k *= len(it.vals)
	}
	return k
}

type tstats struct {
	parentPath, alias, fixedInstance, aggConnect, classConnect, shadow, explicit, unmatched, this, nested, iterTask, iterAgg bool
	maxInst                                                                                                                 int
}

var varPool = []string{"it", "n", "k", "lane", "idx", "det"}
var valPools = [][]string{{"1", "2", "3", "4"}, {"0", "1", "2"}, {"7", "8", "9", "10"}, {"a", "b", "c"}, {"flp", "epn", "qc"}, {"3", "5", "8"}}

// pathExpr: the expression that, evaluated in the context of role `from`, names the role `to`
// of the SAME iteration wherever the two share an iterator, and a fixed instance elsewhere.
func pathExpr(r *rng.R, from, to *tnode, st *tstats) []tseg {
	shared := map[*tnode]bool{}
	for _, it := range from.iterators() {
		shared[it] = true
	}
	var chain []*tnode
	for x := to; x != nil; x = x.up {
		chain = append([]*tnode{x}, chain...)
	}
	var out []tseg
	// a sibling may be named through the parent object
	if from.up != nil && from.up == to.up && r.P(1, 2) {
		st.parentPath = true
		out = append(out, ob("pp"), lit("."))
		chain = chain[len(chain)-1:]
	}
	for i, x := range chain {
		if i > 0 {
			out = append(out, lit("."))
		}
		out = append(out, nameFor(r, x, shared, st)...)
	}
	return out
}

// the name template of role x with the variables of iterators that `shared` does not contain
// replaced by one value of their range
func nameFor(r *rng.R, x *tnode, shared map[*tnode]bool, st *tstats) []tseg {
	var out []tseg
	for _, s := range x.name {
		if s.k == 'v' && x.wrap != nil && s.v == x.wrap.v && !shared[x.wrap] {
			st.fixedInstance = true
			out = append(out, lit(rng.Pick(r, x.wrap.vals)))
			continue
		}
		out = append(out, s)
	}
	return out
}

func compact(t []tseg) []tseg {
	var out []tseg
	for _, s := range t {
		if s.k == 'l' && len(out) > 0 && out[len(out)-1].k == 'l' {
			out[len(out)-1].lit += s.lit
			continue
		}
		out = append(out, s)
	}
	return out
}

func genTemplateCase(r *rng.R, maxTasks int) fw.Case {
	st := &tstats{}
	nHosts := r.Range(1, 4)
	hosts := sx.L()
	for i := 0; i < nHosts; i++ {
		h := sx.L(sx.A(fmt.Sprintf("%s%d", rng.Pick(r, []string{"flp", "epn", "qc"}), i+1)))
		lo := 9000
		if r.P(1, 5) {
			lo = 9000 + r.N(300)
		}
		h.Add(sx.L(sx.I(lo), sx.I(lo+120)), sx.L(sx.I(30000), sx.I(30060)))
		hosts.Add(h)
	}

	// task templates: binders (0..2 inbound channels) and connectors (0..2 template-level connect blocks, no targets)
	ist := &stats{}
	var classes []*class
	for i := 0; i < r.Range(2, 3); i++ {
		c := &class{name: fmt.Sprintf("cls%d", i), mode: rng.Pick(r, []string{"fairmq", "fairmq", "direct"})}
		if i == 0 || r.Bool() {
			for _, n := range pickDistinct(r, inNames, r.Range(1, 2)) {
				in := genIn(r, n, ist, 0)
				in.target = "" // static inbound targets are the plain form's subject
				c.bind = append(c.bind, in)
			}
		}
		if i > 0 && r.P(1, 2) {
			for _, n := range pickDistinct(r, outNames, r.Range(1, 2)) {
				c.conn = append(c.conn, chOut{name: n, transport: rng.Pick(r, transports)})
				st.classConnect = true
			}
		}
		classes = append(classes, c)
	}

	// tree of role templates
	id := 0
	usedVars := func(n *tnode) map[string]bool {
		m := map[string]bool{}
		for _, it := range n.iterators() {
			m[it.v] = true
		}
		return m
	}
	root := &tnode{agg: true, name: []tseg{lit("root")}}
	var roles, tasks []*tnode
	roles = append(roles, root)
	total := 0
	mkRole := func(parent *tnode, agg bool) *tnode {
		id++
		x := &tnode{agg: agg, up: parent}
		pfx := "t"
		if agg {
			pfx = rng.Pick(r, []string{"a", "host", "grp"})
		}
		x.name = []tseg{lit(fmt.Sprintf("%s%d", pfx, id))}
		depthIters := len(parent.iterators())
		if depthIters < 2 && r.P(2, 5) {
			it := &tnode{iter: true, body: x}
			used := usedVars(parent)
			it.v = rng.Pick(r, varPool)
			if used[it.v] {
				if !r.P(1, 6) { // else: the inner iteration variable hides the outer one of the same name

					for _, v := range varPool {
						if !used[v] {
							it.v = v
							break
						}
					}
				}
			}
			pool := rng.Pick(r, valPools)
			k := r.Range(2, 3)
			if r.P(1, 8) {
				k = 1
			}
			if r.P(1, 3) {
				start := r.N(len(pool) - k + 1)
				it.vals = append([]string{}, pool[start:start+k]...)
			} else {
				it.vals = pickDistinct(r, pool, k)
			}
			x.wrap = it
			x.name = append(x.name, lit("-"), vr(it.v))
			if r.P(1, 5) {
				x.name = append([]tseg{vr(it.v), lit("_")}, x.name[:1]...)
			}
		}
		parent.kids = append(parent.kids, x)
		return x
	}
	nTaskTemplates := r.Range(2, 5)
	for attempts := 0; len(tasks) < nTaskTemplates && total < maxTasks && attempts < 60; attempts++ {
		parent := rng.Pick(r, roles)
		depth := 0
		for x := parent; x.up != nil; x = x.up {
			depth++
		}
		if depth < 3 && r.P(1, 3) {
			a := mkRole(parent, true)
			roles = append(roles, a)
			continue
		}
		t := mkRole(parent, false)
		if t.instances()+total > maxTasks+2 {
			parent.kids = parent.kids[:len(parent.kids)-1]
			continue
		}
		t.inCls = rng.Pick(r, classes)
		t.cls = t.inCls.name
		t.host = r.N(nHosts)
		total += t.instances()
		tasks = append(tasks, t)
	}
	// an aggregator without children is pruned by the loader: prune it here too
	for changed := true; changed; {
		changed = false
		for _, a := range roles {
			var keep []*tnode
			for _, k := range a.kids {
				if k.agg && len(k.kids) == 0 {
					changed = true
					continue
				}
				keep = append(keep, k)
			}
			a.kids = keep
		}
	}
	if len(root.kids) == 0 {
		id++
		t := &tnode{up: root, name: []tseg{lit(fmt.Sprintf("t%d", id))}, inCls: classes[0], cls: classes[0].name, host: r.N(nHosts)}
		root.kids = append(root.kids, t)
		tasks = append(tasks, t)
	}
	// shape tags from the final tree
	st.nested, st.iterAgg, st.iterTask, st.shadow = false, false, false, false
	var shape func(x *tnode)
	shape = func(x *tnode) {
		if x.wrap != nil {
			its := x.iterators()
			if len(its) > 1 {
				st.nested = true
				for _, o := range its[:len(its)-1] {
					if o.v == x.wrap.v {
						st.shadow = true
					}
				}
			}
			if x.agg {
				st.iterAgg = true
			} else {
				st.iterTask = true
			}
		}
		for _, k := range x.kids {
			shape(k)
		}
	}
	shape(root)
	for _, t := range tasks {
		if k := t.instances(); k > st.maxInst {
			st.maxInst = k
		}
	}

	// role-level inbound declarations; an alias is made unique per generated role:
	// g<id> + one "-{{ var }}" per enclosing iterator
	type binder struct {
		t     *tnode
		ch    string
		alias []tseg
	}
	var binders []binder
	for ti, t := range tasks {
		eff := map[string][]tseg{}
		for _, c := range t.inCls.bind {
			eff[c.name] = nil
		}
		if len(eff) == 0 || r.P(1, 3) {
			for _, n := range pickDistinct(r, inNames, r.Range(1, 2)) {
				in := genIn(r, n, ist, 0)
				in.target = ""
				b := tIn{c: in}
				if r.P(1, 3) {
					g := []tseg{lit(fmt.Sprintf("g%d%s", ti, n))}
					for _, it := range t.iterators() {
						g = append(g, lit("-"), vr(it.v))
					}
					if r.P(1, 6) {
						g = append(g, lit("-"), ob("tn"))
						st.this = true
					}
					b.g = g
					st.alias = true
				}
				t.bind = append(t.bind, b)
				eff[n] = b.g
			}
		}
		for _, n := range inNames {
			if g, ok := eff[n]; ok {
				binders = append(binders, binder{t, n, g})
			}
		}
	}

	// outbound declarations: for every template-level connect block a role-level entry with a target,
	// plus role-level-only entries
	target := func(from *tnode) []tseg {
		x := r.N(100)
		switch {
		case x < 78 && len(binders) > 0:
			b := rng.Pick(r, binders)
			if b.alias != nil && r.P(1, 2) {
				shared := map[*tnode]bool{}
				for _, it := range from.iterators() {
					shared[it] = true
				}
				out := []tseg{lit("::")}
				for _, s := range b.alias {
					if s.k == 'o' { // This().Name of the binder: its name template
						out = append(out, b.t.name...)
						continue
					}
					out = append(out, s)
				}
				// the binder's own name inside the alias: rewrite its iteration variable like a path does
				return compact(fixVars(r, out, b.t, shared, st))
			}
			return compact(append(pathExpr(r, from, b.t, st), lit(":"+b.ch)))
		case x < 86:
			st.explicit = true
			t := []tseg{lit("tcp://far")}
			if its := from.iterators(); len(its) > 0 {
				t = append(t, lit("-"), vr(its[len(its)-1].v))
			}
			return compact(append(t, lit(fmt.Sprintf(".host:%d", 1000+r.N(60000)))))
		case x < 89 && len(binders) > 0:
			st.unmatched = true
			b := rng.Pick(r, binders)
			return compact(append(pathExpr(r, from, b.t, st), lit(":nochan")))
		case x < 91:
			st.unmatched = true
			t := []tseg{lit("root.nowhere")}
			if its := from.iterators(); len(its) > 0 {
				t = append(t, lit("-"), vr(its[0].v))
			}
			return compact(append(t, lit(":data")))
		case len(binders) > 0:
			b := rng.Pick(r, binders)
			return compact(append(pathExpr(r, from, b.t, st), lit(":"+b.ch)))
		}
		st.unmatched = true
		return []tseg{lit("root.nowhere:data")}
	}
	hasConn := func(x *tnode, n string) bool {
		for _, c := range x.conn {
			if c.name == n {
				return true
			}
		}
		return false
	}
	for _, t := range tasks {
		var want []string
		for _, cc := range t.inCls.conn {
			if r.P(24, 25) {
				want = append(want, cc.name)
			}
		}
		if len(want) == 0 || r.P(1, 2) {
			n := rng.Pick(r, outNames)
			dup := false
			for _, w := range want {
				dup = dup || w == n
			}
			if !dup {
				want = append(want, n)
			}
		}
		for _, n := range want {
			at := t
			// declared one level up (inherited by every task below): only where the expression means the same there
			if t.wrap == nil && t.up != nil && t.up.up != nil && r.P(1, 5) {
				at = t.up
				st.aggConnect = true
			}
			if hasConn(at, n) {
				continue
			}
			tg := target(at)
			at.conn = append(at.conn, tOut{name: n, transport: rng.Pick(r, transports), target: tg})
		}
	}

	sw := r.N(8)
	ptags := decorate(r.Fork(), classes, nil)
	cl := sx.L()
	for _, c := range classes {
		cl.Add(c.sx())
	}
	tags := []string{"tmpl", fmt.Sprintf("tmpl:sw=%d", sw), fmt.Sprintf("tmpl:max-instances=%d", st.maxInst)}
	tags = append(tags, ptags...)
	for k, v := range map[string]bool{"tmpl:parent-path": st.parentPath, "tmpl:alias": st.alias, "tmpl:fixed-instance": st.fixedInstance,
		"tmpl:agg-level-connect": st.aggConnect, "tmpl:class-connect": st.classConnect, "tmpl:shadowed-var": st.shadow,
		"tmpl:explicit": st.explicit, "tmpl:unmatched-expr": st.unmatched, "tmpl:this": st.this, "tmpl:nested-iter": st.nested,
		"tmpl:iter-task": st.iterTask, "tmpl:iter-agg": st.iterAgg} {
		if v {
			tags = append(tags, k)
		}
	}
	sort.Strings(tags)
	return fw.Case{Input: sx.L(hosts, cl, root.sx(), sx.I(sw)).String(), Tags: tags}
}

// fixVars: variables of the binder's own iterators that the referring role does not share → one value of the range
func fixVars(r *rng.R, t []tseg, binder *tnode, shared map[*tnode]bool, st *tstats) []tseg {
	var out []tseg
	for _, s := range t {
		if s.k == 'v' {
			var by *tnode
			for _, it := range binder.iterators() {
				if it.v == s.v {
					by = it
				}
			}
			if by != nil && !shared[by] {
				st.fixedInstance = true
				out = append(out, lit(rng.Pick(r, by.vals)))
				continue
			}
		}
		out = append(out, s)
	}
	return out
}

// fixed scenarios of the class, always run (the per-host shape of the property's anchors):
// sink + source below an iterated aggregator; iterated task roles naming each other by variable; nested iterators;
// per-instance aliases; every switch setting on the first one.
func templateScenarios() []fw.Case {
	hosts := `((flp1 (9000 9100) (30000 30060)) (flp2 (9000 9100) (30000 30060)) (flp3 (9000 9100) (30000 30060)))`
	classes := `((snk fairmq ((data "" "" "" "")) ()) (src fairmq () ((in "" ""))) (bare direct () ()))`
	var cs []fw.Case
	add := func(tree string, sw int, tag string) {
		cs = append(cs, fw.Case{Input: fmt.Sprintf("(%s %s %s %d)", hosts, classes, tree, sw),
			Tags: []string{"tmpl", "tmpl:fixed", "tmpl:" + tag, fmt.Sprintf("tmpl:sw=%d", sw)}})
	}
	perHost := `(A root () () (I it (1 2 3) (A (host- (v it)) () () (T sink snk 0 () ()) (T source src 0 () ((in "" ((pp) .sink:data)))))))`
	for sw := 0; sw < 8; sw++ {
		add(perHost, sw, "per-host")
	}
	add(`(A root () () (A sinks () () (I n (a b c) (T (sink- (v n)) snk 0 () ()))) (I n (a b c) (T (source- (v n)) src 1 () ((in "" (root.sinks.sink- (v n) :data))))))`, 5, "iter-task")
	add(`(A root () () (I i (1 2) (A (grp- (v i)) () () (I j (7 8) (A (lane- (v j)) () () (T sink bare 0 ((data zeromq ipc "" (g- (v i) - (v j)))) ()) (T source bare 2 () ((in shmem (:: g- (v i) - (v j))) (mon "" ((pp) .sink:data)))))))))`, 7, "nested-alias")
	add(`(A root () () (I it (1 2 3) (A (host- (v it)) () ((in "" (root.host- (v it) .sink:data))) (T sink snk 0 () ()) (T w1 src 0 () ()) (T w2 src 0 () ()))))`, 2, "agg-level-connect")
	add(`(A root () () (I it (4 5) (T (w- (v it)) bare 0 ((data "" "" "" ((tn) -g))) ((self "" (:: w- (v it) -g)) (me nanomsg ((tp) :data))))))`, 1, "this")
	return cs
}

// shrink candidates of the template form: drop a declaration, a role, a value of a range; sequential loader.
func shrinkTemplate(in *sx.Node) []string {
	var out []string
	emit := func() { out = append(out, in.String()) }
	drop := func(n *sx.Node, i int) {
		old := n.List
		n.List = append(append([]*sx.Node{}, old[:i]...), old[i+1:]...)
		emit()
		n.List = old
	}
	if in.At(3).Atom != "0" {
		old := in.List[3]
		in.List[3] = sx.I(0)
		emit()
		in.List[3] = old
	}
	var walk func(n *sx.Node)
	walk = func(n *sx.Node) {
		if isIterT(n) {
			if n.At(2).Len() > 1 {
				for i := range n.At(2).List {
					drop(n.At(2), i)
				}
			}
			walk(n.At(3))
			return
		}
		if n.At(0).Str() == "T" {
			for _, l := range []*sx.Node{n.At(4), n.At(5)} {
				for i := range l.List {
					drop(l, i)
				}
			}
			return
		}
		for _, l := range []*sx.Node{n.At(2), n.At(3)} {
			for i := range l.List {
				drop(l, i)
			}
		}
		if n.Len() > 5 {
			for i := 4; i < n.Len(); i++ {
				drop(n, i)
			}
		}
		for i := 4; i < n.Len(); i++ {
			walk(n.At(i))
		}
	}
	walk(in.At(2))
	if in.At(0).Len() > 1 {
		drop(in.At(0), in.At(0).Len()-1)
	}
	out = append(out, shrinkPropsAndMisc(in)...)
	return out
}
