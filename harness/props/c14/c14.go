// Package c14: variables resolve by documented precedence at every role.
//
// Input  : (style env tree tmpl)
//
//	style := 0 | 1 | 2            -- YAML rendering of defaults/vars: quoted scalars | empty as bare null | !public mappings
//	kv    := ((key value)*)        -- value "" = defined empty; a key that is not listed is absent
//	env   := () | (D V U)          -- GlobalDefaults / GlobalVars / environment UserVars behind a real ParentAdapter
//	tree  := (kind D V U L tree*)  -- kind A|T|C; defaults, vars (YAML), user vars (SetRuntimeVar), iterator locals
//	tmpl  := () | (TD TV)          -- task template defaults / vars, applied at every T leaf
//
// Obs    : (role*) in pre-order, role := (stack fstack (D V U) (Dg Vg Ug) (s0 … s5) task)
//
//	stack  ConsolidatedVarStack()                        (whole map, sorted)
//	fstack gera.FlattenStack(defaults, vars, userVars)   (as iteratorRole.expandTemplate calls it on the parent)
//	D V U  ConsolidatedVarMaps()                         (whole maps, sorted)
//	?g     GetDefaults()/GetVars()/GetUserVars().Get(k)  for every key of the input
//	s_i    what a `{{ k }}` field sees at template stage i of Sequence.Execute, for every key
//	task   () | (cmd props): what the command line (BuildTaskCommand) and a property
//	       (BuildPropertyMap) of a task with template tmpl see, for every key
//
// The role tree is built by unmarshalling generated YAML with the package's own
// unmarshallers; the root is attached to a real workflow.ParentAdapter through
// the build-tag hook workflow.VerifC14SetParent (= the unexported setParent).
//
// Second form, five elements (style env tree tmpl ops): the template may contain
// iterators, is LOADED with the real ProcessTemplates, and a history of runtime
// writes (SetRuntimeVar, SetGlobalRuntimeVar, DeleteRuntimeVar,
// DeleteGlobalRuntimeVar) runs on roles of the loaded tree before the same
// observation is taken at every role — see writes.go / genwrites.go.
//
// Third form, six elements (E style (SD SV U) tree tmpl sched): a REAL
// core/environment.Environment with a configuration store (SD, SV), user-supplied
// variables (U) and the loaded tree as its workflow is driven through a schedule of
// transitions (real TryTransition, real FSM callbacks) and runtime writes; the same
// observation at every role after the load and after every item — the environment's
// own variable writes (run number, run time stamps, configuration-store copies, …);
// see envrun.go / genenv.go / envfacts.go.
package c14

import (
	"fmt"
	"sort"
	"strings"
	"sync"
	texttemplate "text/template"

	"github.com/AliceO2Group/Control/common/event"
	"github.com/AliceO2Group/Control/common/gera"
	"github.com/AliceO2Group/Control/common/utils/uid"
	"github.com/AliceO2Group/Control/configuration/template"
	"github.com/AliceO2Group/Control/core/task"
	"github.com/AliceO2Group/Control/core/task/channel"
	"github.com/AliceO2Group/Control/core/task/sm"
	"github.com/AliceO2Group/Control/core/task/taskclass"
	"github.com/AliceO2Group/Control/core/workflow"
	"github.com/spf13/viper"
	"gopkg.in/yaml.v3"

	"verifharness/sx"
)

var specialKeys = map[string]bool{"task_name": true, "task_id": true, "task_class_name": true,
	"task_hostname": true, "environment_id": true, "task_parent_role": true}

// ---- input helpers ---------------------------------------------------------------

type kv = [][2]string

func kvOf(n *sx.Node) kv {
	var out kv
	for _, e := range n.List {
		out = append(out, [2]string{e.At(0).Str(), e.At(1).Str()})
	}
	return out
}

func kvMap(n *sx.Node) map[string]string {
	m := map[string]string{}
	for _, e := range kvOf(n) {
		if _, dup := m[e[0]]; !dup { // first binding wins, as in the model
			m[e[0]] = e[1]
		}
	}
	return m
}

func validKV(n *sx.Node) bool {
	if !n.IsList {
		return false
	}
	for _, e := range n.List {
		if !e.IsList || len(e.List) != 2 || e.List[0].IsList || e.List[1].IsList || e.List[0].Atom == "" {
			return false
		}
	}
	return true
}

func validTree(t *sx.Node) bool {
	if !t.IsList || t.Len() < 5 || t.At(0).IsList {
		return false
	}
	switch t.At(0).Str() {
	case "A":
	case "T", "C":
		if t.Len() != 5 {
			return false
		}
	default:
		return false
	}
	for i := 1; i <= 4; i++ {
		if !validKV(t.At(i)) {
			return false
		}
	}
	for i := 5; i < t.Len(); i++ {
		if !validTree(t.At(i)) {
			return false
		}
	}
	return true
}

func validInput(in *sx.Node) bool {
	if !in.IsList || in.Len() != 4 || in.At(0).IsList || !in.At(1).IsList || !in.At(3).IsList {
		return false
	}
	if l := in.At(1).Len(); l != 0 && l != 3 {
		return false
	}
	if l := in.At(3).Len(); l != 0 && l != 2 {
		return false
	}
	for _, m := range append(append([]*sx.Node{}, in.At(1).List...), in.At(3).List...) {
		if !validKV(m) {
			return false
		}
	}
	return validTree(in.At(2)) && in.At(2).At(0).Str() == "A"
}

func collectKeys(n *sx.Node, set map[string]bool) {
	// every (key value) pair anywhere in the input
	if !n.IsList {
		return
	}
	if len(n.List) == 2 && !n.List[0].IsList && !n.List[1].IsList {
		set[n.List[0].Str()] = true
		return
	}
	for _, c := range n.List {
		collectKeys(c, set)
	}
}

func universe(in *sx.Node) []string {
	set := map[string]bool{}
	env := in.At(1)
	for _, m := range env.List {
		collectKeys(m, set)
	}
	var walk func(t *sx.Node)
	walk = func(t *sx.Node) {
		for i := 1; i <= 4; i++ {
			collectKeys(t.At(i), set)
		}
		for i := 5; i < t.Len(); i++ {
			walk(t.At(i))
		}
	}
	walk(in.At(2))
	for _, m := range in.At(3).List {
		collectKeys(m, set)
	}
	keys := make([]string, 0, len(set))
	for k := range set {
		keys = append(keys, k)
	}
	sort.Strings(keys)
	return keys
}

// ---- YAML ------------------------------------------------------------------------

func yq(s string) string { return "\"" + strings.NewReplacer("\\", "\\\\", "\"", "\\\"").Replace(s) + "\"" }

func yamlMap(b *strings.Builder, indent, name string, m kv, style int) {
	if len(m) == 0 {
		return
	}
	fmt.Fprintf(b, "%s%s:\n", indent, name)
	seen := map[string]bool{}
	for _, e := range m {
		if seen[e[0]] {
			continue
		}
		seen[e[0]] = true
		switch {
		case style == 1 && e[1] == "":
			fmt.Fprintf(b, "%s  %s:\n", indent, e[0])
		case style == 2:
			fmt.Fprintf(b, "%s  %s: !public\n%s    value: %s\n%s    type: string\n%s    label: %s\n", indent, e[0], indent, yq(e[1]), indent, indent, yq("L "+e[0]))
		default:
			fmt.Fprintf(b, "%s  %s: %s\n", indent, e[0], yq(e[1]))
		}
	}
}

func yamlOf(n *sx.Node, name, indent string, b *strings.Builder, top bool, style int) {
	pre, cont := indent+"- ", indent+"  "
	if top {
		pre, cont = "", ""
	}
	fmt.Fprintf(b, "%sname: %s\n", pre, name)
	yamlMap(b, cont, "defaults", kvOf(n.At(1)), style)
	yamlMap(b, cont, "vars", kvOf(n.At(2)), style)
	switch n.At(0).Str() {
	case "T":
		fmt.Fprintf(b, "%stask:\n%s  load: cls\n", cont, cont)
	case "C":
		fmt.Fprintf(b, "%scall:\n%s  func: noop()\n", cont, cont)
	default:
		if n.Len() == 5 {
			fmt.Fprintf(b, "%sroles: []\n", cont)
			return
		}
		fmt.Fprintf(b, "%sroles:\n", cont)
		for i := 5; i < n.Len(); i++ {
			yamlOf(n.At(i), fmt.Sprintf("%s_%d", name, i-5), cont+"  ", b, false, style)
		}
	}
}

// ---- the real objects ---------------------------------------------------------------

var confOnce sync.Once

func build(in *sx.Node) (workflow.Role, error) {
	style := in.At(0).Int()
	var b strings.Builder
	yamlOf(in.At(2), "r", "", &b, true, style)
	root := workflow.NewAggregatorRole("", nil)
	if err := yaml.Unmarshal([]byte(b.String()), root); err != nil {
		return nil, fmt.Errorf("yaml: %v\n%s", err, b.String())
	}
	if env := in.At(1); env.Len() == 3 {
		gd := gera.MakeMapWithMap(kvMap(env.At(0)))
		gv := gera.MakeMapWithMap(kvMap(env.At(1)))
		uv := gera.MakeMapWithMap(kvMap(env.At(2)))
		adapter := workflow.NewParentAdapter(
			func() uid.ID { return uid.NilID() },
			func() uint32 { return 0 },
			func() gera.Map[string, string] { return gd },
			func() gera.Map[string, string] { return gv },
			func() gera.Map[string, string] { return uv },
			func(event.Event) {},
		)
		workflow.VerifC14SetParent(root, adapter)
	}
	workflow.LinkChildrenToParents(root)
	// user vars: per role, through the exported runtime-var API
	var walk func(r workflow.Role, t *sx.Node) error
	walk = func(r workflow.Role, t *sx.Node) error {
		r.SetRuntimeVars(kvMap(t.At(3)))
		kids := r.GetRoles()
		if len(kids) != t.Len()-5 {
			return fmt.Errorf("tree shape lost in YAML round trip: %d children for %s", len(kids), t.String())
		}
		for i, c := range kids {
			if err := walk(c, t.At(5+i)); err != nil {
				return err
			}
		}
		return nil
	}
	if err := walk(root, in.At(2)); err != nil {
		return nil, err
	}
	return root, nil
}

func dumpMap(m map[string]string) *sx.Node {
	keys := make([]string, 0, len(m))
	for k := range m {
		keys = append(keys, k)
	}
	sort.Strings(keys)
	out := sx.L()
	for _, k := range keys {
		out.Add(sx.L(sx.A(k), sx.A(m[k])))
	}
	return out
}

func getAll(m gera.Map[string, string], keys []string) *sx.Node {
	out := sx.L()
	for _, k := range keys {
		if v, ok := m.Get(k); ok {
			out.Add(sx.L(sx.A(k), sx.A(v)))
		}
	}
	return out
}

// probeValue turns the outcome of one `[{{ k }}]` field into (value, present).
func probeValue(k, out string, err error) (string, bool) {
	if err != nil {
		if strings.Contains(err.Error(), "unknown name "+k) {
			return "", false
		}
		return "!err:" + firstWords(err.Error()), true
	}
	if len(out) >= 2 && out[0] == '[' && out[len(out)-1] == ']' {
		return out[1 : len(out)-1], true
	}
	return "!raw:" + out, true
}

func firstWords(s string) string {
	s = strings.Map(func(c rune) rune {
		if c == '\t' || c == '\n' || c == '(' || c == ')' || c == '"' || c == '\\' {
			return ' '
		}
		return c
	}, s)
	if len(s) > 60 {
		s = s[:60]
	}
	return s
}

func asWrap(m gera.Map[string, string]) (*gera.WrapMap[string, string], error) {
	w, ok := m.(*gera.WrapMap[string, string])
	if !ok {
		return nil, fmt.Errorf("role map is not a *gera.WrapMap")
	}
	return w, nil
}

// stageProbes runs the real template.Sequence.Execute with one probe field per
// stage; when the probe of stage s fails (key not visible) the sequence aborts,
// so the remaining stages are probed by a further run.
func stageProbes(r workflow.Role, locals map[string]string, keys []string) (*sx.Node, error) {
	d, err := asWrap(r.GetDefaults())
	if err != nil {
		return nil, err
	}
	v, err := asWrap(r.GetVars())
	if err != nil {
		return nil, err
	}
	u, err := asWrap(r.GetUserVars())
	if err != nil {
		return nil, err
	}
	stages := make([]*sx.Node, 6)
	for i := range stages {
		stages[i] = sx.L()
	}
	noObjects := func(template.Stage) map[string]interface{} { return map[string]interface{}{} }
	for _, k := range keys {
		from := 0
		for from < 6 {
			fields := make([]string, 6)
			seq := template.Sequence{}
			for s := from; s < 6; s++ {
				fields[s] = "[{{ " + k + " }}]"
				seq[template.Stage(s)] = template.Fields{template.WrapPointer(&fields[s])}
			}
			failedAt := -1
			var failErr error
			err := seq.Execute(nil, r.GetPath(),
				template.VarStack{Locals: locals, Defaults: d, Vars: v, UserVars: u},
				noObjects, nil, make(map[string]texttemplate.Template), nil,
				func(st template.Stage, e error) error {
					if e != nil && failedAt < 0 {
						failedAt, failErr = int(st), e
					}
					return e
				})
			if err != nil && failedAt < 0 {
				return nil, fmt.Errorf("Sequence.Execute failed outside a stage: %v", err)
			}
			last := 5
			if failedAt >= 0 {
				last = failedAt
			}
			for s := from; s <= last; s++ {
				var e error
				if s == failedAt {
					e = failErr
				}
				if val, ok := probeValue(k, fields[s], e); ok {
					stages[s].Add(sx.L(sx.A(k), sx.A(val)))
				}
			}
			from = last + 1
		}
	}
	return sx.L(stages...), nil
}

// taskParentRole is the method set of the task package's (unexported) parentRole
// interface; the real *taskRole satisfies it.
type taskParentRole interface {
	workflow.Role
	UpdateStatus(task.Status)
	UpdateState(sm.State)
	GetTaskClass() string
	GetTaskTraits() task.Traits
	SetTask(*task.Task)
	CollectOutboundChannels() []channel.Outbound
	CollectInboundChannels() []channel.Inbound
	SendEvent(event.Event)
}

func classYAML(td, tv kv) string {
	var b strings.Builder
	b.WriteString("name: cls\n")
	yamlMap(&b, "", "defaults", td, 0)
	yamlMap(&b, "", "vars", tv, 0)
	b.WriteString("control:\n  mode: direct\ncommand:\n  value: \"x\"\nproperties:\n  probe: \"x\"\n")
	return b.String()
}

func taskProbes(r workflow.Role, tmpl *sx.Node, keys []string) (*sx.Node, error) {
	confOnce.Do(func() { viper.Set("configServiceUri", "mock://") })
	parent, ok := r.(taskParentRole)
	if !ok {
		return nil, fmt.Errorf("task leaf does not implement the task package's parent-role interface")
	}
	cmd, props := sx.L(), sx.L()
	for _, k := range keys {
		class := &taskclass.Class{}
		if err := yaml.Unmarshal([]byte(classYAML(kvOf(tmpl.At(0)), kvOf(tmpl.At(1)))), class); err != nil {
			return nil, fmt.Errorf("class yaml: %v", err)
		}
		probe := "[{{ " + k + " }}]"
		*class.Command.Value = probe
		class.Properties.Set("probe", probe)
		t := task.VerifC14NewTask(class, parent, "cls#1")
		err := t.BuildTaskCommand(parent)
		out := ""
		if ci := t.GetTaskCommandInfo(); err == nil && ci != nil && ci.Value != nil {
			out = *ci.Value
		}
		if val, ok := probeValue(k, out, err); ok {
			cmd.Add(sx.L(sx.A(k), sx.A(val)))
		}
		pm, err := t.BuildPropertyMap(nil)
		if val, ok := probeValue(k, pm["probe"], err); ok {
			props.Add(sx.L(sx.A(k), sx.A(val)))
		}
	}
	return sx.L(cmd, props), nil
}

// observe records everything the harness looks at on ONE role; t is the role's
// description in the input (kind, …, iterator locals for the stage probes).
func observe(r workflow.Role, t *sx.Node, tmpl *sx.Node, keys []string) (*sx.Node, error) {
	return observeR(r, t, tmpl, keys, false)
}

// observeR: restrict = the whole-map dumps show the keys of the universe only (a real
// environment's maps also hold what apricot's GetDefaults adds: host name, consul_* …).
func observeR(r workflow.Role, t *sx.Node, tmpl *sx.Node, keys []string, restrict bool) (*sx.Node, error) {
	dumpMap := func(m map[string]string) *sx.Node {
		if !restrict {
			return dumpMap(m)
		}
		f := map[string]string{}
		for _, k := range keys {
			if v, ok := m[k]; ok {
				f[k] = v
			}
		}
		return dumpMap(f)
	}
	ro := sx.L()
	if st, err := r.ConsolidatedVarStack(); err != nil {
		ro.Add(sx.L(sx.A("err")))
	} else {
		ro.Add(dumpMap(st))
	}
	if fs, err := gera.FlattenStack(r.GetDefaults(), r.GetVars(), r.GetUserVars()); err != nil {
		ro.Add(sx.L(sx.A("err")))
	} else {
		ro.Add(dumpMap(fs))
	}
	if d, v, u, err := r.ConsolidatedVarMaps(); err != nil {
		ro.Add(sx.L(sx.A("err")))
	} else {
		ro.Add(sx.L(dumpMap(d), dumpMap(v), dumpMap(u)))
	}
	ro.Add(sx.L(getAll(r.GetDefaults(), keys), getAll(r.GetVars(), keys), getAll(r.GetUserVars(), keys)))
	sp, err := stageProbes(r, kvMap(t.At(4)), keys)
	if err != nil {
		return nil, err
	}
	ro.Add(sp)
	if t.At(0).Str() == "T" && tmpl.Len() == 2 {
		tp, err := taskProbes(r, tmpl, keys)
		if err != nil {
			return nil, err
		}
		ro.Add(tp)
	} else {
		ro.Add(sx.L())
	}
	return ro, nil
}

func runImpl(input string) (string, error) {
	in, err := sx.Parse(input)
	if err != nil {
		return "", err
	}
	if isEnvForm(in) {
		return runEnv(in) // a real Environment driven through its transitions, see envrun.go
	}
	if in.IsList && in.Len() == 5 {
		return runWrites(in) // loaded tree + runtime writes, see writes.go
	}
	if !validInput(in) {
		return "", fmt.Errorf("malformed input")
	}
	keys := universe(in)
	for _, k := range keys {
		if specialKeys[k] {
			return "", fmt.Errorf("input uses the task-special key %s", k)
		}
	}
	root, err := build(in)
	if err != nil {
		return "", err
	}
	obs := sx.L()
	var walk func(r workflow.Role, t *sx.Node) error
	walk = func(r workflow.Role, t *sx.Node) error {
		ro, err := observe(r, t, in.At(3), keys)
		if err != nil {
			return err
		}
		obs.Add(ro)
		for i, c := range r.GetRoles() {
			if err := walk(c, t.At(5+i)); err != nil {
				return err
			}
		}
		return nil
	}
	if err := walk(root, in.At(2)); err != nil {
		return "", err
	}
	return obs.String(), nil
}
