// Package c14: correspondence harness for property C14 (stub — registers nothing yet).
package c14
