package c14

// go/ast enumeration of every write the ENVIRONMENT performs on the variable maps
// the workflow resolves against (Gen/C14EnvWrites.lean):
//
//	env.workflow.SetRuntimeVar(s) / DeleteRuntimeVar      -> root role, user vars
//	env.workflow.Get{Defaults,Vars,UserVars}().Set / Del  -> root role, that map
//	env.Global{Defaults,Vars}.Set / Del, env.UserVars.…   -> the environment-wide maps
//	<role>.SetRuntimeVar(s) …                             -> some other role, user vars
//
// over all non-test, non-`verif` files of core/environment. Every row carries the
// context (FSM callback key or function name), for FSM callbacks the enclosing `if`
// conditions in a small symbolic language, the map KIND written, the key and where
// the value comes from (literal, run number, time.Now(), a copy of the configuration
// store's BaseConfigStack, …). Props/C14.lean identifies the table with the model's
// (`C14_env_writes_are_code`): a key moving to another kind of map breaks a theorem.

import (
	"bytes"
	"fmt"
	"go/ast"
	"go/parser"
	"go/printer"
	"go/token"
	"os"
	"path/filepath"
	"sort"
	"strconv"
	"strings"
)

type envWriteRow struct {
	file   string
	pos    token.Pos
	ctx    string
	guards []string
	tgt    string // root | env | role
	kind   string // defaults | vars | user
	op     string // set | del
	key    string
	src    string
}

var mapGetterKind = map[string]string{"GetDefaults": "defaults", "GetVars": "vars", "GetUserVars": "user"}
var envFieldKind = map[string]string{"GlobalDefaults": "defaults", "GlobalVars": "vars", "UserVars": "user"}

func exprText(fset *token.FileSet, e ast.Expr) string {
	var b bytes.Buffer
	printer.Fprint(&b, fset, e)
	return strings.Join(strings.Fields(b.String()), " ")
}

// selChain: a.b.c -> ["a","b","c"]; nil when the expression is not a pure selector chain.
func selChain(e ast.Expr) []string {
	switch x := e.(type) {
	case *ast.Ident:
		return []string{x.Name}
	case *ast.SelectorExpr:
		if c := selChain(x.X); c != nil {
			return append(c, x.Sel.Name)
		}
	}
	return nil
}

func isEnvWorkflow(e ast.Expr) bool {
	c := selChain(e)
	return len(c) == 2 && c[1] == "workflow"
}

// classifyReceiver: which map does `recv.method(...)` write? ok=false: not a variable write.
func classifyReceiver(recv ast.Expr, method string) (tgt, kind string, ok bool) {
	runtimeFamily := map[string]bool{"SetRuntimeVar": true, "SetRuntimeVars": true, "DeleteRuntimeVar": true,
		"SetGlobalRuntimeVar": true, "DeleteGlobalRuntimeVar": true}
	if runtimeFamily[method] {
		if isEnvWorkflow(recv) || strings.Contains(method, "Global") {
			return "root", "user", true
		}
		return "role", "user", true
	}
	if method != "Set" && method != "Del" {
		return "", "", false
	}
	// X.GetVars().Set(...)
	if call, isCall := recv.(*ast.CallExpr); isCall && len(call.Args) == 0 {
		if sel, isSel := call.Fun.(*ast.SelectorExpr); isSel {
			if k, isGetter := mapGetterKind[sel.Sel.Name]; isGetter {
				if isEnvWorkflow(sel.X) {
					return "root", k, true
				}
				return "role", k, true
			}
		}
		return "", "", false
	}
	// env.GlobalVars.Set(...)
	if c := selChain(recv); len(c) == 2 {
		if k, isField := envFieldKind[c[1]]; isField {
			return "env", k, true
		}
	}
	return "", "", false
}

type assignSite struct {
	pos token.Pos
	rhs []ast.Expr
	inc bool
}

// assignmentsIn: every assignment / ++ to a plain identifier inside fn, by name.
func assignmentsIn(fn ast.Node) map[string][]assignSite {
	out := map[string][]assignSite{}
	ast.Inspect(fn, func(n ast.Node) bool {
		switch s := n.(type) {
		case *ast.AssignStmt:
			for i, l := range s.Lhs {
				id, ok := l.(*ast.Ident)
				if !ok || id.Name == "_" {
					continue
				}
				var rhs []ast.Expr
				if len(s.Rhs) == len(s.Lhs) {
					rhs = []ast.Expr{s.Rhs[i]}
				} else {
					rhs = s.Rhs
				}
				out[id.Name] = append(out[id.Name], assignSite{pos: s.Pos(), rhs: rhs})
			}
		case *ast.IncDecStmt:
			if id, ok := s.X.(*ast.Ident); ok {
				out[id.Name] = append(out[id.Name], assignSite{pos: s.Pos(), inc: true})
			}
		}
		return true
	})
	return out
}

// markers: what the value expression is made of, identifiers resolved through every
// assignment that precedes `at` in the same function.
func markers(e ast.Expr, at token.Pos, asg map[string][]assignSite, depth int, out map[string]bool) {
	if depth > 6 || e == nil {
		return
	}
	ast.Inspect(e, func(n ast.Node) bool {
		switch x := n.(type) {
		case *ast.IndexExpr:
			if c := selChain(x.X); len(c) == 2 && c[1] == "BaseConfigStack" {
				if lit, ok := x.Index.(*ast.BasicLit); ok && lit.Kind == token.STRING {
					k, _ := strconv.Unquote(lit.Value)
					out["store:"+k] = true
				} else {
					out["store:?"] = true
				}
			}
		case *ast.CallExpr:
			if sel, ok := x.Fun.(*ast.SelectorExpr); ok {
				switch sel.Sel.Name {
				case "Now":
					if id, ok := sel.X.(*ast.Ident); ok && id.Name == "time" {
						out["stamp"] = true
					}
				case "NewUnixTimestamp":
					out["stamp"] = true
				case "NewRunNumber":
					out["runNumber"] = true
				case "Get":
					if c := selChain(sel.X); len(c) == 2 && envFieldKind[c[1]] != "" && len(x.Args) == 1 {
						if lit, ok := x.Args[0].(*ast.BasicLit); ok && lit.Kind == token.STRING {
							k, _ := strconv.Unquote(lit.Value)
							out["envget:"+c[1]+":"+k] = true
						}
					}
				}
			}
		case *ast.SelectorExpr:
			if c := selChain(x); len(c) == 2 && c[1] == "currentRunNumber" {
				out["currentRun"] = true
			}
		case *ast.Ident:
			for _, a := range asg[x.Name] {
				if a.pos >= at {
					continue
				}
				if a.inc {
					out["inc"] = true
					continue
				}
				for _, r := range a.rhs {
					markers(r, a.pos, asg, depth+1, out)
				}
			}
		}
		return true
	})
}

func srcOf(e ast.Expr, at token.Pos, asg map[string][]assignSite) string {
	if lit, ok := e.(*ast.BasicLit); ok && lit.Kind == token.STRING {
		v, _ := strconv.Unquote(lit.Value)
		return "lit:" + v
	}
	m := map[string]bool{}
	markers(e, at, asg, 0, m)
	var stores []string
	for k := range m {
		if strings.HasPrefix(k, "store:") {
			stores = append(stores, k)
		}
	}
	sort.Strings(stores)
	switch {
	case len(stores) > 0:
		return strings.Join(stores, "+")
	case m["runNumber"]:
		return "runNumber"
	case m["currentRun"]:
		return "currentRun"
	case m["envget:GlobalVars:__fmq_cleanup_count"] && m["inc"]:
		return "count+1"
	case m["envget:GlobalVars:__fmq_cleanup_count"]:
		return "count"
	case m["stamp"]:
		return "stamp"
	}
	return "other"
}

// latestDef: the right-hand side of the last assignment to `name` before `at`.
func latestDef(name string, at token.Pos, asg map[string][]assignSite) ast.Expr {
	var best *assignSite
	for i := range asg[name] {
		a := &asg[name][i]
		if a.pos < at && !a.inc && (best == nil || a.pos > best.pos) {
			best = a
		}
	}
	if best == nil || len(best.rhs) != 1 {
		return nil
	}
	return best.rhs[0]
}

// guardOf: one `if` condition in the symbolic language
//
//	event=X | src=X | emptyUser=K | inStore=K | opaque=<text>     (…!=… on the else branch)
func guardOf(fset *token.FileSet, cond ast.Expr, asg map[string][]assignSite, positive bool) string {
	eq := "="
	if !positive {
		eq = "!="
	}
	strLit := func(e ast.Expr) (string, bool) {
		if lit, ok := e.(*ast.BasicLit); ok && lit.Kind == token.STRING {
			v, _ := strconv.Unquote(lit.Value)
			return v, true
		}
		return "", false
	}
	if b, ok := cond.(*ast.BinaryExpr); ok {
		if b.Op == token.EQL {
			if c := selChain(b.X); len(c) == 2 && c[0] == "e" {
				if v, ok := strLit(b.Y); ok {
					switch c[1] {
					case "Event":
						return "event" + eq + v
					case "Src":
						return "src" + eq + v
					}
				}
			}
		}
		// ok && v == ""   with   v, ok := env.workflow.GetUserVars().Get("K")
		if b.Op == token.LAND {
			okId, isId := b.X.(*ast.Ident)
			cmp, isCmp := b.Y.(*ast.BinaryExpr)
			if isId && isCmp && cmp.Op == token.EQL {
				if v, isLit := strLit(cmp.Y); isLit && v == "" {
					if vid, ok := cmp.X.(*ast.Ident); ok {
						d1, d2 := latestDef(okId.Name, cond.Pos(), asg), latestDef(vid.Name, cond.Pos(), asg)
						if call, ok := d1.(*ast.CallExpr); ok && d1 == d2 && len(call.Args) == 1 {
							if sel, ok := call.Fun.(*ast.SelectorExpr); ok && sel.Sel.Name == "Get" {
								if inner, ok := sel.X.(*ast.CallExpr); ok {
									if isel, ok := inner.Fun.(*ast.SelectorExpr); ok && isel.Sel.Name == "GetUserVars" && isEnvWorkflow(isel.X) {
										if k, ok := strLit(call.Args[0]); ok {
											return "emptyUser" + eq + k
										}
									}
								}
							}
						}
					}
				}
			}
		}
	}
	if id, ok := cond.(*ast.Ident); ok {
		if ix, ok := latestDef(id.Name, cond.Pos(), asg).(*ast.IndexExpr); ok {
			if c := selChain(ix.X); len(c) == 2 && c[1] == "BaseConfigStack" {
				if k, ok := strLit(ix.Index); ok {
					return "inStore" + eq + k
				}
			}
		}
	}
	return "opaque" + eq + exprText(fset, cond)
}

// envWriteRows: the whole enumeration, in source order per file, files sorted.
func envWriteRows(repo string) ([]envWriteRow, error) {
	dir := filepath.Join(repo, "core", "environment")
	ents, err := os.ReadDir(dir)
	if err != nil {
		return nil, err
	}
	var rows []envWriteRow
	fset := token.NewFileSet()
	for _, ent := range ents {
		name := ent.Name()
		if ent.IsDir() || !strings.HasSuffix(name, ".go") || strings.HasSuffix(name, "_test.go") {
			continue
		}
		raw, err := os.ReadFile(filepath.Join(dir, name))
		if err != nil {
			return nil, err
		}
		if strings.HasPrefix(string(raw), "//go:build verif") {
			continue
		}
		f, err := parser.ParseFile(fset, filepath.Join(dir, name), raw, 0)
		if err != nil {
			return nil, err
		}
		for _, d := range f.Decls {
			fd, ok := d.(*ast.FuncDecl)
			if !ok || fd.Body == nil {
				continue
			}
			// FSM callbacks: function literals that are values of a `fsm.Callbacks{…}` literal
			callbacks := map[*ast.FuncLit]string{}
			ast.Inspect(fd, func(n ast.Node) bool {
				cl, ok := n.(*ast.CompositeLit)
				if !ok {
					return true
				}
				if c := selChain(cl.Type); len(c) != 2 || c[1] != "Callbacks" {
					return true
				}
				for _, el := range cl.Elts {
					kv, ok := el.(*ast.KeyValueExpr)
					if !ok {
						continue
					}
					kl, ok1 := kv.Key.(*ast.BasicLit)
					fl, ok2 := kv.Value.(*ast.FuncLit)
					if ok1 && ok2 && kl.Kind == token.STRING {
						k, _ := strconv.Unquote(kl.Value)
						callbacks[fl] = k
					}
				}
				return true
			})
			rows = append(rows, scanWrites(fset, name, fd.Name.Name, fd, fd.Body, callbacks, false)...)
		}
	}
	return rows, nil
}

// scanWrites walks `body` keeping the stack of enclosing if-branches; a callback
// literal starts a new context (its own guards, its own assignments).
func scanWrites(fset *token.FileSet, file, ctx string, scope ast.Node, body ast.Node, callbacks map[*ast.FuncLit]string, withGuards bool) []envWriteRow {
	asg := assignmentsIn(scope)
	var rows []envWriteRow
	var walk func(n ast.Node, guards []string)
	walk = func(n ast.Node, guards []string) {
		if n == nil {
			return
		}
		switch x := n.(type) {
		case *ast.FuncLit:
			if name, ok := callbacks[x]; ok {
				rows = append(rows, scanWrites(fset, file, name, x, x.Body, callbacks, true)...)
				return
			}
		case *ast.IfStmt:
			if x.Init != nil {
				walk(x.Init, guards)
			}
			walk(x.Cond, guards)
			gThen, gElse := guards, guards
			if withGuards {
				gThen = append(append([]string{}, guards...), guardOf(fset, x.Cond, asg, true))
				gElse = append(append([]string{}, guards...), guardOf(fset, x.Cond, asg, false))
			}
			walk(x.Body, gThen)
			if x.Else != nil {
				walk(x.Else, gElse)
			}
			return
		case *ast.CallExpr:
			if sel, ok := x.Fun.(*ast.SelectorExpr); ok {
				if tgt, kind, ok := classifyReceiver(sel.X, sel.Sel.Name); ok {
					op := "set"
					if strings.HasPrefix(sel.Sel.Name, "Del") {
						op = "del"
					}
					add := func(key string, val ast.Expr) {
						src := "-"
						if op == "set" {
							src = "other"
							if val != nil {
								src = srcOf(val, x.Pos(), asg)
							}
						}
						rows = append(rows, envWriteRow{file: file, pos: x.Pos(), ctx: ctx, guards: append([]string{}, guards...),
							tgt: tgt, kind: kind, op: op, key: key, src: src})
					}
					keyOf := func(e ast.Expr) string {
						if lit, ok := e.(*ast.BasicLit); ok && lit.Kind == token.STRING {
							k, _ := strconv.Unquote(lit.Value)
							return k
						}
						return "?" + exprText(fset, e)
					}
					switch {
					case sel.Sel.Name == "SetRuntimeVars":
						if len(x.Args) == 1 {
							if cl, ok := x.Args[0].(*ast.CompositeLit); ok {
								for _, el := range cl.Elts {
									if kv, ok := el.(*ast.KeyValueExpr); ok {
										add(keyOf(kv.Key), kv.Value)
									}
								}
							} else {
								add("?"+exprText(fset, x.Args[0]), nil)
							}
						}
					case len(x.Args) >= 1:
						var val ast.Expr
						if len(x.Args) >= 2 {
							val = x.Args[1]
						}
						add(keyOf(x.Args[0]), val)
					}
				}
			}
		}
		// generic descent
		ast.Inspect(n, func(c ast.Node) bool {
			if c == n || c == nil {
				return true
			}
			walk(c, guards)
			return false
		})
	}
	walk(body, nil)
	sort.SliceStable(rows, func(i, j int) bool { return rows[i].pos < rows[j].pos })
	return rows
}

func leanStr(s string) string {
	return "\"" + strings.NewReplacer("\\", "\\\\", "\"", "\\\"").Replace(s) + "\""
}

// splitGuard: "event!=X" -> ("event", false, "X")
func splitGuard(g string) (string, bool, string) {
	i := strings.Index(g, "=")
	name, arg, pos := g[:i], g[i+1:], true
	if strings.HasSuffix(name, "!") {
		name, pos = name[:len(name)-1], false
	}
	return name, pos, arg
}

// splitSrc: "store:K" -> ("store", "K"); "stamp" -> ("stamp", "")
func splitSrc(s string) (string, string) {
	if i := strings.Index(s, ":"); i >= 0 {
		return s[:i], s[i+1:]
	}
	return s, ""
}

func genEnvWrites(repo string) (string, error) {
	rows, err := envWriteRows(repo)
	if err != nil {
		return "", err
	}
	if len(rows) == 0 {
		return "", fmt.Errorf("no variable write found in core/environment")
	}
	var b strings.Builder
	b.WriteString("namespace Gen.C14EnvWrites\n\n")
	b.WriteString("/-- go/ast over core/environment/*.go (no tests, no `verif` files): every write the environment performs on the\n" +
		"    maps its workflow resolves variables against, in source order:\n" +
		"    (file, context = FSM callback key or function, enclosing `if` conditions (FSM callbacks only): (event|src|emptyUser|\n" +
		"    inStore|opaque, then-branch?, argument), target root|env|role, KIND of map defaults|vars|user, set|del, key,\n" +
		"    value source (lit, v) | (store, K) | runNumber | currentRun | count | count+1 | stamp | other | -). -/\n")
	b.WriteString("def table : List (String × String × List (String × Bool × String) × String × String × String × String × (String × String)) := [\n")
	for i, r := range rows {
		gs := make([]string, len(r.guards))
		for j, g := range r.guards {
			n, pos, arg := splitGuard(g)
			gs[j] = fmt.Sprintf("(%s, %s, %s)", leanStr(n), leanBool(pos), leanStr(arg))
		}
		sk, sa := splitSrc(r.src)
		fmt.Fprintf(&b, "  (%s, %s, [%s], %s, %s, %s, %s, (%s, %s))", leanStr(r.file), leanStr(r.ctx), strings.Join(gs, ", "),
			leanStr(r.tgt), leanStr(r.kind), leanStr(r.op), leanStr(r.key), leanStr(sk), leanStr(sa))
		if i+1 < len(rows) {
			b.WriteString(",")
		}
		b.WriteString("\n")
	}
	b.WriteString("]\n\nend Gen.C14EnvWrites\n")
	return b.String(), nil
}
