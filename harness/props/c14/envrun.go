package c14

// Variable writes performed by the ENVIRONMENT's own transitions.
//
// Input  : (E style (SD SV U) tree tmpl sched)      -- six elements, the first is the atom E
//
//	SD SV  configuration-store defaults / vars (GlobalDefaults / GlobalVars of the environment; BaseConfigStack = SV over SD)
//	U      the variables the user supplies at environment creation (newEnvironment's userVars = the environment's UserVars)
//	tree   as in the five-element form (iterators allowed), loaded by the real ProcessTemplates under the REAL
//	       environment's ParentAdapter; tmpl as everywhere
//	sched  := ((T EVENT) | (F EVENT) | (S addr k v) | (G addr k v) | (D addr k) | (X addr k))*
//	       T: Environment.TryTransition with a transition whose task-level body succeeds, F: … whose body fails;
//	       the four write ops of the five-element form, between transitions
//
// A real core/environment.Environment is created by newEnvironment (build-tag hook
// NewEnvironmentForVerif) with U; SD/SV are put into its GlobalDefaults/GlobalVars and
// BaseConfigStack is recomputed with newEnvironment's own expression (the mock://
// configuration store is empty); the loaded tree becomes its workflow. Every event goes
// through the real TryTransition, i.e. the real fsm and the real before_event /
// leave_state / enter_state / after_event callbacks, which write run_number,
// run_*_time_ms, lhc_period, pdp_n_hbf_per_tf, … into the root role's maps.
//
// Obs    : ((STATE RES (role*))*)  -- one snapshot after the load (RES = new) and one after every sched item
//	(RES = ok | illegal | body | other for an event, w for a write); role = the per-role record of the
//	other forms, at EVERY role, restricted to the key universe (input keys + the keys the environment
//	writes). Millisecond timestamps are printed as T, run numbers as 1, 2, … in the order they were drawn.

import (
	"fmt"
	"os"
	"path/filepath"
	"regexp"
	"sort"
	"strconv"
	"strings"
	"sync"

	"github.com/AliceO2Group/Control/common/gera"
	"github.com/AliceO2Group/Control/common/utils/uid"
	"github.com/AliceO2Group/Control/core/environment"
	"github.com/AliceO2Group/Control/core/task"
	"github.com/spf13/viper"

	"verifharness/sx"
)

// envKeys: the keys the environment itself writes into the maps of its workflow / its own
// (rows of Gen/C14EnvWrites.lean with context newEnvironment or an FSM callback) — always observed.
var envKeys = []string{"__fmq_cleanup_count", "enter_state_time_ms", "last_run_number", "lhc_period", "pdp_n_hbf_per_tf",
	"runNumber", "run_end_completion_time_ms", "run_end_time_ms", "run_number", "run_start_completion_time_ms", "run_start_time_ms"}

// reservedKeys: not available to inputs — the FairMQ cleanup counter (the core parses it), and
// what apricot's GetDefaults adds to every environment's GlobalDefaults (host dependent).
var reservedKeys = map[string]bool{"__fmq_cleanup_count": true, "consul_base_uri": true, "consul_hostname": true,
	"consul_port": true, "consul_endpoint": true, "framework_id": true, "core_hostname": true}

var fsmEvents = map[string]bool{"DEPLOY": true, "CONFIGURE": true, "RESET": true, "START_ACTIVITY": true,
	"STOP_ACTIVITY": true, "EXIT": true, "GO_ERROR": true, "RECOVER": true}

const runCounterBase = 7000000

var (
	envOnce    sync.Once
	envErr     error
	envWorkDir string
	envTaskman *task.Manager
	envMu      sync.Mutex // the file-based run counter of the mock configuration service is check-and-set
)

func envSetup() error {
	envOnce.Do(func() {
		confOnce.Do(func() { viper.Set("configServiceUri", "mock://") })
		envWorkDir, envErr = os.MkdirTemp("", "c14env-")
		if envErr != nil {
			return
		}
		viper.Set("coreWorkingDir", envWorkDir)
		envErr = os.WriteFile(filepath.Join(envWorkDir, "runcounter.txt"), []byte(strconv.Itoa(runCounterBase)), 0o644)
		envTaskman = task.NewBareManagerForVerif()
	})
	return envErr
}

func isEnvForm(in *sx.Node) bool {
	return in.IsList && in.Len() == 6 && !in.At(0).IsList && in.At(0).Str() == "E"
}

func isTransItem(o *sx.Node) bool {
	return o.IsList && o.Len() == 2 && !o.At(0).IsList && !o.At(1).IsList && (o.At(0).Str() == "T" || o.At(0).Str() == "F")
}

// asWForm: the five-element view (style env tree tmpl write-ops) of an E input.
func asWForm(in *sx.Node) *sx.Node {
	ops := sx.L()
	if in.At(5).IsList {
		for _, o := range in.At(5).List {
			if !isTransItem(o) {
				ops.Add(o)
			}
		}
	}
	return sx.L(in.At(1), in.At(2), in.At(3), in.At(4), ops)
}

func validInputE(in *sx.Node) (loaded *sx.Node, ok bool) {
	if !isEnvForm(in) || !in.At(5).IsList || !in.At(2).IsList || in.At(2).Len() != 3 {
		return nil, false
	}
	for _, o := range in.At(5).List {
		if isTransItem(o) && !fsmEvents[o.At(1).Str()] {
			return nil, false
		}
	}
	return validInputW(asWForm(in))
}

func universeE(in *sx.Node) []string {
	set := map[string]bool{}
	for _, k := range universeW(asWForm(in)) {
		set[k] = true
	}
	for _, k := range envKeys {
		set[k] = true
	}
	keys := make([]string, 0, len(set))
	for k := range set {
		keys = append(keys, k)
	}
	sort.Strings(keys)
	return keys
}

func inputKeysE(in *sx.Node) []string { return universeW(asWForm(in)) }

var reStamp = regexp.MustCompile(`^[0-9]{13}$`)

// canon: millisecond timestamps -> T, run numbers drawn in this case -> their ordinal.
func canon(n *sx.Node, runs map[string]string) *sx.Node {
	if !n.IsList {
		if o, ok := runs[n.Atom]; ok {
			return sx.A(o)
		}
		if reStamp.MatchString(n.Atom) {
			return sx.A("T")
		}
		return n
	}
	c := sx.L()
	for _, x := range n.List {
		c.Add(canon(x, runs))
	}
	return c
}

func classifyTrans(err error) string {
	if err == nil {
		return "ok"
	}
	s := err.Error()
	switch {
	case strings.Contains(s, "inappropriate in current state"):
		return "illegal"
	case strings.Contains(s, "scripted body failed"):
		return "body"
	}
	return "other"
}

func runEnv(in *sx.Node) (string, error) {
	loaded, ok := validInputE(in)
	if !ok {
		return "", fmt.Errorf("malformed input")
	}
	for _, k := range inputKeysE(in) {
		if specialKeys[k] || reservedKeys[k] {
			return "", fmt.Errorf("input uses the reserved key %s", k)
		}
	}
	if err := envSetup(); err != nil {
		return "", fmt.Errorf("environment harness setup: %v", err)
	}
	keys := universeE(in)
	store := in.At(2)

	env, err := environment.NewEnvironmentForVerif(kvMap(store.At(2)), uid.New())
	if err != nil {
		return "", fmt.Errorf("newEnvironment: %v", err)
	}
	// the configuration store's content (newEnvironment read an empty mock store)
	for k, v := range kvMap(store.At(0)) {
		env.GlobalDefaults.Set(k, v)
	}
	for k, v := range kvMap(store.At(1)) {
		env.GlobalVars.Set(k, v)
	}
	env.BaseConfigStack, err = gera.MakeMapWithMap(env.GlobalVars.Raw()).
		WrappedAndFlattened(gera.MakeMapWithMap(env.GlobalDefaults.Raw()))
	if err != nil {
		return "", fmt.Errorf("base config stack: %v", err)
	}
	root, err := loadTree(in.At(1).Int(), in.At(3), env.WfAdapterForVerif(), env.BaseConfigStack)
	if err != nil {
		return "", err
	}
	pre, err := pairLoaded(root, loaded)
	if err != nil {
		return "", err
	}
	for _, p := range pre {
		if m := kvMap(p.t.At(3)); len(m) > 0 {
			p.r.SetRuntimeVars(m)
		}
	}
	env.SetWorkflowForVerif(root)

	runs := map[string]string{}
	obs := sx.L()
	snapshot := func(res string) error {
		roles := sx.L()
		for _, p := range pre {
			ro, err := observeR(p.r, p.t, in.At(4), keys, true)
			if err != nil {
				return err
			}
			roles.Add(ro)
		}
		obs.Add(sx.L(sx.A(env.CurrentState()), sx.A(res), canon(roles, runs)))
		return nil
	}
	if err := snapshot("new"); err != nil {
		return "", err
	}
	for _, o := range in.At(5).List {
		if !isTransItem(o) {
			if err := applyOp(root, loaded, o); err != nil {
				return "", err
			}
			if err := snapshot("w"); err != nil {
				return "", err
			}
			continue
		}
		evName, bodyOk := o.At(1).Str(), o.At(0).Str() == "T"
		tr := environment.NewScriptedTransition(evName, envTaskman, func(*environment.Environment) error {
			if !bodyOk {
				return fmt.Errorf("scripted body failed")
			}
			return nil
		})
		envMu.Lock()
		before := env.GetCurrentRunNumber()
		terr := env.TryTransition(tr)
		after := env.GetCurrentRunNumber()
		envMu.Unlock()
		if evName == "START_ACTIVITY" && after != before && after != 0 {
			runs[strconv.FormatUint(uint64(after), 10)] = strconv.Itoa(len(runs) + 1)
		}
		res := classifyTrans(terr)
		if res == "other" {
			// the run counter file and the mock store are harness infrastructure
			return "", fmt.Errorf("transition %s failed outside the scripted classes: %v", evName, terr)
		}
		if err := snapshot(res); err != nil {
			return "", err
		}
	}
	return obs.String(), nil
}
