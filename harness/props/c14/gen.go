package c14

import (
	"fmt"
	"go/ast"
	"go/parser"
	"go/token"
	"strings"
	texttemplate "text/template"

	"dario.cat/mergo"
	"github.com/AliceO2Group/Control/common/gera"
	"github.com/AliceO2Group/Control/configuration/template"

	"verifharness/fw"
	"verifharness/rng"
	"verifharness/sx"
)

// ---- generator ---------------------------------------------------------------------

func kvNode(pairs ...string) *sx.Node {
	n := sx.L()
	for i := 0; i+1 < len(pairs); i += 2 {
		n.Add(sx.L(sx.A(pairs[i]), sx.A(pairs[i+1])))
	}
	return n
}

// slot adds key k to m according to digit: 0 absent, 1 empty, 2 value.
func slot(m *sx.Node, k string, digit int, value string) {
	switch digit {
	case 1:
		m.Add(sx.L(sx.A(k), sx.A("")))
	case 2:
		m.Add(sx.L(sx.A(k), sx.A(value)))
	}
}

type exhCfg struct {
	roles int
	env   bool
	tmpl  bool
}

var exhCfgs = []exhCfg{{1, false, false}, {2, false, false}, {3, false, false}, {1, true, false}, {2, true, false}, {2, false, true}}

func pow3(n int) int {
	p := 1
	for i := 0; i < n; i++ {
		p *= 3
	}
	return p
}

const perCase = 9

// exhaustive: every distribution of ONE key over {absent, empty, value} at each
// kind (defaults, vars, user vars) of each level of a chain with at most three
// levels (the outermost may be the environment), plus — for a two-role chain —
// the two task-template maps. Nine patterns share a case, one key each.
func exhaustive() []fw.Case {
	var cs []fw.Case
	for _, cfg := range exhCfgs {
		levels := cfg.roles
		if cfg.env {
			levels++
		}
		slots := 3 * levels
		if cfg.tmpl {
			slots += 2
		}
		total := pow3(slots)
		for base := 0; base < total; base += perCase {
			// maps[level][kind]; level 0 = deepest role … then root, then env
			maps := make([][3]*sx.Node, levels)
			for i := range maps {
				maps[i] = [3]*sx.Node{sx.L(), sx.L(), sx.L()}
			}
			td, tv := sx.L(), sx.L()
			for j := 0; j < perCase && base+j < total; j++ {
				x := base + j
				k := fmt.Sprintf("k%d", j)
				for l := 0; l < levels; l++ {
					for kind := 0; kind < 3; kind++ {
						slot(maps[l][kind], k, x%3, fmt.Sprintf("%c%d", "dvu"[kind], l))
						x /= 3
					}
				}
				if cfg.tmpl {
					slot(td, k, x%3, "td")
					x /= 3
					slot(tv, k, x%3, "tv")
				}
			}
			// build the chain bottom-up
			var node *sx.Node
			for l := 0; l < cfg.roles; l++ {
				kind := "A"
				if l == 0 && cfg.roles > 1 {
					kind = "T"
				}
				n := sx.L(sx.A(kind), maps[l][0], maps[l][1], maps[l][2], sx.L())
				if node != nil {
					n.Add(node)
				}
				node = n
			}
			env := sx.L()
			if cfg.env {
				e := maps[levels-1]
				env = sx.L(e[0], e[1], e[2])
			}
			tmpl := sx.L()
			if cfg.tmpl {
				tmpl = sx.L(td, tv)
			}
			tag := fmt.Sprintf("exh:roles=%d,env=%v,tmpl=%v", cfg.roles, cfg.env, cfg.tmpl)
			cs = append(cs, fw.Case{Input: sx.L(sx.I(0), env, node, tmpl).String(), Tags: []string{"exhaustive", tag}})
		}
	}
	return cs
}

func randMap(r *rng.R, keys []string, value string, pDef int) *sx.Node {
	m := sx.L()
	for _, k := range keys {
		if !r.P(pDef, 12) {
			continue
		}
		if r.P(1, 3) {
			m.Add(sx.L(sx.A(k), sx.A("")))
		} else {
			m.Add(sx.L(sx.A(k), sx.A(value)))
		}
	}
	return m
}

func genTree(r *rng.R, keys []string, depth, maxDepth int, path string, budget *int, pDef int) *sx.Node {
	*budget--
	kind := "A"
	if depth > 0 && (depth >= maxDepth-1 || *budget <= 0 || r.P(1, 4)) {
		kind = rng.Pick(r, []string{"T", "T", "T", "C"})
	}
	locals := sx.L()
	if r.P(1, 4) {
		locals = randMap(r, keys, "l"+path, 5)
	}
	n := sx.L(sx.A(kind), randMap(r, keys, "d"+path, pDef), randMap(r, keys, "v"+path, pDef), randMap(r, keys, "u"+path, pDef), locals)
	if kind == "A" {
		kids := r.Range(1, 3)
		if depth == 0 && maxDepth == 1 {
			kids = 0
		}
		for i := 0; i < kids && *budget > 0; i++ {
			n.Add(genTree(r, keys, depth+1, maxDepth, fmt.Sprintf("%s%d", path, i), budget, pDef))
		}
	}
	return n
}

func genRandom(r *rng.R) fw.Case {
	nk := r.Range(1, 4)
	keys := make([]string, nk)
	for i := range keys {
		keys[i] = fmt.Sprintf("k%d", i)
	}
	maxDepth := r.Range(1, 6)
	budget := r.Range(maxDepth, 12)
	pDef := rng.Pick(r, []int{3, 5, 8})
	tree := genTree(r, keys, 0, maxDepth, "", &budget, pDef)
	env := sx.L()
	if r.P(7, 10) {
		env = sx.L(randMap(r, keys, "gd", pDef), randMap(r, keys, "gv", pDef), randMap(r, keys, "gu", pDef))
	}
	tmpl := sx.L()
	if r.P(1, 2) {
		tmpl = sx.L(randMap(r, keys, "td", 6), randMap(r, keys, "tv", 6))
	}
	style := rng.Pick(r, []int{0, 0, 1, 2})
	in := sx.L(sx.I(style), env, tree, tmpl)
	tags := []string{"random", fmt.Sprintf("style=%d", style), fmt.Sprintf("depth=%d", treeDepth(tree)),
		fmt.Sprintf("env=%v", env.Len() == 3), fmt.Sprintf("tmpl=%v", tmpl.Len() == 2)}
	return fw.Case{Input: in.String(), Tags: tags}
}

func treeDepth(t *sx.Node) int {
	d := 0
	for i := 5; i < t.Len(); i++ {
		if x := treeDepth(t.At(i)); x > d {
			d = x
		}
	}
	return d + 1
}

func generate(tier string, r *rng.R) []fw.Case {
	cs := exhaustive()
	n := 1200
	if tier == "thorough" {
		n = 30000
	}
	for i := 0; i < n; i++ {
		cs = append(cs, genRandom(r.Fork()))
	}
	// loaded trees (real ProcessTemplates, iterator expansion) + histories of runtime writes
	cs = append(cs, fixedWrites()...)
	nw := 600
	if tier == "thorough" {
		nw = 10000
	}
	for i := 0; i < nw; i++ {
		cs = append(cs, genRandomWrites(r.Fork()))
	}
	// a real Environment driven through its transitions: the environment's own variable writes
	cs = append(cs, fixedEnv()...)
	ne := 150
	if tier == "thorough" {
		ne = 3000
	}
	for i := 0; i < ne; i++ {
		cs = append(cs, genRandomEnv(r.Fork()))
	}
	return cs
}

// nontrivial: on some root-to-leaf path (environment included) some key is
// defined by at least two sources, i.e. the precedence rule has something to decide.
func nontrivial(input, obs string) bool {
	in, err := sx.Parse(input)
	if err == nil && isEnvForm(in) {
		return nontrivialE(in)
	}
	if err == nil && in.IsList && in.Len() == 5 {
		return nontrivialW(in)
	}
	if err != nil || in.Len() != 4 {
		return false
	}
	count := map[string]int{}
	add := func(m *sx.Node, d int) {
		seen := map[string]bool{}
		for _, e := range m.List {
			if !seen[e.At(0).Str()] {
				seen[e.At(0).Str()] = true
				count[e.At(0).Str()] += d
			}
		}
	}
	for _, m := range in.At(1).List {
		add(m, 1)
	}
	found := false
	var walk func(t *sx.Node)
	walk = func(t *sx.Node) {
		for i := 1; i <= 3; i++ {
			add(t.At(i), 1)
		}
		for _, c := range count {
			if c >= 2 {
				found = true
			}
		}
		for i := 5; i < t.Len() && !found; i++ {
			walk(t.At(i))
		}
		for i := 1; i <= 3; i++ {
			add(t.At(i), -1)
		}
	}
	walk(in.At(2))
	return found
}

// ---- shrinking ---------------------------------------------------------------------

func cloneNode(n *sx.Node) *sx.Node {
	if !n.IsList {
		return sx.A(n.Atom)
	}
	c := sx.L()
	for _, x := range n.List {
		c.Add(cloneNode(x))
	}
	return c
}

// dropKey removes every binding of k.
func dropKey(n *sx.Node, k string) *sx.Node {
	if !n.IsList {
		return sx.A(n.Atom)
	}
	c := sx.L()
	for _, x := range n.List {
		if x.IsList && len(x.List) == 2 && !x.List[0].IsList && !x.List[1].IsList && x.List[0].Atom == k {
			continue
		}
		c.Add(dropKey(x, k))
	}
	return c
}

func shrinkCands(input string) []string {
	in, err := sx.Parse(input)
	if err == nil && isEnvForm(in) {
		return shrinkCandsE(in)
	}
	if err == nil && in.IsList && in.Len() == 5 {
		return shrinkCandsW(in)
	}
	if err != nil || in.Len() != 4 {
		return nil
	}
	var out []string
	emit := func(style, env, tree, tmpl *sx.Node) {
		out = append(out, sx.L(style, env, tree, tmpl).String())
	}
	st, env, tree, tmpl := in.At(0), in.At(1), in.At(2), in.At(3)
	if env.Len() == 3 {
		emit(st, sx.L(), tree, tmpl)
	}
	if tmpl.Len() == 2 {
		emit(st, env, tree, sx.L())
	}
	if st.Str() != "0" {
		emit(sx.I(0), env, tree, tmpl)
	}
	for _, k := range universe(in) {
		out = append(out, dropKey(in, k).String())
	}
	// drop one subtree / promote an aggregator child to root / empty one map
	var paths [][]int
	var collect func(t *sx.Node, p []int)
	collect = func(t *sx.Node, p []int) {
		paths = append(paths, append([]int{}, p...))
		for i := 5; i < t.Len(); i++ {
			collect(t.At(i), append(p, i))
		}
	}
	collect(tree, nil)
	at := func(t *sx.Node, p []int) *sx.Node {
		for _, i := range p {
			t = t.At(i)
		}
		return t
	}
	for _, p := range paths {
		if len(p) > 0 {
			c := cloneNode(tree)
			par := at(c, p[:len(p)-1])
			i := p[len(p)-1]
			par.List = append(par.List[:i], par.List[i+1:]...)
			emit(st, env, c, tmpl)
		}
		for m := 1; m <= 4; m++ {
			if at(tree, p).At(m).Len() > 0 {
				c := cloneNode(tree)
				at(c, p).List[m] = sx.L()
				emit(st, env, c, tmpl)
			}
		}
	}
	for i := 5; i < tree.Len(); i++ {
		if tree.At(i).At(0).Str() == "A" {
			emit(st, env, tree.At(i), tmpl)
		}
	}
	return out
}

func init() {
	fw.Register(&fw.Property{
		ID:         "C14",
		Generate:   generate,
		RunImpl:    runImpl,
		Nontrivial: nontrivial,
		Rule: "(a) exhaustive: every distribution of one key over {absent, empty, value} x {defaults, vars, user vars} x level for chains of <=3 levels " +
			"(1-3 roles; environment + 1-2 roles) and for a 2-role chain plus the two task-template maps, nine keys per case; (b) random role trees " +
			"(depth<=6, <=12 roles, aggregator/task/call, 1-4 keys, environment-wide maps in 70%, iterator locals, task template in 50%, three YAML " +
			"renderings) built through the package's unmarshallers; at EVERY role ConsolidatedVarStack/VarMaps, gera.FlattenStack, Get on the three hierarchies, a {{k}} " +
			"probe at each of the 6 template stages of Sequence.Execute and — at task leaves — the command line and a property built by " +
			"BuildTaskCommand/BuildPropertyMap are compared with the Lean model; non-trivial = some key has >=2 defining sources on one root-to-leaf " +
			"path; (c) writes after load: workflow templates WITH iterators (JSON-list and begin/end ranges, nested, iteration variable possibly " +
			"shadowing a key) loaded by the real ProcessTemplates, then a history of SetRuntimeVar / SetGlobalRuntimeVar / DeleteRuntimeVar / " +
			"DeleteGlobalRuntimeVar calls on arbitrary roles of the loaded tree, then the same observation at EVERY role — 7 fixed shapes x every " +
			"role x 9 histories, and random templates (<=14 loaded roles, 1-6 writes); non-trivial = some non-global write lands below the root; " +
			"(c') INCLUDE ROLES in those templates (node N: the include site's own defaults/vars + the root of the included sub-workflow with defaults/vars " +
			"of its own, served from an in-memory workflow repository through the LoadSubworkflowFunc given to ProcessTemplates): plain, as an iterator's " +
			"template, nested, with iterators inside the included workflow, with the iteration variable also defined at the root / in the environment / in the " +
			"included root — 4 more fixed shapes x every role x 9 histories, one third of the random templates (tags wincl=, witerincl=), one environment shape; " +
			"(d) writes of the environment itself: a REAL core/environment.Environment (newEnvironment, real fsm and callbacks, TryTransition) with a " +
			"configuration store (defaults, vars -> BaseConfigStack), user-supplied variables and a loaded workflow, driven through schedules of " +
			"transitions (legal, illegal, with failing task-level bodies) and runtime writes in between; the per-role observation at EVERY role after " +
			"the load and after EVERY schedule item — 4 workflow shapes x 6 store/user configurations x 7 schedules, and random ones (<=6 roles, " +
			"2-8 items); non-trivial = the schedule requests START_ACTIVITY and the input defines a key the environment writes; " +
			"distinct by input text",
		Shrink: shrinkCands,
		Exhaustive: func(string) bool { return false }, // the exhaustive block is complete, the random block is a sample
		Workers:    8,
		TrustedBase: []string{
			"harness/props/c14 (YAML builder, probe fields `[{{ k }}]`, map dump)",
			"gopkg.in/yaml.v3 unmarshalling of roles and task classes",
			"hooks core/workflow/verif_hook_c14.go (VerifC14SetParent = setParent) and core/task/verif_hook_c14.go (VerifC14NewTask = the Task literal of newTaskForMesosOffer)",
			"expr-lang/fasttemplate evaluation of a bare identifier",
			"writes form: repos.Repo{h/p/r@x} as the workflow repository, addressing of loaded roles by child index through GetRoles()",
			"include roles: the LoadSubworkflowFunc of the harness (reflect.MakeFunc over the exported func type; NewAggregatorRole + yaml.Unmarshal + setParent = the steps of the closure in workflow.Load, reading from a map instead of the repository manager's checkout); go/ast of the four ProcessTemplates (loadfacts.go)",
			"environment form: hooks core/environment/verif_hooks.go (NewEnvironmentForVerif = newEnvironment, SetWorkflowForVerif, WfAdapterForVerif, NewScriptedTransition), " +
				"core/task NewBareManagerForVerif; the store's content is put into the exported GlobalDefaults/GlobalVars after newEnvironment and BaseConfigStack is " +
				"recomputed with newEnvironment's expression; timestamps printed as T (13 digits), run numbers by order of drawing; go/ast enumeration of the environment's writes (envfacts.go)",
		},
		Assumptions: []string{
			"keys probed are disjoint from the six task-special names written by buildSpecialVarStack",
			"values contain no template syntax (template references between levels are C15's load model)",
			"the configuration service (mock://) is not consulted when a field is a bare identifier",
			"writes form: every aggregator has a child and every iterator a value (pruning of disabled/empty roles is C15's subject); a role's U is written after the load on every instance",
			"include roles: the include site has no user vars (none can be written before the load through the harness; after the load no API reaches that map) and the include expression is a literal name",
			"environment form: no hooks in the workflow, the task-level body of a transition writes no variable (true of the real transition bodies: go/ast table lists every write of core/environment), " +
				"inputs do not use __fmq_cleanup_count nor the six keys apricot's GetDefaults adds (consul_*, framework_id, core_hostname); opaque guard `err == nil` of before_event holds",
		},
	})
	fw.RegisterGen(fw.GenFile{Name: "VarsFacts.lean", Make: genFacts})
	fw.RegisterGen(fw.GenFile{Name: "C14EnvWrites.lean", Make: genEnvWrites})
	fw.RegisterGen(fw.GenFile{Name: "C14LoadFacts.lean", Make: genLoadFacts})
}

// ---- regenerated facts ----------------------------------------------------------------

// cell codes: 0 absent, 1 empty string, 2 destination's value, 3 source's value
func mergoCell(overwrite bool, dst, src int) (int, error) {
	d, s := map[string]string{}, map[string]string{}
	switch dst {
	case 1:
		d["k"] = ""
	case 2:
		d["k"] = "x"
	}
	switch src {
	case 1:
		s["k"] = ""
	case 2:
		s["k"] = "y"
	}
	var err error
	if overwrite {
		err = mergo.Merge(&d, s, mergo.WithOverride)
	} else {
		err = mergo.Merge(&d, s)
	}
	if err != nil {
		return 0, err
	}
	v, ok := d["k"]
	switch {
	case !ok:
		return 0, nil
	case v == "":
		return 1, nil
	case v == "x":
		return 2, nil
	case v == "y":
		return 3, nil
	}
	return 0, fmt.Errorf("mergo produced %q", v)
}

// usesWithOverride: does method `name` of WrapMap in gera/map.go call
// mergo.Merge(..., mergo.WithOverride)?
func usesWithOverride(repo, name string) (bool, error) {
	fset := token.NewFileSet()
	f, err := parser.ParseFile(fset, repo+"/common/gera/map.go", nil, 0)
	if err != nil {
		return false, err
	}
	found, with := false, false
	for _, d := range f.Decls {
		fd, ok := d.(*ast.FuncDecl)
		if !ok || fd.Recv == nil || fd.Name.Name != name {
			continue
		}
		ast.Inspect(fd, func(n ast.Node) bool {
			call, ok := n.(*ast.CallExpr)
			if !ok {
				return true
			}
			sel, ok := call.Fun.(*ast.SelectorExpr)
			if !ok || sel.Sel.Name != "Merge" {
				return true
			}
			if x, ok := sel.X.(*ast.Ident); !ok || x.Name != "mergo" {
				return true
			}
			found = true
			for _, a := range call.Args {
				if s, ok := a.(*ast.SelectorExpr); ok && s.Sel.Name == "WithOverride" {
					with = true
				}
			}
			return true
		})
	}
	if !found {
		return false, fmt.Errorf("no mergo.Merge call in gera WrapMap.%s", name)
	}
	return with, nil
}

func leanBool(b bool) string {
	if b {
		return "true"
	}
	return "false"
}

func genFacts(repo string) (string, error) {
	var b strings.Builder
	b.WriteString("namespace Gen.VarsFacts\n\n")
	b.WriteString("/-- dario.cat/mergo Merge on map[string]string, one key, by evaluation:\n    [overwrite 0/1][dst absent/empty/\"x\"][src absent/empty/\"y\"] → 0 absent, 1 empty, 2 \"x\", 3 \"y\". -/\n")
	b.WriteString("def mergoTable : List (List (List Nat)) := [\n")
	for ow := 0; ow < 2; ow++ {
		b.WriteString("  [")
		for d := 0; d < 3; d++ {
			if d > 0 {
				b.WriteString(", ")
			}
			b.WriteString("[")
			for s := 0; s < 3; s++ {
				c, err := mergoCell(ow == 1, d, s)
				if err != nil {
					return "", err
				}
				if s > 0 {
					b.WriteString(", ")
				}
				fmt.Fprintf(&b, "%d", c)
			}
			b.WriteString("]")
		}
		b.WriteString("]")
		if ow == 0 {
			b.WriteString(",")
		}
		b.WriteString("\n")
	}
	b.WriteString("]\n\n")
	for _, m := range []string{"Flattened", "WrappedAndFlattened"} {
		w, err := usesWithOverride(repo, m)
		if err != nil {
			return "", err
		}
		fmt.Fprintf(&b, "/-- go/ast: WrapMap.%s calls mergo.Merge with mergo.WithOverride. -/\ndef %sOverride : Bool := %s\n\n", m, strings.ToLower(m[:1])+m[1:], leanBool(w))
	}

	// stage visibility of the role's OWN defaults / vars / user vars, by evaluation
	b.WriteString("/-- template.Sequence.Execute, by evaluation: at stage i, is a key defined only in the role's own\n    defaults / vars / user vars visible to a field? -/\ndef stageTable : List (Bool × Bool × Bool) := [")
	parent := [3]*gera.WrapMap[string, string]{gera.MakeMap[string, string](), gera.MakeMap[string, string](), gera.MakeMap[string, string]()}
	own := [3]*gera.WrapMap[string, string]{}
	for i, k := range []string{"kd", "kv", "ku"} {
		own[i] = gera.MakeMapWithMap(map[string]string{k: "x"})
		own[i].Wrap(parent[i])
	}
	for s := 0; s < 6; s++ {
		var vis [3]bool
		for i, k := range []string{"kd", "kv", "ku"} {
			field := "[{{ " + k + " }}]"
			seq := template.Sequence{template.Stage(s): template.Fields{template.WrapPointer(&field)}}
			err := seq.Execute(nil, "gen", template.VarStack{Locals: map[string]string{}, Defaults: own[0], Vars: own[1], UserVars: own[2]},
				func(template.Stage) map[string]interface{} { return map[string]interface{}{} }, nil,
				make(map[string]texttemplate.Template), nil, template.NullCallback)
			switch {
			case err == nil && field == "[x]":
				vis[i] = true
			case err != nil && strings.Contains(err.Error(), "unknown name "+k):
				vis[i] = false
			default:
				return "", fmt.Errorf("stage probe %d/%s: field %q err %v", s, k, field, err)
			}
		}
		if s > 0 {
			b.WriteString(", ")
		}
		fmt.Fprintf(&b, "(%s, %s, %s)", leanBool(vis[0]), leanBool(vis[1]), leanBool(vis[2]))
	}
	b.WriteString("]\n\n")

	// which kind wins, by evaluation of ConsolidatedVarStack on a real role
	b.WriteString("/-- roleBase.ConsolidatedVarStack on a real role, by evaluation: index = 1·(defaults defines k)\n    + 2·(vars defines k) + 4·(user vars defines k) → 0 absent, 1 defaults' value, 2 vars', 3 user vars'. -/\ndef kindRankTable : List Nat := [")
	for mask := 0; mask < 8; mask++ {
		tree := sx.L(sx.A("A"), sx.L(), sx.L(), sx.L(), sx.L())
		if mask&1 != 0 {
			tree.List[1] = kvNode("k", "d")
		}
		if mask&2 != 0 {
			tree.List[2] = kvNode("k", "v")
		}
		if mask&4 != 0 {
			tree.List[3] = kvNode("k", "u")
		}
		root, err := build(sx.L(sx.I(0), sx.L(), tree, sx.L()))
		if err != nil {
			return "", err
		}
		st, err := root.ConsolidatedVarStack()
		if err != nil {
			return "", err
		}
		code := 0
		if v, ok := st["k"]; ok {
			code = map[string]int{"d": 1, "v": 2, "u": 3}[v]
			if code == 0 {
				return "", fmt.Errorf("kind rank: unexpected value %q", v)
			}
		}
		if mask > 0 {
			b.WriteString(", ")
		}
		fmt.Fprintf(&b, "%d", code)
	}
	b.WriteString("]\n\n")

	// which of workflow / task template vars / task template defaults the command line and a
	// property see, by evaluation of the real BuildTaskCommand / BuildPropertyMap on a task leaf
	b.WriteString("/-- Task.BuildTaskCommand / Task.BuildPropertyMap on a real task role, by evaluation: index = 1·(template\n    defaults define k) + 2·(template vars define k) + 4·(the workflow defines k) → (command line, property),\n    each 0 absent, 1 the template defaults' value, 2 the template vars', 3 the workflow's. -/\ndef taskRankTable : List (Nat × Nat) := [")
	for mask := 0; mask < 8; mask++ {
		leaf := sx.L(sx.A("T"), sx.L(), sx.L(), sx.L(), sx.L())
		td, tv := sx.L(), sx.L()
		if mask&1 != 0 {
			td = kvNode("k", "d")
		}
		if mask&2 != 0 {
			tv = kvNode("k", "v")
		}
		if mask&4 != 0 {
			leaf.List[2] = kvNode("k", "w")
		}
		tmpl := sx.L(td, tv)
		root, err := build(sx.L(sx.I(0), sx.L(), sx.L(sx.A("A"), sx.L(), sx.L(), sx.L(), sx.L(), leaf), tmpl))
		if err != nil {
			return "", err
		}
		kids := root.GetRoles()
		if len(kids) != 1 {
			return "", fmt.Errorf("task rank: %d children", len(kids))
		}
		tp, err := taskProbes(kids[0], tmpl, []string{"k"})
		if err != nil {
			return "", err
		}
		var codes [2]int
		for i := 0; i < 2; i++ {
			if l := tp.At(i); l.Len() == 1 {
				codes[i] = map[string]int{"d": 1, "v": 2, "w": 3}[l.At(0).At(1).Str()]
				if codes[i] == 0 {
					return "", fmt.Errorf("task rank: unexpected value %q", l.At(0).At(1).Str())
				}
			} else if l.Len() != 0 {
				return "", fmt.Errorf("task rank: unexpected probe result %s", l.String())
			}
		}
		if mask > 0 {
			b.WriteString(", ")
		}
		fmt.Fprintf(&b, "(%d, %d)", codes[0], codes[1])
	}
	b.WriteString("]\n\nend Gen.VarsFacts\n")
	return b.String(), nil
}
