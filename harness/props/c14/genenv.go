package c14

// Generator for the environment form (envrun.go): a real Environment with a
// configuration store, user-supplied variables and a workflow, driven through
// schedules of transitions (and runtime writes in between).

import (
	"fmt"

	"verifharness/fw"
	"verifharness/rng"
	"verifharness/sx"
)

func tItem(ev string) *sx.Node { return sx.L(sx.A("T"), sx.A(ev)) }
func fItem(ev string) *sx.Node { return sx.L(sx.A("F"), sx.A(ev)) }

func evs(names ...string) []*sx.Node {
	out := make([]*sx.Node, len(names))
	for i, n := range names {
		out[i] = tItem(n)
	}
	return out
}

type eShape struct {
	name string
	tree *sx.Node
	tmpl *sx.Node
}

// The workflow shapes of the fixed block. `wf*` values are what the workflow
// itself says about a key the environment also writes.
func eShapes() []eShape {
	return []eShape{
		// root -> sub -> call (the shape of a call hook deep in a workflow)
		{"chain", roleN("A", e(), e(), e(), roleN("A", e(), e(), e(), roleN("C", e(), e(), e()))), e()},
		// iterated task roles next to a call; the task template has an opinion of its own
		{"iter+tmpl", roleN("A", e(), e(), e(),
			iterN("it", []string{"x0", "x1"}, roleN("T", e(), e(), e())), roleN("C", e(), e(), e())),
			sx.L(kvNode("lhc_period", "td", "k0", "td"), kvNode("pdp_n_hbf_per_tf", "tv"))},
		// the workflow defines the environment's keys itself, at the root and below it
		{"wfdefs", roleN("A", kvNode("lhc_period", "wfd", "run_number", "wfd"), kvNode("pdp_n_hbf_per_tf", "wfv", "last_run_number", "wfv"), e(),
			roleN("A", kvNode("pdp_n_hbf_per_tf", "subd"), kvNode("lhc_period", "subv"), e(), roleN("T", e(), e(), e())),
			roleN("C", e(), e(), e())), e()},
		// user vars on roles (role-targeted user input) for keys the environment writes
		{"roleuser", roleN("A", e(), e(), kvNode("run_start_time_ms", "ru", "k0", "ru"),
			roleN("T", e(), e(), kvNode("lhc_period", "tu", "run_number", "tu")),
			roleN("A", e(), kvNode("k0", "v"), e(), roleN("C", e(), e(), kvNode("enter_state_time_ms", "cu")))), e()},
		// the workflow includes a sub-workflow once per detector: the include site and the included root have
		// opinions on the environment's keys, the iteration variable shadows a store key
		{"incl", roleN("A", e(), e(), e(),
			iterN("k0", []string{"x0", "x1"}, inclN(kvNode("pdp_n_hbf_per_tf", "sited"), kvNode("lhc_period", "sitev"),
				roleN("A", kvNode("lhc_period", "subd", "run_number", "subd"), e(), kvNode("run_end_time_ms", "subu"),
					roleN("T", e(), e(), e())))),
			roleN("C", e(), e(), e())), e()},
	}
}

type eStore struct {
	name       string
	sd, sv, uv *sx.Node
}

// Configuration store × user input for the keys the environment copies / writes.
func eStores() []eStore {
	return []eStore{
		{"store+user", kvNode("pdp_n_hbf_per_tf", "128", "k0", "sd"), kvNode("lhc_period", "LHCstore"), kvNode("lhc_period", "LHCuser", "pdp_n_hbf_per_tf", "32")},
		{"store", kvNode("pdp_n_hbf_per_tf", "128", "lhc_period", "LHCd"), kvNode("lhc_period", "LHCstore"), kvNode("k0", "u")},
		{"user", e(), e(), kvNode("lhc_period", "LHCuser", "pdp_n_hbf_per_tf", "32")},
		{"store-empty+user", kvNode("lhc_period", ""), kvNode("pdp_n_hbf_per_tf", ""), kvNode("lhc_period", "", "pdp_n_hbf_per_tf", "32")},
		{"user-runkeys", kvNode("run_number", "sd"), kvNode("last_run_number", "sv", "runNumber", "sv"),
			kvNode("run_number", "u", "last_run_number", "u", "run_end_time_ms", "", "run_start_time_ms", "u", "enter_state_time_ms", "u", "run_end_completion_time_ms", "")},
		{"none", e(), e(), e()},
	}
}

type eSched struct {
	name  string
	items func(leaf []int) []*sx.Node
}

func eScheds() []eSched {
	root := []int{0}
	return []eSched{
		{"run", func([]int) []*sx.Node { return evs("DEPLOY", "CONFIGURE", "START_ACTIVITY", "STOP_ACTIVITY") }},
		{"two-runs", func([]int) []*sx.Node {
			return evs("DEPLOY", "CONFIGURE", "START_ACTIVITY", "STOP_ACTIVITY", "START_ACTIVITY", "STOP_ACTIVITY", "EXIT")
		}},
		{"error", func([]int) []*sx.Node {
			return evs("DEPLOY", "CONFIGURE", "START_ACTIVITY", "GO_ERROR", "RECOVER", "CONFIGURE", "START_ACTIVITY")
		}},
		{"illegal+reset", func([]int) []*sx.Node {
			return evs("START_ACTIVITY", "DEPLOY", "STOP_ACTIVITY", "CONFIGURE", "RESET", "CONFIGURE", "START_ACTIVITY", "EXIT")
		}},
		{"failed-start", func([]int) []*sx.Node {
			return append(append(evs("DEPLOY", "CONFIGURE"), fItem("START_ACTIVITY")), evs("START_ACTIVITY", "STOP_ACTIVITY")...)
		}},
		{"writes", func(leaf []int) []*sx.Node {
			return []*sx.Node{tItem("DEPLOY"), opN("S", leaf, "lhc_period", "w-leaf"), tItem("CONFIGURE"), opN("S", root, "pdp_n_hbf_per_tf", "w-root"),
				tItem("START_ACTIVITY"), opN("G", leaf, "run_number", "w-glob"), opN("D", root, "run_end_time_ms"), tItem("STOP_ACTIVITY"),
				opN("D", root, "pdp_n_hbf_per_tf")}
		}},
		{"error-idle", func([]int) []*sx.Node { return evs("DEPLOY", "GO_ERROR", "RECOVER", "EXIT") }},
	}
}

func eInput(style int, st eStore, tree, tmpl *sx.Node, sched []*sx.Node) string {
	return sx.L(sx.A("E"), sx.I(style), sx.L(st.sd, st.sv, st.uv), tree, tmpl, sx.L(sched...)).String()
}

func fixedEnv() []fw.Case {
	var cs []fw.Case
	for _, sh := range eShapes() {
		addrs := loadedAddrs(expandW(sh.tree)[0])
		leaf := addrs[len(addrs)-1]
		for _, st := range eStores() {
			for _, sc := range eScheds() {
				cs = append(cs, fw.Case{Input: eInput(0, st, sh.tree, sh.tmpl, sc.items(leaf)),
					Tags: []string{"envrun", "efix", "efix:" + sh.name, "estore:" + st.name, "esched:" + sc.name}})
			}
		}
	}
	return cs
}

var ePool = []string{"lhc_period", "pdp_n_hbf_per_tf", "run_number", "last_run_number", "run_start_time_ms", "run_end_time_ms",
	"enter_state_time_ms", "k0", "k1"}

// legal events per state (the FSM of newEnvironment), for the random walk only —
// what the environment really accepts is the real fsm's business.
var eLegal = map[string][][2]string{
	"STANDBY":    {{"DEPLOY", "DEPLOYED"}, {"DEPLOY", "DEPLOYED"}, {"DEPLOY", "DEPLOYED"}, {"GO_ERROR", "ERROR"}, {"EXIT", "DONE"}},
	"DEPLOYED":   {{"CONFIGURE", "CONFIGURED"}, {"CONFIGURE", "CONFIGURED"}, {"CONFIGURE", "CONFIGURED"}, {"GO_ERROR", "ERROR"}, {"EXIT", "DONE"}},
	"CONFIGURED": {{"START_ACTIVITY", "RUNNING"}, {"START_ACTIVITY", "RUNNING"}, {"START_ACTIVITY", "RUNNING"}, {"START_ACTIVITY", "RUNNING"}, {"RESET", "DEPLOYED"}, {"GO_ERROR", "ERROR"}, {"EXIT", "DONE"}},
	"RUNNING":    {{"STOP_ACTIVITY", "CONFIGURED"}, {"STOP_ACTIVITY", "CONFIGURED"}, {"STOP_ACTIVITY", "CONFIGURED"}, {"GO_ERROR", "ERROR"}},
	"ERROR":      {{"RECOVER", "DEPLOYED"}},
	"DONE":       {},
}

var eAllEvents = []string{"DEPLOY", "CONFIGURE", "RESET", "START_ACTIVITY", "STOP_ACTIVITY", "EXIT", "GO_ERROR", "RECOVER"}

func genRandomEnv(r *rng.R) fw.Case {
	nk := r.Range(3, 6)
	keys := make([]string, 0, nk)
	perm := append([]string{}, ePool...)
	for i := 0; i < nk; i++ {
		j := i + r.N(len(perm)-i)
		perm[i], perm[j] = perm[j], perm[i]
		keys = append(keys, perm[i])
	}
	pDef := rng.Pick(r, []int{2, 4})
	var tree *sx.Node
	iters := 0
	for try := 0; ; try++ {
		iters = 0
		t, n := genTreeW(r, keys, 0, r.Range(2, 4), "", pDef, &iters)
		if n >= 2 && n <= 6 {
			tree = t
			break
		}
		if try >= 30 {
			tree, iters = eShapes()[1].tree, 1
			break
		}
	}
	store := eStore{"", randMap(r, keys, "sd", 5), randMap(r, keys, "sv", 5), randMap(r, keys, "gu", 6)}
	tmpl := sx.L()
	if r.P(1, 4) {
		tmpl = sx.L(randMap(r, keys, "td", 6), randMap(r, keys, "tv", 6))
	}
	addrs := loadedAddrs(expandW(tree)[0])
	var sched []*sx.Node
	state := "STANDBY"
	starts := 0
	if r.P(17, 20) { // most runs get as far as a configured environment, many straight into a run
		sched = append(sched, evs("DEPLOY", "CONFIGURE")...)
		state = "CONFIGURED"
		if r.P(1, 2) {
			sched = append(sched, tItem("START_ACTIVITY"))
			state = "RUNNING"
			starts++
		}
	}
	for i, n := 0, r.Range(2, 6); i < n; i++ {
		switch x := r.N(10); {
		case x < 6 && len(eLegal[state]) > 0:
			mv := rng.Pick(r, eLegal[state])
			if mv[0] != "EXIT" && mv[0] != "GO_ERROR" && r.P(1, 8) {
				sched = append(sched, fItem(mv[0])) // the task-level body fails: the state stays
			} else {
				sched = append(sched, tItem(mv[0]))
				state = mv[1]
			}
			if mv[0] == "START_ACTIVITY" {
				starts++
			}
		case x < 7:
			sched = append(sched, tItem(rng.Pick(r, eAllEvents))) // possibly illegal here
			// keep `state` in step with the real FSM for the legal ones
			last := sched[len(sched)-1].At(1).Str()
			for _, mv := range eLegal[state] {
				if mv[0] == last {
					state = mv[1]
					if last == "START_ACTIVITY" {
						starts++
					}
					break
				}
			}
		default:
			a := rng.Pick(r, addrs)
			k := rng.Pick(r, keys)
			val := fmt.Sprintf("w%d", i)
			if r.P(1, 5) {
				val = ""
			}
			switch y := r.N(10); {
			case y < 6:
				sched = append(sched, opN("S", a, k, val))
			case y < 8:
				sched = append(sched, opN("G", a, k, val))
			case y < 9:
				sched = append(sched, opN("D", a, k))
			default:
				sched = append(sched, opN("X", a, k))
			}
		}
	}
	style := rng.Pick(r, []int{0, 0, 1, 2})
	tags := []string{"envrun", "erand", fmt.Sprintf("estarts=%d", min(starts, 3)), fmt.Sprintf("eiters=%d", min(iters, 2)),
		fmt.Sprintf("tmpl=%v", tmpl.Len() == 2)}
	return fw.Case{Input: eInput(style, store, tree, tmpl, sched), Tags: tags}
}

// nontrivialE: the run reaches a START_ACTIVITY request, and some key the environment
// writes is also defined by the store, the user or the workflow — the rule has something to decide.
func nontrivialE(in *sx.Node) bool {
	if _, ok := validInputE(in); !ok {
		return false
	}
	start := false
	for _, o := range in.At(5).List {
		if isTransItem(o) && o.At(1).Str() == "START_ACTIVITY" {
			start = true
		}
	}
	if !start {
		return false
	}
	written := map[string]bool{}
	for _, k := range envKeys {
		written[k] = true
	}
	for _, k := range inputKeysE(in) {
		if written[k] {
			return true
		}
	}
	return false
}

func shrinkCandsE(in *sx.Node) []string {
	var out []string
	st, store, tree, tmpl, sched := in.At(1), in.At(2), in.At(3), in.At(4), in.At(5)
	emit := func(st, store, tree, tmpl, sched *sx.Node) {
		c := sx.L(sx.A("E"), st, store, tree, tmpl, sched)
		if _, ok := validInputE(c); ok {
			out = append(out, c.String())
		}
	}
	for i := range sched.List {
		o := sx.L()
		o.List = append(append([]*sx.Node{}, sched.List[:i]...), sched.List[i+1:]...)
		emit(st, store, tree, tmpl, o)
	}
	for i := 0; i < 3; i++ {
		if store.At(i).Len() > 0 {
			c := cloneNode(store)
			c.List[i] = sx.L()
			emit(st, c, tree, tmpl, sched)
		}
	}
	if tmpl.Len() == 2 {
		emit(st, store, tree, sx.L(), sched)
	}
	if st.Str() != "0" {
		emit(sx.I(0), store, tree, tmpl, sched)
	}
	for _, k := range inputKeysE(in) {
		d := dropKey(sx.L(store, tree, tmpl), k)
		emit(st, d.At(0), d.At(1), d.At(2), sched)
	}
	// structural shrinking of the template: reuse the five-element form's candidates
	// (same style/env/tree/tmpl positions; its ops = the schedule's write items only)
	for _, c := range shrinkCandsW(sx.L(st, store, tree, tmpl, sx.L())) {
		cn, err := sx.Parse(c)
		if err != nil || cn.Len() != 5 || cn.At(1).Len() != 3 { // the environment form always has a store
			continue
		}
		emit(cn.At(0), cn.At(1), cn.At(2), cn.At(3), sched)
	}
	return out
}
