package c14

// Generator for the five-element form (writes.go): loaded trees with iterator
// expansion and histories of runtime writes.

import (
	"fmt"

	"verifharness/fw"
	"verifharness/rng"
	"verifharness/sx"
)

func roleN(kind string, d, v, u *sx.Node, kids ...*sx.Node) *sx.Node {
	n := sx.L(sx.A(kind), d, v, u, sx.L())
	return n.Add(kids...)
}

func iterN(v string, vals []string, body *sx.Node) *sx.Node {
	return sx.L(sx.A("I"), sx.A(v), sx.Strs(vals), body)
}

// inclN: an include role — the site's own defaults / vars, and the root of the included sub-workflow.
func inclN(d, v, root *sx.Node) *sx.Node {
	return sx.L(sx.A("N"), d, v, sx.L(), sx.L(), root)
}

func e() *sx.Node { return sx.L() }

// loadedAddrs: pre-order addresses of the ROLES of the loaded tree (root = (0)); an include
// site is a step of the address, not a role.
func loadedAddrs(loaded *sx.Node) [][]int {
	var out [][]int
	var walk func(t *sx.Node, a []int)
	walk = func(t *sx.Node, a []int) {
		if !isIncl(t) {
			out = append(out, append([]int{}, a...))
		}
		for i := 5; i < t.Len(); i++ {
			walk(t.At(i), append(a, i-5))
		}
	}
	walk(loaded, []int{0})
	return out
}

func addrNode(a []int) *sx.Node {
	n := sx.L()
	for _, i := range a {
		n.Add(sx.I(i))
	}
	return n
}

func opN(tag string, a []int, kv ...string) *sx.Node {
	n := sx.L(sx.A(tag), addrNode(a))
	for _, s := range kv {
		n.Add(sx.A(s))
	}
	return n
}

type wShape struct {
	name string
	tree *sx.Node
}

// Fixed shapes: k0 is a default at the root (every role inherits it), k1 a user
// var of the iterated template (every instance starts with its own copy), k2 a
// var of a role below an instance.
func wShapes() []wShape {
	rootD := kvNode("k0", "d")
	return []wShape{
		{"iterT", roleN("A", rootD, e(), e(),
			iterN("it", []string{"x0", "x1"}, roleN("T", e(), e(), kvNode("k1", "ub"))))},
		{"iterC", roleN("A", rootD, e(), e(),
			iterN("it", []string{"x0", "x1"}, roleN("C", e(), e(), e())))},
		{"iterA", roleN("A", rootD, e(), e(),
			iterN("it", []string{"x0", "x1"}, roleN("A", e(), kvNode("k2", "v"), kvNode("k1", "ub"),
				roleN("C", e(), e(), e()), roleN("T", e(), e(), e()))))},
		{"iterRange+static", roleN("A", rootD, e(), e(),
			iterN("it", []string{"1", "2", "3"}, roleN("A", e(), e(), e(), roleN("T", e(), e(), e()))),
			roleN("A", e(), e(), e(), roleN("T", e(), e(), e())))},
		{"nested", roleN("A", rootD, e(), e(),
			iterN("it", []string{"x0", "x1"}, roleN("A", e(), e(), e(),
				iterN("jt", []string{"y0", "y1"}, roleN("T", e(), e(), kvNode("k1", "ub"))),
				roleN("C", e(), e(), e()))))},
		{"static", roleN("A", rootD, e(), e(),
			roleN("A", e(), e(), e(), roleN("T", e(), e(), e()), roleN("C", e(), e(), e())),
			roleN("A", e(), e(), kvNode("k1", "ub"), roleN("T", e(), e(), e())))},
		// include roles: k0 default at the root, k2 defined at the site AND in the included root (the included
		// root is the nearer level), k4 only at the site, k1 a user var of the loaded include role
		{"incl", roleN("A", rootD, e(), e(),
			inclN(kvNode("k2", "sd", "k4", "sd"), kvNode("k2", "sv", "k4", "sv"),
				roleN("A", kvNode("k2", "rd"), kvNode("k2", "rv"), kvNode("k1", "ub"),
					roleN("T", e(), e(), e()), roleN("C", e(), e(), e()))),
			roleN("T", e(), e(), e()))},
		// the include role is the template of an iterator: the iteration variable is a var of the SITE,
		// i.e. the nearest definition for every role of the included sub-workflow
		{"iterIncl", roleN("A", rootD, kvNode("it", "rootv"), e(),
			iterN("it", []string{"x0", "x1"}, inclN(e(), kvNode("k2", "sv"),
				roleN("A", e(), e(), kvNode("k1", "ub"),
					roleN("A", e(), e(), e(), roleN("T", e(), e(), e())), roleN("C", e(), e(), e())))))},
		// … and the included root defines the iteration variable itself (defaults lose, vars win)
		{"iterInclShadow", roleN("A", rootD, e(), e(),
			iterN("it", []string{"x0", "x1"}, inclN(e(), e(),
				roleN("A", kvNode("it", "rd"), e(), e(), roleN("T", e(), e(), e())))),
			iterN("jt", []string{"y0", "y1"}, inclN(e(), e(),
				roleN("A", e(), kvNode("jt", "rv"), e(), roleN("C", e(), e(), e())))))},
		// include inside an included sub-workflow, the inner one iterated; an iterator inside an included root
		{"inclNested", roleN("A", rootD, e(), e(),
			inclN(e(), kvNode("k2", "s1"),
				roleN("A", e(), e(), e(),
					iterN("it", []string{"x0", "x1"}, inclN(kvNode("k2", "s2"), e(),
						roleN("A", e(), e(), kvNode("k1", "ub"), roleN("T", e(), e(), e())))),
					iterN("jt", []string{"1", "2"}, roleN("T", e(), e(), e())))))},
		{"deep", roleN("A", rootD, e(), e(),
			roleN("A", e(), e(), e(),
				iterN("it", []string{"x0", "x1"}, roleN("A", e(), e(), e(),
					iterN("k2", []string{"0", "1"}, roleN("A", e(), e(), e(), roleN("T", e(), e(), e())))))))},
	}
}

func wShapeNamed(name string) *sx.Node {
	for _, sh := range wShapes() {
		if sh.name == name {
			return sh.tree
		}
	}
	return wShapes()[2].tree
}

// fixedWrites: for every shape and EVERY role r of the loaded tree — one write
// on r (inherited key, fresh key, empty value), write-then-delete, the global
// variants called on r, and a pair of writes on r and on the next role.
func fixedWrites() []fw.Case {
	var cs []fw.Case
	env := sx.L(kvNode("k0", "gd", "k3", "gd"), e(), kvNode("k3", "gu"))
	for _, sh := range wShapes() {
		loaded := expandW(sh.tree)[0]
		addrs := loadedAddrs(loaded)
		for i, a := range addrs {
			next := addrs[(i+1)%len(addrs)]
			hist := [][]*sx.Node{
				{opN("S", a, "k0", "w")},
				{opN("S", a, "k9", "w")},
				{opN("S", a, "k0", "")},
				{opN("S", a, "k0", "w"), opN("D", a, "k0")},
				{opN("D", a, "k1")},
				{opN("G", a, "k0", "g")},
				{opN("G", a, "k9", "g"), opN("X", next, "k9")},
				{opN("S", a, "k0", "w"), opN("S", next, "k0", "w2")},
				{opN("S", a, "k3", "w"), opN("S", a, "it", "w")},
			}
			for j, h := range hist {
				withEnv := e()
				if j%2 == 1 {
					withEnv = env
				}
				in := sx.L(sx.I(0), withEnv, sh.tree, e(), sx.L(h...))
				cs = append(cs, fw.Case{Input: in.String(), Tags: []string{"writes", "wfix", "wfix:" + sh.name}})
			}
		}
	}
	return cs
}

// genTreeW: a random template; returns the node and the number of roles it loads to.
func genTreeW(r *rng.R, keys []string, depth, maxDepth int, path string, pDef int, iters *int) (*sx.Node, int) {
	return genTreeWI(r, keys, depth, maxDepth, path, pDef, iters, nil)
}

// genTreeWI: incls != nil — aggregators below the root are, one time in two, the root of a
// sub-workflow behind an include role (the site gets maps of its own; *incls counts them).
func genTreeWI(r *rng.R, keys []string, depth, maxDepth int, path string, pDef int, iters, incls *int) (*sx.Node, int) {
	kind := "A"
	if depth > 0 && (depth >= maxDepth-1 || r.P(1, 3)) {
		kind = rng.Pick(r, []string{"T", "T", "C"})
	}
	locals := sx.L()
	if r.P(1, 6) {
		locals = randMap(r, keys, "l"+path, 5)
	}
	n := sx.L(sx.A(kind), randMap(r, keys, "d"+path, pDef), randMap(r, keys, "v"+path, pDef), randMap(r, keys, "u"+path, pDef), locals)
	count := 1
	if kind == "A" {
		kids := r.Range(1, 3)
		for i := 0; i < kids; i++ {
			c, k := genTreeWI(r, keys, depth+1, maxDepth, fmt.Sprintf("%s%d", path, i), pDef, iters, incls)
			n.Add(c)
			count += k
		}
		if incls != nil && depth > 0 && r.P(1, 2) {
			*incls++
			n = inclN(randMap(r, keys, "sd"+path, pDef), randMap(r, keys, "sv"+path, pDef), n)
		}
	}
	if depth > 0 && r.P(2, 5) {
		*iters++
		v := rng.Pick(r, []string{"it", "jt", "it", keys[0]})
		nv := r.Range(1, 3)
		vals := make([]string, nv)
		ints := r.P(1, 3)
		base := r.Range(0, 5)
		for i := range vals {
			if ints {
				vals[i] = fmt.Sprintf("%d", base+i)
			} else {
				vals[i] = fmt.Sprintf("x%s_%d", path, i)
			}
		}
		return iterN(v, vals, n), count * nv
	}
	return n, count
}

func genRandomWrites(r *rng.R) fw.Case {
	nk := r.Range(1, 4)
	keys := make([]string, nk)
	for i := range keys {
		keys[i] = fmt.Sprintf("k%d", i)
	}
	pDef := rng.Pick(r, []int{2, 4, 7})
	var tree *sx.Node
	iters, incls := 0, 0
	withIncl := r.P(1, 3)
	for try := 0; ; try++ {
		iters, incls = 0, 0
		ip := &incls
		if !withIncl {
			ip = nil
		}
		t, n := genTreeWI(r, keys, 0, r.Range(2, 5), "", pDef, &iters, ip)
		if n >= 2 && n <= 14 && (!withIncl || incls > 0) {
			tree = t
			break
		}
		if try >= 20 {
			tree, iters, incls = wShapes()[2].tree, 1, 0
			if withIncl {
				tree, iters, incls = wShapeNamed("iterIncl"), 1, 1
			}
			break
		}
	}
	env := sx.L()
	if r.P(1, 2) {
		env = sx.L(randMap(r, keys, "gd", pDef), randMap(r, keys, "gv", pDef), randMap(r, keys, "gu", pDef))
	}
	tmpl := sx.L()
	if r.P(1, 4) {
		tmpl = sx.L(randMap(r, keys, "td", 6), randMap(r, keys, "tv", 6))
	}
	addrs := loadedAddrs(expandW(tree)[0])
	opKeys := append(append([]string{}, keys...), "kw", "it")
	ops := sx.L()
	for i, n := 0, r.Range(1, 6); i < n; i++ {
		a := rng.Pick(r, addrs)
		k := rng.Pick(r, opKeys)
		val := fmt.Sprintf("w%d", i)
		if r.P(1, 5) {
			val = ""
		}
		switch x := r.N(20); {
		case x < 11:
			ops.Add(opN("S", a, k, val))
		case x < 14:
			ops.Add(opN("G", a, k, val))
		case x < 18:
			ops.Add(opN("D", a, k))
		default:
			ops.Add(opN("X", a, k))
		}
	}
	style := rng.Pick(r, []int{0, 0, 1, 2})
	in := sx.L(sx.I(style), env, tree, tmpl, ops)
	tags := []string{"writes", "wrand", fmt.Sprintf("witers=%d", min(iters, 3)), fmt.Sprintf("wops=%d", ops.Len()),
		fmt.Sprintf("env=%v", env.Len() == 3), fmt.Sprintf("tmpl=%v", tmpl.Len() == 2)}
	if withIncl {
		tags = append(tags, fmt.Sprintf("wincl=%d", min(incls, 3)), fmt.Sprintf("witerincl=%v", hasIterIncl(tree)))
	}
	return fw.Case{Input: in.String(), Tags: tags}
}

// hasIterIncl: some iterator's template is an include role.
func hasIterIncl(t *sx.Node) bool {
	if isIter(t) {
		return isIncl(t.At(3)) || hasIterIncl(t.At(3))
	}
	for i := 5; i < t.Len(); i++ {
		if hasIterIncl(t.At(i)) {
			return true
		}
	}
	return false
}

// nontrivialW: some non-global write lands on a role other than the root, so
// there are roles outside its subtree for which the write must not exist.
func nontrivialW(in *sx.Node) bool {
	if _, ok := validInputW(in); !ok {
		return false
	}
	for _, o := range in.At(4).List {
		if t := o.At(0).Str(); (t == "S" || t == "D") && o.At(1).Len() > 1 {
			return true
		}
	}
	return false
}

func shrinkCandsW(in *sx.Node) []string {
	var out []string
	emit := func(style, env, tree, tmpl, ops *sx.Node) {
		c := sx.L(style, env, tree, tmpl, ops)
		if _, ok := validInputW(c); ok {
			out = append(out, c.String())
		}
	}
	st, env, tree, tmpl, ops := in.At(0), in.At(1), in.At(2), in.At(3), in.At(4)
	for i := range ops.List {
		o := sx.L()
		o.List = append(append([]*sx.Node{}, ops.List[:i]...), ops.List[i+1:]...)
		emit(st, env, tree, tmpl, o)
	}
	if env.Len() == 3 {
		emit(st, sx.L(), tree, tmpl, ops)
	}
	if tmpl.Len() == 2 {
		emit(st, env, tree, sx.L(), ops)
	}
	if st.Str() != "0" {
		emit(sx.I(0), env, tree, tmpl, ops)
	}
	for _, k := range universeW(in) {
		d := dropKey(sx.L(st, env, tree, tmpl), k)
		emit(d.At(0), d.At(1), d.At(2), d.At(3), ops)
	}
	// structural: per node of the template — fewer iterator values, drop a child, empty one map
	var paths [][]int
	var collect func(t *sx.Node, p []int)
	collect = func(t *sx.Node, p []int) {
		paths = append(paths, append([]int{}, p...))
		if isIter(t) {
			collect(t.At(3), append(p, 3))
			return
		}
		for i := 5; i < t.Len(); i++ {
			collect(t.At(i), append(p, i))
		}
	}
	collect(tree, nil)
	at := func(t *sx.Node, p []int) *sx.Node {
		for _, i := range p {
			t = t.At(i)
		}
		return t
	}
	for _, p := range paths {
		n := at(tree, p)
		if isIter(n) {
			if n.At(2).Len() > 1 {
				c := cloneNode(tree)
				v := at(c, p).At(2)
				v.List = v.List[:len(v.List)-1]
				emit(st, env, c, tmpl, ops)
			}
			if len(p) > 0 && p[len(p)-1] >= 5 {
				// the whole iterator away (emit rejects it when the parent is left without a child)
				c := cloneNode(tree)
				par := at(c, p[:len(p)-1])
				i := p[len(p)-1]
				par.List = append(par.List[:i], par.List[i+1:]...)
				emit(st, env, c, tmpl, ops)
			}
			continue
		}
		if len(p) > 0 && p[len(p)-1] >= 5 {
			c := cloneNode(tree)
			par := at(c, p[:len(p)-1])
			i := p[len(p)-1]
			par.List = append(par.List[:i], par.List[i+1:]...)
			emit(st, env, c, tmpl, ops)
		}
		if len(p) > 0 && isIncl(n) {
			// the included root in place of the include role (ops whose addresses break are rejected by emit)
			c := cloneNode(tree)
			par := at(c, p[:len(p)-1])
			par.List[p[len(p)-1]] = cloneNode(n.At(5))
			emit(st, env, c, tmpl, ops)
		}
		for m := 1; m <= 4; m++ {
			if n.At(m).Len() > 0 {
				c := cloneNode(tree)
				at(c, p).List[m] = sx.L()
				emit(st, env, c, tmpl, ops)
			}
		}
	}
	return out
}
