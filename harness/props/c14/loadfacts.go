package c14

// go/ast facts about the LOAD of a workflow template: what each kind of role does with its
// iterator Locals in ProcessTemplates, and how an include role becomes the root of the loaded
// sub-workflow (Gen/C14LoadFacts.lean, tied to Model/VarsTree's `LoadCfg` by C14_load_is_code).

import (
	"fmt"
	"go/ast"
	"go/parser"
	"go/token"
	"strings"
)

type ptFacts struct {
	recv        string     // receiver identifier of ProcessTemplates
	body        []ast.Stmt // top-level statements
	publish     int        // index of `for k, v := range <recv>.Locals { <recv>.Vars.Set(k, v) }` at top level, -1
	descend     int        // index of the first top-level statement with a call X.ProcessTemplates(…) inside, -1
	swap        int        // index of `<recv>.aggregatorRole = …` at top level, -1
	restored    []string   // fields of <recv> assigned at top level after the swap
	loadUnder   bool       // loadSubworkflow(…, <recv>) — the loaded root is hung under the include role itself
	tailOnInner bool       // the method ends in `return <recv>.aggregatorRole.ProcessTemplates(…)`
	fd          *ast.FuncDecl
}

func isSel(e ast.Expr, x, sel string) bool {
	s, ok := e.(*ast.SelectorExpr)
	if !ok || s.Sel.Name != sel {
		return false
	}
	id, ok := s.X.(*ast.Ident)
	return ok && id.Name == x
}

// isPublishLoop: `for k, v := range r.Locals { r.Vars.Set(k, v) }` and nothing else in the body.
func isPublishLoop(st ast.Stmt, recv string) bool {
	rs, ok := st.(*ast.RangeStmt)
	if !ok || !isSel(rs.X, recv, "Locals") || rs.Body == nil || len(rs.Body.List) != 1 {
		return false
	}
	k, ok1 := rs.Key.(*ast.Ident)
	v, ok2 := rs.Value.(*ast.Ident)
	es, ok3 := rs.Body.List[0].(*ast.ExprStmt)
	if !ok1 || !ok2 || !ok3 {
		return false
	}
	call, ok := es.X.(*ast.CallExpr)
	if !ok || len(call.Args) != 2 {
		return false
	}
	fun, ok := call.Fun.(*ast.SelectorExpr)
	if !ok || fun.Sel.Name != "Set" || !isSel(fun.X, recv, "Vars") {
		return false
	}
	a0, ok1 := call.Args[0].(*ast.Ident)
	a1, ok2 := call.Args[1].(*ast.Ident)
	return ok1 && ok2 && a0.Name == k.Name && a1.Name == v.Name
}

func containsPTCall(n ast.Node) bool {
	found := false
	ast.Inspect(n, func(x ast.Node) bool {
		if call, ok := x.(*ast.CallExpr); ok {
			if s, ok := call.Fun.(*ast.SelectorExpr); ok && s.Sel.Name == "ProcessTemplates" {
				found = true
			}
		}
		return !found
	})
	return found
}

func processTemplatesFacts(repo, file, typ string) (*ptFacts, error) {
	fset := token.NewFileSet()
	f, err := parser.ParseFile(fset, repo+"/core/workflow/"+file, nil, 0)
	if err != nil {
		return nil, err
	}
	for _, d := range f.Decls {
		fd, ok := d.(*ast.FuncDecl)
		if !ok || fd.Name.Name != "ProcessTemplates" || fd.Recv == nil || len(fd.Recv.List) != 1 || fd.Body == nil {
			continue
		}
		star, ok := fd.Recv.List[0].Type.(*ast.StarExpr)
		if !ok {
			continue
		}
		if id, ok := star.X.(*ast.Ident); !ok || id.Name != typ || len(fd.Recv.List[0].Names) != 1 {
			continue
		}
		ft := &ptFacts{recv: fd.Recv.List[0].Names[0].Name, body: fd.Body.List, publish: -1, descend: -1, swap: -1, fd: fd}
		for i, st := range ft.body {
			if ft.publish < 0 && isPublishLoop(st, ft.recv) {
				ft.publish = i
			}
			if as, ok := st.(*ast.AssignStmt); ok && len(as.Lhs) == 1 {
				if ft.swap < 0 && isSel(as.Lhs[0], ft.recv, "aggregatorRole") {
					ft.swap = i
					continue
				}
				if s, ok := as.Lhs[0].(*ast.SelectorExpr); ok && ft.swap >= 0 {
					if id, ok := s.X.(*ast.Ident); ok && id.Name == ft.recv {
						ft.restored = append(ft.restored, s.Sel.Name)
					}
				}
			}
			if ft.descend < 0 && containsPTCall(st) {
				ft.descend = i
			}
		}
		ast.Inspect(fd.Body, func(x ast.Node) bool {
			if call, ok := x.(*ast.CallExpr); ok {
				if id, ok := call.Fun.(*ast.Ident); ok && id.Name == "loadSubworkflow" && len(call.Args) == 2 {
					if a, ok := call.Args[1].(*ast.Ident); ok && a.Name == ft.recv {
						ft.loadUnder = true
					}
				}
			}
			return true
		})
		if n := len(ft.body); n > 0 {
			if rs, ok := ft.body[n-1].(*ast.ReturnStmt); ok && len(rs.Results) == 1 {
				if call, ok := rs.Results[0].(*ast.CallExpr); ok {
					if s, ok := call.Fun.(*ast.SelectorExpr); ok && s.Sel.Name == "ProcessTemplates" && isSel(s.X, ft.recv, "aggregatorRole") {
						ft.tailOnInner = true
					}
				}
			}
		}
		return ft, nil
	}
	return nil, fmt.Errorf("no method (*%s).ProcessTemplates in core/workflow/%s", typ, file)
}

func genLoadFacts(repo string) (string, error) {
	kinds := []struct{ file, typ string }{
		{"aggregatorrole.go", "aggregatorRole"}, {"taskrole.go", "taskRole"}, {"callrole.go", "callRole"}, {"includerole.go", "includeRole"},
	}
	facts := map[string]*ptFacts{}
	for _, k := range kinds {
		ft, err := processTemplatesFacts(repo, k.file, k.typ)
		if err != nil {
			return "", err
		}
		facts[k.typ] = ft
	}
	var b strings.Builder
	b.WriteString("namespace Gen.C14Load\n\n")
	b.WriteString("/-- go/ast, core/workflow/*role.go: does (*kind).ProcessTemplates contain, as a statement of its own at the top\n    level of the method, `for k, v := range r.Locals { r.Vars.Set(k, v) }` (the iterator Locals published as vars)? -/\n")
	b.WriteString("def localsPublished : List (String × Bool) := [")
	for i, k := range kinds {
		if i > 0 {
			b.WriteString(", ")
		}
		fmt.Fprintf(&b, "(%q, %s)", k.typ, leanBool(facts[k.typ].publish >= 0))
	}
	b.WriteString("]\n\n")
	ag := facts["aggregatorRole"]
	fmt.Fprintf(&b, "/-- go/ast: in (*aggregatorRole).ProcessTemplates that loop precedes the first statement that calls a\n    child's ProcessTemplates. -/\ndef aggregatorPublishesBeforeChildren : Bool := %s\n\n",
		leanBool(ag.publish >= 0 && ag.descend >= 0 && ag.publish < ag.descend))
	in := facts["includeRole"]
	fmt.Fprintf(&b, "/-- go/ast: in (*includeRole).ProcessTemplates that loop precedes `r.aggregatorRole = *subWfRoot` (the replacement\n    of the composed aggregatorRole, roleBase with Locals / Defaults / Vars / UserVars included, by the loaded root). -/\ndef includePublishesBeforeSwap : Bool := %s\n\n",
		leanBool(in.publish >= 0 && in.swap >= 0 && in.publish < in.swap))
	b.WriteString("/-- go/ast: the fields of the include role assigned after that replacement (what is restored of the role as\n    written at the include site). -/\ndef includeRestoredAfterSwap : List String := [")
	for i, f := range in.restored {
		if i > 0 {
			b.WriteString(", ")
		}
		fmt.Fprintf(&b, "%q", f)
	}
	b.WriteString("]\n\n")
	fmt.Fprintf(&b, "/-- go/ast: the sub-workflow is loaded with the include role itself as parent (`loadSubworkflow(include, r)`): the\n    loaded root's three maps wrap the include role's own. -/\ndef includeLoadsUnderItself : Bool := %s\n\n", leanBool(in.loadUnder))
	fmt.Fprintf(&b, "/-- go/ast: the method ends in `return r.aggregatorRole.ProcessTemplates(…)` — the loaded root's own stages, its\n    (own, freshly unmarshalled) Locals, its children. -/\ndef includeEndsInLoadedRoot : Bool := %s\n\nend Gen.C14Load\n", leanBool(in.tailOnInner))
	return b.String(), nil
}
