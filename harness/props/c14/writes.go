package c14

// Loaded trees and runtime writes (history-dependent variable resolution).
//
// Input  : (style env tree tmpl ops)          -- five elements; the four-element form is the static one in c14.go
//
//	tree := (kind D V U L tree*)                -- as in c14.go, kind A|T|C (every A has >= 1 child, the root is an A)
//	      | (I var (val+) (kind D V U L tree*)) -- iterator: `for: {var, range|begin/end}` around a role template
//	      | (N D V () () (A D' V' U' L' tree+)) -- include role: `include: <sub-workflow>` with the role's own defaults D / vars V
//	                                               as written at the include SITE; the one child is the ROOT of the included
//	                                               sub-workflow (its defaults D', vars V', children), which the harness serves from
//	                                               an in-memory workflow repository through the LoadSubworkflowFunc handed to
//	                                               ProcessTemplates. After the load the site is no role of its own: the include
//	                                               role IS the loaded root (U' = its user vars, L' = probe locals), the site's maps
//	                                               are one more level between it and the include role's parent. An iterator's
//	                                               template may be an include role.
//	ops  := ((S addr k v) | (G addr k v) | (D addr k) | (X addr k))*
//	addr := (0 i j …)                           -- child indices in the LOADED tree, (0) = the root; an include role is
//	                                               addressed as the child 0 of its site ((0 i 0) when the site is child i of the
//	                                               root, its own children (0 i 0 j)); a site itself is no role and has no address
//
// The template is rendered to YAML, unmarshalled with the package's own
// unmarshallers, attached to the ParentAdapter (env) and LOADED with the real
// ProcessTemplates, so iterator instances are what iteratorRole.expandTemplate
// and roleBase.copy() make of the template. Then every role of the loaded tree
// gets its U through SetRuntimeVars, and the ops run in order on the addressed
// roles: S SetRuntimeVar, G SetGlobalRuntimeVar, D DeleteRuntimeVar, X
// DeleteGlobalRuntimeVar (what callable.Call does with a call's return variable,
// what integration plugins and the environment do with run-time values).
// Observation: the same per-role record as in the static form, at EVERY role
// of the loaded tree in pre-order, after the last op.

import (
	"encoding/json"
	"fmt"
	"reflect"
	"sort"
	"strconv"
	"strings"

	"github.com/AliceO2Group/Control/common/event"
	"github.com/AliceO2Group/Control/common/gera"
	"github.com/AliceO2Group/Control/common/utils/uid"
	"github.com/AliceO2Group/Control/core/repos"
	"github.com/AliceO2Group/Control/core/workflow"
	"github.com/spf13/viper"
	"gopkg.in/yaml.v3"

	"verifharness/sx"
)

var theRepo = repos.Repo{HostingSite: "h", Path: "p", RepoName: "r", Hash: "x", Revision: "x", DefaultRevision: "x", Protocol: "local"}

// globalVarRole: the methods callable.ParentRole offers to calls and plugins in
// addition to workflow.Role; every concrete role has them through roleBase.
type globalVarRole interface {
	SetGlobalRuntimeVar(key string, value string)
	DeleteGlobalRuntimeVar(key string)
}

func isIter(t *sx.Node) bool { return t.IsList && t.Len() == 4 && !t.At(0).IsList && t.At(0).Str() == "I" }

// isIncl: an include SITE (N D V () () root); in template and loaded shape alike.
func isIncl(t *sx.Node) bool { return t.IsList && t.Len() >= 5 && !t.At(0).IsList && t.At(0).Str() == "N" }

func validAtoms(n *sx.Node, min int) bool {
	if !n.IsList || n.Len() < min {
		return false
	}
	for _, e := range n.List {
		if e.IsList || e.Atom == "" {
			return false
		}
	}
	return true
}

// validTreeW: like validTree, with iterator nodes below the root and no childless aggregator.
func validTreeW(t *sx.Node, root bool) bool {
	if isIter(t) {
		if root || t.At(1).IsList || t.At(1).Atom == "" || !validAtoms(t.At(2), 1) || isIter(t.At(3)) {
			return false
		}
		return validTreeW(t.At(3), false)
	}
	if !t.IsList || t.Len() < 5 || t.At(0).IsList {
		return false
	}
	switch t.At(0).Str() {
	case "A":
		if t.Len() < 6 {
			return false
		}
	case "T", "C":
		if t.Len() != 5 {
			return false
		}
	case "N":
		// the site has no user vars and no probe locals (it is no role after the load); exactly one
		// child: the included root, a plain aggregator
		if root || t.Len() != 6 || !t.At(3).IsList || t.At(3).Len() != 0 || !t.At(4).IsList || t.At(4).Len() != 0 ||
			isIter(t.At(5)) || !t.At(5).IsList || t.At(5).Len() < 1 || t.At(5).At(0).IsList || t.At(5).At(0).Str() != "A" {
			return false
		}
	default:
		return false
	}
	for i := 1; i <= 4; i++ {
		if !validKV(t.At(i)) {
			return false
		}
	}
	for i := 5; i < t.Len(); i++ {
		if !validTreeW(t.At(i), false) {
			return false
		}
	}
	return true
}

// expandW: the shape of the loaded tree — every iterator replaced by one copy of
// its body per value (static nodes (kind D V U L kids…); V is the template's, the
// real role additionally holds var=value).
func expandW(t *sx.Node) []*sx.Node {
	if isIter(t) {
		var out []*sx.Node
		for range t.At(2).List {
			out = append(out, expandW(t.At(3))...)
		}
		return out
	}
	n := sx.L(t.At(0), t.At(1), t.At(2), t.At(3), t.At(4))
	for i := 5; i < t.Len(); i++ {
		n.Add(expandW(t.At(i))...)
	}
	return []*sx.Node{n}
}

func addrOf(n *sx.Node) ([]int, bool) {
	if !n.IsList || n.Len() < 1 {
		return nil, false
	}
	var a []int
	for _, e := range n.List {
		if e.IsList {
			return nil, false
		}
		i, err := strconv.Atoi(e.Atom)
		if err != nil || i < 0 {
			return nil, false
		}
		a = append(a, i)
	}
	return a, a[0] == 0
}

func nodeAt(root *sx.Node, a []int) *sx.Node {
	t := root
	for _, i := range a[1:] {
		if 5+i >= t.Len() {
			return nil
		}
		t = t.At(5 + i)
	}
	return t
}

func validOps(ops, loaded *sx.Node) bool {
	if !ops.IsList {
		return false
	}
	for _, o := range ops.List {
		if !o.IsList || o.Len() < 3 || o.At(0).IsList {
			return false
		}
		want := 4
		switch o.At(0).Str() {
		case "S", "G":
		case "D", "X":
			want = 3
		default:
			return false
		}
		if o.Len() != want {
			return false
		}
		for i := 2; i < want; i++ {
			if o.At(i).IsList {
				return false
			}
		}
		if o.At(2).Atom == "" {
			return false
		}
		a, ok := addrOf(o.At(1))
		if !ok {
			return false
		}
		if n := nodeAt(loaded, a); n == nil || isIncl(n) {
			return false
		}
	}
	return true
}

func validInputW(in *sx.Node) (loaded *sx.Node, ok bool) {
	if !in.IsList || in.Len() != 5 || in.At(0).IsList || !in.At(1).IsList || !in.At(3).IsList {
		return nil, false
	}
	if l := in.At(1).Len(); l != 0 && l != 3 {
		return nil, false
	}
	if l := in.At(3).Len(); l != 0 && l != 2 {
		return nil, false
	}
	for _, m := range append(append([]*sx.Node{}, in.At(1).List...), in.At(3).List...) {
		if !validKV(m) {
			return nil, false
		}
	}
	if !validTreeW(in.At(2), true) || in.At(2).At(0).Str() != "A" {
		return nil, false
	}
	loaded = expandW(in.At(2))[0]
	return loaded, validOps(in.At(4), loaded)
}

func universeW(in *sx.Node) []string {
	set := map[string]bool{}
	for _, m := range in.At(1).List {
		collectKeys(m, set)
	}
	for _, m := range in.At(3).List {
		collectKeys(m, set)
	}
	var walk func(t *sx.Node)
	walk = func(t *sx.Node) {
		if isIter(t) {
			set[t.At(1).Str()] = true
			walk(t.At(3))
			return
		}
		for i := 1; i <= 4; i++ {
			collectKeys(t.At(i), set)
		}
		for i := 5; i < t.Len(); i++ {
			walk(t.At(i))
		}
	}
	walk(in.At(2))
	for _, o := range in.At(4).List {
		set[o.At(2).Str()] = true
	}
	keys := make([]string, 0, len(set))
	for k := range set {
		keys = append(keys, k)
	}
	sort.Strings(keys)
	return keys
}

// consecutiveInts: the values are begin, begin+1, …, end in decimal — then the
// iterator is written with `begin`/`end`, otherwise with a JSON list in `range`.
func consecutiveInts(vals []*sx.Node) (int, int, bool) {
	first := 0
	for i, v := range vals {
		x, err := strconv.Atoi(v.Atom)
		if err != nil || strconv.Itoa(x) != v.Atom {
			return 0, 0, false
		}
		if i == 0 {
			first = x
		} else if x != first+i {
			return 0, 0, false
		}
	}
	return first, first + len(vals) - 1, true
}

// yamlW renders a template; every include role gets a sub-workflow of its own in `subs`
// (name -> YAML document), the in-memory workflow repository of this case.
type yamlW struct {
	style int
	subs  map[string]string
}

func (y *yamlW) node(n *sx.Node, name, indent string, b *strings.Builder, top bool) {
	pre, cont := indent+"- ", indent+"  "
	if top {
		pre, cont = "", ""
	}
	body := n
	if isIter(n) {
		body = n.At(3)
		name = name + "_{{ " + n.At(1).Str() + " }}"
	}
	fmt.Fprintf(b, "%sname: %s\n", pre, yq(name))
	if isIter(n) {
		fmt.Fprintf(b, "%sfor:\n", cont)
		if lo, hi, ok := consecutiveInts(n.At(2).List); ok {
			fmt.Fprintf(b, "%s  begin: %s\n%s  end: %s\n", cont, yq(strconv.Itoa(lo)), cont, yq(strconv.Itoa(hi)))
		} else {
			vals := make([]string, 0, n.At(2).Len())
			for _, v := range n.At(2).List {
				vals = append(vals, v.Atom)
			}
			js, _ := json.Marshal(vals)
			fmt.Fprintf(b, "%s  range: %s\n", cont, yq(string(js)))
		}
		fmt.Fprintf(b, "%s  var: %s\n", cont, n.At(1).Str())
	}
	yamlMap(b, cont, "defaults", kvOf(body.At(1)), y.style)
	yamlMap(b, cont, "vars", kvOf(body.At(2)), y.style)
	base := strings.SplitN(name, "_{{", 2)[0]
	switch body.At(0).Str() {
	case "T":
		fmt.Fprintf(b, "%stask:\n%s  load: cls\n", cont, cont)
	case "C":
		fmt.Fprintf(b, "%scall:\n%s  func: noop()\n", cont, cont)
	case "N":
		// the included workflow is a document of its own: its root carries the file's name (the
		// include role keeps ITS name), its children are named after the site
		sub := fmt.Sprintf("sub%d", len(y.subs))
		y.subs[sub] = "" // reserve the name before descending (nested includes)
		fmt.Fprintf(b, "%sinclude: %s\n", cont, sub)
		var sb strings.Builder
		root := body.At(5)
		fmt.Fprintf(&sb, "name: %s\n", yq(sub))
		yamlMap(&sb, "", "defaults", kvOf(root.At(1)), y.style)
		yamlMap(&sb, "", "vars", kvOf(root.At(2)), y.style)
		fmt.Fprintf(&sb, "roles:\n")
		for i := 5; i < root.Len(); i++ {
			y.node(root.At(i), fmt.Sprintf("%s_%d", base, i-5), "  ", &sb, false)
		}
		y.subs[sub] = sb.String()
	default:
		fmt.Fprintf(b, "%sroles:\n", cont)
		for i := 5; i < body.Len(); i++ {
			y.node(body.At(i), fmt.Sprintf("%s_%d", base, i-5), cont+"  ", b, false)
		}
	}
}

// subworkflowLoader: a workflow.LoadSubworkflowFunc over the in-memory repository `subs`, doing
// what the closure in workflow.Load does with the repository manager's file: a fresh root,
// unmarshalled by the package's own unmarshaller, hung under `parent` with setParent. The
// function type mentions the unexported *aggregatorRole, hence reflect.MakeFunc.
func subworkflowLoader(subs map[string]string, repo repos.IRepo) workflow.LoadSubworkflowFunc {
	ft := reflect.TypeOf(workflow.LoadSubworkflowFunc(nil))
	fail := func(err error) []reflect.Value {
		return []reflect.Value{reflect.Zero(ft.Out(0)), reflect.Zero(ft.Out(1)), reflect.ValueOf(&err).Elem()}
	}
	fn := reflect.MakeFunc(ft, func(args []reflect.Value) []reflect.Value {
		expr := args[0].String() // <repo identifier>/workflows/<name>@<hash>, see Repo.ResolveSubworkflowTemplateIdentifier
		name := expr
		if i := strings.LastIndex(name, "/"); i >= 0 {
			name = name[i+1:]
		}
		if i := strings.Index(name, "@"); i >= 0 {
			name = name[:i]
		}
		doc, ok := subs[name]
		if !ok {
			return fail(fmt.Errorf("no sub-workflow %q in the harness repository (expression %q)", name, expr))
		}
		root := workflow.NewAggregatorRole("", nil)
		if err := yaml.Unmarshal([]byte(doc), root); err != nil {
			return fail(fmt.Errorf("sub-workflow yaml: %v\n%s", err, doc))
		}
		if !args[1].IsNil() {
			workflow.VerifC14SetParent(root, args[1].Interface().(workflow.Updatable))
		}
		rv := reflect.ValueOf(root)
		if rv.Type() != ft.Out(0) {
			return fail(fmt.Errorf("NewAggregatorRole yields %s, LoadSubworkflowFunc wants %s", rv.Type(), ft.Out(0)))
		}
		rr := reflect.New(ft.Out(1)).Elem()
		rr.Set(reflect.ValueOf(repo))
		return []reflect.Value{rv, rr, reflect.Zero(ft.Out(2))}
	})
	return fn.Interface().(workflow.LoadSubworkflowFunc)
}

// loadTree renders the template, unmarshals it, hangs it under `parent` (nil: no
// environment) and runs the real load.
func loadTree(style int, tree *sx.Node, parent workflow.Updatable, baseConfigStack map[string]string) (workflow.Role, error) {
	confOnce.Do(func() { viper.Set("configServiceUri", "mock://") })
	var b strings.Builder
	y := &yamlW{style: style, subs: map[string]string{}}
	y.node(tree, "r", "", &b, true)
	root := workflow.NewAggregatorRole("", nil)
	if err := yaml.Unmarshal([]byte(b.String()), root); err != nil {
		return nil, fmt.Errorf("yaml: %v\n%s", err, b.String())
	}
	if parent != nil {
		workflow.VerifC14SetParent(root, parent)
	}
	workflow.LinkChildrenToParents(root)
	repo := theRepo
	if err := root.ProcessTemplates(&repo, subworkflowLoader(y.subs, &repo), baseConfigStack); err != nil {
		return nil, fmt.Errorf("ProcessTemplates: %v\n%s", err, b.String())
	}
	if !root.IsEnabled() {
		return nil, fmt.Errorf("root disabled after load\n%s", b.String())
	}
	return root, nil
}

// loadW builds the template, attaches it to the environment and runs the real load.
func loadW(in *sx.Node) (workflow.Role, error) {
	var parent workflow.Updatable
	if env := in.At(1); env.Len() == 3 {
		gd := gera.MakeMapWithMap(kvMap(env.At(0)))
		gv := gera.MakeMapWithMap(kvMap(env.At(1)))
		uv := gera.MakeMapWithMap(kvMap(env.At(2)))
		parent = workflow.NewParentAdapter(
			func() uid.ID { return uid.NilID() },
			func() uint32 { return 0 },
			func() gera.Map[string, string] { return gd },
			func() gera.Map[string, string] { return gv },
			func() gera.Map[string, string] { return uv },
			func(event.Event) {},
		)
	}
	return loadTree(in.At(0).Int(), in.At(2), parent, map[string]string{})
}

type loadedPair struct {
	r workflow.Role
	t *sx.Node
}

// pairLoaded: the loaded tree must have the shape the template describes (pruning and
// disabling are C15's subject: a deviation here is not a verdict of C14); pre-order.
func pairLoaded(root workflow.Role, loaded *sx.Node) ([]loadedPair, error) {
	var pre []loadedPair
	var walk func(r workflow.Role, t *sx.Node) error
	walk = func(r workflow.Role, t *sx.Node) error {
		if isIncl(t) {
			// the include role IS the loaded root of the sub-workflow; the site is no role
			t = t.At(5)
		}
		pre = append(pre, loadedPair{r, t})
		kids := r.GetRoles()
		if len(kids) != t.Len()-5 {
			return fmt.Errorf("loaded tree has %d children at %s, template describes %d", len(kids), r.GetPath(), t.Len()-5)
		}
		for i, c := range kids {
			if err := walk(c, t.At(5+i)); err != nil {
				return err
			}
		}
		return nil
	}
	if err := walk(root, loaded); err != nil {
		return nil, err
	}
	return pre, nil
}

// applyOp runs one runtime write on the addressed role of the loaded tree (`loaded` = its shape:
// the step from an include site to the included root is no step through GetRoles()).
func applyOp(root workflow.Role, loaded *sx.Node, o *sx.Node) error {
	a, _ := addrOf(o.At(1))
	r, t := root, loaded
	for _, i := range a[1:] {
		if isIncl(t) {
			t = t.At(5)
			continue
		}
		kids := r.GetRoles()
		if i >= len(kids) || 5+i >= t.Len() {
			return fmt.Errorf("no role at %s", o.At(1).String())
		}
		r, t = kids[i], t.At(5+i)
	}
	if isIncl(t) {
		return fmt.Errorf("%s addresses an include site, not a role", o.At(1).String())
	}
	switch o.At(0).Str() {
	case "S":
		r.SetRuntimeVar(o.At(2).Str(), o.At(3).Str())
	case "D":
		r.DeleteRuntimeVar(o.At(2).Str())
	case "G", "X":
		g, ok := r.(globalVarRole)
		if !ok {
			return fmt.Errorf("role %T has no SetGlobalRuntimeVar", r)
		}
		if o.At(0).Str() == "G" {
			g.SetGlobalRuntimeVar(o.At(2).Str(), o.At(3).Str())
		} else {
			g.DeleteGlobalRuntimeVar(o.At(2).Str())
		}
	}
	return nil
}

func runWrites(in *sx.Node) (string, error) {
	loaded, ok := validInputW(in)
	if !ok {
		return "", fmt.Errorf("malformed input")
	}
	keys := universeW(in)
	for _, k := range keys {
		if specialKeys[k] {
			return "", fmt.Errorf("input uses the task-special key %s", k)
		}
	}
	root, err := loadW(in)
	if err != nil {
		return "", err
	}
	pre, err := pairLoaded(root, loaded)
	if err != nil {
		return "", err
	}
	for _, p := range pre {
		if m := kvMap(p.t.At(3)); len(m) > 0 {
			p.r.SetRuntimeVars(m)
		}
	}
	for _, o := range in.At(4).List {
		if err := applyOp(root, loaded, o); err != nil {
			return "", err
		}
	}
	obs := sx.L()
	for _, p := range pre {
		ro, err := observe(p.r, p.t, in.At(3), keys)
		if err != nil {
			return "", err
		}
		obs.Add(ro)
	}
	return obs.String(), nil
}
