// Package c15: correspondence harness for property C15 (stub — registers nothing yet).
package c15
