// Package c15: loading a workflow is deterministic and prunes disabled roles.
//
// Input  : the workflow template as an S-expression (grammar in lean/Driver/C15.lean):
//
//	role  := (A hdr role*) | (T hdr (field*) crit) | (C hdr (field*) crit) | (I range var role)
//	       | (N hdr field doc*)    include role: header at the include site, `include:` expression, the
//	                               workflow documents this site can name    doc := (D file hdr role*)
//	hdr   := (name enabled defaults vars uvars constraints binds connects)
//	field := ((t text) | (s se) | (b be))*        range := (R begin end) | (L listfield)
//
// The harness renders the template to YAML, unmarshals it with the package's own
// unmarshallers (workflow.NewAggregatorRole + yaml.Unmarshal + LinkChildrenToParents), sets the
// root's user variables and runs the real ProcessTemplates — once per setting of the three
// concurrency switches (viper keys concurrentWorkflowTemplateProcessing,
// concurrentWorkflowTemplateIteratorProcessing, concurrentIteratorRoleExpansion), 8 runs per case.
//
// Obs    : (all X) when the eight canonical dumps are identical, else (diff X0 … X7);
// X = err | none (root disabled/empty) | the processed tree walked through GetRoles():
// per role kind, name, enabled, own defaults, own vars, constraints, bind/connect channels
// (all read through the role's exported MarshalYAML), the consolidated variable stack, and
// for tasks/calls class|func, return, timeout, trigger, await, critical.
//
// Include roles (include.go): every include site gets the documents it can name as YAML documents
// of their own in an in-memory workflow repository; the real ProcessTemplates is handed a
// LoadSubworkflowFunc that does what the closure in workflow.Load does (fresh root, yaml.Unmarshal,
// setParent(include role)) reading from that map instead of the repository manager's checkout.
package c15

import (
	"fmt"
	"sort"
	"strings"

	"github.com/AliceO2Group/Control/core/repos"
	"github.com/AliceO2Group/Control/core/task/channel"
	"github.com/AliceO2Group/Control/core/task/constraint"
	"github.com/AliceO2Group/Control/core/workflow"
	"github.com/spf13/viper"
	"gopkg.in/yaml.v3"

	"verifharness/fw"
	"verifharness/sx"
)

var switchKeys = []string{
	"concurrentWorkflowTemplateProcessing",
	"concurrentWorkflowTemplateIteratorProcessing",
	"concurrentIteratorRoleExpansion",
}

// ---- template → YAML ----------------------------------------------------------------

func seStr(n *sx.Node) string {
	if n.At(0).Str() == "lit" {
		return "'" + n.At(1).Str() + "'"
	}
	return n.At(1).Str()
}

func beStr(n *sx.Node) string {
	switch n.At(0).Str() {
	case "eq":
		return "(" + seStr(n.At(1)) + " == " + seStr(n.At(2)) + ")"
	case "ne":
		return "(" + seStr(n.At(1)) + " != " + seStr(n.At(2)) + ")"
	case "and":
		return "(" + beStr(n.At(1)) + " && " + beStr(n.At(2)) + ")"
	case "or":
		return "(" + beStr(n.At(1)) + " || " + beStr(n.At(2)) + ")"
	case "not":
		return "!(" + beStr(n.At(1)) + ")"
	default:
		if n.At(1).Bool() {
			return "true"
		}
		return "false"
	}
}

// fieldText is the templated string as it stands in the workflow file.
func fieldText(f *sx.Node) string {
	var b strings.Builder
	for _, p := range f.List {
		switch p.At(0).Str() {
		case "t":
			b.WriteString(p.At(1).Str())
		case "s":
			b.WriteString("{{ " + seStr(p.At(1)) + " }}")
		case "b":
			b.WriteString("{{ " + beStr(p.At(1)) + " }}")
		}
	}
	return b.String()
}

func yq(s string) string {
	s = strings.ReplaceAll(s, `\`, `\\`)
	s = strings.ReplaceAll(s, `"`, `\"`)
	return `"` + s + `"`
}

func fieldEmpty(f *sx.Node) bool { return fieldText(f) == "" }

func hdrYAML(h *sx.Node, ind string, b *strings.Builder) {
	fmt.Fprintf(b, "%senabled: %s\n", ind, yq(fieldText(h.At(1))))
	for i, key := range []string{"defaults", "vars"} {
		kv := h.At(2 + i)
		if kv.Len() == 0 {
			continue
		}
		fmt.Fprintf(b, "%s%s:\n", ind, key)
		for _, e := range kv.List {
			fmt.Fprintf(b, "%s  %s: %s\n", ind, e.At(0).Str(), yq(fieldText(e.At(1))))
		}
	}
	if c := h.At(5); c.Len() > 0 {
		fmt.Fprintf(b, "%sconstraints:\n", ind)
		for _, e := range c.List {
			fmt.Fprintf(b, "%s  - attribute: %s\n%s    value: %s\n", ind, e.At(0).Str(), ind, yq(fieldText(e.At(1))))
		}
	}
	if c := h.At(6); c.Len() > 0 {
		fmt.Fprintf(b, "%sbind:\n", ind)
		for _, e := range c.List {
			fmt.Fprintf(b, "%s  - name: %s\n%s    type: push\n%s    global: %s\n", ind, e.At(0).Str(), ind, ind, yq(fieldText(e.At(1))))
		}
	}
	if c := h.At(7); c.Len() > 0 {
		fmt.Fprintf(b, "%sconnect:\n", ind)
		for _, e := range c.List {
			fmt.Fprintf(b, "%s  - name: %s\n%s    type: pull\n%s    target: %s\n", ind, e.At(0).Str(), ind, ind, yq(fieldText(e.At(1))))
		}
	}
}

// renderer: the YAML of one case — the workflow itself plus `subs`, the documents of the in-memory
// workflow repository (file name -> YAML), one group per include site (see include.go).
type renderer struct {
	subs  map[string]string
	sites int
}

// roleYAML writes one role; `first` is the prefix of its first line ("- " inside a list).
func (y *renderer) roleYAML(n *sx.Node, ind string, inList bool, b *strings.Builder) {
	pre, cont := ind, ind
	if inList {
		pre, cont = ind+"- ", ind+"  "
	}
	body := n
	if n.At(0).Str() == "I" {
		body = n.At(3)
	}
	h := body.At(1)
	fmt.Fprintf(b, "%sname: %s\n", pre, yq(fieldText(h.At(0))))
	if n.At(0).Str() == "I" {
		r := n.At(1)
		fmt.Fprintf(b, "%sfor:\n", cont)
		if r.At(0).Str() == "R" {
			fmt.Fprintf(b, "%s  begin: %s\n%s  end: %s\n", cont, yq(fieldText(r.At(1))), cont, yq(fieldText(r.At(2))))
		} else {
			fmt.Fprintf(b, "%s  range: %s\n", cont, yq(fieldText(r.At(1))))
		}
		fmt.Fprintf(b, "%s  var: %s\n", cont, n.At(2).Str())
	}
	hdrYAML(h, cont, b)
	switch body.At(0).Str() {
	case "A":
		if body.Len() == 2 {
			fmt.Fprintf(b, "%sroles: []\n", cont)
			return
		}
		fmt.Fprintf(b, "%sroles:\n", cont)
		for i := 2; i < body.Len(); i++ {
			y.roleYAML(body.At(i), cont+"  ", true, b)
		}
	case "N":
		y.includeYAML(body, cont, b)
	case "T":
		x := body.At(2)
		fmt.Fprintf(b, "%stask:\n%s  load: %s\n", cont, cont, yq(fieldText(x.At(0))))
		traitsYAML(x, 1, cont, body.At(3).Bool(), b)
	case "C":
		x := body.At(2)
		fmt.Fprintf(b, "%scall:\n%s  func: %s\n%s  return: %s\n", cont, cont, yq(fieldText(x.At(0))), cont, yq(fieldText(x.At(1))))
		traitsYAML(x, 2, cont, body.At(3).Bool(), b)
	}
}

// traits: x[off]=timeout, x[off+1]=trigger, x[off+2]=await. Generators keep timeout
// non-empty and await empty when trigger is empty (the unmarshaller's defaulting of
// omitted traits is not part of this property).
func traitsYAML(x *sx.Node, off int, cont string, crit bool, b *strings.Builder) {
	fmt.Fprintf(b, "%s  timeout: %s\n", cont, yq(fieldText(x.At(off))))
	if !fieldEmpty(x.At(off + 1)) {
		fmt.Fprintf(b, "%s  trigger: %s\n%s  await: %s\n", cont, yq(fieldText(x.At(off+1))), cont, yq(fieldText(x.At(off+2))))
	}
	fmt.Fprintf(b, "%s  critical: %v\n", cont, crit)
}

func toYAML(root *sx.Node) (string, map[string]string) {
	var b strings.Builder
	y := &renderer{subs: map[string]string{}}
	y.roleYAML(root, "", false, &b)
	return b.String(), y.subs
}

// ---- running the real code ---------------------------------------------------------------

func build(root *sx.Node, doc string) (workflow.Role, error) {
	r := workflow.NewAggregatorRole("", nil)
	if err := yaml.Unmarshal([]byte(doc), r); err != nil {
		return nil, fmt.Errorf("yaml: %v\n%s", err, doc)
	}
	workflow.LinkChildrenToParents(r)
	uv := map[string]string{}
	for _, e := range root.At(1).At(4).List {
		uv[e.At(0).Str()] = e.At(1).Str()
	}
	if len(uv) > 0 {
		r.SetRuntimeVars(uv)
	}
	return r, nil
}

func canonMap(m map[string]string) *sx.Node {
	ks := make([]string, 0, len(m))
	for k := range m {
		ks = append(ks, k)
	}
	sort.Strings(ks)
	n := sx.L()
	for _, k := range ks {
		n.Add(sx.L(sx.A(k), sx.A(m[k])))
	}
	return n
}

type marshaler interface {
	MarshalYAML() (interface{}, error)
}

func str(m map[string]interface{}, k string) string {
	if v, ok := m[k]; ok {
		if s, ok := v.(string); ok {
			return s
		}
	}
	return ""
}

func dumpRole(r workflow.Role) (*sx.Node, error) {
	ms, ok := r.(marshaler)
	if !ok {
		return nil, fmt.Errorf("role %T has no MarshalYAML", r)
	}
	var raw interface{}
	var err error
	if isIncludeRole(r) {
		// includeRole.MarshalYAML answers (nil, nil): read what roleBase.MarshalYAML would show
		raw, err = includeRoleFields(r)
	} else {
		raw, err = ms.MarshalYAML()
	}
	if err != nil {
		return nil, err
	}
	m, ok := raw.(map[string]interface{})
	if !ok {
		return nil, fmt.Errorf("MarshalYAML of %T is %T", r, raw)
	}
	cons, binds, conns := sx.L(), sx.L(), sx.L()
	if v, ok := m["constraints"].(constraint.Constraints); ok {
		for _, c := range v {
			cons.Add(sx.L(sx.A(c.Attribute), sx.A(c.Value)))
		}
	}
	if v, ok := m["bind"].([]channel.Inbound); ok {
		for _, c := range v {
			binds.Add(sx.L(sx.A(c.Name), sx.A(c.Global)))
		}
	}
	if v, ok := m["connect"].([]channel.Outbound); ok {
		for _, c := range v {
			conns.Add(sx.L(sx.A(c.Name), sx.A(c.Target)))
		}
	}
	stack, err := r.ConsolidatedVarStack()
	if err != nil {
		return nil, err
	}
	info := sx.L(sx.A(r.GetName()), sx.A(str(m, "enabled")), canonMap(r.GetDefaults().Raw()), canonMap(r.GetVars().Raw()),
		cons, binds, conns, canonMap(stack))
	if r.GetName() != str(m, "name") {
		return nil, fmt.Errorf("GetName %q != marshalled name %q", r.GetName(), str(m, "name"))
	}
	traits := func(t map[string]interface{}, first ...string) *sx.Node {
		x := sx.L()
		for _, k := range first {
			x.Add(sx.A(str(t, k)))
		}
		x.Add(sx.A(str(t, "timeout")), sx.A(str(t, "trigger")), sx.A(str(t, "await")))
		return x
	}
	switch {
	case m["task"] != nil:
		t := m["task"].(map[string]interface{})
		crit, _ := t["critical"].(bool)
		return sx.L(sx.A("T"), info, traits(t, "load"), sx.B(crit)), nil
	case m["call"] != nil:
		t := m["call"].(map[string]interface{})
		crit, _ := t["critical"].(bool)
		return sx.L(sx.A("C"), info, traits(t, "func", "return"), sx.B(crit)), nil
	default:
		n := sx.L(sx.A("A"), info)
		for _, c := range r.GetRoles() {
			d, err := dumpRole(c)
			if err != nil {
				return nil, err
			}
			n.Add(d)
		}
		return n, nil
	}
}

var theRepo = repos.Repo{HostingSite: "h", Path: "p", RepoName: "r", Hash: "x", Revision: "x", DefaultRevision: "x", Protocol: "local"}

func runOnce(root *sx.Node, doc string, subs map[string]string, setting int) (string, error) {
	for i, k := range switchKeys {
		viper.Set(k, setting&(1<<i) != 0)
	}
	r, err := build(root, doc)
	if err != nil {
		return "", err
	}
	repo := theRepo
	// always a loader (an include role that can name no document still asks for one)
	var lerr error
	loader := subworkflowLoader(subs, &repo, &lerr)
	if err := r.ProcessTemplates(&repo, loader, map[string]string{}); err != nil {
		if lerr != nil { // trouble of the harness's own loader (not "no such document"): no verdict
			return "", lerr
		}
		return "err", nil
	}
	if !r.IsEnabled() {
		return "none", nil
	}
	d, err := dumpRole(r)
	if err != nil {
		return "", err
	}
	return d.String(), nil
}

func runImpl(input string) (string, error) {
	in, err := sx.Parse(input)
	if err != nil {
		return "", err
	}
	if in.At(0).Str() != "A" {
		return "", fmt.Errorf("root must be an aggregator")
	}
	if !viper.IsSet("config_endpoint") {
		viper.Set("config_endpoint", "mock://")
	}
	if err := validIncludes(in); err != nil {
		return "", err
	}
	doc, subs := toYAML(in)
	var outs [8]string
	same := true
	for s := 0; s < 8; s++ {
		o, err := runOnce(in, doc, subs, s)
		if err != nil {
			return "", err
		}
		outs[s] = o
		if o != outs[0] {
			same = false
		}
	}
	if same {
		return "(all " + outs[0] + ")", nil
	}
	return "(diff " + strings.Join(outs[:], " ") + ")", nil
}

func init() {
	fw.Register(&fw.Property{
		ID:         "C15",
		Generate:   generate,
		RunImpl:    runImpl,
		Nontrivial: nontrivial,
		Rule: "random workflow templates rendered to YAML and loaded through the package's unmarshallers: aggregator / iterator " +
			"(begin-end and JSON-list ranges, literal or from variables) / task / call / include roles nested to depth <= 4, <= ~25 roles, " +
			"enabled fields (literal spellings, {{ var }}, ==, !=, &&, ||, !) over defaults/vars/user vars/iteration variables with " +
			"shadowing across levels, templated names, variables, constraints, bind/connect channels and hook traits, ~12% cases " +
			"with a deliberate template error (unknown variable, non-integer bound, malformed list); plus a stream (1 in 6 cases, tag " +
			"stream:nested) of iterators nested 2-3 deep inside iterator templates whose inner begin/end/range refers to the enclosing " +
			"iteration variable(s) or to variables the generated child sets from them (each generated child must evaluate the inner " +
			"range in its own stack; the same shapes also occur in the general stream); include roles served from an in-memory " +
			"workflow repository through a LoadSubworkflowFunc that does what workflow.Load's closure does: in the general stream (about " +
			"1 role in 9) and in a dedicated stream (1 in 6 cases, tag stream:include) plus fixed scenarios (tags fixed:incl-*): plain, " +
			"under iterators with the include expression and the included tree (names, classes, variables, nested iterator ranges, " +
			"enabled) referring to the iteration variable, the same name defined further up, nested includes, enabled expressions on " +
			"the include role and inside the included tree, template errors inside the included tree, unknown documents, included " +
			"roots that end up disabled or empty; every case is run under ALL 8 " +
			"settings of the three concurrency switches and the canonical dump of the whole tree is compared with the Lean model " +
			"and across settings; non-trivial = >= 4 template roles and (an iterator or an enabled field with a {{ }} tag); distinct by input text",
		Shrink:  shrinkCands,
		Workers: 1, // viper is process-global
		TrustedBase: []string{
			"harness/props/c15 (template -> YAML renderer, tree dump through GetRoles/MarshalYAML/ConsolidatedVarStack; for include roles, whose MarshalYAML is empty, the same roleBase fields read by reflection; in-memory LoadSubworkflowFunc)",
			"gopkg.in/yaml.v3 unmarshalling of the role union", "repos.Repo{h/p/r@x} as the workflow repository (task class resolution)",
		},
		Assumptions: []string{
			"template expressions stay inside the modelled fragment (text, {{ var }}, string literals, ==, !=, &&, ||, !, true/false; ASCII); the rest of the expr engine, This()/Parent()/Up(), config access functions and plugins are unmodelled",
			"include roles: the repository manager / git checkout behind workflow.Load's LoadSubworkflowFunc is replaced by an in-memory map of YAML documents (same steps on the loaded root); include expressions evaluate to plain file names (no '/', no '@'), every include site has its own documents",
			"user variables are literal strings set on the root with SetRuntimeVars before ProcessTemplates",
			"the Go scheduler explores only some interleavings per run; the all-schedules claim rests on the Lean theorem plus the go/ast facts about what the goroutines write",
		},
	})
	fw.RegisterGen(fw.GenFile{Name: "LoadFacts.lean", Make: genFacts})
}
