package c15

import (
	"bytes"
	"fmt"
	"go/ast"
	"go/parser"
	"go/printer"
	"go/token"
	"path/filepath"
	"sort"
	"strings"
)

// genFacts extracts, with go/ast, what the goroutines spawned during template processing
// write to and call, plus the viper keys that switch them on:
//
//	for every `go func(...) {...}(...)` in aggregatorRole.ProcessTemplates,
//	iteratorRole.ProcessTemplates and iteratorRole.expandTemplate
//	  - writes : assignment targets that are NOT declared inside the closure (captured
//	             variables, printed as source text, e.g. roleErrors, roles[rangeIdx])
//	  - calls  : the callee expressions inside the closure
//	  - locked : whether a sync.Mutex Lock() call occurs inside the closure
//
// Props/C15.lean identifies the table with what the model assumes (each goroutine writes its
// own slot / its own role and an error accumulator of which only nil-ness is used).
func genFacts(repo string) (string, error) {
	type fact struct {
		fn     string
		key    string
		writes []string
		calls  []string
		locked bool
	}
	var facts []fact
	fset := token.NewFileSet()
	for _, file := range []string{"aggregatorrole.go", "iteratorrole.go"} {
		f, err := parser.ParseFile(fset, filepath.Join(repo, "core/workflow", file), nil, 0)
		if err != nil {
			return "", err
		}
		src := func(n ast.Node) string {
			var b bytes.Buffer
			printer.Fprint(&b, fset, n)
			return strings.Join(strings.Fields(b.String()), " ")
		}
		for _, d := range f.Decls {
			fd, ok := d.(*ast.FuncDecl)
			if !ok || fd.Recv == nil || fd.Body == nil || (fd.Name.Name != "ProcessTemplates" && fd.Name.Name != "expandTemplate") {
				continue
			}
			recv := src(fd.Recv.List[0].Type)
			recv = strings.TrimPrefix(recv, "*")
			if recv != "aggregatorRole" && recv != "iteratorRole" {
				continue
			}
			// the viper key guarding the concurrent branch
			key := ""
			ast.Inspect(fd.Body, func(n ast.Node) bool {
				if c, ok := n.(*ast.CallExpr); ok && src(c.Fun) == "viper.GetBool" && len(c.Args) == 1 {
					if l, ok := c.Args[0].(*ast.BasicLit); ok && strings.Contains(l.Value, "oncurren") {
						key = strings.Trim(l.Value, `"`)
					}
				}
				return true
			})
			ast.Inspect(fd.Body, func(n ast.Node) bool {
				g, ok := n.(*ast.GoStmt)
				if !ok {
					return true
				}
				fl, ok := g.Call.Fun.(*ast.FuncLit)
				if !ok {
					return true
				}
				local := map[string]bool{}
				for _, p := range fl.Type.Params.List {
					for _, nm := range p.Names {
						local[nm.Name] = true
					}
				}
				// declarations inside the closure
				ast.Inspect(fl.Body, func(m ast.Node) bool {
					switch s := m.(type) {
					case *ast.AssignStmt:
						if s.Tok == token.DEFINE {
							for _, l := range s.Lhs {
								if id, ok := l.(*ast.Ident); ok {
									local[id.Name] = true
								}
							}
						}
					case *ast.ValueSpec:
						for _, nm := range s.Names {
							local[nm.Name] = true
						}
					}
					return true
				})
				fc := fact{fn: recv + "." + fd.Name.Name, key: key}
				seenW, seenC := map[string]bool{}, map[string]bool{}
				base := func(e ast.Expr) string {
					for {
						switch x := e.(type) {
						case *ast.IndexExpr:
							e = x.X
						case *ast.SelectorExpr:
							e = x.X
						case *ast.StarExpr:
							e = x.X
						case *ast.ParenExpr:
							e = x.X
						case *ast.Ident:
							return x.Name
						default:
							return ""
						}
					}
				}
				ast.Inspect(fl.Body, func(m ast.Node) bool {
					switch s := m.(type) {
					case *ast.AssignStmt:
						if s.Tok == token.DEFINE {
							return true
						}
						for _, l := range s.Lhs {
							if b := base(l); b != "" && b != "_" && !local[b] {
								if t := src(l); !seenW[t] {
									seenW[t] = true
									fc.writes = append(fc.writes, t)
								}
							}
						}
					case *ast.IncDecStmt:
						if b := base(s.X); b != "" && !local[b] {
							if t := src(s.X); !seenW[t] {
								seenW[t] = true
								fc.writes = append(fc.writes, t)
							}
						}
					case *ast.CallExpr:
						t := src(s.Fun)
						if strings.HasSuffix(t, ".Lock") {
							fc.locked = true
						}
						if !seenC[t] {
							seenC[t] = true
							fc.calls = append(fc.calls, t)
						}
					}
					return true
				})
				sort.Strings(fc.writes)
				sort.Strings(fc.calls)
				facts = append(facts, fc)
				return true
			})
		}
	}
	sort.Slice(facts, func(i, j int) bool { return facts[i].fn < facts[j].fn })
	q := func(ss []string) string {
		var qs []string
		for _, s := range ss {
			qs = append(qs, fmt.Sprintf("%q", s))
		}
		return "[" + strings.Join(qs, ", ") + "]"
	}
	var b strings.Builder
	b.WriteString("namespace Gen\n\n/-- (function, viper switch, captured variables the goroutine assigns, callees, takes a lock?) for every\n    `go func` of the workflow template processing (go/ast over aggregatorrole.go, iteratorrole.go). -/\n")
	b.WriteString("def loadGoroutines : List (String × String × List String × List String × Bool) := [\n")
	for i, f := range facts {
		fmt.Fprintf(&b, "  (%q, %q, %s, %s, %v)", f.fn, f.key, q(f.writes), q(f.calls), f.locked)
		if i < len(facts)-1 {
			b.WriteString(",")
		}
		b.WriteString("\n")
	}
	b.WriteString("]\n\nend Gen\n")
	return b.String(), nil
}
