package c15

import (
	"bytes"
	"fmt"
	"go/ast"
	"go/parser"
	"go/printer"
	"go/token"
	"path/filepath"
	"sort"
	"strings"
)

// genFacts extracts, with go/ast, what the goroutines spawned during template processing
// write to and call, plus the viper keys that switch them on:
//
//	for every `go func(...) {...}(...)` in aggregatorRole.ProcessTemplates,
//	iteratorRole.ProcessTemplates and iteratorRole.expandTemplate
//	  - writes : assignment targets that are NOT declared inside the closure (captured
//	             variables, printed as source text, e.g. roleErrors, roles[rangeIdx])
//	  - calls  : the callee expressions inside the closure
//	  - locked : whether a sync.Mutex Lock() call occurs inside the closure
//
// Props/C15.lean identifies the table with what the model assumes (each goroutine writes its
// own slot / its own role and an error accumulator of which only nil-ness is used).
// The same file carries the facts of pruningFacts (below): which roles a load keeps, and of
// includeFacts (inclfacts.go): the steps of includeRole.ProcessTemplates and their order.
func genFacts(repo string) (string, error) {
	type fact struct {
		fn     string
		key    string
		writes []string
		calls  []string
		locked bool
	}
	var facts []fact
	fset := token.NewFileSet()
	for _, file := range []string{"aggregatorrole.go", "iteratorrole.go"} {
		f, err := parser.ParseFile(fset, filepath.Join(repo, "core/workflow", file), nil, 0)
		if err != nil {
			return "", err
		}
		src := func(n ast.Node) string {
			var b bytes.Buffer
			printer.Fprint(&b, fset, n)
			return strings.Join(strings.Fields(b.String()), " ")
		}
		for _, d := range f.Decls {
			fd, ok := d.(*ast.FuncDecl)
			if !ok || fd.Recv == nil || fd.Body == nil || (fd.Name.Name != "ProcessTemplates" && fd.Name.Name != "expandTemplate") {
				continue
			}
			recv := src(fd.Recv.List[0].Type)
			recv = strings.TrimPrefix(recv, "*")
			if recv != "aggregatorRole" && recv != "iteratorRole" {
				continue
			}
			// the viper key guarding the concurrent branch
			key := ""
			ast.Inspect(fd.Body, func(n ast.Node) bool {
				if c, ok := n.(*ast.CallExpr); ok && src(c.Fun) == "viper.GetBool" && len(c.Args) == 1 {
					if l, ok := c.Args[0].(*ast.BasicLit); ok && strings.Contains(l.Value, "oncurren") {
						key = strings.Trim(l.Value, `"`)
					}
				}
				return true
			})
			ast.Inspect(fd.Body, func(n ast.Node) bool {
				g, ok := n.(*ast.GoStmt)
				if !ok {
					return true
				}
				fl, ok := g.Call.Fun.(*ast.FuncLit)
				if !ok {
					return true
				}
				local := map[string]bool{}
				for _, p := range fl.Type.Params.List {
					for _, nm := range p.Names {
						local[nm.Name] = true
					}
				}
				// declarations inside the closure
				ast.Inspect(fl.Body, func(m ast.Node) bool {
					switch s := m.(type) {
					case *ast.AssignStmt:
						if s.Tok == token.DEFINE {
							for _, l := range s.Lhs {
								if id, ok := l.(*ast.Ident); ok {
									local[id.Name] = true
								}
							}
						}
					case *ast.ValueSpec:
						for _, nm := range s.Names {
							local[nm.Name] = true
						}
					}
					return true
				})
				fc := fact{fn: recv + "." + fd.Name.Name, key: key}
				seenW, seenC := map[string]bool{}, map[string]bool{}
				base := func(e ast.Expr) string {
					for {
						switch x := e.(type) {
						case *ast.IndexExpr:
							e = x.X
						case *ast.SelectorExpr:
							e = x.X
						case *ast.StarExpr:
							e = x.X
						case *ast.ParenExpr:
							e = x.X
						case *ast.Ident:
							return x.Name
						default:
							return ""
						}
					}
				}
				ast.Inspect(fl.Body, func(m ast.Node) bool {
					switch s := m.(type) {
					case *ast.AssignStmt:
						if s.Tok == token.DEFINE {
							return true
						}
						for _, l := range s.Lhs {
							if b := base(l); b != "" && b != "_" && !local[b] {
								if t := src(l); !seenW[t] {
									seenW[t] = true
									fc.writes = append(fc.writes, t)
								}
							}
						}
					case *ast.IncDecStmt:
						if b := base(s.X); b != "" && !local[b] {
							if t := src(s.X); !seenW[t] {
								seenW[t] = true
								fc.writes = append(fc.writes, t)
							}
						}
					case *ast.CallExpr:
						t := src(s.Fun)
						if strings.HasSuffix(t, ".Lock") {
							fc.locked = true
						}
						if !seenC[t] {
							seenC[t] = true
							fc.calls = append(fc.calls, t)
						}
					}
					return true
				})
				sort.Strings(fc.writes)
				sort.Strings(fc.calls)
				facts = append(facts, fc)
				return true
			})
		}
	}
	sort.Slice(facts, func(i, j int) bool { return facts[i].fn < facts[j].fn })
	q := func(ss []string) string {
		var qs []string
		for _, s := range ss {
			qs = append(qs, fmt.Sprintf("%q", s))
		}
		return "[" + strings.Join(qs, ", ") + "]"
	}
	var b strings.Builder
	b.WriteString("namespace Gen\n\n/-- (function, viper switch, captured variables the goroutine assigns, callees, takes a lock?) for every\n    `go func` of the workflow template processing (go/ast over aggregatorrole.go, iteratorrole.go). -/\n")
	b.WriteString("def loadGoroutines : List (String × String × List String × List String × Bool) := [\n")
	for i, f := range facts {
		fmt.Fprintf(&b, "  (%q, %q, %s, %s, %v)", f.fn, f.key, q(f.writes), q(f.calls), f.locked)
		if i < len(facts)-1 {
			b.WriteString(",")
		}
		b.WriteString("\n")
	}
	b.WriteString("]\n\n")
	pf, err := pruningFacts(repo)
	if err != nil {
		return "", err
	}
	b.WriteString(pf)
	inf, err := includeFacts(repo)
	if err != nil {
		return "", err
	}
	b.WriteString(inf)
	b.WriteString("end Gen\n")
	return b.String(), nil
}

// pruningFacts reads, with go/ast, the spots that decide which roles a load keeps:
//
//	loadIteratorIsEnabled   what iteratorRole.IsEnabled() returns for an iterator that exists
//	                        (source text of the result of its last return statement)
//	loadDisabledRoleGuards  MakeDisabledRoleCallback: the conditions, outermost first, under which
//	                        the stage's error is replaced by a RoleDisabledError
//	loadChildFilters        aggregatorRole / iteratorRole ProcessTemplates: condition under which a
//	                        processed child stays in Roles
//	loadSelfDisable         aggregatorRole.ProcessTemplates: condition under which the aggregator
//	                        sets its own Enabled to "false"
//
// Props/C15.lean reads the first two as the model's configuration (`C15_pruning_is_code`) and
// pins the other two to what `proc` / `aggOut` assume.
func pruningFacts(repo string) (string, error) {
	fset := token.NewFileSet()
	src := func(n ast.Node) string {
		var b bytes.Buffer
		printer.Fprint(&b, fset, n)
		return strings.Join(strings.Fields(b.String()), " ")
	}
	parse := func(file string) (*ast.File, error) {
		return parser.ParseFile(fset, filepath.Join(repo, "core/workflow", file), nil, 0)
	}
	recvOf := func(fd *ast.FuncDecl) string {
		if fd.Recv == nil || len(fd.Recv.List) == 0 {
			return ""
		}
		return strings.TrimPrefix(src(fd.Recv.List[0].Type), "*")
	}
	// condStack walks body and calls hit(stmt, conds) for every statement, conds = the
	// conditions of the enclosing if statements (then-branches only), outermost first
	var walk func(n ast.Stmt, conds []string, hit func(ast.Stmt, []string))
	walk = func(n ast.Stmt, conds []string, hit func(ast.Stmt, []string)) {
		if n == nil {
			return
		}
		hit(n, conds)
		switch s := n.(type) {
		case *ast.BlockStmt:
			for _, c := range s.List {
				walk(c, conds, hit)
			}
		case *ast.IfStmt:
			walk(s.Body, append(append([]string{}, conds...), src(s.Cond)), hit)
			walk(s.Else, append(append([]string{}, conds...), "!("+src(s.Cond)+")"), hit)
		case *ast.ForStmt:
			walk(s.Body, conds, hit)
		case *ast.RangeStmt:
			walk(s.Body, conds, hit)
		case *ast.ReturnStmt:
			// a callback returned as a function literal: look inside
			for _, r := range s.Results {
				if fl, ok := r.(*ast.FuncLit); ok {
					walk(fl.Body, conds, hit)
				}
			}
		}
	}

	iterIsEnabled := ""
	var guards []string
	filters := map[string]string{}
	selfDisable := ""

	fi, err := parse("iteratorrole.go")
	if err != nil {
		return "", err
	}
	fa, err := parse("aggregatorrole.go")
	if err != nil {
		return "", err
	}
	fu, err := parse("roleutils.go")
	if err != nil {
		return "", err
	}
	for _, f := range []*ast.File{fi, fa, fu} {
		for _, d := range f.Decls {
			fd, ok := d.(*ast.FuncDecl)
			if !ok || fd.Body == nil {
				continue
			}
			recv := recvOf(fd)
			switch {
			case recv == "iteratorRole" && fd.Name.Name == "IsEnabled":
				walk(fd.Body, nil, func(s ast.Stmt, _ []string) {
					if r, ok := s.(*ast.ReturnStmt); ok && len(r.Results) == 1 {
						iterIsEnabled = src(r.Results[0]) // the last one wins
					}
				})
			case recv == "" && fd.Name.Name == "MakeDisabledRoleCallback":
				walk(fd.Body, nil, func(s ast.Stmt, conds []string) {
					r, ok := s.(*ast.ReturnStmt)
					if !ok || len(r.Results) != 1 {
						return
					}
					t := src(r.Results[0])
					if t == "rde" || strings.Contains(t, "RoleDisabledError") {
						guards = append([]string{}, conds...)
					}
				})
			case (recv == "aggregatorRole" || recv == "iteratorRole") && fd.Name.Name == "ProcessTemplates":
				walk(fd.Body, nil, func(s ast.Stmt, conds []string) {
					a, ok := s.(*ast.AssignStmt)
					if !ok || len(a.Lhs) != 1 || len(a.Rhs) != 1 {
						return
					}
					lhs, rhs := src(a.Lhs[0]), src(a.Rhs[0])
					if lhs == "enabledRoles" && strings.HasPrefix(rhs, "append(enabledRoles,") {
						filters[recv] = strings.Join(conds, " && ")
					}
					if recv == "aggregatorRole" && strings.HasSuffix(lhs, ".Enabled") && rhs == `"false"` {
						selfDisable = strings.Join(conds, " && ")
					}
				})
			}
		}
	}
	q := func(ss []string) string {
		qs := make([]string, 0, len(ss))
		for _, s := range ss {
			qs = append(qs, fmt.Sprintf("%q", s))
		}
		return "[" + strings.Join(qs, ", ") + "]"
	}
	var b strings.Builder
	b.WriteString("/-- `iteratorRole.IsEnabled()`: what it returns for an iterator that exists (source text). -/\n")
	fmt.Fprintf(&b, "def loadIteratorIsEnabled : String := %q\n\n", iterIsEnabled)
	b.WriteString("/-- `MakeDisabledRoleCallback`: conditions (outermost first) under which the stage's error is replaced by\n    `RoleDisabledError`. -/\n")
	fmt.Fprintf(&b, "def loadDisabledRoleGuards : List String := %s\n\n", q(guards))
	b.WriteString("/-- condition under which a processed child stays in `Roles` (aggregatorRole, iteratorRole `ProcessTemplates`). -/\n")
	fmt.Fprintf(&b, "def loadChildFilters : List (String × String) := [(\"aggregatorRole\", %q), (\"iteratorRole\", %q)]\n\n",
		filters["aggregatorRole"], filters["iteratorRole"])
	b.WriteString("/-- condition under which an aggregator sets its own `Enabled` to \"false\" after its children. -/\n")
	fmt.Fprintf(&b, "def loadSelfDisable : String := %q\n\n", selfDisable)
	return b.String(), nil
}
