package c15

import (
	"fmt"
	"strings"

	"verifharness/fw"
	"verifharness/rng"
	"verifharness/sx"
)

// ---- AST constructors ----------------------------------------------------------------------

func pT(s string) *sx.Node   { return sx.L(sx.A("t"), sx.A(s)) }
func pV(x string) *sx.Node   { return sx.L(sx.A("s"), sx.L(sx.A("var"), sx.A(x))) }
func pB(be *sx.Node) *sx.Node { return sx.L(sx.A("b"), be) }
func seVar(x string) *sx.Node { return sx.L(sx.A("var"), sx.A(x)) }
func seLit(s string) *sx.Node { return sx.L(sx.A("lit"), sx.A(s)) }
func fld(ps ...*sx.Node) *sx.Node {
	n := sx.L()
	n.Add(ps...)
	return n
}
func lit(s string) *sx.Node {
	if s == "" {
		return sx.L()
	}
	return fld(pT(s))
}

type gen struct {
	r      *rng.R
	bad    int // deliberate template errors still to inject
	budget int // template roles still allowed
	nroles int
	outer  []outerVar // enclosing iteration variables, innermost last
}

// outerVar is an iteration variable of an enclosing iterator; ints = every element of that
// iterator's range is known to print as a decimal integer (so it can serve as a bound).
type outerVar struct {
	name string
	ints bool
}

var plainNames = []string{"a", "b", "c", "d", "e"}
var plainVals = []string{"true", "false", "x", "y", "1", "0", "true", "x"}
var listVals = []string{`["p","q"]`, `["x"]`, `[]`, `["q","p","r"]`, `["1","2"]`, `["true","false"]`}
var intVals = []string{"0", "1", "2", "3", "-1"}
var iterVars = []string{"i", "j", "it"}

const undefinedVar = "zz"

func (g *gen) pickVar(scope []string) string {
	if len(scope) == 0 || g.r.P(1, 150) {
		return rng.Pick(g.r, append([]string{"u", "l", "n"}, plainNames...)) // may be undefined here
	}
	return rng.Pick(g.r, scope)
}

func (g *gen) se(scope []string) *sx.Node {
	if len(scope) > 0 && g.r.P(3, 5) {
		return seVar(g.pickVar(scope))
	}
	return seLit(rng.Pick(g.r, plainVals))
}

func (g *gen) be(scope []string, depth int) *sx.Node {
	k := g.r.N(10)
	switch {
	case depth >= 2 || k < 5:
		op := "eq"
		if g.r.P(1, 3) {
			op = "ne"
		}
		a := g.se(scope)
		if len(scope) > 0 && g.r.P(9, 10) {
			a = seVar(g.pickVar(scope))
		}
		return sx.L(sx.A(op), a, g.se(scope))
	case k < 7:
		return sx.L(sx.A("and"), g.be(scope, depth+1), g.be(scope, depth+1))
	case k < 9:
		return sx.L(sx.A("or"), g.be(scope, depth+1), g.be(scope, depth+1))
	case k < 10 && g.r.P(1, 4):
		return sx.L(sx.A("const"), sx.B(g.r.Bool()))
	default:
		return sx.L(sx.A("not"), g.be(scope, depth+1))
	}
}

// maybeBad returns a field with an unknown variable if an injection is due here.
func (g *gen) maybeBad() *sx.Node {
	if g.bad > 0 && g.r.P(1, 6) {
		g.bad--
		return fld(pT("k"), pV(undefinedVar))
	}
	return nil
}

func (g *gen) valueField(scope []string) *sx.Node {
	if b := g.maybeBad(); b != nil {
		return b
	}
	k := g.r.N(10)
	if len(scope) == 0 && k < 8 {
		k = 0
	}
	switch k {
	case 0, 1, 2, 3:
		return lit(rng.Pick(g.r, plainVals))
	case 4, 5:
		return fld(pV(g.pickVar(scope)))
	case 6:
		return fld(pT(rng.Pick(g.r, []string{"n-", "v", "p."})), pV(g.pickVar(scope)))
	case 7:
		return fld(pV(g.pickVar(scope)), pT("-"), pV(g.pickVar(scope)))
	default:
		return fld(pB(g.be(scope, 0)))
	}
}

func (g *gen) enabledField(scope []string) *sx.Node {
	k := g.r.N(100)
	switch {
	case k < 50:
		return lit("true")
	case k < 58:
		return lit("false")
	case k < 66:
		return lit(rng.Pick(g.r, []string{" TRUE ", "1", "True", "0", "yes", "", " false", "1 ", "tRuE"}))
	case k < 72 && len(scope) > 0:
		return fld(pV(g.pickVar(scope)))
	case k < 75:
		return fld(pT(" "), pB(g.be(scope, 0)), pT(" "))
	case k < 77 && g.bad > 0:
		g.bad--
		return fld(pB(sx.L(sx.A("eq"), seVar(undefinedVar), seLit("true"))))
	default:
		return fld(pB(g.be(scope, 0)))
	}
}

func (g *gen) kvList(scope []string, max int, typed bool) (*sx.Node, []string) {
	n := sx.L()
	var keys []string
	cnt := g.r.N(max + 1)
	used := map[string]bool{}
	for i := 0; i < cnt; i++ {
		var k string
		var v *sx.Node
		switch {
		case typed && g.r.P(1, 5):
			k, v = "l", lit(rng.Pick(g.r, listVals))
		case typed && g.r.P(1, 5):
			k, v = "n", lit(rng.Pick(g.r, intVals))
		default:
			k, v = rng.Pick(g.r, plainNames), g.valueField(scope)
		}
		if used[k] {
			continue
		}
		used[k] = true
		keys = append(keys, k)
		n.Add(sx.L(sx.A(k), v))
	}
	return n, keys
}

func (g *gen) attrList(scope []string, names []string, max int) *sx.Node {
	n := sx.L()
	cnt := 0
	if g.r.P(1, 3) {
		cnt = g.r.Range(1, max)
	}
	for i := 0; i < cnt; i++ {
		v := g.valueField(scope)
		if fieldEmpty(v) {
			v = lit("g")
		}
		n.Add(sx.L(sx.A(rng.Pick(g.r, names)), v))
	}
	return n
}

// hdr builds a role header; returns it and the scope its children see.
func (g *gen) hdr(scope []string, nameBase string, itVar string, root bool) (*sx.Node, []string, []string) {
	enabled := g.enabledField(scope)
	defs, dk := g.kvList(scope, 2, true)
	s2 := append(append([]string{}, scope...), dk...)
	vars, vk := g.kvList(s2, 2, true)
	s4 := append(append([]string{}, s2...), vk...)
	uv := sx.L()
	if root {
		used := map[string]bool{}
		for i, n := 0, g.r.N(3); i < n; i++ {
			k := rng.Pick(g.r, []string{"u", "a", "b", "n", "l"})
			if used[k] {
				continue
			}
			used[k] = true
			v := rng.Pick(g.r, plainVals)
			if k == "n" {
				v = rng.Pick(g.r, intVals)
			} else if k == "l" {
				v = rng.Pick(g.r, listVals)
			}
			uv.Add(sx.L(sx.A(k), sx.A(v)))
			s4 = append(s4, k)
		}
	}
	var name *sx.Node
	switch {
	case itVar != "" && g.r.P(5, 6):
		name = fld(pT(nameBase+"-"), pV(itVar))
	case g.r.P(1, 8) && len(s4) > 0:
		name = fld(pT(nameBase+"."), pV(g.pickVar(s4)))
	default:
		name = lit(nameBase)
	}
	if b := g.maybeBad(); b != nil {
		name = b
	}
	cons := g.attrList(s4, []string{"machine", "rack", "zone"}, 2)
	binds := g.attrList(s4, []string{"data", "mon"}, 1)
	conns := g.attrList(s4, []string{"in", "ctl"}, 1)
	return sx.L(name, enabled, defs, vars, uv, cons, binds, conns), s4, s4
}

func (g *gen) traits(scope []string) []*sx.Node {
	timeout := lit(rng.Pick(g.r, []string{"0s", "10s", "2m"}))
	if g.r.P(1, 6) && len(scope) > 0 {
		timeout = fld(pV(g.pickVar(scope)), pT("s"))
	}
	if g.r.P(1, 3) {
		trig := lit(rng.Pick(g.r, []string{"enter_RUNNING", "before_CONFIGURE+10", "leave_RUNNING"}))
		await := trig
		if g.r.P(1, 3) {
			await = lit("after_STOP")
		}
		if g.r.P(1, 6) && len(scope) > 0 {
			trig = fld(pT("enter_"), pV(g.pickVar(scope)))
		}
		return []*sx.Node{timeout, trig, await}
	}
	return []*sx.Node{timeout, sx.L(), sx.L()}
}

func (g *gen) leaf(kind string, scope []string, nameBase, itVar string) *sx.Node {
	h, s4, _ := g.hdr(scope, nameBase, itVar, false)
	x := sx.L()
	if kind == "T" {
		cls := lit(rng.Pick(g.r, []string{"readout", "stfb", "qc"}))
		if g.r.P(1, 5) && len(s4) > 0 {
			cls = fld(pT("cls-"), pV(g.pickVar(s4)))
		}
		x.Add(cls)
	} else {
		fn := lit("odc.Configure()")
		if g.r.P(1, 3) && len(s4) > 0 {
			fn = fld(pT("f("), pV(g.pickVar(s4)), pT(")"))
		}
		ret := sx.L()
		if g.r.P(1, 3) {
			ret = lit("rv")
		}
		x.Add(fn, ret)
	}
	x.Add(g.traits(s4)...)
	return sx.L(sx.A(kind), h, x, sx.B(g.r.P(3, 4)))
}

func (g *gen) rangeNode(scope []string) *sx.Node {
	if g.bad > 0 && g.r.P(1, 4) {
		g.bad--
		switch g.r.N(3) {
		case 0:
			return sx.L(sx.A("R"), lit("1"), lit("x"))
		case 1:
			return sx.L(sx.A("L"), lit(`["p",`))
		default:
			return sx.L(sx.A("L"), fld(pV(undefinedVar)))
		}
	}
	has := func(k string) bool {
		for _, s := range scope {
			if s == k {
				return true
			}
		}
		return false
	}
	// inside the template of an enclosing iterator: let the range depend on the enclosing
	// iteration variable(s), so that every generated child has to evaluate ITS OWN range
	if len(g.outer) > 0 && g.r.P(1, 2) {
		return g.depRange(has)
	}
	switch g.r.N(6) {
	case 0, 1:
		b := g.r.Range(0, 2)
		return sx.L(sx.A("R"), lit(fmt.Sprint(b)), lit(fmt.Sprint(b+g.r.Range(-1, 2))))
	case 2:
		if has("n") {
			return sx.L(sx.A("R"), lit("1"), fld(pV("n")))
		}
		return sx.L(sx.A("R"), lit("-1"), lit("0"))
	case 3:
		if has("l") {
			return sx.L(sx.A("L"), fld(pV("l")))
		}
		fallthrough
	default:
		return sx.L(sx.A("L"), lit(rng.Pick(g.r, listVals)))
	}
}

func (g *gen) role(depth int, scope []string, nameBase, itVar string, allowIter bool) *sx.Node {
	g.budget--
	g.nroles++
	if depth < 3 && g.budget > 0 && g.r.P(1, 9) {
		// an include role: also as an iterator's template (allowIter false), also inside a document
		return g.include(depth, scope, nameBase, itVar)
	}
	k := g.r.N(10)
	switch {
	case allowIter && depth < 3 && k < 3:
		v := rng.Pick(g.r, iterVars)
		rn := g.rangeNode(scope)
		g.outer = append(g.outer, outerVar{v, rangeInts(rn)})
		body := g.role(depth, append(append([]string{}, scope...), v), nameBase, v, false)
		g.outer = g.outer[:len(g.outer)-1]
		g.budget++ // the iterator and its template count once
		g.nroles--
		return sx.L(sx.A("I"), rn, sx.A(v), body)
	case depth < 3 && k < 6 && g.budget > 0:
		h, _, cs := g.hdr(scope, nameBase, itVar, false)
		if itVar != "" {
			cs = append(cs, itVar)
			if g.r.P(1, 3) {
				cs = append(cs, g.deriveFromIter(h)...)
			}
		}
		n := sx.L(sx.A("A"), h)
		cnt := g.r.Range(0, 3)
		if g.r.P(4, 5) && cnt == 0 {
			cnt = 1
		}
		for i := 0; i < cnt && g.budget > 0; i++ {
			n.Add(g.role(depth+1, cs, fmt.Sprintf("%s%d", nameBase, i), "", true))
		}
		return n
	case k < 8:
		return g.leaf("T", scope, nameBase, itVar)
	default:
		return g.leaf("C", scope, nameBase, itVar)
	}
}

func genCase(r *rng.R) fw.Case {
	g := &gen{r: r, budget: r.Range(2, 12)}
	var tags []string
	if r.P(1, 8) {
		g.bad = 1
		tags = append(tags, "error-injected")
	}
	h, _, cs := g.hdr(nil, "wf", "", true)
	// a root that is disabled outright is a one-line case; keep it rare
	if !r.P(1, 12) {
		h.List[1] = lit("true")
	}
	root := sx.L(sx.A("A"), h)
	cnt := r.Range(1, 4)
	for i := 0; i < cnt && g.budget > 0; i++ {
		root.Add(g.role(1, cs, fmt.Sprintf("r%d", i), "", true))
	}
	return fw.Case{Input: root.String(), Tags: append(tags, caseTags(root)...)}
}

type tstats struct{ roles, iters, enabledTags, iterExprEnabled, depth int }

func hasTag(f *sx.Node) bool {
	for _, p := range f.List {
		if p.At(0).Str() != "t" {
			return true
		}
	}
	return false
}

func stats(root *sx.Node) tstats {
	var st tstats
	var walk func(n *sx.Node, d int, inIter bool)
	walk = func(n *sx.Node, d int, inIter bool) {
		if d > st.depth {
			st.depth = d
		}
		switch n.At(0).Str() {
		case "I":
			st.iters++
			walk(n.At(3), d, true)
			return
		case "A":
			for i := 2; i < n.Len(); i++ {
				walk(n.At(i), d+1, false)
			}
		case "N":
			// the include role is ONE role (the loaded root under the site's name); each document's root
			// header counts as the role it may become
			for _, doc := range docsOf(n) {
				st.roles++
				if hasTag(doc.At(2).At(1)) {
					st.enabledTags++
				}
				for _, k := range kidsOfDoc(doc) {
					walk(k, d+1, false)
				}
			}
		}
		st.roles++
		if hasTag(n.At(1).At(1)) {
			st.enabledTags++
			if inIter {
				st.iterExprEnabled++
			}
		}
	}
	walk(root, 1, false)
	return st
}

func generate(tier string, r *rng.R) []fw.Case {
	n := 1500
	if tier == "thorough" {
		n = 30000
	}
	cs := make([]fw.Case, 0, n+n/5+n/6+16)
	// fixed scenarios around include roles (include.go), always run
	cs = append(cs, fixedIncludeCases()...)
	for i := 0; i < n; i++ {
		cs = append(cs, genCase(r.Fork()))
	}
	// a dedicated stream on top: iterators nested in iterator templates (depth 2–3) whose inner
	// range depends on the enclosing iteration (see nested.go)
	for i := 0; i < n/5; i++ {
		cs = append(cs, genNestedCase(r.Fork()))
	}
	// a dedicated stream: include roles, mostly under an iterator, the included tree and the include
	// expression referring to the iteration variable (see include.go)
	for i := 0; i < n/6; i++ {
		cs = append(cs, genInclCase(r.Fork()))
	}
	return cs
}

func nontrivial(input, obs string) bool {
	in, err := sx.Parse(input)
	if err != nil {
		return false
	}
	st := stats(in)
	return st.roles >= 4 && (st.iters > 0 || st.enabledTags > 0) && strings.HasPrefix(obs, "(all ")
}

// ---- shrinking -----------------------------------------------------------------------------

func withAt(n *sx.Node, i int, repl *sx.Node) *sx.Node {
	c := sx.L()
	c.List = append(c.List, n.List...)
	c.List[i] = repl
	return c
}

func without(n *sx.Node, i int) *sx.Node {
	c := sx.L()
	c.List = append(append(c.List, n.List[:i]...), n.List[i+1:]...)
	return c
}

func hdrVariants(h *sx.Node) []*sx.Node {
	var out []*sx.Node
	for slot := 2; slot <= 7; slot++ {
		for i := range h.At(slot).List {
			out = append(out, withAt(h, slot, without(h.At(slot), i)))
		}
	}
	if fieldText(h.At(1)) != "true" {
		out = append(out, withAt(h, 1, lit("true")))
	}
	if hasTag(h.At(0)) {
		out = append(out, withAt(h, 0, lit("s")))
	}
	return out
}

func roleVariants(n *sx.Node) []*sx.Node {
	var out []*sx.Node
	switch n.At(0).Str() {
	case "I":
		out = append(out, n.At(3))
		for _, v := range roleVariants(n.At(3)) {
			if v.At(0).Str() != "I" {
				out = append(out, withAt(n, 3, v))
			}
		}
	case "A":
		for i := 2; i < n.Len(); i++ {
			out = append(out, without(n, i))
		}
		for i := 2; i < n.Len(); i++ {
			for _, v := range roleVariants(n.At(i)) {
				out = append(out, withAt(n, i, v))
			}
		}
		for _, hv := range hdrVariants(n.At(1)) {
			out = append(out, withAt(n, 1, hv))
		}
	case "N":
		// an include role: replaced by a document's root as a plain aggregator under the site's header
		// name, documents dropped, documents shrunk, a literal expression, a smaller site header
		for i := 3; i < n.Len(); i++ {
			d := n.At(i)
			a := sx.L(sx.A("A"), withAt(d.At(2), 0, n.At(1).At(0)))
			a.Add(kidsOfDoc(d)...)
			out = append(out, a)
		}
		for i := 3; i < n.Len(); i++ {
			out = append(out, without(n, i))
		}
		for i := 3; i < n.Len(); i++ {
			d := n.At(i)
			for j := 3; j < d.Len(); j++ {
				out = append(out, withAt(n, i, without(d, j)))
			}
			for j := 3; j < d.Len(); j++ {
				for _, v := range roleVariants(d.At(j)) {
					out = append(out, withAt(n, i, withAt(d, j, v)))
				}
			}
			for _, hv := range hdrVariants(d.At(2)) {
				out = append(out, withAt(n, i, withAt(d, 2, hv)))
			}
		}
		if hasTag(n.At(2)) && n.Len() > 3 {
			out = append(out, withAt(n, 2, lit(n.At(3).At(1).Str())))
		}
		for _, hv := range hdrVariants(n.At(1)) {
			out = append(out, withAt(n, 1, hv))
		}
	default:
		for _, hv := range hdrVariants(n.At(1)) {
			out = append(out, withAt(n, 1, hv))
		}
	}
	return out
}

func shrinkCands(input string) []string {
	in, err := sx.Parse(input)
	if err != nil || in.At(0).Str() != "A" {
		return nil
	}
	var out []string
	for _, v := range roleVariants(in) {
		if v.At(0).Str() == "A" {
			out = append(out, v.String())
		}
	}
	return out
}
