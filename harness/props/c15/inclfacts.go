package c15

import (
	"bytes"
	"fmt"
	"go/ast"
	"go/parser"
	"go/printer"
	"go/token"
	"path/filepath"
	"strings"
)

// includeFacts reads, with go/ast, (*includeRole).ProcessTemplates in core/workflow/includerole.go:
//
//	loadIncludeSteps           the recognised TOP-LEVEL statements of the method, in source order:
//	                             sequence                  err = templSequence.Execute(…)
//	                             publish-locals            for k, v := range r.Locals { r.Vars.Set(k, v) }
//	                             trim-enabled              r.Enabled = strings.TrimSpace(r.Enabled)
//	                             return-if-disabled        if !r.IsEnabled() { … return nil }
//	                             load-under-self           …, err = loadSubworkflow(include, r)
//	                             swap                      r.aggregatorRole = *subWfRoot
//	                             restore:<field>           r.<field> = … after the swap
//	                             descend-into-loaded-root  return r.aggregatorRole.ProcessTemplates(…)
//	                           (a publishing loop / a TrimSpace / a load / a swap nested inside another
//	                           statement, or written differently, is not recognised: the list then lacks
//	                           the step and the theorem that pins it fails)
//	loadIncludeStage4          the fields of template.STAGE4 in its Sequence literal
//	loadIncludeSequenceLocals  the `Locals:` entry of the template.VarStack handed to Execute
//
// Props/C15.lean: C15_include_steps_is_code, and the order of publish-locals / swap is read as
// Cfg.inclPublishLate by cfgOfSource (C15_pruning_is_code).
func includeFacts(repo string) (string, error) {
	fset := token.NewFileSet()
	f, err := parser.ParseFile(fset, filepath.Join(repo, "core/workflow", "includerole.go"), nil, 0)
	if err != nil {
		return "", err
	}
	src := func(n ast.Node) string {
		var b bytes.Buffer
		printer.Fprint(&b, fset, n)
		return strings.Join(strings.Fields(b.String()), " ")
	}
	var fd *ast.FuncDecl
	recv := ""
	for _, d := range f.Decls {
		x, ok := d.(*ast.FuncDecl)
		if !ok || x.Name.Name != "ProcessTemplates" || x.Recv == nil || len(x.Recv.List) != 1 || x.Body == nil {
			continue
		}
		if strings.TrimPrefix(src(x.Recv.List[0].Type), "*") != "includeRole" || len(x.Recv.List[0].Names) != 1 {
			continue
		}
		fd, recv = x, x.Recv.List[0].Names[0].Name
	}
	if fd == nil {
		return "", fmt.Errorf("no method (*includeRole).ProcessTemplates in core/workflow/includerole.go")
	}
	sel := func(e ast.Expr, field string) bool { return src(e) == recv+"."+field }
	callOf := func(e ast.Expr) (string, []ast.Expr) {
		c, ok := e.(*ast.CallExpr)
		if !ok {
			return "", nil
		}
		return src(c.Fun), c.Args
	}
	var steps []string
	swapped := false
	for _, st := range fd.Body.List {
		switch s := st.(type) {
		case *ast.AssignStmt:
			if len(s.Rhs) == 1 {
				fn, args := callOf(s.Rhs[0])
				switch {
				case strings.HasSuffix(fn, ".Execute") && strings.HasPrefix(fn, "templSequence"):
					steps = append(steps, "sequence")
					continue
				case fn == "loadSubworkflow" && len(args) == 2 && src(args[1]) == recv:
					steps = append(steps, "load-under-self")
					continue
				case fn == "strings.TrimSpace" && len(s.Lhs) == 1 && sel(s.Lhs[0], "Enabled") && len(args) == 1 && sel(args[0], "Enabled"):
					steps = append(steps, "trim-enabled")
					continue
				}
			}
			if len(s.Lhs) == 1 && len(s.Rhs) == 1 {
				if sel(s.Lhs[0], "aggregatorRole") {
					steps = append(steps, "swap")
					swapped = true
					continue
				}
				if se, ok := s.Lhs[0].(*ast.SelectorExpr); ok && swapped && src(se.X) == recv {
					steps = append(steps, "restore:"+se.Sel.Name)
				}
			}
		case *ast.RangeStmt:
			if sel(s.X, "Locals") && s.Body != nil && len(s.Body.List) == 1 && s.Key != nil && s.Value != nil {
				if es, ok := s.Body.List[0].(*ast.ExprStmt); ok {
					fn, args := callOf(es.X)
					if fn == recv+".Vars.Set" && len(args) == 2 && src(args[0]) == src(s.Key) && src(args[1]) == src(s.Value) {
						steps = append(steps, "publish-locals")
					}
				}
			}
		case *ast.IfStmt:
			if src(s.Cond) == "!"+recv+".IsEnabled()" && s.Else == nil {
				returns := false
				for _, b := range s.Body.List {
					if r, ok := b.(*ast.ReturnStmt); ok && len(r.Results) == 1 && src(r.Results[0]) == "nil" {
						returns = true
					}
				}
				if returns {
					steps = append(steps, "return-if-disabled")
				}
			}
		case *ast.ReturnStmt:
			if len(s.Results) == 1 {
				if fn, _ := callOf(s.Results[0]); fn == recv+".aggregatorRole.ProcessTemplates" {
					steps = append(steps, "descend-into-loaded-root")
				}
			}
		}
	}
	var stage4 []string
	locals := ""
	ast.Inspect(fd.Body, func(n ast.Node) bool {
		kv, ok := n.(*ast.KeyValueExpr)
		if !ok {
			return true
		}
		switch src(kv.Key) {
		case "template.STAGE4":
			if cl, ok := kv.Value.(*ast.CompositeLit); ok {
				for _, e := range cl.Elts {
					if _, args := callOf(e); len(args) == 1 {
						stage4 = append(stage4, src(args[0]))
					} else {
						stage4 = append(stage4, src(e))
					}
				}
			}
		case "Locals":
			locals = src(kv.Value)
		}
		return true
	})
	q := func(ss []string) string {
		qs := make([]string, 0, len(ss))
		for _, s := range ss {
			qs = append(qs, fmt.Sprintf("%q", s))
		}
		return "[" + strings.Join(qs, ", ") + "]"
	}
	var b strings.Builder
	b.WriteString("/-- `includeRole.ProcessTemplates`: the recognised top-level steps in source order. -/\n")
	fmt.Fprintf(&b, "def loadIncludeSteps : List String := %s\n\n", q(steps))
	b.WriteString("/-- `includeRole.ProcessTemplates`: the fields of stage 4 of its template sequence. -/\n")
	fmt.Fprintf(&b, "def loadIncludeStage4 : List String := %s\n\n", q(stage4))
	b.WriteString("/-- `includeRole.ProcessTemplates`: the Locals entry of the VarStack its sequence runs with. -/\n")
	fmt.Fprintf(&b, "def loadIncludeSequenceLocals : String := %q\n\n", locals)
	return b.String(), nil
}
