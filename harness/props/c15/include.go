package c15

// Include roles.
//
//	(N hdr inc doc*)      an include role: `hdr` as written at the include SITE, `inc` the templated
//	                      `include:` expression, doc* the workflow documents this site can name
//	(D file hdr role*)    one document: file name, root role (header, children)
//
// What the code does with one (includerole.go, load.go; Model/Load.lean `inclHdr` / `docHdr`): the
// include role runs its own template sequence on the site's header (Locals of a generating
// iterator on top; `include:` is a stage-4 field), writes its Locals into its Vars, returns if
// disabled, else loads the named document UNDER ITSELF (`loadSubworkflow(include, r)`: fresh root,
// yaml.Unmarshal, `root.setParent(r)` — the loaded root's three maps wrap the site's), replaces its
// composed aggregatorRole by the loaded root (keeping only `parent` and `Name`) and runs the
// loaded root's own ProcessTemplates. So in the loaded tree an include role IS the root of the
// document, under the include role's name, one level below the site's variables.
//
// The repository: every include site gets a number k in document order; its documents are stored
// as "s<k>-<file>" and its expression is rendered as `include: "s<k>-<inc>"`, so a site can only
// ever name its own documents (what the model's node carries) whatever the expression evaluates
// to. File names and the values include expressions are built from contain no '/' and no '@'
// (Repo.ResolveSubworkflowTemplateIdentifier treats those as repository / revision parts).

import (
	"encoding/json"
	"fmt"
	"reflect"
	"strconv"
	"strings"

	"github.com/AliceO2Group/Control/core/repos"
	"github.com/AliceO2Group/Control/core/task/channel"
	"github.com/AliceO2Group/Control/core/task/constraint"
	"github.com/AliceO2Group/Control/core/workflow"
	"gopkg.in/yaml.v3"

	"verifharness/fw"
	"verifharness/rng"
	"verifharness/sx"
)

// ---- input shape ------------------------------------------------------------------------------

func kindOf(n *sx.Node) string {
	if n == nil || !n.IsList || n.Len() == 0 || n.At(0).IsList {
		return ""
	}
	return n.At(0).Str()
}

// docsOf: the documents of an include node (N hdr inc doc*).
func docsOf(n *sx.Node) []*sx.Node { return n.List[3:] }

// kidsOfDoc: the children of a document's root (D file hdr role*).
func kidsOfDoc(d *sx.Node) []*sx.Node { return d.List[3:] }

// validIncludes checks the include nodes of an input (the rest of the grammar is checked by use).
func validIncludes(root *sx.Node) error {
	var walk func(n *sx.Node, top bool) error
	walk = func(n *sx.Node, top bool) error {
		switch kindOf(n) {
		case "I":
			if n.Len() != 4 {
				return fmt.Errorf("malformed iterator")
			}
			return walk(n.At(3), false)
		case "A":
			for i := 2; i < n.Len(); i++ {
				if err := walk(n.At(i), false); err != nil {
					return err
				}
			}
		case "N":
			if top || n.Len() < 3 || !n.At(1).IsList || n.At(1).Len() != 8 || !n.At(2).IsList {
				return fmt.Errorf("malformed include role")
			}
			seen := map[string]bool{}
			for _, d := range docsOf(n) {
				if kindOf(d) != "D" || d.Len() < 3 || d.At(1).IsList || !d.At(2).IsList || d.At(2).Len() != 8 {
					return fmt.Errorf("malformed document in include role")
				}
				f := d.At(1).Str()
				if f == "" || strings.ContainsAny(f, "/@ \t\"\\") || seen[f] {
					return fmt.Errorf("document name %q: empty, duplicate, or with a character the repository resolver interprets", f)
				}
				seen[f] = true
				for _, k := range kidsOfDoc(d) {
					if err := walk(k, false); err != nil {
						return err
					}
				}
			}
		case "T", "C":
		default:
			return fmt.Errorf("unknown role kind %q", kindOf(n))
		}
		return nil
	}
	return walk(root, true)
}

// ---- YAML ---------------------------------------------------------------------------------------

// includeYAML writes the `include:` line of an include role and files its documents.
func (y *renderer) includeYAML(n *sx.Node, cont string, b *strings.Builder) {
	prefix := fmt.Sprintf("s%d-", y.sites)
	y.sites++
	fmt.Fprintf(b, "%sinclude: %s\n", cont, yq(prefix+fieldText(n.At(2))))
	for _, d := range docsOf(n) {
		name := prefix + d.At(1).Str()
		y.subs[name] = "" // reserve before descending (nested includes number their own sites)
		var sb strings.Builder
		// the root carries the file's name, as workflow.Load demands of a top-level template;
		// the include role keeps ITS name (`r.Name = name` after the swap)
		fmt.Fprintf(&sb, "name: %s\n", yq(name))
		hdrYAML(d.At(2), "", &sb)
		kids := kidsOfDoc(d)
		if len(kids) == 0 {
			sb.WriteString("roles: []\n")
		} else {
			sb.WriteString("roles:\n")
			for _, k := range kids {
				y.roleYAML(k, "  ", true, &sb)
			}
		}
		y.subs[name] = sb.String()
	}
}

// ---- the LoadSubworkflowFunc ----------------------------------------------------------------------

type noSuchDocument struct{ name, expr string }

func (e *noSuchDocument) Error() string {
	return fmt.Sprintf("no workflow document %q in the repository (expression %q)", e.name, e.expr)
}

// subworkflowLoader: a workflow.LoadSubworkflowFunc over the in-memory repository `subs`, doing what
// the closure in workflow.Load does with the repository manager's file: a fresh root,
// unmarshalled by the package's own unmarshaller, hung under `parent` with setParent. An unknown
// name is the load error the code would get from the repository manager; anything else that goes
// wrong here is the harness's own trouble and lands in *trouble (the case is then inconclusive).
// The function type mentions the unexported *aggregatorRole, hence reflect.MakeFunc.
func subworkflowLoader(subs map[string]string, repo repos.IRepo, trouble *error) workflow.LoadSubworkflowFunc {
	ft := reflect.TypeOf(workflow.LoadSubworkflowFunc(nil))
	fail := func(err error) []reflect.Value {
		return []reflect.Value{reflect.Zero(ft.Out(0)), reflect.Zero(ft.Out(1)), reflect.ValueOf(&err).Elem()}
	}
	bad := func(err error) []reflect.Value {
		*trouble = err
		return fail(err)
	}
	// what Repo.ResolveSubworkflowTemplateIdentifier makes of a plain name: h/p/r/workflows/<name>@x
	pre := strings.SplitN(repo.ResolveSubworkflowTemplateIdentifier(""), "@", 2)[0] + "/"
	fn := reflect.MakeFunc(ft, func(args []reflect.Value) []reflect.Value {
		expr := args[0].String() // <repo identifier>/workflows/<name>@<hash>
		name := expr
		if i := strings.LastIndex(name, "/"); i >= 0 {
			name = name[i+1:]
		}
		if i := strings.Index(name, "@"); i >= 0 {
			name = name[:i]
		}
		doc, ok := subs[name]
		if !ok || !strings.HasPrefix(expr, pre) {
			return fail(&noSuchDocument{name, expr})
		}
		root := workflow.NewAggregatorRole("", nil)
		if err := yaml.Unmarshal([]byte(doc), root); err != nil {
			return bad(fmt.Errorf("sub-workflow yaml: %v\n%s", err, doc))
		}
		if !args[1].IsNil() {
			workflow.SetParentForVerif(root, args[1].Interface().(workflow.Updatable))
		}
		rv := reflect.ValueOf(root)
		if rv.Type() != ft.Out(0) {
			return bad(fmt.Errorf("NewAggregatorRole yields %s, LoadSubworkflowFunc wants %s", rv.Type(), ft.Out(0)))
		}
		rr := reflect.New(ft.Out(1)).Elem()
		rr.Set(reflect.ValueOf(repo))
		return []reflect.Value{rv, rr, reflect.Zero(ft.Out(2))}
	})
	return fn.Interface().(workflow.LoadSubworkflowFunc)
}

// ---- dumping a loaded include role --------------------------------------------------------------

func isIncludeRole(r workflow.Role) bool { return fmt.Sprintf("%T", r) == "*workflow.includeRole" }

// includeRoleFields: what roleBase.MarshalYAML shows of a role (name, enabled, constraints, bind,
// connect), read by reflection — (*includeRole).MarshalYAML answers nil and hides the embedded
// aggregatorRole's. Reading unexported-embedded fields with reflect is allowed; nothing is set.
func includeRoleFields(r workflow.Role) (interface{}, error) {
	v := reflect.ValueOf(r)
	if v.Kind() != reflect.Ptr || v.IsNil() || v.Elem().Kind() != reflect.Struct {
		return nil, fmt.Errorf("include role is a %T", r)
	}
	e := v.Elem()
	for _, f := range []string{"Name", "Enabled", "Constraints", "Bind", "Connect"} {
		if !e.FieldByName(f).IsValid() {
			return nil, fmt.Errorf("include role has no field %s", f)
		}
	}
	m := map[string]interface{}{"name": e.FieldByName("Name").String()}
	if en := e.FieldByName("Enabled").String(); en != "" {
		m["enabled"] = en
	}
	if cs := e.FieldByName("Constraints"); !cs.IsNil() {
		out := make(constraint.Constraints, 0, cs.Len())
		for i := 0; i < cs.Len(); i++ {
			out = append(out, constraint.Constraint{Attribute: cs.Index(i).FieldByName("Attribute").String(), Value: cs.Index(i).FieldByName("Value").String()})
		}
		m["constraints"] = out
	}
	if bs := e.FieldByName("Bind"); !bs.IsNil() {
		out := make([]channel.Inbound, 0, bs.Len())
		for i := 0; i < bs.Len(); i++ {
			in := channel.Inbound{}
			in.Name = bs.Index(i).FieldByName("Name").String()
			in.Global = bs.Index(i).FieldByName("Global").String()
			out = append(out, in)
		}
		m["bind"] = out
	}
	if cs := e.FieldByName("Connect"); !cs.IsNil() {
		out := make([]channel.Outbound, 0, cs.Len())
		for i := 0; i < cs.Len(); i++ {
			o := channel.Outbound{}
			o.Name = cs.Index(i).FieldByName("Name").String()
			o.Target = cs.Index(i).FieldByName("Target").String()
			out = append(out, o)
		}
		m["connect"] = out
	}
	return m, nil
}

// ---- generator: include roles in the general stream ---------------------------------------------

func inScope(scope []string, k string) bool {
	for _, s := range scope {
		if s == k {
			return true
		}
	}
	return false
}

// includeExpr picks the `include:` expression of a site whose documents are called files[0..];
// returns the expression and a tag describing it. siteVars = header slot to put a helper var in.
func (g *gen) includeExpr(h *sx.Node, scope []string, files []string, itVar string) (*sx.Node, string) {
	k := g.r.N(20)
	switch {
	case g.bad > 0 && k < 2:
		g.bad--
		return lit("nowhere"), "incl-expr:unknown-document"
	case itVar != "" && k < 3:
		// names the document after the element: w<element>; elements without a document fail the load
		return fld(pT("w"), pV(itVar)), "incl-expr:iteration-var"
	case k < 10 && inScope(scope, "n"):
		return fld(pT("w"), pV("n")), "incl-expr:var"
	case k < 12:
		// through a variable the site itself sets (its own vars are in scope at stage 4)
		setKV(h, 3, "inc", lit(rng.Pick(g.r, files)))
		return fld(pV("inc")), "incl-expr:site-var"
	default:
		return lit(rng.Pick(g.r, files)), "incl-expr:literal"
	}
}

// literalElems: the elements of a range written with literals only (nil otherwise).
func literalElems(rn *sx.Node) []string {
	isLit := func(f *sx.Node) (string, bool) {
		if f.Len() == 1 && f.At(0).At(0).Str() == "t" {
			return f.At(0).At(1).Str(), true
		}
		return "", false
	}
	if rn.At(0).Str() == "R" {
		bs, ok1 := isLit(rn.At(1))
		es, ok2 := isLit(rn.At(2))
		b, err1 := strconv.Atoi(bs)
		e, err2 := strconv.Atoi(es)
		if !ok1 || !ok2 || err1 != nil || err2 != nil || e-b > 8 {
			return nil
		}
		var out []string
		for i := b; i <= e; i++ {
			out = append(out, strconv.Itoa(i))
		}
		return out
	}
	ls, ok := isLit(rn.At(1))
	var out []string
	if !ok || json.Unmarshal([]byte(ls), &out) != nil {
		return nil
	}
	return out
}

// include builds an include role: site header, expression, 1–3 documents whose trees see the
// site's scope (and so the iteration variable of a generating iterator). elems: the elements of
// the generating iterator's range when they are known — then the site may keep one document PER
// ELEMENT and name it through the iteration variable.
func (g *gen) include(depth int, scope []string, nameBase, itVar string, elems ...string) *sx.Node {
	h, _, cs := g.hdr(scope, nameBase, itVar, false)
	if itVar != "" {
		cs = append(cs, itVar)
		if g.r.P(1, 3) {
			cs = append(cs, g.deriveFromIter(h)...)
		}
	}
	var files []string
	var inc *sx.Node
	if len(elems) > 0 && len(elems) <= 3 && g.r.P(2, 5) {
		seen := map[string]bool{}
		for _, e := range elems {
			if !seen[e] && !(g.bad > 0 && g.r.P(1, 6)) { // now and then an element has no document
				files = append(files, "w"+e)
			}
			seen[e] = true
		}
		inc = fld(pT("w"), pV(itVar))
	} else {
		files = []string{"w1"}
		if g.r.P(1, 2) {
			files = append(files, "w2")
		}
		if g.r.P(1, 4) {
			files = append(files, "w0")
		}
		inc, _ = g.includeExpr(h, cs, files, itVar)
	}
	n := sx.L(sx.A("N"), h, inc)
	for di, f := range files {
		n.Add(g.document(depth, cs, f, fmt.Sprintf("%s%c", nameBase, 'p'+di), itVar))
	}
	return n
}

// document builds one workflow document; outerIt = iteration variable of an iterator that
// generates the include role (its use inside the document is the point of the class).
func (g *gen) document(depth int, scope []string, file, nameBase, outerIt string) *sx.Node {
	rh, _, rcs := g.hdr(scope, file, "", false)
	rh.List[4] = sx.L() // user variables only on the workflow's root
	if outerIt != "" && g.r.P(1, 2) {
		// the loaded root derives a variable of its own from the iteration variable
		setKV(rh, 2+g.r.N(2), "tag", fld(pT("cfg-"), pV(outerIt)))
		rcs = append(rcs, "tag")
	}
	if g.r.P(3, 4) {
		rh.List[1] = lit("true")
	}
	d := sx.L(sx.A("D"), sx.A(file), rh)
	cnt := g.r.Range(0, 2)
	if cnt == 0 && g.r.P(5, 6) {
		cnt = 1
	}
	for i := 0; i < cnt && g.budget > 0; i++ {
		it := ""
		if outerIt != "" && g.r.P(2, 3) {
			it = outerIt // named after the element of the enclosing iteration
		}
		d.Add(g.role(depth+1, rcs, fmt.Sprintf("%s%d", nameBase, i), it, true))
	}
	return d
}

// ---- the dedicated stream ---------------------------------------------------------------------------

func genInclCase(r *rng.R) fw.Case {
	g := &gen{r: r, budget: 9}
	tags := []string{"stream:include"}
	if r.P(1, 10) {
		g.bad = 1
		tags = append(tags, "error-injected")
	}
	h, _, cs := g.hdr(nil, "wf", "", true)
	h.List[1] = lit("true")
	root := sx.L(sx.A("A"), h)
	if r.P(1, 4) {
		root.Add(g.leaf("T", cs, "r0", ""))
	}
	iterated := r.P(3, 4)
	if iterated {
		v := g.freshIterVar()
		rn := g.outermostRange(cs)
		if r.P(1, 3) {
			// the same name defined further up: the default a user overrides per iteration
			setKV(h, 2+r.N(2), v, lit(rng.Pick(r, []string{"NONE", "9", "x"})))
			cs = append(cs, v)
		}
		sc := append(append([]string{}, cs...), v)
		g.outer = append(g.outer, outerVar{v, rangeInts(rn)})
		body := g.include(1, sc, "r1", v, literalElems(rn)...)
		g.plainEnabled(body, 2, 3)
		if r.P(1, 5) {
			// the include role's own `enabled` decides per element
			body.At(1).List[1] = fld(pB(sx.L(sx.A(rng.Pick(r, []string{"ne", "eq"})), seVar(v), seLit(rng.Pick(r, []string{"1", "p", "2", "x"})))))
		}
		g.outer = g.outer[:len(g.outer)-1]
		root.Add(sx.L(sx.A("I"), rn, sx.A(v), body))
	} else {
		root.Add(g.plainEnabled(g.include(1, cs, "r1", ""), 2, 3))
	}
	if r.P(1, 5) {
		root.Add(g.role(1, cs, "r2", "", true))
	}
	return fw.Case{Input: root.String(), Tags: append(tags, caseTags(root)...)}
}

// caseTags: the tags every generated case carries (read off the input itself).
func caseTags(root *sx.Node) []string {
	var tags []string
	st := stats(root)
	if st.iters > 0 {
		tags = append(tags, "iterator")
	}
	if st.iterExprEnabled > 0 {
		tags = append(tags, "iterator-template-enabled-expr")
	}
	if st.enabledTags > 0 {
		tags = append(tags, "enabled-expr")
	}
	tags = append(tags, shapeTags(root)...)
	tags = append(tags, includeTags(root)...)
	return append(tags, fmt.Sprintf("depth=%d", st.depth), fmt.Sprintf("roles~%d", (st.roles+2)/3*3))
}

// hdrVars: the variables a header's fields mention.
func hdrVars(h *sx.Node, out map[string]bool) {
	fieldVars(h.At(0), out)
	fieldVars(h.At(1), out)
	for _, slot := range []int{2, 3, 5, 6, 7} {
		for _, e := range h.At(slot).List {
			fieldVars(e.At(1), out)
		}
	}
}

// treeVars: every variable mentioned anywhere in a role (headers, traits, ranges, include expressions).
func treeVars(n *sx.Node, out map[string]bool) {
	switch kindOf(n) {
	case "I":
		for i := 1; i < n.At(1).Len(); i++ {
			fieldVars(n.At(1).At(i), out)
		}
		treeVars(n.At(3), out)
	case "A":
		hdrVars(n.At(1), out)
		for i := 2; i < n.Len(); i++ {
			treeVars(n.At(i), out)
		}
	case "T", "C":
		hdrVars(n.At(1), out)
		for _, f := range n.At(2).List {
			fieldVars(f, out)
		}
	case "N":
		hdrVars(n.At(1), out)
		fieldVars(n.At(2), out)
		for _, d := range docsOf(n) {
			docVars(d, out)
		}
	}
}

func docVars(d *sx.Node, out map[string]bool) {
	hdrVars(d.At(2), out)
	for _, k := range kidsOfDoc(d) {
		treeVars(k, out)
	}
}

// includeTags describes the include roles of a case: how many, under iterators, nested, what
// refers to the iteration variable.
func includeTags(root *sx.Node) []string {
	type st struct {
		n, iterated, nested, exprVar, treeVar, enabledVar, upstream, inTreeIter int
	}
	var s st
	var walk func(n *sx.Node, its []string, inDoc bool, defined map[string]bool)
	walk = func(n *sx.Node, its []string, inDoc bool, defined map[string]bool) {
		switch kindOf(n) {
		case "I":
			if inDoc {
				s.inTreeIter++
			}
			walk(n.At(3), append(append([]string{}, its...), n.At(2).Str()), inDoc, defined)
		case "A":
			d := map[string]bool{}
			for k := range defined {
				d[k] = true
			}
			for slot := 2; slot <= 4; slot++ {
				for _, e := range n.At(1).At(slot).List {
					d[e.At(0).Str()] = true
				}
			}
			for i := 2; i < n.Len(); i++ {
				walk(n.At(i), nil, inDoc, d) // an aggregator's children are not the iterator's template
			}
		case "N":
			s.n++
			if inDoc {
				s.nested++
			}
			if len(its) > 0 {
				s.iterated++
				ev, tv, en := map[string]bool{}, map[string]bool{}, map[string]bool{}
				fieldVars(n.At(2), ev)
				fieldVars(n.At(1).At(1), en)
				for _, d := range docsOf(n) {
					docVars(d, tv)
				}
				for _, v := range its {
					if ev[v] {
						s.exprVar++
					}
					if tv[v] {
						s.treeVar++
					}
					if en[v] {
						s.enabledVar++
					}
					if defined[v] {
						s.upstream++
					}
				}
			}
			for _, d := range docsOf(n) {
				for _, k := range kidsOfDoc(d) {
					walk(k, nil, true, defined)
				}
			}
		}
	}
	walk(root, nil, false, map[string]bool{})
	if s.n == 0 {
		return nil
	}
	tags := []string{"include"}
	add := func(c int, t string) {
		if c > 0 {
			tags = append(tags, t)
		}
	}
	add(s.iterated, "include:under-iterator")
	add(s.nested, "include:nested")
	add(s.exprVar, "include:expr-uses-iteration-var")
	add(s.treeVar, "include:tree-uses-iteration-var")
	add(s.enabledVar, "include:enabled-uses-iteration-var")
	add(s.upstream, "include:iteration-var-also-defined-upstream")
	add(s.inTreeIter, "include:iterator-inside-included-tree")
	return tags
}

// ---- fixed scenarios ----------------------------------------------------------------------------------

func hdrN(name *sx.Node, enabled *sx.Node, defaults, vars *sx.Node) *sx.Node {
	if defaults == nil {
		defaults = sx.L()
	}
	if vars == nil {
		vars = sx.L()
	}
	return sx.L(name, enabled, defaults, vars, sx.L(), sx.L(), sx.L(), sx.L())
}

func kv(pairs ...interface{}) *sx.Node {
	n := sx.L()
	for i := 0; i+1 < len(pairs); i += 2 {
		n.Add(sx.L(sx.A(pairs[i].(string)), pairs[i+1].(*sx.Node)))
	}
	return n
}

func taskN(name, enabled, class *sx.Node) *sx.Node {
	return sx.L(sx.A("T"), hdrN(name, enabled, nil, nil), sx.L(class, lit("10s"), sx.L(), sx.L()), sx.B(true))
}

func aggN(h *sx.Node, kids ...*sx.Node) *sx.Node {
	n := sx.L(sx.A("A"), h)
	n.Add(kids...)
	return n
}

func docN(file string, h *sx.Node, kids ...*sx.Node) *sx.Node {
	n := sx.L(sx.A("D"), sx.A(file), h)
	n.Add(kids...)
	return n
}

func inclN(h, inc *sx.Node, docs ...*sx.Node) *sx.Node {
	n := sx.L(sx.A("N"), h, inc)
	n.Add(docs...)
	return n
}

func iterL(list, v string, body *sx.Node) *sx.Node {
	return sx.L(sx.A("I"), sx.L(sx.A("L"), lit(list)), sx.A(v), body)
}

func iterR(b, e *sx.Node, v string, body *sx.Node) *sx.Node {
	return sx.L(sx.A("I"), sx.L(sx.A("R"), b, e), sx.A(v), body)
}

// readoutDoc: root `vars: {tag: cfg-{{ det }}}` -> task reader-{{ det }} (class reader-{{ det }}),
// aggregator proc -> for n in 1..2: task w{{ n }}-{{ det }}.
func readoutDoc(file string) *sx.Node {
	return docN(file, hdrN(lit(file), lit("true"), nil, kv("tag", fld(pT("cfg-"), pV("det")))),
		taskN(fld(pT("reader-"), pV("det")), lit("true"), fld(pT("reader-"), pV("det"))),
		aggN(hdrN(lit("proc"), lit("true"), nil, nil),
			iterR(lit("1"), lit("2"), "n", taskN(fld(pT("w"), pV("n"), pT("-"), pV("det")), lit("true"), lit("worker")))))
}

// fixedIncludeCases: scenarios that are always run (tags fixed:incl-…).
func fixedIncludeCases() []fw.Case {
	rootH := func(defaults *sx.Node) *sx.Node { return hdrN(lit("wf"), lit("true"), defaults, nil) }
	T := lit("true")
	subDet := fld(pT("sub-"), pV("det"))
	mk := func(tag string, root *sx.Node) fw.Case {
		return fw.Case{Input: root.String(), Tags: append([]string{"fixed:incl-" + tag}, caseTags(root)...)}
	}
	var cs []fw.Case
	// 1. for det in [TPC ITS MFT], the name also a default further up: every copy of the sub-workflow is built for ITS element
	cs = append(cs, mk("iterated-shadowed-default", aggN(rootH(kv("det", lit("NONE"))),
		iterL(`["TPC","ITS","MFT"]`, "det", inclN(hdrN(subDet, T, nil, nil), lit("readout"), readoutDoc("readout"))))))
	// 2. the name exists only as iteration variable: the workflow loads
	cs = append(cs, mk("iterated-plain", aggN(rootH(nil),
		iterR(lit("0"), lit("1"), "det", inclN(hdrN(subDet, T, nil, nil), lit("readout"), readoutDoc("readout"))))))
	// 3. control: not under an iterator
	cs = append(cs, mk("plain", aggN(rootH(kv("det", lit("TPC"))),
		inclN(hdrN(subDet, T, nil, nil), lit("readout"), readoutDoc("readout")))))
	// 4. the include expression names the document after the element; one document per element, different trees
	cs = append(cs, mk("expr-per-element", aggN(rootH(nil),
		iterL(`["a","b"]`, "det", inclN(hdrN(subDet, T, nil, nil), fld(pT("wf-"), pV("det")),
			readoutDoc("wf-a"),
			docN("wf-b", hdrN(lit("x"), T, kv("det2", fld(pV("det"), pT("!"))), nil), taskN(fld(pT("only-"), pV("det2")), T, lit("qc"))))))))
	// 5. …and an element without a document fails the load
	cs = append(cs, mk("expr-missing-document", aggN(rootH(nil),
		iterL(`["a","c"]`, "det", inclN(hdrN(subDet, T, nil, nil), fld(pT("wf-"), pV("det")), readoutDoc("wf-a"))))))
	// 6. a disabled include role is absent; its document is not even looked up
	cs = append(cs, mk("disabled-unknown-document", aggN(rootH(nil), taskN(lit("a"), T, lit("qc")),
		inclN(hdrN(lit("off"), lit("false"), nil, nil), lit("nowhere")))))
	// 7. the include role's enabled decides per element (over the iteration variable)
	cs = append(cs, mk("enabled-per-element", aggN(rootH(nil),
		iterL(`["TPC","ITS","MFT"]`, "det", inclN(hdrN(subDet, fld(pB(sx.L(sx.A("ne"), seVar("det"), seLit("ITS")))), nil, nil),
			lit("readout"), readoutDoc("readout"))))))
	// 8. enabled inside the included tree over the iteration variable; one root ends up empty and disappears
	cs = append(cs, mk("tree-enabled-per-element", aggN(rootH(nil), taskN(lit("a"), T, lit("qc")),
		iterL(`["p","q"]`, "det", inclN(hdrN(subDet, T, nil, nil), lit("d"),
			docN("d", hdrN(lit("d"), T, nil, nil),
				taskN(fld(pT("t-"), pV("det")), fld(pB(sx.L(sx.A("eq"), seVar("det"), seLit("q")))), lit("qc"))))))))
	// 9. the included root's own enabled is false for one element
	cs = append(cs, mk("root-disabled-per-element", aggN(rootH(nil),
		iterL(`["p","q"]`, "det", inclN(hdrN(subDet, T, nil, nil), lit("d"),
			docN("d", hdrN(lit("d"), fld(pB(sx.L(sx.A("ne"), seVar("det"), seLit("p")))), nil, nil),
				taskN(fld(pT("t-"), pV("det")), T, lit("qc"))))))))
	// 10. template error inside the included tree (unknown name), only reached for an enabled include
	cs = append(cs, mk("error-inside", aggN(rootH(nil),
		inclN(hdrN(lit("sub"), T, nil, nil), lit("d"),
			docN("d", hdrN(lit("d"), T, nil, nil), taskN(fld(pT("t-"), pV(undefinedVar)), T, lit("qc")))))))
	// 11. nested: an iterated include inside an included document, both iteration variables used at the bottom
	cs = append(cs, mk("nested", aggN(rootH(nil),
		iterR(lit("1"), lit("2"), "i", inclN(hdrN(fld(pT("o-"), pV("i")), T, nil, kv("m", fld(pV("i")))), lit("outer"),
			docN("outer", hdrN(lit("outer"), T, nil, nil),
				iterR(lit("1"), fld(pV("m")), "j", inclN(hdrN(fld(pT("q-"), pV("j")), T, nil, nil), lit("inner"),
					docN("inner", hdrN(lit("inner"), T, nil, kv("both", fld(pV("i"), pT("."), pV("j")))),
						taskN(fld(pT("t-"), pV("i"), pT("-"), pV("j")), T, fld(pT("c-"), pV("both"))))))))))))
	// 12. the included root sets the iteration variable's name itself (a nearer var wins below, not above)
	cs = append(cs, mk("root-redefines", aggN(rootH(nil),
		iterL(`["p","q"]`, "det", inclN(hdrN(subDet, T, nil, nil), lit("d"),
			docN("d", hdrN(lit("d"), T, nil, kv("det", fld(pT("my-"), pV("det")))),
				taskN(fld(pT("t-"), pV("det")), T, lit("qc"))))))))
	// 13. a range inside the included tree runs up to the iteration variable
	cs = append(cs, mk("inner-range-from-iteration-var", aggN(rootH(kv("i", lit("1"))),
		iterR(lit("1"), lit("3"), "i", inclN(hdrN(fld(pT("s-"), pV("i")), T, nil, nil), lit("d"),
			docN("d", hdrN(lit("d"), T, nil, nil),
				iterR(lit("1"), fld(pV("i")), "j", taskN(fld(pT("t-"), pV("i"), pT("-"), pV("j")), T, lit("qc")))))))))
	return cs
}
