// Package c16: the task state reported after a transition is the device's real state.
//
// Input (exhaustively enumerated, see generate):
//
//	(WIRING MODE FLAVOUR EVT SRC DST (outcome*))
//	  WIRING   fn   the scripted device is the DoTransitionFunc handed to transitioner.NewTransitioner
//	           rpc  the REAL executorcmd.NewClient (client.go doTransition) talks gRPC over loopback to a
//	                fake OCC server that holds the scripted device (PROTOBUF control transport)
//	           json the REAL executorcmd.NewClient(…, JsonTransport): client.go doTransition calls through the real
//	                nopb.OccClient; the device's reply is marshalled and unmarshalled by the real nopb.JsonCodec
//	                (encoding/json over pb.TransitionReply: zero-valued fields are NOT in the document) into the
//	                reply object the client handed down; the gRPC hop itself is short-circuited by a client
//	                interceptor (the JSON client's method names are not servable by grpc-go). The client has
//	                already carried one FULL reply (ok, EXECUTOR, event, the device's state) before the case
//	                starts, as a client that has done an earlier transition has.
//	  MODE     FAIRMQ | DIRECT                      (controlmode → which transitioner)
//	  FLAVOUR  lenient | strict   strict = the device answers a request whose SrcState is not its own state
//	                              with a gRPC error, as occ/plugin and occ/occlib do
//	  EVT SRC DST  the O² transition asked of Commit
//	  outcome  done | refused | errorState | reqLost | replyLost | errorNoState   one per request the transitioner issues
//	           errorNoState = the device falls into ERROR and answers, but the reply carries no state: ok=false,
//	           trigger zero (EXECUTOR), state "" — only the event echo is non-zero
//	(rule OK TRIG SAMEEVT STATEISDST)    one reply shape through the real client.doTransition (acceptance rule)
//
// Obs:   (REPORTED ERRKIND ((EVT SRC DST ARGS)*) FINAL)     ERRKIND = nil | rejected | transport | unimplemented
//
//	unimplemented = the error fairmq.go Commit itself returns for GO_ERROR / RECOVER ("transition not implemented: …")
//
//	REPORTED is the finalState string Commit returned, FINAL the device's real state afterwards,
//	the list is every EventInfo the device saw (DST is "-" with rpc wiring: it is not on the wire).
//	rule rows: (NEWSTATE ERRKIND)
//
// The device graphs below are the Go half of the trusted device description (the other half is
// lean/ControlModel/Model/FairMQ.lean fmqNext/directNext).
package c16

import (
	"context"
	"errors"
	"fmt"
	"io"
	"net"
	"os"
	"regexp"
	"strings"
	"sync"

	"github.com/AliceO2Group/Control/common/controlmode"
	"github.com/AliceO2Group/Control/core/controlcommands"
	"github.com/AliceO2Group/Control/executor/executorcmd"
	"github.com/AliceO2Group/Control/executor/executorcmd/nopb"
	"github.com/AliceO2Group/Control/executor/executorcmd/transitioner"
	"github.com/AliceO2Group/Control/executor/executorcmd/transitioner/fairmq"
	pb "github.com/AliceO2Group/Control/executor/protos"
	"github.com/sirupsen/logrus"
	"google.golang.org/grpc"
	"google.golang.org/grpc/codes"
	"google.golang.org/grpc/status"

	"verifharness/fw"
	"verifharness/rng"
	"verifharness/sx"
)

var (
	o2States  = []string{"STANDBY", "CONFIGURED", "RUNNING", "ERROR", "DONE"}
	o2Events  = []string{"START", "STOP", "CONFIGURE", "RESET", "EXIT", "GO_ERROR", "RECOVER"}
	dstOf     = map[string]string{"START": "RUNNING", "STOP": "CONFIGURED", "CONFIGURE": "CONFIGURED", "RESET": "STANDBY", "EXIT": "DONE", "GO_ERROR": "ERROR", "RECOVER": "STANDBY"}
	outcomes  = []string{"done", "refused", "errorState", "reqLost", "replyLost", "errorNoState"}
	fmqStates = []string{fairmq.IDLE, fairmq.INITIALIZING_DEVICE, fairmq.INITIALIZED, fairmq.BOUND, fairmq.DEVICE_READY,
		fairmq.READY, fairmq.RUNNING, fairmq.ERROR, fairmq.EXITING}
	fmqEvents = []string{fairmq.EvtINIT_DEVICE, fairmq.EvtCOMPLETE_INIT, fairmq.EvtBIND, fairmq.EvtCONNECT, fairmq.EvtINIT_TASK,
		fairmq.EvtRUN, fairmq.EvtSTOP, fairmq.EvtRESET_TASK, fairmq.EvtRESET_DEVICE, fairmq.EvtEND}
)

type edge struct{ state, evt string }

// The FairMQ device graph (not in the repository; mirrored in Model/FairMQ.lean fmqNext).
var fmqGraph = map[edge]string{
	{"IDLE", "INIT DEVICE"}:                  "INITIALIZING DEVICE",
	{"IDLE", "END"}:                          "EXITING",
	{"INITIALIZING DEVICE", "COMPLETE INIT"}: "INITIALIZED",
	{"INITIALIZED", "BIND"}:                  "BOUND",
	{"INITIALIZED", "RESET DEVICE"}:          "IDLE",
	{"BOUND", "CONNECT"}:                     "DEVICE READY",
	{"BOUND", "RESET DEVICE"}:                "IDLE",
	{"DEVICE READY", "INIT TASK"}:            "READY",
	{"DEVICE READY", "RESET DEVICE"}:         "IDLE",
	{"READY", "RUN"}:                         "RUNNING",
	{"READY", "RESET TASK"}:                  "DEVICE READY",
	{"RUNNING", "STOP"}:                      "READY",
	{"ERROR", "END"}:                         "EXITING",
}

// The OCC-library device graph (occ/occlib/OccServer.cxx processStateTransition; mirrored in directNext).
var directGraph = map[edge]string{
	{"STANDBY", "CONFIGURE"}: "CONFIGURED",
	{"STANDBY", "EXIT"}:      "DONE",
	{"CONFIGURED", "START"}:  "RUNNING",
	{"CONFIGURED", "RESET"}:  "STANDBY",
	{"CONFIGURED", "EXIT"}:   "DONE",
	{"RUNNING", "STOP"}:      "CONFIGURED",
	{"ERROR", "RECOVER"}:     "STANDBY",
	{"ERROR", "EXIT"}:        "DONE",
}

// What the FAIRMQ device is in when the executor believes the task is in an O² state.
var fmqOfO2 = map[string]string{"STANDBY": "IDLE", "CONFIGURED": "READY", "RUNNING": "RUNNING", "ERROR": "ERROR", "DONE": "EXITING"}

// ---- the scripted device ---------------------------------------------------------------------------

type device struct {
	graph     map[edge]string
	strict    bool
	state     string
	script    []string
	pos       int
	exhausted bool // a request arrived after the script ran out (it was refused)
	trace     *sx.Node
}

type answer struct {
	lost  bool // gRPC error: no reply
	state string
	ok    bool
	trig  pb.StateChangeTrigger
	evt   string
}

func (d *device) next() string {
	if d.pos < len(d.script) {
		o := d.script[d.pos]
		d.pos++
		return o
	}
	d.exhausted = true
	d.pos++
	return "refused"
}

func (d *device) step(evt, src, dst string, hasArgs bool) answer {
	d.trace.Add(sx.L(sx.A(evt), sx.A(src), sx.A(dst), sx.B(hasArgs)))
	o := d.next()
	if d.strict && src != d.state {
		return answer{lost: true}
	}
	to, valid := d.graph[edge{d.state, evt}]
	switch o {
	case "done":
		if valid {
			d.state = to
			return answer{state: to, ok: true, trig: pb.StateChangeTrigger_EXECUTOR, evt: evt}
		}
		return answer{state: d.state, ok: false, trig: pb.StateChangeTrigger_DEVICE_INTENTIONAL, evt: evt}
	case "refused":
		return answer{state: d.state, ok: false, trig: pb.StateChangeTrigger_DEVICE_INTENTIONAL, evt: evt}
	case "errorState":
		d.state = "ERROR"
		return answer{state: "ERROR", ok: false, trig: pb.StateChangeTrigger_DEVICE_ERROR, evt: evt}
	case "errorNoState":
		d.state = "ERROR"
		return answer{state: "", ok: false, trig: pb.StateChangeTrigger_EXECUTOR, evt: evt}
	case "reqLost":
		return answer{lost: true}
	case "replyLost":
		if valid {
			d.state = to
		}
		return answer{lost: true}
	}
	panic("unknown outcome " + o)
}

var (
	errTransport = errors.New("occplugin returned Unavailable: scripted")
	errRejected  = errors.New("transition unsuccessful: scripted")
)

// fn wiring: the device as a DoTransitionFunc, with client.go's acceptance rule re-stated (the rule itself
// is exercised for real by the rpc wiring and the rule rows).
func (d *device) doTransition(ei transitioner.EventInfo) (string, error) {
	a := d.step(ei.Evt, ei.Src, ei.Dst, len(ei.Args) > 0)
	if a.lost {
		return "", errTransport
	}
	if a.ok && a.trig == pb.StateChangeTrigger_EXECUTOR && a.evt == ei.Evt && a.state == ei.Dst {
		return a.state, nil
	}
	return a.state, errRejected
}

func errKind(err error) string {
	switch {
	case err == nil:
		return "nil"
	case strings.HasPrefix(err.Error(), "occplugin returned"), strings.HasPrefix(err.Error(), "invalid gRPC status"):
		return "transport"
	case strings.HasPrefix(err.Error(), "transition unsuccessful"):
		return "rejected"
	case strings.HasPrefix(err.Error(), "transition not implemented"):
		return "unimplemented"
	}
	return "other"
}

// ---- rpc wiring: fake OCC server + the real client ----------------------------------------------------

type rig struct {
	pb.UnimplementedOccServer
	mu     sync.Mutex
	dev    *device // scripted rows
	canned *answer // rule rows
	srv    *grpc.Server
	fmq    *executorcmd.RpcClient
	direct *executorcmd.RpcClient
	// JSON control transport: the real clients made by NewClient(…, JsonTransport) and the connection whose
	// unary interceptor applies the real JSON codec between the scripted device and nopb.occClient
	jfmq    *executorcmd.RpcClient
	jdirect *executorcmd.RpcClient
	jconn   *grpc.ClientConn
}

func (r *rig) Transition(_ context.Context, req *pb.TransitionRequest) (*pb.TransitionReply, error) {
	return r.handle(req)
}

// jsonHop is the JSON transport's hop: request and reply cross it as the documents nopb.JsonCodec makes of them,
// and the reply document is unmarshalled by that codec into the object the calling client passed down.
func (r *rig) jsonHop(_ context.Context, method string, req, reply interface{}, _ *grpc.ClientConn, _ grpc.UnaryInvoker, _ ...grpc.CallOption) error {
	if method != "Transition" {
		return status.Error(codes.Unimplemented, "json hop: unexpected method "+method)
	}
	codec := &nopb.JsonCodec{}
	doc, err := codec.Marshal(req)
	if err != nil {
		return status.Error(codes.Internal, "json hop: "+err.Error())
	}
	wireReq := new(pb.TransitionRequest)
	if err := codec.Unmarshal(doc, wireReq); err != nil {
		return status.Error(codes.Internal, "json hop: "+err.Error())
	}
	rep, err := r.handle(wireReq)
	if err != nil {
		return err
	}
	if doc, err = codec.Marshal(rep); err != nil {
		return status.Error(codes.Internal, "json hop: "+err.Error())
	}
	if err := codec.Unmarshal(doc, reply); err != nil {
		return status.Error(codes.Internal, "json hop: "+err.Error())
	}
	return nil
}

func (r *rig) handle(req *pb.TransitionRequest) (*pb.TransitionReply, error) {
	r.mu.Lock()
	defer r.mu.Unlock()
	var a answer
	if r.canned != nil {
		a = *r.canned
		if a.evt == "" {
			a.evt = req.GetTransitionEvent()
		}
	} else if r.dev != nil {
		a = r.dev.step(req.GetTransitionEvent(), req.GetSrcState(), "-", len(req.GetArguments()) > 0)
	} else {
		return nil, status.Error(codes.FailedPrecondition, "no device")
	}
	if a.lost {
		return nil, status.Error(codes.Unavailable, "scripted transport error")
	}
	return &pb.TransitionReply{State: a.state, Ok: a.ok, Trigger: a.trig, TransitionEvent: a.evt}, nil
}

var (
	rigOnce sync.Once
	rigs    chan *rig
	rigErr  error
	allRigs []*rig
)

const nRigs = 4

func newRig() (*rig, error) {
	lis, err := net.Listen("tcp", "127.0.0.1:0")
	if err != nil {
		return nil, err
	}
	r := &rig{srv: grpc.NewServer()}
	pb.RegisterOccServer(r.srv, r)
	go r.srv.Serve(lis)
	port := uint64(lis.Addr().(*net.TCPAddr).Port)
	lg := logrus.New()
	lg.SetOutput(io.Discard)
	r.fmq = executorcmd.NewClient(port, controlmode.FAIRMQ, executorcmd.ProtobufTransport, logrus.NewEntry(lg).WithField("id", "t"))
	r.direct = executorcmd.NewClient(port, controlmode.DIRECT, executorcmd.ProtobufTransport, logrus.NewEntry(lg).WithField("id", "t"))
	r.jfmq = executorcmd.NewClient(port, controlmode.FAIRMQ, executorcmd.JsonTransport, logrus.NewEntry(lg).WithField("id", "t"))
	r.jdirect = executorcmd.NewClient(port, controlmode.DIRECT, executorcmd.JsonTransport, logrus.NewEntry(lg).WithField("id", "t"))
	if r.fmq == nil || r.direct == nil || r.jfmq == nil || r.jdirect == nil {
		r.srv.Stop()
		return nil, fmt.Errorf("executorcmd.NewClient could not dial the fake OCC server on port %d", port)
	}
	r.jconn, err = grpc.Dial(fmt.Sprintf("127.0.0.1:%d", port), grpc.WithInsecure(), grpc.WithUnaryInterceptor(r.jsonHop))
	if err != nil {
		r.srv.Stop()
		return nil, err
	}
	return r, nil
}

func getRig() (*rig, error) {
	rigOnce.Do(func() {
		rigs = make(chan *rig, nRigs)
		for i := 0; i < nRigs; i++ {
			r, err := newRig()
			if err != nil {
				rigErr = err
				return
			}
			allRigs = append(allRigs, r)
			rigs <- r
		}
	})
	if rigErr != nil {
		return nil, rigErr
	}
	return <-rigs, nil
}

func teardown() {
	for _, r := range allRigs {
		r.fmq.Close()
		r.direct.Close()
		r.jfmq.Close()
		r.jdirect.Close()
		r.jconn.Close()
		r.srv.Stop()
	}
}

// ---- one case ---------------------------------------------------------------------------------------

type caseIn struct {
	wiring, mode, flavour, evt, src, dst string
	script                               []string
}

func parseCase(in *sx.Node) (c caseIn, err error) {
	if in.Len() != 7 {
		return c, fmt.Errorf("bad input arity")
	}
	c = caseIn{in.At(0).Str(), in.At(1).Str(), in.At(2).Str(), in.At(3).Str(), in.At(4).Str(), in.At(5).Str(), nil}
	for _, o := range in.At(6).List {
		c.script = append(c.script, o.Str())
	}
	return c, nil
}

func (c caseIn) String() string {
	return sx.L(sx.A(c.wiring), sx.A(c.mode), sx.A(c.flavour), sx.A(c.evt), sx.A(c.src), sx.A(c.dst), sx.Strs(c.script)).String()
}

func newDevice(c caseIn) (*device, controlmode.ControlMode, error) {
	d := &device{strict: c.flavour == "strict", script: c.script, trace: sx.L()}
	switch c.mode {
	case "FAIRMQ":
		d.graph, d.state = fmqGraph, fmqOfO2[c.src]
		return d, controlmode.FAIRMQ, nil
	case "DIRECT":
		d.graph, d.state = directGraph, c.src
		return d, controlmode.DIRECT, nil
	}
	return nil, 0, fmt.Errorf("bad mode %q", c.mode)
}

var commitArgs = map[string]string{"k": "v"}

// run executes one case on the real transitioner; also reports whether the script ran out.
func run(c caseIn) (obs string, exhausted bool, err error) {
	d, cm, err := newDevice(c)
	if err != nil {
		return "", false, err
	}
	if d.state == "" {
		return "", false, fmt.Errorf("bad source %q", c.src)
	}
	var final string
	var cerr error
	// "fnfixed"/"rpcfixed" (only generated when C16_EXPECT_FIXED is set): same run. The suffix dates from before
	// notes/C16.fix.patch was committed to /repo; the driver now always compares with the model of the code as it
	// is (FairMQ.codeCfg) and ignores it.
	switch strings.TrimSuffix(c.wiring, "fixed") {
	case "fn":
		tr := transitioner.NewTransitioner(cm, d.doTransition)
		final, cerr = tr.Commit(c.evt, c.src, c.dst, commitArgs)
	case "rpc", "json":
		r, err := getRig()
		if err != nil {
			return "", false, err
		}
		cl := r.direct
		if cm == controlmode.FAIRMQ {
			cl = r.fmq
		}
		if strings.HasPrefix(c.wiring, "json") {
			cl = r.jdirect
			if cm == controlmode.FAIRMQ {
				cl = r.jfmq
			}
			// a JSON client of its own for the case (what NewClient builds, over the connection with the JSON hop),
			// which has carried one full reply already: an earlier step that went through
			cl.OccClient = nopb.NewOccClient(r.jconn)
			r.mu.Lock()
			r.dev, r.canned = nil, &answer{state: d.state, ok: true, trig: pb.StateChangeTrigger_EXECUTOR, evt: "EARLIER"}
			r.mu.Unlock()
			rep, perr := cl.OccClient.Transition(context.Background(), &pb.TransitionRequest{TransitionEvent: "EARLIER", SrcState: d.state})
			if perr != nil || rep.GetState() != d.state || !rep.GetOk() {
				rigs <- r
				return "", false, fmt.Errorf("json wiring: the earlier full reply did not come through: %v %v", rep, perr)
			}
		}
		r.mu.Lock()
		r.dev, r.canned = d, nil
		r.mu.Unlock()
		// exactly what ControllableTask.Transition does: cmd.Commit() on the client's transitioner
		cmd := executorcmd.NewLocalExecutorCommand_Transition(cl.Transitioner, "", nil, c.src, c.evt, c.dst, nil)
		cmd.Arguments = controlcommands.PropertyMap(commitArgs)
		final, cerr = cmd.Commit()
		r.mu.Lock()
		r.dev = nil
		r.mu.Unlock()
		rigs <- r
	default:
		return "", false, fmt.Errorf("bad wiring %q", c.wiring)
	}
	return sx.L(sx.A(final), sx.A(errKind(cerr)), d.trace, sx.A(d.state)).String(), d.exhausted, nil
}

func runRule(in *sx.Node) (string, error) {
	if in.Len() != 5 {
		return "", fmt.Errorf("bad rule arity")
	}
	a := answer{ok: in.At(1).Bool(), state: "CONFIGURED"}
	switch in.At(2).Str() {
	case "EXECUTOR":
		a.trig = pb.StateChangeTrigger_EXECUTOR
	case "DEVICE_INTENTIONAL":
		a.trig = pb.StateChangeTrigger_DEVICE_INTENTIONAL
	case "DEVICE_ERROR":
		a.trig = pb.StateChangeTrigger_DEVICE_ERROR
	default:
		return "", fmt.Errorf("bad trigger")
	}
	if !in.At(3).Bool() {
		a.evt = "OTHER"
	}
	if in.At(4).Bool() {
		a.state = "RUNNING"
	}
	r, err := getRig()
	if err != nil {
		return "", err
	}
	r.mu.Lock()
	r.dev, r.canned = nil, &a
	r.mu.Unlock()
	st, cerr := r.direct.Transitioner.Commit("START", "CONFIGURED", "RUNNING", nil)
	r.mu.Lock()
	r.canned = nil
	r.mu.Unlock()
	rigs <- r
	return sx.L(sx.A(st), sx.A(errKind(cerr))).String(), nil
}

func runImpl(input string) (string, error) {
	in, err := sx.Parse(input)
	if err != nil {
		return "", err
	}
	if in.Len() > 0 && in.At(0).Str() == "rule" {
		return runRule(in)
	}
	c, err := parseCase(in)
	if err != nil {
		return "", err
	}
	obs, _, err := run(c)
	return obs, err
}

// ---- exhaustive enumeration ---------------------------------------------------------------------------

// scriptsFor enumerates every script the REAL code can consume for one cell: depth-first, a script is
// extended by each of the six outcomes exactly when the implementation asked the device for one more
// request than the script had. Every sequence over the outcome alphabet has exactly one enumerated prefix
// with the same behaviour, so the enumeration is complete for the cell.
func scriptsFor(c caseIn) ([][]string, error) {
	var out [][]string
	var rec func(s []string) error
	rec = func(s []string) error {
		c.script = s
		c.wiring = "fn"
		_, exhausted, err := run(c)
		if err != nil {
			return err
		}
		if !exhausted {
			out = append(out, append([]string{}, s...))
			return nil
		}
		if len(s) > 12 {
			return fmt.Errorf("script keeps growing for %v", c)
		}
		for _, o := range outcomes {
			if err := rec(append(append([]string{}, s...), o)); err != nil {
				return err
			}
		}
		return nil
	}
	err := rec(nil)
	return out, err
}

func tagsOf(c caseIn) []string {
	t := []string{"wiring=" + c.wiring, "mode=" + c.mode, "flavour=" + c.flavour, "evt=" + c.evt, fmt.Sprintf("requests=%d", len(c.script))}
	has := map[string]bool{}
	for _, o := range c.script {
		has[o] = true
	}
	if has["reqLost"] || has["replyLost"] {
		t = append(t, "has-transport-error")
	}
	if has["refused"] {
		t = append(t, "has-refusal")
	}
	if has["errorState"] {
		t = append(t, "has-error-state")
	}
	if has["errorNoState"] {
		t = append(t, "has-stateless-reply")
		for i, o := range c.script {
			if o == "errorNoState" && i > 0 && c.script[i-1] == "done" {
				t = append(t, "stateless-reply-after-full-reply")
				break
			}
		}
	}
	if len(c.script) > 0 && !has["reqLost"] && !has["replyLost"] && !has["refused"] && !has["errorState"] && !has["errorNoState"] {
		t = append(t, "all-done")
	}
	return t
}

func generate(tier string, _ *rng.R) []fw.Case {
	var cs []fw.Case
	fixedSuffix := ""
	if os.Getenv("C16_EXPECT_FIXED") != "" {
		fixedSuffix = "fixed"
	}
	for _, mode := range []string{"FAIRMQ", "DIRECT"} {
		for _, flavour := range []string{"lenient", "strict"} {
			for _, evt := range o2Events {
				for _, src := range o2States {
					c := caseIn{mode: mode, flavour: flavour, evt: evt, src: src, dst: dstOf[evt]}
					scripts, err := scriptsFor(c)
					if err != nil {
						// an input that cannot be enumerated still shows up (and fails) as a case
						cs = append(cs, fw.Case{Input: "(enumeration-failed " + sx.A(err.Error()).String() + ")", Tags: []string{"enumeration-failed"}})
						continue
					}
					for _, wiring := range []string{"fn", "rpc", "json"} {
						for _, s := range scripts {
							c.wiring, c.script = wiring+fixedSuffix, s
							cs = append(cs, fw.Case{Input: c.String(), Tags: tagsOf(c)})
						}
					}
				}
			}
		}
	}
	for _, ok := range []bool{true, false} {
		for _, trig := range []string{"EXECUTOR", "DEVICE_INTENTIONAL", "DEVICE_ERROR"} {
			for _, same := range []bool{true, false} {
				for _, isDst := range []bool{true, false} {
					cs = append(cs, fw.Case{Input: sx.L(sx.A("rule"), sx.B(ok), sx.A(trig), sx.B(same), sx.B(isDst)).String(), Tags: []string{"rule"}})
				}
			}
		}
	}
	return cs
}

func nontrivial(input, obs string) bool {
	o, err := sx.Parse(obs)
	if err != nil {
		return false
	}
	if strings.HasPrefix(input, "(rule ") {
		return true
	}
	return o.Len() == 4 && o.At(2).Len() >= 1
}

func shrinkCands(input string) []string {
	in, err := sx.Parse(input)
	if err != nil || in.Len() != 7 {
		return nil
	}
	c, _ := parseCase(in)
	var out []string
	if n := len(c.script); n > 0 {
		c2 := c
		c2.script = c.script[:n-1]
		out = append(out, c2.String())
	}
	if strings.HasPrefix(c.wiring, "json") {
		c2 := c
		c2.wiring = "rpc" + strings.TrimPrefix(c.wiring, "json")
		out = append(out, c2.String())
	}
	if strings.HasPrefix(c.wiring, "rpc") {
		c2 := c
		c2.wiring = "fn" + strings.TrimPrefix(c.wiring, "rpc")
		out = append(out, c2.String())
	}
	return out
}

func init() {
	fw.Register(&fw.Property{
		ID:         "C16",
		Generate:   generate,
		RunImpl:    runImpl,
		Nontrivial: nontrivial,
		Rule: "EXHAUSTIVE: every (wiring fn|rpc|json = scripted DoTransitionFunc | real client over the protobuf transport | real client over the JSON transport (real nopb client and codec, after one earlier full reply), control mode FAIRMQ|DIRECT, device flavour lenient|strict, O² event (7), source state (5), " +
			"outcome script) where the scripts of a cell are enumerated depth-first over {done, refused, errorState, reqLost, replyLost, errorNoState (= reply without a state)} for exactly " +
			"the requests the real Commit issues; plus all 24 reply shapes (ok × trigger × event echo × state=dst) through the real client.doTransition; " +
			"non-trivial = at least one request reached the device (the FAIRMQ GO_ERROR/RECOVER rows issue none); distinct by input text",
		Shrink:     shrinkCands,
		Exhaustive: func(string) bool { return true },
		Workers:    4,
		Teardown:   teardown,
		TrustedBase: []string{
			"harness/props/c16: scripted device (FairMQ device graph written in Go and in Model/FairMQ.lean fmqNext — not in the repository; " +
				"OCC-library graph transcribed from occ/occlib/OccServer.cxx), fake OCC gRPC server, depth-first script enumeration",
			"grpc-go loopback transport between the real executorcmd.NewClient and the fake OCC server (rpc wiring)",
			"json wiring: the gRPC hop of the JSON client is replaced by a client interceptor that applies the real nopb.JsonCodec to request and reply (the client object is the real nopb.NewOccClient, placed in the RpcClient that NewClient(…, JsonTransport) returned)",
		},
		Assumptions: []string{
			"the device is in the image of the source state the transition request names when Commit starts",
			"a device reply carries the device's real state (the adversary refuses, errors or loses messages but does not lie about its state)",
			"strict flavour = SrcState mismatch answered with a gRPC error and no state change, as occ/plugin/OccFMQCommon.cxx and occ/occlib/OccServer.cxx do",
		},
	})
	fw.RegisterGen(fw.GenFile{Name: "FairMQMaps.lean", Make: genMaps})
}

// ---- vh gen: tabulate the state maps by evaluating the linked transitioner ------------------------------

func leanPairs(name, doc string, ps [][2]string) string {
	var b strings.Builder
	fmt.Fprintf(&b, "/-- %s -/\ndef %s : List (String × String) := [", doc, name)
	for i, p := range ps {
		if i > 0 {
			b.WriteString(", ")
		}
		fmt.Fprintf(&b, "(%q, %q)", p[0], p[1])
	}
	b.WriteString("]\n\n")
	return b.String()
}

func leanStrs(name, doc string, ss []string) string {
	var b strings.Builder
	fmt.Fprintf(&b, "/-- %s -/\ndef %s : List String := [", doc, name)
	for i, s := range ss {
		if i > 0 {
			b.WriteString(", ")
		}
		fmt.Fprintf(&b, "%q", s)
	}
	b.WriteString("]\n\n")
	return b.String()
}

var cppPair = regexp.MustCompile(`\{\s*"([^"]*)"\s*,\s*"([^"]*)"\s*\}`)

// expectedFinal parses the EXPECTED_FINAL_STATE initialiser of an OCC header.
func expectedFinal(path string) ([][2]string, error) {
	data, err := os.ReadFile(path)
	if err != nil {
		return nil, err
	}
	src := string(data)
	i := strings.Index(src, "EXPECTED_FINAL_STATE")
	if i < 0 {
		return nil, fmt.Errorf("%s: no EXPECTED_FINAL_STATE", path)
	}
	src = src[i:]
	j := strings.Index(src, "};")
	if j < 0 {
		return nil, fmt.Errorf("%s: unterminated table", path)
	}
	var ps [][2]string
	for _, m := range cppPair.FindAllStringSubmatch(src[:j], -1) {
		ps = append(ps, [2]string{m[1], m[2]})
	}
	return ps, nil
}

func genMaps(repo string) (string, error) {
	var b strings.Builder
	b.WriteString("namespace Gen\n\n")
	b.WriteString(leanStrs("fmqStateNames", "fairmq/states.go constants IDLE … EXITING, in the order of FairMQ.FState.", fmqStates))
	b.WriteString(leanStrs("fmqEventNames", "fairmq/transitions.go constants EvtINIT_DEVICE … EvtEND, in the order of FairMQ.FEvent.", fmqEvents))

	var seen transitioner.EventInfo
	probe := func(ei transitioner.EventInfo) (string, error) { seen = ei; return "", errors.New("probe") }
	fm := transitioner.NewTransitioner(controlmode.FAIRMQ, probe)
	di := transitioner.NewTransitioner(controlmode.DIRECT, probe)

	var from, fromD, to, toD [][2]string
	for _, s := range append(append([]string{}, fmqStates...), fairmq.OK, "") {
		from = append(from, [2]string{s, fm.FromDeviceState(s)})
	}
	for _, s := range append(append([]string{}, o2States...), "") {
		fromD = append(fromD, [2]string{s, di.FromDeviceState(s)})
	}
	// the forward map is unexported: read it off the request the device receives for START src → dst
	for _, s := range o2States {
		fm.Commit("START", s, s, nil)
		if seen.Src != seen.Dst {
			return "", fmt.Errorf("START %s→%s reached the device as %q→%q", s, s, seen.Src, seen.Dst)
		}
		to = append(to, [2]string{s, seen.Src})
		di.Commit("START", s, s, nil)
		toD = append(toD, [2]string{s, seen.Src})
	}
	b.WriteString(leanPairs("fromDeviceStateFMQ", "(*FairMQ).FromDeviceState evaluated on every FairMQ state name, on \"OK\" and on \"\".", from))
	b.WriteString(leanPairs("toDeviceStateFMQ", "The Src the device receives when (*FairMQ).Commit(\"START\", s, …) is called: fmqStateForState(s).", to))
	b.WriteString(leanPairs("fromDeviceStateDirect", "(*Direct).FromDeviceState.", fromD))
	b.WriteString(leanPairs("toDeviceStateDirect", "The Src the device receives from (*Direct).Commit.", toD))

	// the branch of (*FairMQ).Commit for the two events fairmq.go does not implement, on its whole domain:
	// what is reported, which kind of error, how many requests reached the device
	asked := 0
	counting := transitioner.NewTransitioner(controlmode.FAIRMQ, func(transitioner.EventInfo) (string, error) {
		asked++
		return "", errors.New("probe")
	})
	b.WriteString("/-- (*FairMQ).Commit evaluated for GO_ERROR and RECOVER from every O² source state: (event, source, finalState, kind of err, requests that reached the device). -/\n")
	b.WriteString("def unimplementedFMQ : List (String × String × String × String × Nat) := [")
	first := true
	for _, evt := range []string{"GO_ERROR", "RECOVER"} {
		for _, s := range o2States {
			asked = 0
			st, cerr := counting.Commit(evt, s, dstOf[evt], commitArgs)
			if !first {
				b.WriteString(", ")
			}
			first = false
			fmt.Fprintf(&b, "(%q, %q, %q, %q, %d)", evt, s, st, errKind(cerr), asked)
		}
	}
	b.WriteString("]\n\n")

	pf, err := expectedFinal(repo + "/occ/plugin/OccFMQCommon.h")
	if err != nil {
		return "", err
	}
	pd, err := expectedFinal(repo + "/occ/occlib/OccServer.h")
	if err != nil {
		return "", err
	}
	b.WriteString(leanPairs("occFmqExpectedFinal", "EXPECTED_FINAL_STATE of occ/plugin/OccFMQCommon.h (event → state the OCC plugin expects).", pf))
	b.WriteString(leanPairs("occDirectExpectedFinal", "EXPECTED_FINAL_STATE of occ/occlib/OccServer.h.", pd))
	b.WriteString("end Gen\n")
	return b.String(), nil
}
