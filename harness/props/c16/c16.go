// Package c16: correspondence harness for property C16 (stub — registers nothing yet).
package c16
