// Package c17: correspondence harness for property C17 (stub — registers nothing yet).
package c17
