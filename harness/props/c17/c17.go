// Package c17: "every launched task ends with exactly one terminal status and no survivors".
//
// Input  : (kind behaviour (op …))  or  (kind behaviour (op …) shape)
//
//	kind      := basic | hook | ctl | nodata
//	behaviour := ok | fail | sig | fork | nobin | ign      (basic, hook: child scripts / the vh binary in child mode)
//	           | noport | nobin | occ | occstay | occign | occfork | occfail   (ctl; occ* = fake OCC device)
//	           | noportfork | noportkid | noportkidt | noportign | noportmix   (ctl: never opens its port, and its
//	             process GROUP has members with signal dispositions of their own — runner.go groupOf)
//	op        := launch | tick | start | stop | conf | trigger | kill | await
//	           | giveup      the gRPC dial of a controllable task's Launch gives up (30 s): launch failure
//	           | (par A B)   A, B requests (start stop conf trigger kill): B is delivered while A is being served
//	shape     := sh | sha | ex | exa      how the command reaches prepareTaskCmd (TaskCommandInfo.Shell / .Arguments):
//	             sh  = through /bin/sh -c, no arguments      sha = through /bin/sh -c, value + arguments
//	             ex  = exec'd directly, no arguments         exa = exec'd directly with arguments
//	             omitted = sh (nobin: ex — a command that cannot be started has no shell form)
//
// The MODEL does not see the shape: the same (kind behaviour ops) must give the same observation for every shape.
//
// Every op is one event delivered to the REAL executor event loop (LAUNCH, MESSAGE
// transition/trigger, KILL) or one asynchronous happening made deterministic:
// `tick` = the 200 ms TASK_RUNNING timer of a basic/hook task fires (ctl: the device
// became ready), `await` = the latest child ends on its own and is reaped (a controllable task that is still
// dialling: nobody reaps it), `giveup` = the dial of a controllable task that never opened its control port gives
// up, the launch failure is reported and the Launch goroutine terminates the task's process group.
//
// Obs    : ((res r…) (emits e…) (alive 0|1|-))
//
//	r := ok | none | dead | ignored | loopexit | notask | norpc | nonhook | (r STATE err) | (h err) | (crash where) | hang
//	   | (par rA rB)
//	e := (S RUNNING|FINISHED|FAILED|KILLED) | (E final voluntary exitcode)
//
// Each case runs in its own re-executed vh process (runner.go), so a panic or a
// hang of the code under test ends only that case.
package c17

import (
	"bufio"
	"bytes"
	"fmt"
	"os"
	"os/exec"
	"path/filepath"
	"regexp"
	"strconv"
	"strings"
	"sync"
	"syscall"
	"time"

	"verifharness/fw"
	"verifharness/rng"
	"verifharness/sx"
)

var workDir = "/verif/.work/C17"

const caseCeiling = 150 * time.Second

var frameRe = regexp.MustCompile(`github\.com/AliceO2Group/Control/executor(?:/executable)?\.((?:\(\*?[A-Za-z0-9_]+\)\.)?[A-Za-z0-9_]+)`)

// crashSite names the first frame of the code under test in a Go panic trace.
func crashSite(stderr string) string {
	i := strings.Index(stderr, "panic:")
	if j := strings.Index(stderr, "fatal error:"); i < 0 || (j >= 0 && j < i) {
		i = j
	}
	if i < 0 {
		return ""
	}
	for _, l := range strings.Split(stderr[i:], "\n") {
		if m := frameRe.FindStringSubmatch(l); m != nil {
			name := m[1]
			name = strings.NewReplacer("(*", "", ")", "", "(", "", "*", "").Replace(name)
			if k := strings.Index(name, ".func"); k >= 0 {
				name = name[:k]
			}
			return name
		}
	}
	return "unknown"
}

type caseOut struct {
	obs          string
	hang         bool
	inconclusive string
	// processes of the task were alive at the end of a schedule in which the executor gave the task up (`giveup`):
	// like a hang, an observation only when it reproduces
	leftAlive bool
}

func runOnce(input string) (caseOut, error) {
	self, err := os.Executable()
	if err != nil {
		return caseOut{}, err
	}
	os.MkdirAll(workDir, 0o755)
	dir, err := os.MkdirTemp(workDir, "case-")
	if err != nil {
		return caseOut{}, err
	}
	defer os.RemoveAll(dir)
	cmd := exec.Command(self)
	cmd.Env = append(os.Environ(), envCase+"="+input, envDir+"="+dir)
	cmd.SysProcAttr = &syscall.SysProcAttr{Setpgid: true}
	var stderr bytes.Buffer
	cmd.Stderr = &stderr
	stdout, err := cmd.StdoutPipe()
	if err != nil {
		return caseOut{}, err
	}
	if err := cmd.Start(); err != nil {
		return caseOut{}, err
	}
	cleanup := func() {
		_ = syscall.Kill(-cmd.Process.Pid, syscall.SIGKILL)
		b, _ := os.ReadFile(filepath.Join(dir, "pids"))
		for _, l := range strings.Fields(string(b)) {
			if p, err := strconv.Atoi(l); err == nil && p > 1 {
				_ = syscall.Kill(-p, syscall.SIGKILL)
				_ = syscall.Kill(p, syscall.SIGKILL)
			}
		}
	}
	defer cleanup()
	lines := make(chan string, 256)
	go func() {
		sc := bufio.NewScanner(stdout)
		sc.Buffer(make([]byte, 1<<16), 1<<20)
		for sc.Scan() {
			lines <- sc.Text()
		}
		close(lines)
	}()
	var all []string
	timeout := time.After(caseCeiling)
loop:
	for {
		select {
		case l, ok := <-lines:
			if !ok {
				break loop
			}
			all = append(all, l)
		case <-timeout:
			cleanup()
			cmd.Wait()
			return caseOut{}, fmt.Errorf("case exceeded the harness ceiling (%s): %s", caseCeiling, input)
		}
	}
	werr := cmd.Wait()

	// assemble
	res := sx.L(sx.A("res"))
	emits := sx.L(sx.A("emits"))
	alive := "-"
	sigs := sx.L(sx.A("sigs"))
	done, hang, notimer, gaveUp := false, -1, false, false
	var emitAt []int // number of emits when op i began
	var opName []string
	for _, l := range all {
		f := strings.SplitN(l, " ", 3)
		switch f[0] {
		case "OP":
			emitAt = append(emitAt, emits.Len()-1)
			if len(f) > 2 {
				opName = append(opName, f[2])
			} else {
				opName = append(opName, "")
			}
		case "EMIT":
			n, err := sx.Parse(strings.TrimPrefix(l, "EMIT "))
			if err != nil {
				return caseOut{}, fmt.Errorf("bad EMIT line %q", l)
			}
			emits.Add(n)
		case "RES":
			n, err := sx.Parse(f[2])
			if err != nil {
				return caseOut{}, fmt.Errorf("bad RES line %q", l)
			}
			res.Add(n)
			if k, err := strconv.Atoi(f[1]); err == nil && k < len(opName) && opName[k] == "giveup" && f[2] == "ok" {
				gaveUp = true
			}
		case "HANG":
			hang, _ = strconv.Atoi(f[1])
			res.Add(sx.A("hang"))
		case "NOTIMER":
			notimer = true
		case "INCONCLUSIVE":
			return caseOut{inconclusive: l}, nil
		case "ALIVE":
			alive = f[1]
		case "SIGS":
			for _, x := range strings.Fields(strings.TrimPrefix(l, "SIGS")) {
				sigs.Add(sx.A(x))
			}
		case "DONE":
			done = true
		}
	}
	if !done && hang < 0 {
		site := crashSite(stderr.String())
		if site == "" {
			return caseOut{}, fmt.Errorf("runner died without a Go panic (%v): %s | %s", werr, input, lastLines(stderr.String(), 3))
		}
		// the op in progress crashed; its own emissions are not compared (they race with the crash)
		nres := res.Len() - 1
		if site == "basicTaskBase.startBasicTask" && (nres >= len(opName) || opName[nres] != "par") {
			// startBasicTask panics only in what it does with t.taskCmd after a concurrent Kill cleared it — in an
			// overlap of the two. Its reaper goroutine is asynchronous to the answer of the START: when the panic
			// lands after the overlap's results were reported it still belongs to that overlap (the latest one).
			for p := min(nres, len(opName)) - 1; p > 0; p-- {
				if opName[p] == "par" {
					nres = p
					res.List = res.List[:p+1]
					break
				}
			}
		}
		if nres < len(emitAt) {
			emits.List = emits.List[:emitAt[nres]+1]
		}
		if site == "ControllableTask.Launch" {
			// a panic inside the goroutine that LAUNCH started is asynchronous to every later step: it belongs to step 0
			res = sx.L(sx.A("res"))
			emits = sx.L(sx.A("emits"))
		}
		res.Add(sx.L(sx.A("crash"), sx.A(site)))
		alive = "-"
	}
	if alive == "-" {
		sigs = sx.L(sx.A("sigs"))
	}
	obs := sx.L(res, emits, sx.L(sx.A("alive"), sx.A(alive)), sigs).String()
	return caseOut{obs: obs, hang: hang >= 0 || notimer, leftAlive: alive == "1" && gaveUp}, nil
}

func lastLines(s string, n int) string {
	ls := strings.Split(strings.TrimSpace(s), "\n")
	if len(ls) > n {
		ls = ls[len(ls)-n:]
	}
	return strings.Join(ls, " / ")
}

func runNow(input string) (string, error) {
	o, err := runOnce(input)
	if err != nil {
		return "", err
	}
	if o.inconclusive != "" {
		// one retry: timing inversions under load are transient
		o, err = runOnce(input)
		if err != nil {
			return "", err
		}
		if o.inconclusive != "" {
			return "", fmt.Errorf("%s: %s", o.inconclusive, input)
		}
	}
	if o.hang || o.leftAlive {
		// a hang — and what is still alive after the window given to the executor's own escalation — is an
		// observation only when it reproduces
		o2, err := runOnce(input)
		if err != nil {
			return "", err
		}
		if o2.obs != o.obs {
			return "", fmt.Errorf("hang / survivors of a given-up launch did not reproduce: %s", input)
		}
	}
	return o.obs, nil
}

// ---- cases that wait for the dial timeout ---------------------------------------------------------------------
//
// A schedule with `giveup` on a task that never opens its port lasts GRPC_DIAL_TIMEOUT (30 s, a constant of the
// code under test) plus the escalation. Such a case does nothing but sleep: the ones the generator produced are
// started in the background as soon as the first case of the run is asked for (each in its own process, like every
// case), at most `preWidth` at a time, and sit at the END of the case list — when a worker gets there the
// observation is usually waiting. Any other input (corpus, shrinking, a second seed) is run on the spot.

type future struct {
	done chan struct{}
	obs  string
	err  error
}

var (
	preMu    sync.Mutex
	preWant  []string
	preFut   = map[string]*future{}
	preWidth = 16
	preSem   chan struct{}
)

func registerSlow(inputs []string) {
	preMu.Lock()
	preWant = append(preWant, inputs...)
	preMu.Unlock()
}

func startPrefetch() {
	preMu.Lock()
	defer preMu.Unlock()
	if preSem == nil {
		preSem = make(chan struct{}, preWidth)
	}
	for _, in := range preWant {
		if preFut[in] != nil {
			continue
		}
		f := &future{done: make(chan struct{})}
		preFut[in] = f
		go func(in string, f *future) {
			preSem <- struct{}{}
			f.obs, f.err = runNow(in)
			<-preSem
			close(f.done)
		}(in, f)
	}
	preWant = nil
}

func runImpl(input string) (string, error) {
	startPrefetch()
	preMu.Lock()
	f := preFut[input]
	preMu.Unlock()
	if f != nil {
		<-f.done
		return f.obs, f.err
	}
	return runNow(input)
}

var basicBehs = []string{"ok", "fail", "sig", "fork", "nobin"}

// behaviours of basic/hook children that only the overlap family and the corpus use (the exhaustive families
// stay as they were): `ign` ignores SIGTERM and SIGINT — a child that makes a request that waits for it last
var overlapBehs = []string{"ok", "ign", "fork", "sig", "fail", "nobin"}
var ctlBehs = []string{"noport", "nobin", "occ", "occstay", "occign", "occfork", "occfail"}
var allOps = []string{"tick", "start", "stop", "conf", "trigger", "kill", "await"}

// command shapes; the first is the one an input without a fourth element has (nobin: ex)
var shapes = []string{"sh", "sha", "ex", "exa"}

func defaultShape(beh string) string {
	if beh == "nobin" {
		return "ex"
	}
	return "sh"
}

// shapeOf: the command shape of a parsed input.
func shapeOf(in *sx.Node) string {
	if in.Len() < 4 {
		return defaultShape(in.At(1).Str())
	}
	return in.At(3).Str()
}

// validShape: every behaviour in every shape, except that a command that cannot be started is never a shell
// command and that a task without data has no command at all.
func validShape(kind, beh, shape string) bool {
	if kind == "nodata" {
		return shape == "sh"
	}
	switch shape {
	case "sh", "sha":
		return beh != "nobin"
	case "ex", "exa":
		return true
	}
	return false
}

func shapesFor(kind, beh string) []string {
	var out []string
	for _, s := range shapes {
		if validShape(kind, beh, s) {
			out = append(out, s)
		}
	}
	return out
}

func mkCase(kind, beh string, ops []string, shape string) fw.Case {
	l := sx.L()
	var tags []string
	for _, o := range ops {
		if strings.HasPrefix(o, "(") {
			n, err := sx.Parse(o)
			if err != nil {
				panic(err)
			}
			l.Add(n)
			if t := "overlap=" + n.At(1).Str() + "+" + n.At(2).Str(); !contains(tags, t) {
				tags = append(tags, t)
			}
			continue
		}
		l.Add(sx.A(o))
	}
	if len(tags) > 0 {
		tags = append(tags, "class=overlap")
	}
	if contains(ops, "giveup") {
		tags = append(tags, "class=giveup")
	}
	if lead, members, ok := groupOf(beh); ok && kind == "ctl" && beh != "noport" {
		tags = append(tags, "class=unready-group", "group="+lead+"+"+strings.Join(members, "+"))
	}
	n := len(ops)
	lt := "len>=5"
	if n < 5 {
		lt = "len=" + strconv.Itoa(n)
	}
	in := sx.L(sx.A(kind), sx.A(beh), l)
	if shape != defaultShape(beh) {
		in.Add(sx.A(shape))
	}
	return fw.Case{Input: in.String(), Tags: append([]string{"kind=" + kind, "beh=" + beh, lt, "shape=" + shape}, tags...)}
}

func contains(xs []string, x string) bool {
	for _, y := range xs {
		if x == y {
			return true
		}
	}
	return false
}

func par(a, b string) string { return "(par " + a + " " + b + ")" }

var requestOps = []string{"start", "stop", "conf", "trigger", "kill"}

// overlapCases: the class OVERLAPPING REQUESTS — a schedule element `(par A B)` delivers request B while request A
// is still being served (both through eventLoop and the real handlers, which serve every MESSAGE and every KILL in
// a goroutine of its own; see runner.go `overlap`). Every ordered pair of requests the harness can observe, in
// every state of the task's child (never started / running / ended), for every kind; the pairs that matter for
// the other child behaviours; random schedules with one or two overlaps.
func overlapCases(tier string, r *rng.R) []fw.Case {
	var cs []fw.Case
	add := func(q *rng.R, kind, beh string, ops []string) {
		cs = append(cs, mkCase(kind, beh, ops, rng.Pick(q, shapesFor(kind, beh))))
	}
	cat := func(xs ...[]string) []string {
		var out []string
		for _, x := range xs {
			out = append(out, x...)
		}
		return out
	}
	for _, kind := range []string{"basic", "hook"} {
		spawn := "start"
		if kind == "hook" {
			spawn = "trigger"
		}
		prefixes := [][]string{{"tick"}, {"tick", spawn}, {"tick", spawn, "await"}}
		early := [][]string{{}, {spawn}} // before the TASK_RUNNING timer
		suffixes := [][]string{{}, {"await"}, {"stop"}, {"kill"}, {spawn}, {"await", "kill"}, {"stop", "await"}}
		for _, a := range requestOps {
			for _, b := range requestOps {
				if !parOK(kind, a, b) {
					continue
				}
				for _, pre := range prefixes {
					q := r.Fork()
					add(q, kind, "ok", cat(pre, []string{par(a, b)}, rng.Pick(q, suffixes)))
				}
				if a == "kill" || b == "kill" {
					for _, pre := range early {
						q := r.Fork()
						add(q, kind, "ok", cat(pre, []string{par(a, b)}, rng.Pick(q, [][]string{{}, {"tick"}, {"await"}})))
					}
				}
			}
		}
		// the other child behaviours, for the pairs in which what the child does can matter
		pairs := [][2]string{{"stop", "kill"}, {"kill", "stop"}, {spawn, "kill"}, {"kill", spawn}, {"stop", "stop"},
			{spawn, "stop"}, {"stop", spawn}, {"kill", "kill"}}
		n := 1
		if tier == "thorough" {
			n = 3
		}
		for _, beh := range overlapBehs[1:] {
			for _, pr := range pairs {
				for k := 0; k < n; k++ {
					q := r.Fork()
					add(q, kind, beh, cat(rng.Pick(q, prefixes), []string{par(pr[0], pr[1])}, rng.Pick(q, suffixes)))
				}
			}
		}
	}
	// controllable tasks: overlapping transitions (the device serves one at a time). An overlapping KILL of a
	// controllable task is NOT in the class: its Kill() is a long conversation with the device whose
	// interleavings with another request the model does not describe (parOK refuses it).
	for _, a := range requestOps {
		for _, b := range requestOps {
			if !parOK("ctl", a, b) {
				continue
			}
			for _, pre := range [][]string{{}, {"conf"}} {
				q := r.Fork()
				add(q, "ctl", "occ", cat(pre, []string{par(a, b)}, rng.Pick(q, [][]string{{}, {"start"}, {"stop"}, {"await"}})))
			}
		}
	}
	for i := 0; i < 6; i++ {
		q := r.Fork()
		add(q, "ctl", rng.Pick(q, []string{"noport", "nobin"}), []string{par(rng.Pick(q, requestOps[:4]), rng.Pick(q, requestOps[:4]))})
	}
	add(r.Fork(), "nodata", "ok", []string{par("kill", "start")})
	add(r.Fork(), "nodata", "ok", []string{par("stop", "kill"), "tick"})
	// random schedules with one or two overlaps
	nRandom := 40
	if tier == "thorough" {
		nRandom = 600
	}
	for i := 0; i < nRandom; i++ {
		q := r.Fork()
		kind := rng.Pick(q, []string{"basic", "basic", "hook"})
		beh := rng.Pick(q, overlapBehs)
		ops := randomOps(q, kind, q.Range(2, 5))
		for k, nPar := 0, q.Range(1, 2); k < nPar; k++ {
			a, b := rng.Pick(q, requestOps), rng.Pick(q, requestOps)
			if !parOK(kind, a, b) {
				b = "kill"
			}
			at := q.Range(0, len(ops))
			ops = append(ops[:at], append([]string{par(a, b)}, ops[at:]...)...)
		}
		add(q, kind, beh, ops)
	}
	return cs
}

// behaviours of a controllable task that never opens its control port: the process group the executor has to
// terminate when it gives the launch up (runner.go groupOf: leader + members, each obeying / ignoring SIGTERM /
// ignoring SIGTERM and SIGINT)
var unreadyBehs = []string{"noport", "noportfork", "noportkid", "noportkidt", "noportign", "noportmix"}

// giveupCases: the class CONTROLLABLE TASKS THAT NEVER BECOME READY, WHOSE PROCESS GROUP HAS MEMBERS WITH SIGNAL
// DISPOSITIONS OF THEIR OWN — in every way such a task can end: the launch fails (`giveup`: the dial gives up after
// GRPC_DIAL_TIMEOUT, TASK_FAILED, TERM/INT/KILL over the group), the group leader ends on its own first (`await`:
// nobody reaps it) and the launch fails then, a KILL or a STOP arrives while the executor is still dialling, and
// requests after the failure. "No survivors" is about every process of the task, not about its leader.
// fast: schedules without the dial timeout; slow: the ones that wait for it (>= 30 s each: run in the background,
// see startPrefetch). Also `giveup` where no dial is in progress (every other kind and behaviour: nothing happens).
func giveupCases(tier string, r *rng.R) (fast, slow []fw.Case) {
	thorough := tier == "thorough"
	add := func(kind, beh string, ops []string, shape string) {
		c := mkCase(kind, beh, ops, shape)
		if kind == "ctl" && unready(beh) && contains(ops, "giveup") {
			slow = append(slow, c)
		} else {
			fast = append(fast, c)
		}
	}
	pick := func(q *rng.R, kind, beh string) string { return rng.Pick(q, shapesFor(kind, beh)) }
	// the ways to end that do not wait for the dial
	quickEnds := [][]string{{}, {"await"}, {"kill"}, {"stop"}, {"await", "kill"}}
	for _, beh := range unreadyBehs[1:] {
		for _, ops := range quickEnds {
			if thorough {
				for _, sh := range shapesFor("ctl", beh) {
					add("ctl", beh, ops, sh)
				}
			} else {
				add("ctl", beh, ops, pick(r.Fork(), "ctl", beh))
			}
		}
		if !thorough {
			for _, sh := range shapesFor("ctl", beh) {
				add("ctl", beh, []string{"await", "conf"}, sh)
			}
		}
	}
	// the launch failure, alone and after the leader has ended on its own: every group
	slowEnds := [][]string{{"giveup"}, {"await", "giveup"}}
	if thorough {
		slowEnds = append(slowEnds, []string{"stop", "giveup", "kill"}, []string{"giveup", "giveup", "await"}, []string{"conf", "giveup", "stop"})
	}
	for _, beh := range unreadyBehs {
		for _, ops := range slowEnds {
			if thorough {
				for _, sh := range shapesFor("ctl", beh) {
					add("ctl", beh, ops, sh)
				}
			} else {
				add("ctl", beh, ops, pick(r.Fork(), "ctl", beh))
			}
		}
	}
	// requests around the failure (quick tier: four drawn; the thorough tier has them for every group above)
	if !thorough {
		for i := 0; i < 4; i++ {
			q := r.Fork()
			beh := rng.Pick(q, unreadyBehs)
			pre := rng.Pick(q, [][]string{{"stop"}, {"conf"}, {"trigger"}, {"tick"}, {"await"}})
			suf := rng.Pick(q, [][]string{{"kill"}, {"stop"}, {"giveup"}, {"await"}, {"kill", "conf"}})
			add("ctl", beh, append(append(append([]string{}, pre...), "giveup"), suf...), pick(q, "ctl", beh))
		}
	}
	// no dial in progress: `giveup` is not a happening of these tasks
	add("ctl", "occ", []string{"giveup", "kill"}, pick(r.Fork(), "ctl", "occ"))
	add("ctl", "occfork", []string{"conf", "giveup", "await"}, pick(r.Fork(), "ctl", "occfork"))
	add("ctl", "nobin", []string{"giveup"}, pick(r.Fork(), "ctl", "nobin"))
	add("basic", "ok", []string{"giveup", "start", "giveup", "stop"}, pick(r.Fork(), "basic", "ok"))
	add("hook", "ok", []string{"tick", "giveup", "trigger"}, pick(r.Fork(), "hook", "ok"))
	add("nodata", "ok", []string{"giveup"}, "sh")
	return fast, slow
}

// expensive reports schedules that are slow by construction (escalation timers).
// (Two STOPs after a child that died of a signal used to be here: a reproduced hang of 2 x 15 s, before
// ensureBasicTaskKilled was repaired. They are ordinary schedules now and are all generated.)
func expensive(kind, beh string, ops []string) bool {
	if kind == "ctl" && (beh == "occign" || beh == "occstay") {
		for _, o := range ops {
			if o == "kill" {
				return true
			}
		}
	}
	return false
}

func allSchedules(n int) [][]string {
	out := [][]string{{}}
	last := [][]string{{}}
	for l := 1; l <= n; l++ {
		var next [][]string
		for _, p := range last {
			for _, o := range allOps {
				q := append(append([]string{}, p...), o)
				next = append(next, q)
			}
		}
		out = append(out, next...)
		last = next
	}
	return out
}

func randomOps(r *rng.R, kind string, n int) []string {
	// weights: requests that matter for the kind are more likely; `tick` is usually first for basic/hook
	var pool []string
	switch kind {
	case "basic":
		pool = []string{"start", "start", "stop", "stop", "kill", "await", "await", "conf", "tick", "trigger"}
	case "hook":
		pool = []string{"trigger", "trigger", "stop", "start", "kill", "await", "await", "conf", "tick"}
	default:
		pool = []string{"conf", "start", "stop", "kill", "kill", "await", "tick", "trigger"}
	}
	var ops []string
	if kind != "ctl" && r.P(6, 10) {
		ops = append(ops, "tick")
	}
	for len(ops) < n {
		ops = append(ops, rng.Pick(r, pool))
	}
	return ops
}

func generate(tier string, r *rng.R) []fw.Case {
	var cs []fw.Case
	exLen, nRandom, nCtl, maxLen, slowBudget, slowShape := 2, 150, 50, 7, 6, 3
	if tier == "thorough" {
		exLen, nRandom, nCtl, maxLen, slowBudget, slowShape = 3, 3000, 600, 9, 80, 30
	}
	// schedules that are slow by construction are capped: per command shape, so that every shape gets its share
	slow := map[string]int{}
	var slowCs []fw.Case // started first, so that their timers overlap with everything else
	add := func(kind, beh string, ops []string, shape string) {
		if expensive(kind, beh, ops) {
			budget := slowShape
			if shape == defaultShape(beh) {
				budget = slowBudget
			}
			if slow[shape] >= budget {
				return
			}
			slow[shape]++
			slowCs = append(slowCs, mkCase(kind, beh, ops, shape))
			return
		}
		cs = append(cs, mkCase(kind, beh, ops, shape))
	}
	// a task without data: the launch is refused (TASK_FAILED), every later request finds no task
	for _, ops := range allSchedules(exLen - 1) {
		add("nodata", "ok", ops, "sh")
	}
	// every schedule up to exLen steps for basic and hook tasks, up to exLen-1 for controllable ones — first in the
	// shape every behaviour was written in, then crossed with every other command shape (thorough tier: the
	// three-step level only for the default shape and for `ex`; the shapes with arguments stop at two steps)
	lenFor := func(shape, beh string) int {
		if tier == "thorough" && shape != defaultShape(beh) && shape != "ex" {
			return exLen - 1
		}
		return exLen
	}
	for _, other := range []bool{false, true} {
		for _, kind := range []string{"basic", "hook"} {
			for _, beh := range basicBehs {
				for _, shape := range shapesFor(kind, beh) {
					if (shape != defaultShape(beh)) != other {
						continue
					}
					for _, ops := range allSchedules(lenFor(shape, beh)) {
						add(kind, beh, ops, shape)
					}
				}
			}
		}
		for _, beh := range ctlBehs {
			for _, shape := range shapesFor("ctl", beh) {
				if (shape != defaultShape(beh)) != other {
					continue
				}
				for _, ops := range allSchedules(lenFor(shape, beh) - 1) {
					add("ctl", beh, ops, shape)
				}
			}
		}
	}
	// longer random schedules, each in a random shape (drawn last: kind, behaviour and steps are the ones the
	// stream had before shapes existed)
	for i := 0; i < nRandom; i++ {
		q := r.Fork()
		kind := rng.Pick(q, []string{"basic", "basic", "hook"})
		beh := rng.Pick(q, basicBehs)
		ops := randomOps(q, kind, q.Range(3, maxLen))
		add(kind, beh, ops, rng.Pick(q, shapesFor(kind, beh)))
	}
	for i := 0; i < nCtl; i++ {
		q := r.Fork()
		beh := rng.Pick(q, ctlBehs)
		ops := randomOps(q, "ctl", q.Range(2, maxLen-2))
		add("ctl", beh, ops, rng.Pick(q, shapesFor("ctl", beh)))
	}
	// the class "overlapping requests" (drawn after everything else: the stream above is unchanged)
	cs = append(cs, overlapCases(tier, r)...)
	// the class "never ready, group with dispositions of its own" (drawn last). The cases that wait for the dial
	// timeout go to the very end of the list and are started in the background (startPrefetch).
	gFast, gSlow := giveupCases(tier, r)
	cs = append(cs, gFast...)
	var slowIn []string
	for _, c := range gSlow {
		slowIn = append(slowIn, c.Input)
	}
	if tier == "thorough" {
		preWidth = 24
	}
	registerSlow(slowIn)
	return append(append(slowCs, cs...), gSlow...)
}

func nontrivial(input, obs string) bool {
	in, err := sx.Parse(input)
	if err != nil || (in.Len() != 3 && in.Len() != 4) {
		return false
	}
	ops := in.At(2)
	spawn, end := in.At(0).Str() == "ctl", false
	var flat []string
	for i := 0; i < ops.Len(); i++ {
		if el := ops.At(i); el.IsList {
			for k := 1; k < el.Len(); k++ {
				flat = append(flat, el.At(k).Str())
			}
		} else {
			flat = append(flat, el.Str())
		}
	}
	for _, o := range flat {
		switch o {
		case "start", "trigger":
			spawn = true
		case "kill", "stop", "await", "giveup":
			end = true
		}
	}
	return len(flat) >= 2 && spawn && end
}

func shrinkCands(input string) []string {
	in, err := sx.Parse(input)
	if err != nil || (in.Len() != 3 && in.Len() != 4) {
		return nil
	}
	var out []string
	ops := in.At(2)
	for i := range ops.List {
		n := sx.L()
		n.List = append(append([]*sx.Node{}, ops.List[:i]...), ops.List[i+1:]...)
		c := sx.L(in.At(0), in.At(1), n)
		if in.Len() == 4 {
			c.Add(in.At(3))
		}
		out = append(out, c.String())
	}
	// an overlap replaced by one of its two requests
	for i, el := range ops.List {
		if !el.IsList || el.Len() != 3 {
			continue
		}
		for k := 1; k <= 2; k++ {
			n := sx.L()
			n.List = append(append(append([]*sx.Node{}, ops.List[:i]...), el.At(k)), ops.List[i+1:]...)
			c := sx.L(in.At(0), in.At(1), n)
			if in.Len() == 4 {
				c.Add(in.At(3))
			}
			out = append(out, c.String())
		}
	}
	if in.Len() == 4 {
		// the same schedule in the default command shape (smaller: if it still fails the shape does not matter)
		out = append(out, sx.L(in.At(0), in.At(1), ops).String())
	}
	return out
}

// soak (development aid): VH_C17_SOAK=<tier>:<seed>:<tag>[:<repeat>] runs the generated cases that carry the tag
// (e.g. class=overlap) on the real code only, 12 at a time, and prints "input<TAB>obs" lines — the raw material
// for `driver C17` (what the implementation does, before any model is asked).
func soak(spec string) {
	f := strings.Split(spec, ":")
	if len(f) < 3 {
		fmt.Println("VH_C17_SOAK=<tier>:<seed>:<tag>[:<repeat>]")
		return
	}
	seed, _ := strconv.ParseUint(f[1], 10, 64)
	rep := 1
	if len(f) > 3 {
		rep, _ = strconv.Atoi(f[3])
	}
	workDir = "/tmp/c17-soak"
	os.MkdirAll(workDir, 0o755)
	var cs []fw.Case
	for _, c := range generate(f[0], rng.New(seed)) {
		if contains(c.Tags, f[2]) {
			for k := 0; k < rep; k++ {
				cs = append(cs, c)
			}
		}
	}
	out := make([]string, len(cs))
	sem := make(chan struct{}, 12)
	done := make(chan struct{})
	for i := range cs {
		go func(i int) {
			sem <- struct{}{}
			obs, err := runImpl(cs[i].Input)
			if err != nil {
				obs = "ERR " + strings.ReplaceAll(err.Error(), "\n", " ")
			}
			out[i] = cs[i].Input + "\t" + obs
			<-sem
			done <- struct{}{}
		}(i)
	}
	for range cs {
		<-done
	}
	for _, l := range out {
		fmt.Println(l)
	}
}

func init() {
	if v := os.Getenv("VH_C17_PROBE"); v != "" && os.Getenv(envCase) == "" && os.Getenv(envOCC) == "" && os.Getenv(envChild) == "" {
		obs, err := runImpl(v)
		fmt.Println(obs, err)
		os.Exit(0)
	}
	if v := os.Getenv("VH_C17_SOAK"); v != "" && os.Getenv(envCase) == "" && os.Getenv(envOCC) == "" && os.Getenv(envChild) == "" {
		soak(v)
		os.Exit(0)
	}
	if os.Getenv(envCase) != "" || os.Getenv(envOCC) != "" || os.Getenv(envChild) != "" {
		return // child modes are dispatched by runner.go's init
	}
	fw.Register(&fw.Property{
		ID:         "C17",
		Generate:   generate,
		RunImpl:    runImpl,
		Nontrivial: nontrivial,
		Rule: "one task per case in its own re-executed process: the real executor eventLoop + handlers + executable.NewTask with a fake Mesos " +
			"agent and REAL children (sh scripts that exit 0 / 3, die of a signal, fork a helper, cannot be started; for controllable tasks a " +
			"child that never opens its port and fake OCC devices that exit at DONE / need SIGTERM / ignore TERM+INT / fork / exit 3). Schedules: every " +
			"sequence of up to 2 (thorough 3) steps from {tick,start,stop,conf,trigger,kill,await} per basic/hook behaviour and up to 1 (thorough 2) " +
			"per controllable behaviour and for a task without data, plus random ones of 3..7 (thorough 3..9) steps. Every behaviour x every such schedule is run in " +
			"every COMMAND SHAPE (tag shape=): through /bin/sh -c without / with TaskCommandInfo.Arguments (sh, sha), exec'd directly without / with arguments (ex: the vh " +
			"binary in child mode, exa: /bin/sh -c <script> resp. the device binary with arguments; a command that cannot be started: ex, exa only); random schedules draw " +
			"their shape (thorough: the 3-step level in the shapes sh and ex, 2 steps in sha and exa); the model does not see the shape. Schedules that are slow by construction " +
			"(escalation timers) are capped at 6 (thorough 80) per run in the first shape and 3 (thorough 30) in each other one; observed: results of every step, UPDATE/MESSAGE calls in order, panic site, reproduced hang, survivors (live processes that are an announced child, are in an " +
			"announced child's process group, or inherited the task's environment — no assumption that a child leads its own group), signals received by the device. " +
			"OVERLAPPING REQUESTS (tags class=overlap, overlap=A+B): a schedule element (par A B) hands the events of two requests to the real eventLoop back to back, so that B is handled while A is still " +
			"being served by the goroutine the real handler started (nothing of the task is touched by the harness): every ordered pair from {start,stop,conf,trigger,kill} except two requests that both start a child, " +
			"for basic and hook tasks with the child never started / running / ended (and before the TASK_RUNNING timer for the pairs with a KILL), the pairs with stop/kill/start for the other child behaviours (ign = ignores SIGTERM/SIGINT, fork, sig, fail, nobin), " +
			"every pair of transitions for a controllable task (an overlapping KILL of a controllable task is outside the class), a task without data, and 40 (thorough 600) random schedules with one or two overlaps; the model answers with the SET of " +
			"all interleavings of the atomic parts of the two requests (monitor: the observation must be one of them), Spec is the same predicate. " +
			"NEVER READY, GROUP WITH DISPOSITIONS OF ITS OWN (tags class=unready-group, group=<leader>+<members>, class=giveup): controllable tasks that never open their control port and whose process GROUP has a leader (the wrapping shell / the binary exec'd directly) " +
			"and members (the vh binary as helper, same group) that each obey SIGTERM, ignore SIGTERM only, or ignore SIGTERM and SIGINT — noport (leader alone), noportfork, noportkid, noportkidt, noportign, noportmix — in every way such a task can end: step `giveup` = the gRPC dial of Launch gives up " +
			"(GRPC_DIAL_TIMEOUT = 30 s, a constant of the code: waited for in real time), TASK_FAILED is reported and the Launch goroutine TERM/INT/KILLs the group; `await` = the leader ends on its own while the executor is still dialling (nobody reaps it) and the launch fails afterwards; KILL and STOP while dialling; requests after the failure. " +
			"Quick: every group x {giveup, await giveup} in a drawn shape + 4 drawn schedules around the failure (16 cases of >= 30 s, run in the background from the start of the run, 16 at a time) + every new group x {nothing, await, kill, stop, await kill} + giveup on tasks without a dial in progress; thorough: every group x 5 schedules x every shape. " +
			"Survivors are looked for once nothing of the task is alive or 3 x (SIGTERM_TIMEOUT + SIGINT_TIMEOUT) after TASK_FAILED. non-trivial = >=2 requests/steps, a child was spawned and a stop/kill/await/giveup follows; distinct by input text",
		Shrink: shrinkCands,
		// wider search after a break: the quick stream under another seed (every case costs a process and >= 0.2 s)
		Search:  func(r *rng.R) []fw.Case { return generate("quick", r) },
		Workers: 12,
		Setup: func(work string) error {
			workDir = work
			return os.MkdirAll(work, 0o755)
		},
		TrustedBase: []string{
			"harness/props/c17 (fake Mesos agent = decoder+sender, child scripts and the vh binary in child mode — as a task's command and as a helper process inside a task's process group with its own SIGTERM/SIGINT dispositions —, fake OCC device, /proc scan for survivors by pid / process group / inherited environment, panic-trace parsing)",
			"/repo/executor/verif_hook_c17.go (builds internalState as Run does and calls the real eventLoop)",
			"Linux process/signal semantics, /bin/sh (dash)",
		},
		Assumptions: []string{
			"asynchronous happenings are given a definite place in the schedule by the harness (tick = the 200 ms TASK_RUNNING timer, await = the child ends and is reaped); runs in which the timer fired out of place, or was already due when a KILL placed before it had been carried out, are discarded as inconclusive",
			"that a carried-out KILL cancelled the TASK_RUNNING timer is observed as: no TASK_RUNNING within 800 ms of LAUNCH (4 x the timer's delay); a late TASK_RUNNING after that window would be missed by the run (not by the source fact basicKillStopsTimer)",
			"emissions of the very step that crashes the executor are not compared (they race with the crash)",
			"the fake OCC device obeys every transition of the teardown walk; a device that refuses (final TASK_KILLED path) is not exercised",
			"log lines are used only as completion signals for handler paths that send nothing (no task, RPC down, non-hook trigger, KILL of a task that is not active)",
			"overlaps: the second event is offered to the fake decoder as soon as eventLoop has taken the first, i.e. it is waiting when the first handler returns (two events in one chunk of the agent's stream); which interleaving then happens is the Go scheduler's choice — the model accepts all interleavings of its atomic parts (one part per request; three for startBasicTask), not finer ones (e.g. a KILL between two of the four reads of t.taskCmd in ensureBasicTaskKilled)",
			"`giveup` is waited for in real time (GRPC_DIAL_TIMEOUT + 20 s, else reported as a hang, and only if it reproduces); the escalation that follows TASK_FAILED has no completion signal: the step ends when nothing of the task is alive or after 3 x (SIGTERM_TIMEOUT + SIGINT_TIMEOUT) = 15 s (the code's own bound is 5 s), and processes alive then are an observation only when a second run shows them too",
			"which signals the members of an unready task's group received is not observed (a process cannot report a signal it ignores or dies of): of the launch failure's escalation only its outcome — who is alive — is compared, the signals are in the model (St.gsigs) and its theorems only",
			"after an overlap with a STOP, whether the STOP signalled a child is read off /proc (dead, zombie or SIGKILL pending within 150 ms of the STOP's answer); a panic of startBasicTask's reaper goroutine that lands after the overlap's results were reported is attributed to that overlap",
		},
	})
	fw.RegisterGen(fw.GenFile{Name: "ExecTask.lean", Make: genExecTask})
}
