package c17

// Regenerated Lean fragment Gen/ExecTask.lean: constants by evaluating the linked
// package, tables and shape facts by parsing /repo's source (go/ast).

import (
	"fmt"
	"go/ast"
	"go/parser"
	"go/token"
	"go/types"
	"strconv"
	"strings"
	"time"

	"github.com/AliceO2Group/Control/executor/executable"
)

func parseFile(path string) (*ast.File, error) {
	return parser.ParseFile(token.NewFileSet(), path, nil, 0)
}

func findFunc(f *ast.File, recv, name string) *ast.FuncDecl {
	for _, d := range f.Decls {
		fd, ok := d.(*ast.FuncDecl)
		if !ok || fd.Name.Name != name {
			continue
		}
		if recv == "" && fd.Recv == nil {
			return fd
		}
		if fd.Recv != nil && len(fd.Recv.List) == 1 {
			t := fd.Recv.List[0].Type
			if st, ok := t.(*ast.StarExpr); ok {
				t = st.X
			}
			if id, ok := t.(*ast.Ident); ok && id.Name == recv {
				return fd
			}
		}
	}
	return nil
}

func strLit(e ast.Expr) (string, bool) {
	if b, ok := e.(*ast.BasicLit); ok && b.Kind == token.STRING {
		s, err := strconv.Unquote(b.Value)
		return s, err == nil
	}
	return "", false
}

// chanCap finds make(chan mesos.TaskState, N) inside fn.
func chanCap(fn *ast.FuncDecl) int {
	n := -1
	ast.Inspect(fn, func(x ast.Node) bool {
		c, ok := x.(*ast.CallExpr)
		if !ok {
			return true
		}
		if id, ok := c.Fun.(*ast.Ident); ok && id.Name == "make" && len(c.Args) >= 1 {
			if _, ok := c.Args[0].(*ast.ChanType); ok {
				if len(c.Args) == 1 {
					n = 0
				} else if b, ok := c.Args[1].(*ast.BasicLit); ok {
					n, _ = strconv.Atoi(b.Value)
				}
			}
		}
		return true
	})
	return n
}

// comparesWithNil: does fn contain `<…>.<field> ==/!= nil`.
func comparesWithNil(fn *ast.FuncDecl, field string) bool {
	found := false
	ast.Inspect(fn, func(x ast.Node) bool {
		b, ok := x.(*ast.BinaryExpr)
		if !ok || (b.Op != token.EQL && b.Op != token.NEQ) {
			return true
		}
		for _, pair := range [][2]ast.Expr{{b.X, b.Y}, {b.Y, b.X}} {
			if id, ok := pair[1].(*ast.Ident); ok && id.Name == "nil" {
				if sel, ok := pair[0].(*ast.SelectorExpr); ok && sel.Sel.Name == field {
					found = true
				}
			}
		}
		return true
	})
	return found
}

// callsAny: does fn call a function/method with one of the given names.
func callsAny(fn *ast.FuncDecl, names ...string) bool {
	found := false
	ast.Inspect(fn, func(x ast.Node) bool {
		c, ok := x.(*ast.CallExpr)
		if !ok {
			return true
		}
		if sel, ok := c.Fun.(*ast.SelectorExpr); ok {
			for _, n := range names {
				if sel.Sel.Name == n {
					found = true
				}
			}
		}
		return true
	})
	return found
}

// sendsNonBlocking: is every send on <…>.<field> inside fn the communication of a select clause whose select
// has a default clause (so that it can never block); false if there is no such send at all.
func sendsNonBlocking(fn *ast.FuncDecl, field string) bool {
	isSend := func(st ast.Stmt) bool {
		sd, ok := st.(*ast.SendStmt)
		if !ok {
			return false
		}
		sel, ok := sd.Chan.(*ast.SelectorExpr)
		return ok && sel.Sel.Name == field
	}
	total, guarded := 0, 0
	ast.Inspect(fn, func(x ast.Node) bool {
		switch n := x.(type) {
		case *ast.SendStmt:
			if isSend(n) {
				total++
			}
		case *ast.SelectStmt:
			hasDefault := false
			for _, c := range n.Body.List {
				if cc, ok := c.(*ast.CommClause); ok && cc.Comm == nil {
					hasDefault = true
				}
			}
			if hasDefault {
				for _, c := range n.Body.List {
					if cc, ok := c.(*ast.CommClause); ok && cc.Comm != nil && isSend(cc.Comm) {
						guarded++
					}
				}
			}
		}
		return true
	})
	return total > 0 && total == guarded
}

// returnsOnNilTask: does fn assign `v := <pkg>.NewTask(…)`, and leave through `if v == nil { …; return … }`
// before it calls v.Launch().
func returnsOnNilTask(fn *ast.FuncDecl) bool {
	name := ""
	ast.Inspect(fn, func(x ast.Node) bool {
		as, ok := x.(*ast.AssignStmt)
		if !ok || len(as.Lhs) != 1 || len(as.Rhs) != 1 {
			return true
		}
		if c, ok := as.Rhs[0].(*ast.CallExpr); ok {
			if sel, ok := c.Fun.(*ast.SelectorExpr); ok && sel.Sel.Name == "NewTask" {
				if id, ok := as.Lhs[0].(*ast.Ident); ok {
					name = id.Name
				}
			}
		}
		return true
	})
	if name == "" {
		return false
	}
	var launchPos token.Pos
	ast.Inspect(fn, func(x ast.Node) bool {
		if c, ok := x.(*ast.CallExpr); ok {
			if sel, ok := c.Fun.(*ast.SelectorExpr); ok && sel.Sel.Name == "Launch" {
				if id, ok := sel.X.(*ast.Ident); ok && id.Name == name && launchPos == token.NoPos {
					launchPos = c.Pos()
				}
			}
		}
		return true
	})
	found := false
	ast.Inspect(fn, func(x ast.Node) bool {
		is, ok := x.(*ast.IfStmt)
		if !ok || launchPos == token.NoPos || is.Pos() > launchPos {
			return true
		}
		b, ok := is.Cond.(*ast.BinaryExpr)
		if !ok || b.Op != token.EQL {
			return true
		}
		l, lok := b.X.(*ast.Ident)
		r, rok := b.Y.(*ast.Ident)
		if !lok || !rok || !((l.Name == name && r.Name == "nil") || (l.Name == "nil" && r.Name == name)) {
			return true
		}
		if n := len(is.Body.List); n > 0 {
			if _, ok := is.Body.List[n-1].(*ast.ReturnStmt); ok {
				found = true
			}
		}
		return true
	})
	return found
}

// notOkReturnsNil: in `if !ok { … }` of fn (the look-up of the task failed), is every return a `return nil`
// (a handler error would end eventLoop); false if there is no such block or it does not return.
func notOkReturnsNil(fn *ast.FuncDecl) bool {
	blocks, good := 0, 0
	ast.Inspect(fn, func(x ast.Node) bool {
		is, ok := x.(*ast.IfStmt)
		if !ok {
			return true
		}
		u, ok := is.Cond.(*ast.UnaryExpr)
		if !ok || u.Op != token.NOT {
			return true
		}
		if id, ok := u.X.(*ast.Ident); !ok || id.Name != "ok" {
			return true
		}
		blocks++
		rets, nils := 0, 0
		ast.Inspect(is.Body, func(y ast.Node) bool {
			if r, ok := y.(*ast.ReturnStmt); ok {
				rets++
				if len(r.Results) == 1 {
					if id, ok := r.Results[0].(*ast.Ident); ok && id.Name == "nil" {
						nils++
					}
				}
			}
			return true
		})
		if rets > 0 && rets == nils {
			good++
		}
		return true
	})
	return blocks > 0 && blocks == good
}

// timerKeptAndStopped: does arm assign the result of time.AfterFunc to a field <recv>.<F>, and does stop call
// <recv>.<F>.Stop().
func timerKeptAndStopped(arm, stop *ast.FuncDecl) bool {
	field := ""
	ast.Inspect(arm, func(x ast.Node) bool {
		as, ok := x.(*ast.AssignStmt)
		if !ok || len(as.Lhs) != 1 || len(as.Rhs) != 1 {
			return true
		}
		c, ok := as.Rhs[0].(*ast.CallExpr)
		if !ok {
			return true
		}
		if sel, ok := c.Fun.(*ast.SelectorExpr); ok && sel.Sel.Name == "AfterFunc" {
			if l, ok := as.Lhs[0].(*ast.SelectorExpr); ok {
				field = l.Sel.Name
			}
		}
		return true
	})
	if field == "" {
		return false
	}
	found := false
	ast.Inspect(stop, func(x ast.Node) bool {
		c, ok := x.(*ast.CallExpr)
		if !ok {
			return true
		}
		if sel, ok := c.Fun.(*ast.SelectorExpr); ok && sel.Sel.Name == "Stop" {
			if f, ok := sel.X.(*ast.SelectorExpr); ok && f.Sel.Name == field {
				found = true
			}
		}
		return true
	})
	return found
}

// setpgidUnconditional: inside fn, is every value given to a SysProcAttr's Setpgid the constant `true`, and is it
// given at least once — i.e. every `…SysProcAttr{…}` literal of fn has the element `Setpgid: true`, and nothing
// assigns to a `.Setpgid` field afterwards. (The child then leads a process group of its own whatever the command
// looks like; the termination sites address it by that group.)
func setpgidUnconditional(fn *ast.FuncDecl) bool {
	isTrue := func(e ast.Expr) bool { id, ok := e.(*ast.Ident); return ok && id.Name == "true" }
	lits, good, bad := 0, 0, 0
	ast.Inspect(fn, func(x ast.Node) bool {
		switch n := x.(type) {
		case *ast.CompositeLit:
			sel, ok := n.Type.(*ast.SelectorExpr)
			if !ok || sel.Sel.Name != "SysProcAttr" {
				return true
			}
			lits++
			for _, el := range n.Elts {
				if kv, ok := el.(*ast.KeyValueExpr); ok {
					if k, ok := kv.Key.(*ast.Ident); ok && k.Name == "Setpgid" && isTrue(kv.Value) {
						good++
					}
				}
			}
		case *ast.AssignStmt:
			for i, l := range n.Lhs {
				if sel, ok := l.(*ast.SelectorExpr); ok && sel.Sel.Name == "Setpgid" {
					if len(n.Lhs) != len(n.Rhs) || !isTrue(n.Rhs[i]) {
						bad++
					}
				}
			}
		}
		return true
	})
	return lits > 0 && lits == good && bad == 0
}

// ---- facts about how requests are served (the class "overlapping requests") -------------------------------

// goLits: the function literals of fn that are started with `go`.
func goLits(fn *ast.FuncDecl) []*ast.FuncLit {
	var out []*ast.FuncLit
	ast.Inspect(fn, func(x ast.Node) bool {
		if g, ok := x.(*ast.GoStmt); ok {
			if fl, ok := g.Call.Fun.(*ast.FuncLit); ok {
				out = append(out, fl)
			}
		}
		return true
	})
	return out
}

func within(lits []*ast.FuncLit, n ast.Node) bool {
	for _, l := range lits {
		if n.Pos() >= l.Pos() && n.End() <= l.End() {
			return true
		}
	}
	return false
}

// methodCalls: the calls `<…>.<name>(…)` inside fn.
func methodCalls(fn ast.Node, name string) []*ast.CallExpr {
	var out []*ast.CallExpr
	ast.Inspect(fn, func(x ast.Node) bool {
		if c, ok := x.(*ast.CallExpr); ok {
			if sel, ok := c.Fun.(*ast.SelectorExpr); ok && sel.Sel.Name == name {
				out = append(out, c)
			}
		}
		return true
	})
	return out
}

// servedInGoroutine: is every call of one of the named methods inside fn made from a goroutine the handler
// starts (`go func() { … }()`), and is there at least one such call for every name.
func servedInGoroutine(fn *ast.FuncDecl, names ...string) bool {
	lits := goLits(fn)
	for _, n := range names {
		cs := methodCalls(fn, n)
		if len(cs) == 0 {
			return false
		}
		for _, c := range cs {
			if !within(lits, c) {
				return false
			}
		}
	}
	return true
}

// lookupInHandler: is every READ of `<…>.activeTasks[…]` in fn outside the goroutines it starts (the handler
// itself looks the task up, eventLoop runs one handler at a time), and is there one.
func lookupInHandler(fn *ast.FuncDecl) bool {
	lits := goLits(fn)
	n, ok := 0, true
	ast.Inspect(fn, func(x ast.Node) bool {
		ix, is := x.(*ast.IndexExpr)
		if !is {
			return true
		}
		if sel, is := ix.X.(*ast.SelectorExpr); is && sel.Sel.Name == "activeTasks" {
			n++
			if within(lits, ix) {
				ok = false
			}
		}
		return true
	})
	return n > 0 && ok
}

// entryRemovedInGoroutine: is every `delete(<…>.activeTasks, …)` of fn inside a goroutine it starts (the
// entry outlives the handler), and is there one.
func entryRemovedInGoroutine(fn *ast.FuncDecl) bool {
	lits := goLits(fn)
	n, ok := 0, true
	ast.Inspect(fn, func(x ast.Node) bool {
		c, is := x.(*ast.CallExpr)
		if !is || len(c.Args) < 1 {
			return true
		}
		if id, is := c.Fun.(*ast.Ident); is && id.Name == "delete" {
			if sel, is := c.Args[0].(*ast.SelectorExpr); is && sel.Sel.Name == "activeTasks" {
				n++
				if !within(lits, c) {
					ok = false
				}
			}
		}
		return true
	})
	return n > 0 && ok
}

// claimsEntryInHandler: does the handler itself (its top-level statements, outside the goroutines it starts) look
// the task up in `<…>.activeTasks[K]` AND `delete(<…>.activeTasks, K)` with the same key between one `M.Lock()`
// and the next `M.Unlock()` of the same mutex, and is no look-up of the handler outside such a section (a second
// KILL handled right after this one cannot find the task again).
func claimsEntryInHandler(fn *ast.FuncDecl) bool {
	lockCall := func(st ast.Stmt, name string) (string, bool) {
		es, ok := st.(*ast.ExprStmt)
		if !ok {
			return "", false
		}
		c, ok := es.X.(*ast.CallExpr)
		if !ok || len(c.Args) != 0 {
			return "", false
		}
		sel, ok := c.Fun.(*ast.SelectorExpr)
		if !ok || sel.Sel.Name != name {
			return "", false
		}
		return types.ExprString(sel.X), true
	}
	lookups := func(n ast.Node) (keys []string) {
		ast.Inspect(n, func(x ast.Node) bool {
			if _, is := x.(*ast.FuncLit); is {
				return false
			}
			if ix, is := x.(*ast.IndexExpr); is {
				if sel, is := ix.X.(*ast.SelectorExpr); is && sel.Sel.Name == "activeTasks" {
					keys = append(keys, types.ExprString(ix.Index))
				}
			}
			return true
		})
		return
	}
	deletes := func(n ast.Node) (keys []string) {
		ast.Inspect(n, func(x ast.Node) bool {
			if _, is := x.(*ast.FuncLit); is {
				return false
			}
			if c, is := x.(*ast.CallExpr); is && len(c.Args) == 2 {
				if id, is := c.Fun.(*ast.Ident); is && id.Name == "delete" {
					if sel, is := c.Args[0].(*ast.SelectorExpr); is && sel.Sel.Name == "activeTasks" {
						keys = append(keys, types.ExprString(c.Args[1]))
					}
				}
			}
			return true
		})
		return
	}
	claimed, stray := false, false
	held := ""
	var looked, deleted []string
	for _, st := range fn.Body.List {
		if m, ok := lockCall(st, "Lock"); ok && held == "" {
			held, looked, deleted = m, nil, nil
			continue
		}
		if m, ok := lockCall(st, "Unlock"); ok && held != "" && m == held {
			for _, k := range looked {
				for _, d := range deleted {
					if k == d {
						claimed = true
					}
				}
			}
			if len(looked) > 0 && !claimed {
				stray = true
			}
			held = ""
			continue
		}
		if held != "" {
			looked = append(looked, lookups(st)...)
			deleted = append(deleted, deletes(st)...)
		} else if len(lookups(st)) > 0 {
			stray = true
		}
	}
	return claimed && !stray && held == ""
}

// ownsCmd: does fn keep the command returned by prepareTaskCmd in a local variable that is assigned only there,
// call StdoutPipe/StderrPipe/Start/Wait on that variable only (Start and Wait at least once), and never READ the
// field `<…>.<field>` — the field occurs only as the target of plain assignments (it is published, not used)?
func ownsCmd(fn *ast.FuncDecl, field string) bool {
	local := ""
	assigned := map[string]int{}
	targets := map[ast.Expr]bool{}
	ast.Inspect(fn, func(x ast.Node) bool {
		as, ok := x.(*ast.AssignStmt)
		if !ok {
			return true
		}
		for _, l := range as.Lhs {
			if id, ok := l.(*ast.Ident); ok {
				assigned[id.Name]++
			}
			if as.Tok == token.ASSIGN {
				targets[l] = true
			}
		}
		if len(as.Rhs) == 1 {
			if c, ok := as.Rhs[0].(*ast.CallExpr); ok {
				if id, ok := c.Fun.(*ast.Ident); ok && id.Name == "prepareTaskCmd" && len(as.Lhs) >= 1 {
					if v, ok := as.Lhs[0].(*ast.Ident); ok {
						local = v.Name
					}
				}
			}
		}
		return true
	})
	if local == "" || assigned[local] != 1 {
		return false
	}
	ok := true
	ast.Inspect(fn, func(x ast.Node) bool {
		if sel, is := x.(*ast.SelectorExpr); is && sel.Sel.Name == field && !targets[ast.Expr(sel)] {
			ok = false // the field is read
		}
		return true
	})
	for _, m := range []string{"StdoutPipe", "StderrPipe", "Start", "Wait"} {
		cs := methodCalls(fn, m)
		if len(cs) == 0 && (m == "Start" || m == "Wait") {
			ok = false
		}
		for _, c := range cs {
			if id, is := c.Fun.(*ast.SelectorExpr).X.(*ast.Ident); !is || id.Name != local {
				ok = false
			}
		}
	}
	return ok
}

func isFieldSel(e ast.Expr, field string) bool {
	sel, ok := e.(*ast.SelectorExpr)
	return ok && sel.Sel.Name == field
}

// copiesFieldInGoroutine: does a goroutine started by fn begin by copying `<…>.<field>` into a local variable
// (the field is read only once the goroutine runs).
func copiesFieldInGoroutine(fn *ast.FuncDecl, field string) bool {
	for _, l := range goLits(fn) {
		found := false
		ast.Inspect(l, func(x ast.Node) bool {
			if as, ok := x.(*ast.AssignStmt); ok && as.Tok == token.DEFINE && len(as.Rhs) == 1 && isFieldSel(as.Rhs[0], field) {
				found = true
			}
			return true
		})
		if found {
			return true
		}
	}
	return false
}

// assignsNilToField: does fn assign nil to `<…>.<field>`.
func assignsNilToField(fn *ast.FuncDecl, field string) bool {
	found := false
	ast.Inspect(fn, func(x ast.Node) bool {
		as, ok := x.(*ast.AssignStmt)
		if !ok || as.Tok != token.ASSIGN || len(as.Lhs) != len(as.Rhs) {
			return true
		}
		for i, l := range as.Lhs {
			if id, ok := as.Rhs[i].(*ast.Ident); ok && id.Name == "nil" && isFieldSel(l, field) {
				found = true
			}
		}
		return true
	})
	return found
}

// callsThroughField: does fn call `<…>.<field>.<method>(…)` (the field is dereferenced at the time of the call).
func callsThroughField(fn *ast.FuncDecl, field, method string) bool {
	for _, c := range methodCalls(fn, method) {
		if isFieldSel(c.Fun.(*ast.SelectorExpr).X, field) {
			return true
		}
	}
	return false
}

// doesNotWait: fn has no loop, no channel receive, no select without a default clause and no call of a
// function that blocks for a time (Sleep, After, Wait, Tick, NewTimer, NewTicker): it runs straight through.
func doesNotWait(fn *ast.FuncDecl) bool {
	ok := true
	ast.Inspect(fn, func(x ast.Node) bool {
		switch n := x.(type) {
		case *ast.ForStmt, *ast.RangeStmt:
			ok = false
		case *ast.UnaryExpr:
			if n.Op == token.ARROW {
				ok = false
			}
		case *ast.SelectStmt:
			hasDefault := false
			for _, c := range n.Body.List {
				if cc, is := c.(*ast.CommClause); is && cc.Comm == nil {
					hasDefault = true
				}
			}
			if !hasDefault {
				ok = false
			}
		case *ast.CallExpr:
			if sel, is := n.Fun.(*ast.SelectorExpr); is {
				switch sel.Sel.Name {
				case "Sleep", "After", "Wait", "Tick", "NewTimer", "NewTicker":
					ok = false
				}
			}
		}
		return true
	})
	return ok
}

// takesLock: does fn call Lock or RLock on anything.
func takesLock(fns ...*ast.FuncDecl) bool {
	for _, fn := range fns {
		if len(methodCalls(fn, "Lock"))+len(methodCalls(fn, "RLock")) > 0 {
			return true
		}
	}
	return false
}

// reapsBeforeEscalation: inside fn (ControllableTask.Launch), is any `<…>.Wait()` called — directly or in a
// goroutine the function starts — textually before a call of doTermIntKill? On the launch-failure paths the command
// is then reaped before or while its process group is being escalated: a group leader that dies of the first signal
// disappears, and doTermIntKill, which asks pidExists(-pgid) = "does the LEADER exist" before SIGINT and before
// SIGKILL, stops with members of the group alive. As the code stands the only Wait() of Launch is the reaper of a
// task that became ready, after every doTermIntKill of the function. (-1: no doTermIntKill call in fn at all.)
func reapsBeforeEscalation(fn *ast.FuncDecl) int {
	var waits, escs []token.Pos
	ast.Inspect(fn, func(x ast.Node) bool {
		c, ok := x.(*ast.CallExpr)
		if !ok {
			return true
		}
		if sel, ok := c.Fun.(*ast.SelectorExpr); ok {
			switch sel.Sel.Name {
			case "Wait":
				waits = append(waits, c.Pos())
			case "doTermIntKill":
				escs = append(escs, c.Pos())
			}
		}
		return true
	})
	if len(escs) == 0 {
		return -1
	}
	last := escs[len(escs)-1]
	for _, e := range escs {
		if e > last {
			last = e
		}
	}
	for _, w := range waits {
		if w < last {
			return 1
		}
	}
	return 0
}

// pidExistsLooksAtLeader: does pidExists turn a negative pid (a process group) into the pid of the group's leader
// (`pid *= -1` / `pid = -pid` under `pid < 0`) and ask for that one process only (os.FindProcess + Signal)?
func pidExistsLooksAtLeader(fn *ast.FuncDecl) bool {
	negated, finds := false, false
	ast.Inspect(fn, func(x ast.Node) bool {
		switch v := x.(type) {
		case *ast.AssignStmt:
			if len(v.Lhs) == 1 && len(v.Rhs) == 1 {
				if id, ok := v.Lhs[0].(*ast.Ident); ok && id.Name == "pid" {
					if v.Tok == token.MUL_ASSIGN {
						if u, ok := v.Rhs[0].(*ast.UnaryExpr); ok && u.Op == token.SUB {
							negated = true
						}
					}
					if u, ok := v.Rhs[0].(*ast.UnaryExpr); ok && v.Tok == token.ASSIGN && u.Op == token.SUB {
						negated = true
					}
				}
			}
		case *ast.CallExpr:
			if sel, ok := v.Fun.(*ast.SelectorExpr); ok && sel.Sel.Name == "FindProcess" {
				finds = true
			}
		}
		return true
	})
	return negated && finds
}

func genExecTask(repo string) (string, error) {
	ctl, err := parseFile(repo + "/executor/executable/controllabletask.go")
	if err != nil {
		return "", err
	}
	bas, err := parseFile(repo + "/executor/executable/basictaskcommon.go")
	if err != nil {
		return "", err
	}
	hnd, err := parseFile(repo + "/executor/handlers.go")
	if err != nil {
		return "", err
	}
	tsk, err := parseFile(repo + "/executor/executable/task.go")
	if err != nil {
		return "", err
	}
	prep := findFunc(tsk, "", "prepareTaskCmd")
	if prep == nil {
		return "", fmt.Errorf("an anchored function of C17 is gone")
	}
	pidu, err := parseFile(repo + "/executor/executable/pid_util.go")
	if err != nil {
		return "", err
	}
	pidEx := findFunc(pidu, "", "pidExists")
	if pidEx == nil {
		return "", fmt.Errorf("an anchored function of C17 is gone")
	}
	kill := findFunc(ctl, "ControllableTask", "Kill")
	launch := findFunc(ctl, "ControllableTask", "Launch")
	doLaunch := findFunc(bas, "basicTaskBase", "doLaunch")
	ensure := findFunc(bas, "basicTaskBase", "ensureBasicTaskKilled")
	bkill := findFunc(bas, "basicTaskBase", "Kill")
	hkill := findFunc(hnd, "", "handleKillEvent")
	hlaunch := findFunc(hnd, "", "handleLaunchEvent")
	hmsg := findFunc(hnd, "", "handleMessageEvent")
	startBasic := findFunc(bas, "basicTaskBase", "startBasicTask")
	if kill == nil || launch == nil || doLaunch == nil || ensure == nil || bkill == nil || hkill == nil || hlaunch == nil || hmsg == nil || startBasic == nil {
		return "", fmt.Errorf("an anchored function of C17 is gone")
	}
	// the teardown walk: switch currentState { case "X": evt = "E"; destination = "D" }
	type edge struct{ s, e, d string }
	var walk []edge
	ast.Inspect(kill, func(x ast.Node) bool {
		sw, ok := x.(*ast.SwitchStmt)
		if !ok {
			return true
		}
		if id, ok := sw.Tag.(*ast.Ident); !ok || id.Name != "currentState" {
			return true
		}
		for _, st := range sw.Body.List {
			cc, ok := st.(*ast.CaseClause)
			if !ok || len(cc.List) != 1 {
				continue
			}
			s, ok := strLit(cc.List[0])
			if !ok {
				continue
			}
			e := edge{s: s}
			for _, b := range cc.Body {
				as, ok := b.(*ast.AssignStmt)
				if !ok || len(as.Lhs) != 1 || len(as.Rhs) != 1 {
					continue
				}
				id, _ := as.Lhs[0].(*ast.Ident)
				v, ok := strLit(as.Rhs[0])
				if id == nil || !ok {
					continue
				}
				switch id.Name {
				case "evt":
					e.e = v
				case "destination":
					e.d = v
				}
			}
			walk = append(walk, e)
		}
		return false
	})
	// the TASK_RUNNING delay: time.AfterFunc(N*time.Millisecond, …)
	runMs := -1
	ast.Inspect(doLaunch, func(x ast.Node) bool {
		c, ok := x.(*ast.CallExpr)
		if !ok {
			return true
		}
		if sel, ok := c.Fun.(*ast.SelectorExpr); ok && sel.Sel.Name == "AfterFunc" && len(c.Args) == 2 {
			if b, ok := c.Args[0].(*ast.BinaryExpr); ok && b.Op == token.MUL {
				if l, ok := b.X.(*ast.BasicLit); ok {
					if u, ok := b.Y.(*ast.SelectorExpr); ok && u.Sel.Name == "Millisecond" {
						runMs, _ = strconv.Atoi(l.Value)
					}
				}
			}
		}
		return true
	})
	ms := func(d time.Duration) int { return int(d / time.Millisecond) }
	var b strings.Builder
	b.WriteString("namespace Gen.ExecTask\n\n")
	fmt.Fprintf(&b, "/-- executable.DONE_TIMEOUT / SIGTERM_TIMEOUT / SIGINT_TIMEOUT / KILL_TRANSITION_TIMEOUT in ms (evaluated). -/\n")
	fmt.Fprintf(&b, "def doneTimeoutMs : Nat := %d\ndef sigtermTimeoutMs : Nat := %d\ndef sigintTimeoutMs : Nat := %d\ndef killTransitionTimeoutMs : Nat := %d\n\n",
		ms(executable.DONE_TIMEOUT), ms(executable.SIGTERM_TIMEOUT), ms(executable.SIGINT_TIMEOUT), ms(executable.KILL_TRANSITION_TIMEOUT))
	fmt.Fprintf(&b, "/-- delay of the TASK_RUNNING timer armed by basicTaskBase.doLaunch, ms (go/ast). -/\ndef runningDelayMs : Int := %d\n\n", runMs)
	fmt.Fprintf(&b, "/-- capacity of pendingFinalTaskStateCh as made in doLaunch / ControllableTask.Launch (go/ast). -/\ndef pendingCapBasic : Int := %d\ndef pendingCapCtl : Int := %d\n\n",
		chanCap(doLaunch), chanCap(launch))
	b.WriteString("/-- nextTransition inside ControllableTask.Kill: (current state, event, destination) (go/ast). -/\ndef killWalk : List (String × String × String) := [")
	for i, e := range walk {
		if i > 0 {
			b.WriteString(", ")
		}
		fmt.Fprintf(&b, "(%q, %q, %q)", e.s, e.e, e.d)
	}
	b.WriteString("]\n\n")
	lb := func(v bool) string {
		if v {
			return "true"
		}
		return "false"
	}
	fmt.Fprintf(&b, "/-- does ensureBasicTaskKilled compare taskCmd.ProcessState with nil before using it (go/ast). -/\ndef stopChecksProcessStateNil : Bool := %s\n\n", lb(comparesWithNil(ensure, "ProcessState")))
	fmt.Fprintf(&b, "/-- does ensureBasicTaskKilled compare taskCmd.Process with nil before using its Pid (go/ast). -/\ndef stopChecksProcessNil : Bool := %s\n\n", lb(comparesWithNil(ensure, "Process")))
	fmt.Fprintf(&b, "/-- is every send on pendingFinalTaskStateCh in ensureBasicTaskKilled a select case next to a default (go/ast). -/\ndef stopPushNonBlocking : Bool := %s\n\n", lb(sendsNonBlocking(ensure, "pendingFinalTaskStateCh")))
	fmt.Fprintf(&b, "/-- does handleLaunchEvent return when NewTask gave nil, before calling Launch on it (go/ast). -/\ndef launchReturnsOnNilTask : Bool := %s\n\n", lb(returnsOnNilTask(hlaunch)))
	fmt.Fprintf(&b, "/-- does handleKillEvent return nil (no handler error) when the task is not in activeTasks (go/ast). -/\ndef killInactiveReturnsNil : Bool := %s\n\n", lb(notOkReturnsNil(hkill)))
	fmt.Fprintf(&b, "/-- does doLaunch keep the TASK_RUNNING timer in a field that basicTaskBase.Kill calls Stop() on (go/ast). -/\ndef basicKillStopsTimer : Bool := %s\n\n", lb(timerKeptAndStopped(doLaunch, bkill)))
	fmt.Fprintf(&b, "/-- does ControllableTask.Kill compare t.rpc with nil (go/ast). -/\ndef killChecksRpcNil : Bool := %s\n\n", lb(comparesWithNil(kill, "rpc")))
	fmt.Fprintf(&b, "/-- does basicTaskBase.Kill signal anything (a call named Kill or Signal) (go/ast). -/\ndef basicKillSignals : Bool := %s\n\n", lb(callsAny(bkill, "Kill", "Signal")))
	fmt.Fprintf(&b, "/-- does ControllableTask.Launch compare taskCmd.Process with nil before using its Pid (go/ast). -/\ndef launchChecksProcessNil : Bool := %s\n\n", lb(comparesWithNil(launch, "Process")))
	fmt.Fprintf(&b, "/-- does prepareTaskCmd give every child a process group of its own: every SysProcAttr literal has `Setpgid: true`, the constant, whatever the command's shape (go/ast). -/\ndef setpgidUnconditional : Bool := %s\n\n", lb(setpgidUnconditional(prep)))
	b.WriteString("/-! the launch-failure path of a controllable task: escalation over the process group (go/ast) -/\n\n")
	reaps := reapsBeforeEscalation(launch)
	fmt.Fprintf(&b, "/-- ControllableTask.Launch calls doTermIntKill (on its launch-failure paths). -/\ndef launchEscalates : Bool := %s\n\n", lb(reaps >= 0))
	fmt.Fprintf(&b, "/-- some `.Wait()` of ControllableTask.Launch (directly or in a goroutine it starts) comes before a doTermIntKill call: the command is reaped before / while its group is escalated. -/\ndef launchReapsBeforeEscalation : Bool := %s\n\n", lb(reaps == 1))
	fmt.Fprintf(&b, "/-- pidExists turns a negative pid (a process group) into the pid of the group leader and asks for that process only. -/\ndef pidExistsLooksAtLeader : Bool := %s\n\n", lb(pidExistsLooksAtLeader(pidEx)))
	b.WriteString("/-! how requests are served: the facts behind the model of overlapping requests (go/ast) -/\n\n")
	fmt.Fprintf(&b, "/-- handleMessageEvent makes every Transition and Trigger call from a goroutine it starts. -/\ndef messagesServedInGoroutine : Bool := %s\n\n", lb(servedInGoroutine(hmsg, "Transition", "Trigger")))
	fmt.Fprintf(&b, "/-- handleKillEvent calls Kill from a goroutine it starts. -/\ndef killServedInGoroutine : Bool := %s\n\n", lb(servedInGoroutine(hkill, "Kill")))
	fmt.Fprintf(&b, "/-- both handlers read activeTasks[…] themselves, outside the goroutines they start. -/\ndef lookupInHandler : Bool := %s\n\n", lb(lookupInHandler(hmsg) && lookupInHandler(hkill)))
	fmt.Fprintf(&b, "/-- handleKillEvent removes the entry from activeTasks only inside the goroutine. -/\ndef killRemovesEntryInGoroutine : Bool := %s\n\n", lb(entryRemovedInGoroutine(hkill)))
	fmt.Fprintf(&b, "/-- handleKillEvent looks the task up and deletes its entry from activeTasks in ONE critical section of the handler itself (same mutex, same key), and looks it up nowhere else. -/\ndef killClaimsEntryInHandler : Bool := %s\n\n", lb(claimsEntryInHandler(hkill)))
	fmt.Fprintf(&b, "/-- startBasicTask keeps the command prepareTaskCmd returned in a local variable assigned once, calls StdoutPipe/StderrPipe/Start/Wait on that variable only, and never reads the field t.taskCmd (it only assigns it). -/\ndef startOwnsCmd : Bool := %s\n\n", lb(ownsCmd(startBasic, "taskCmd")))
	fmt.Fprintf(&b, "/-- the reaper goroutine of startBasicTask copies t.taskCmd when it runs (not before it is started). -/\ndef reaperCopiesCmdInGoroutine : Bool := %s\n\n", lb(copiesFieldInGoroutine(startBasic, "taskCmd")))
	fmt.Fprintf(&b, "/-- startBasicTask calls Start() through the field t.taskCmd. -/\ndef startThroughField : Bool := %s\n\n", lb(callsThroughField(startBasic, "taskCmd", "Start")))
	fmt.Fprintf(&b, "/-- basicTaskBase.Kill sets t.taskCmd = nil. -/\ndef basicKillClearsCmd : Bool := %s\n\n", lb(assignsNilToField(bkill, "taskCmd")))
	fmt.Fprintf(&b, "/-- ensureBasicTaskKilled runs straight through: no loop, no receive, no blocking select, no Sleep/After/Wait. -/\ndef stopDoesNotWait : Bool := %s\n\n", lb(doesNotWait(ensure)))
	fmt.Fprintf(&b, "/-- startBasicTask, ensureBasicTaskKilled or basicTaskBase.Kill take a lock. -/\ndef basicTaskLocks : Bool := %s\n\n", lb(takesLock(startBasic, ensure, bkill)))
	b.WriteString("end Gen.ExecTask\n")
	return b.String(), nil
}
