package c17

// Fake OCC device: the vh binary re-executed by the task command with VH_C17_OCC=<variant>:<port>.
// It serves the real OCC gRPC service (executor/protos) with the O² state machine of a
// DIRECT-mode device: STANDBY -CONFIGURE-> CONFIGURED -START-> RUNNING -STOP-> CONFIGURED
// -RESET-> STANDBY -EXIT-> DONE.
//
//	occ      exits 0 shortly after reaching DONE; dies on SIGTERM
//	occstay  stays alive in DONE; dies on SIGTERM
//	occign   stays alive in DONE and ignores SIGTERM/SIGINT (only SIGKILL ends it)
//	occfork  like occ, but has forked a helper process into its process group
//	occfail  like occ; when released (go file) it exits 3 instead of 0
//
// Every variant exits on its own (0, occfail: 3) when the file go.<n> appears in $C17_DIR.

import (
	"context"
	"fmt"
	"net"
	"os"
	"os/exec"
	"os/signal"
	"path/filepath"
	"strconv"
	"strings"
	"sync"
	"syscall"
	"time"

	pb "github.com/AliceO2Group/Control/executor/protos"
	"google.golang.org/grpc"
)

func freePort() int {
	l, err := net.Listen("tcp", "127.0.0.1:0")
	if err != nil {
		return 0
	}
	defer l.Close()
	return l.Addr().(*net.TCPAddr).Port
}

type occDev struct {
	pb.UnimplementedOccServer
	mu      sync.Mutex
	state   string
	variant string
	quit    chan struct{}
}

var occEdges = map[string][2]string{
	"CONFIGURE": {"STANDBY", "CONFIGURED"},
	"START":     {"CONFIGURED", "RUNNING"},
	"STOP":      {"RUNNING", "CONFIGURED"},
	"RESET":     {"CONFIGURED", "STANDBY"},
	"EXIT":      {"STANDBY", "DONE"},
}

func (d *occDev) GetState(context.Context, *pb.GetStateRequest) (*pb.GetStateReply, error) {
	d.mu.Lock()
	defer d.mu.Unlock()
	return &pb.GetStateReply{State: d.state, Pid: int32(os.Getpid())}, nil
}

func (d *occDev) Transition(_ context.Context, r *pb.TransitionRequest) (*pb.TransitionReply, error) {
	d.mu.Lock()
	defer d.mu.Unlock()
	e, ok := occEdges[r.TransitionEvent]
	if !ok || e[0] != d.state {
		return &pb.TransitionReply{Trigger: pb.StateChangeTrigger_EXECUTOR, State: d.state, TransitionEvent: r.TransitionEvent, Ok: false}, nil
	}
	d.state = e[1]
	if d.state == "DONE" && (d.variant == "occ" || d.variant == "occfork" || d.variant == "occfail") {
		go func() { time.Sleep(100 * time.Millisecond); os.Exit(0) }()
	}
	return &pb.TransitionReply{Trigger: pb.StateChangeTrigger_EXECUTOR, State: d.state, TransitionEvent: r.TransitionEvent, Ok: true}, nil
}

func (d *occDev) EventStream(_ *pb.EventStreamRequest, s pb.Occ_EventStreamServer) error {
	select {
	case <-s.Context().Done():
	case <-d.quit:
	}
	return nil
}

func (d *occDev) StateStream(_ *pb.StateStreamRequest, s pb.Occ_StateStreamServer) error {
	select {
	case <-s.Context().Done():
	case <-d.quit:
	}
	return nil
}

func occMain(spec string) {
	parts := strings.SplitN(spec, ":", 2)
	if len(parts) != 2 {
		os.Exit(64)
	}
	variant := parts[0]
	port, _ := strconv.Atoi(parts[1])
	dir := os.Getenv("C17_DIR")
	// every received signal is logged (the escalation order is part of the observation); all variants but
	// occign then die of it as they would by default
	sigCh := make(chan os.Signal, 8)
	signal.Notify(sigCh, syscall.SIGTERM, syscall.SIGINT)
	go func() {
		for sg := range sigCh {
			name := "TERM"
			if sg == syscall.SIGINT {
				name = "INT"
			}
			if f, err := os.OpenFile(filepath.Join(dir, "sigs"), os.O_APPEND|os.O_CREATE|os.O_WRONLY, 0o644); err == nil {
				fmt.Fprintln(f, name)
				f.Close()
			}
			if variant != "occign" {
				signal.Reset(sg)
				_ = syscall.Kill(os.Getpid(), sg.(syscall.Signal))
			}
		}
	}()
	if variant == "occfork" {
		c := exec.Command("sleep", "300")
		_ = c.Start() // same process group, outlives us
	}
	f, err := os.OpenFile(filepath.Join(dir, "pids"), os.O_APPEND|os.O_CREATE|os.O_WRONLY, 0o644)
	if err != nil {
		os.Exit(65)
	}
	// one line: the device's pid and its process group (the wrapping shell's pid when the command runs through a shell)
	fmt.Fprintf(f, "%d %d\n", os.Getpid(), syscall.Getpgrp())
	f.Close()
	n := 1
	lis, err := net.Listen("tcp", "127.0.0.1:"+strconv.Itoa(port))
	if err != nil {
		os.Exit(66)
	}
	d := &occDev{state: "STANDBY", variant: variant, quit: make(chan struct{})}
	srv := grpc.NewServer()
	pb.RegisterOccServer(srv, d)
	go srv.Serve(lis)
	for {
		if _, err := os.Stat(filepath.Join(dir, fmt.Sprintf("go.%d", n))); err == nil {
			if variant == "occfail" {
				os.Exit(3)
			}
			os.Exit(0)
		}
		time.Sleep(20 * time.Millisecond)
	}
}
