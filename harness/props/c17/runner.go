package c17

// Child mode of the C17 harness: ONE case per process.
//
// The process is a miniature executor: the REAL executor.eventLoop with the REAL
// handlers (handleLaunchEvent / handleMessageEvent / handleKillEvent through
// buildEventHandler), real executable.NewTask and real child processes. Only the
// Mesos agent is replaced: incoming events are fed by the schedule through a fake
// decoder, outgoing calls (UPDATE, MESSAGE) are recorded by a fake sender.
//
// It talks to the parent over stdout, one line per fact, in the order observed:
//
//	OP <i> <name>            the i-th step of the schedule begins
//	EMIT <sexp>              a call left the executor: (S RUNNING|FINISHED|FAILED|KILLED) status update,
//	                         (E <final> <voluntary> <exitcode>) BASIC_TASK_TERMINATED device event
//	RES <i> <sexp>           result of step i; for an overlap (par A B): (par <result of A> <result of B>)
//	LOOPEXIT                 eventLoop returned (the executor would disconnect / exit)
//	INCONCLUSIVE <why>       harness trouble (timing inversion, ceiling on something that is not an observation)
//	HANG <i>                 step i did not complete within the generous ceiling
//	NOTIMER                  the TASK_RUNNING timer of a basic/hook task did not fire within the ceiling
//	                         (although no carried-out KILL preceded its position in the schedule)
//	ALIVE <0|1>              after the schedule: is any process of the task still alive — an announced child, anything
//	                         in an announced child's process group, anything that inherited the task's environment
//	DONE
//
// A Go panic kills this process; the parent sees the exit status and the trace on stderr.

import (
	"bufio"
	"context"
	"encoding/json"
	"fmt"
	"io"
	"os"
	"os/exec"
	"os/signal"
	"path/filepath"
	"strconv"
	"strings"
	"sync"
	"sync/atomic"
	"syscall"
	"time"

	"github.com/AliceO2Group/Control/common"
	"github.com/AliceO2Group/Control/common/controlmode"
	"github.com/AliceO2Group/Control/common/utils/uid"
	"github.com/AliceO2Group/Control/core/controlcommands"
	aliexec "github.com/AliceO2Group/Control/executor"
	"github.com/AliceO2Group/Control/executor/executable"
	"github.com/AliceO2Group/Control/executor/executorcmd"
	mesos "github.com/mesos/mesos-go/api/v1/lib"
	"github.com/mesos/mesos-go/api/v1/lib/encoding"
	"github.com/mesos/mesos-go/api/v1/lib/executor"
	"github.com/mesos/mesos-go/api/v1/lib/executor/calls"
	"github.com/sirupsen/logrus"

	"verifharness/sx"
)

const (
	envCase = "VH_C17_CASE"
	envDir  = "VH_C17_DIR"
	envOCC  = "VH_C17_OCC"
	// a task child that is the vh binary itself, exec'd directly (command shape `ex`): the value is the behaviour
	envChild = "VH_C17_CHILD"
	// generous ceilings: exceeding one is reported, never turned into a verdict by itself
	stepCeiling = 15 * time.Second
	killCeiling = 40 * time.Second
	// the delay of the TASK_RUNNING timer in basicTaskBase.doLaunch (Props/C17 proves the extracted value is not
	// smaller). Used only to recognise a run in which the timer was already due when a KILL had been carried out
	// (such a run is not the schedule that was asked for: inconclusive), never for a verdict.
	runningDelay = 200 * time.Millisecond
	// how long after LAUNCH a TASK_RUNNING that a carried-out KILL should have cancelled is still waited for
	runningWindow = 800 * time.Millisecond
	// `giveup`: the gRPC dial of ControllableTask.Launch gives up GRPC_DIAL_TIMEOUT after it began (a constant of
	// the code under test, not adjustable from outside); the launch failure is then reported (TASK_FAILED). How
	// long that report is waited for: the code's constant plus a generous margin (exceeding it = HANG, reported
	// only if it reproduces).
	dialCeiling = executorcmd.GRPC_DIAL_TIMEOUT + 20*time.Second
	// After the report the Launch goroutine tears the process group down with its TERM/INT/KILL escalation, which
	// the code bounds by SIGTERM_TIMEOUT + SIGINT_TIMEOUT. The step lasts until nothing of the task is alive, at
	// most three times that bound; what is alive then is the observation (ALIVE 1), confirmed by a second run.
	escalationWindow = 3 * (executable.SIGTERM_TIMEOUT + executable.SIGINT_TIMEOUT)
)

func init() {
	if v := os.Getenv(envOCC); v != "" {
		occMain(v)
		os.Exit(0)
	}
	if v := os.Getenv(envChild); v != "" {
		childMain(v)
		os.Exit(0)
	}
	if v := os.Getenv(envCase); v != "" {
		runnerMain(v, os.Getenv(envDir))
		os.Exit(0)
	}
}

// ---- fake agent ---------------------------------------------------------------

type rec struct {
	kind string // S, E, R (transition response), H (trigger response), L (log marker), X (loop exit)
	a, b string
	c    string
	id   string // R, H, L: the id of the command the record answers (overlapping requests are told apart by it)
}

type agent struct {
	mu      sync.Mutex
	recs    []rec
	events  chan *executor.Event
	decodes int32
	out     *bufio.Writer
	outMu   sync.Mutex
	closed  int32 // the observation is complete: what cleanup provokes is not reported
	loopErr atomic.Value
	loopEnd int32
}

func (a *agent) say(f string, args ...any) {
	if atomic.LoadInt32(&a.closed) == 1 && strings.HasPrefix(f, "EMIT") {
		return
	}
	a.outMu.Lock()
	fmt.Fprintf(a.out, f+"\n", args...)
	a.out.Flush()
	a.outMu.Unlock()
}

func (a *agent) add(r rec) {
	a.mu.Lock()
	a.recs = append(a.recs, r)
	a.mu.Unlock()
}

func (a *agent) count(pred func(rec) bool, from int) int {
	a.mu.Lock()
	defer a.mu.Unlock()
	n := 0
	for i := from; i < len(a.recs); i++ {
		if pred(a.recs[i]) {
			n++
		}
	}
	return n
}

func (a *agent) find(pred func(rec) bool, from int) (rec, bool) {
	a.mu.Lock()
	defer a.mu.Unlock()
	for i := from; i < len(a.recs); i++ {
		if pred(a.recs[i]) {
			return a.recs[i], true
		}
	}
	return rec{}, false
}

func (a *agent) mark() int {
	a.mu.Lock()
	defer a.mu.Unlock()
	return len(a.recs)
}

// Decode is called by nextEventNotify once per event; a new call means the
// previous event's handler has returned.
func (a *agent) Decode(u encoding.Unmarshaler) error {
	atomic.AddInt32(&a.decodes, 1)
	e := <-a.events
	if e == nil {
		return io.EOF
	}
	p, ok := u.(*executor.Event)
	if !ok {
		return fmt.Errorf("unexpected unmarshaler %T", u)
	}
	*p = *e
	return nil
}

func isTerminal(s string) bool { return s == "FINISHED" || s == "FAILED" || s == "KILLED" }

func shortState(s mesos.TaskState) string { return strings.TrimPrefix(s.String(), "TASK_") }

func (a *agent) Send(_ context.Context, r calls.Request) (mesos.Response, error) {
	c := r.Call()
	if c == nil {
		return nil, nil
	}
	switch c.Type {
	case executor.Call_UPDATE:
		st := "NIL"
		if c.Update != nil && c.Update.Status.State != nil {
			st = shortState(*c.Update.Status.State)
		}
		a.say("EMIT (S %s)", st)
		a.add(rec{kind: "S", a: st})
	case executor.Call_MESSAGE:
		var m map[string]any
		if err := json.Unmarshal(c.Message.Data, &m); err != nil {
			a.say("INCONCLUSIVE unparsable outgoing message")
			return nil, nil
		}
		if os.Getenv("VH_C17_DEBUG") != "" {
			fmt.Fprintf(os.Stderr, "MSG %s\n", string(c.Message.Data))
		}
		name, _ := m["name"].(string)
		id, _ := m["id"].(string)
		switch {
		case name == "MesosCommand_Transition":
			st, _ := m["state"].(string)
			es, _ := m["error"].(string)
			a.add(rec{kind: "R", a: st, b: b01(es != ""), id: id})
		case name == "MesosCommand_TriggerHook":
			es, _ := m["error"].(string)
			a.add(rec{kind: "H", b: b01(es != ""), id: id})
		case m["finalMesosState"] != nil:
			fin := "?"
			if f, ok := m["finalMesosState"].(float64); ok {
				fin = shortState(mesos.TaskState(int32(f)))
			} else if s, ok := m["finalMesosState"].(string); ok {
				fin = strings.TrimPrefix(s, "TASK_")
			}
			vol, _ := m["voluntaryTermination"].(bool)
			code := 0
			if f, ok := m["exitCode"].(float64); ok {
				code = int(f)
			}
			a.say("EMIT (E %s %s %d)", fin, b01(vol), code)
			a.add(rec{kind: "E", a: fin, b: b01(vol), c: strconv.Itoa(code)})
		default:
			// other device events / task messages (AnnounceTaskPID, END_OF_STREAM …): not part of the observation
			a.add(rec{kind: "M", a: name})
		}
	}
	return nil, nil
}

func b01(b bool) string {
	if b {
		return "1"
	}
	return "0"
}

// log markers: three handler paths end without any outgoing call; their log line is the only completion signal.
type logHook struct{ a *agent }

func (h logHook) Levels() []logrus.Level {
	return []logrus.Level{logrus.ErrorLevel, logrus.WarnLevel}
}
func (h logHook) Fire(e *logrus.Entry) error {
	// the three MESSAGE paths log the message they could not serve: its command id tells overlapping requests apart
	id := ""
	if msg, ok := e.Data["message"].(string); ok {
		id = commandID([]byte(msg))
	}
	switch {
	case strings.Contains(e.Message, "cannot unmarshal incoming MESSAGE"):
		h.a.add(rec{kind: "L", a: "norpc", id: id})
	case strings.Contains(e.Message, "no task for incoming MESSAGE"):
		h.a.add(rec{kind: "L", a: "notask", id: id})
	case strings.Contains(e.Message, "received TriggerHook for non-hook task"):
		h.a.add(rec{kind: "L", a: "nonhook", id: id})
	case strings.Contains(e.Message, "KILL for a task that is not active"):
		// handleKillEvent found no active task (logged inside the handler, before it returns); kind K so that the
		// waits of the MESSAGE steps never mistake it for their own completion signal
		h.a.add(rec{kind: "K", a: "ignored"})
	}
	return nil
}

// commandID: the "id" member of a command / response in its JSON form.
func commandID(data []byte) string {
	var m struct {
		ID string `json:"id"`
	}
	_ = json.Unmarshal(data, &m)
	return m.ID
}

// ---- the case -------------------------------------------------------------------

type runner struct {
	a       *agent
	dir     string
	kind    string
	beh     string
	shape   string // command shape: sh | sha | ex | exa (see c17.go)
	taskID  mesos.TaskID
	envID   uid.ID
	target  controlcommands.MesosCommandTarget
	started int // children whose pid line was seen
	curMark int // record index at the latest successful start
	launchT time.Time
	fed     int32 // events handed to the loop so far
	port    int
}

func (r *runner) waitFor(cond func() bool, ceiling time.Duration) bool {
	dl := time.Now().Add(ceiling)
	for {
		if cond() {
			return true
		}
		if atomic.LoadInt32(&r.a.loopEnd) == 1 && cond() {
			return true
		}
		if time.Now().After(dl) {
			return false
		}
		time.Sleep(2 * time.Millisecond)
	}
}

// waitEvery: waitFor with a coarser poll, for the long waits of `giveup` (tens of seconds, a /proc scan per look).
func waitEvery(cond func() bool, ceiling, every time.Duration) bool {
	dl := time.Now().Add(ceiling)
	for {
		if cond() {
			return true
		}
		if time.Now().After(dl) {
			return false
		}
		time.Sleep(every)
	}
}

func (r *runner) loopEnded() bool { return atomic.LoadInt32(&r.a.loopEnd) == 1 }

// feed hands one event to the event loop and waits until its handler has returned or the loop ended.
// eventLoop asks for event k+1 (a new nextEventNotify goroutine entering Decode) only after the handler of
// event k has returned, so "handler k done" = "Decode has been entered k+1 times".
func (r *runner) feed(e *executor.Event) bool {
	r.fed++
	k := r.fed
	select {
	case r.a.events <- e:
	case <-time.After(stepCeiling):
		return false
	}
	return r.waitFor(func() bool { return atomic.LoadInt32(&r.a.decodes) >= k+1 || r.loopEnded() }, stepCeiling)
}

// scriptParts: the child of a basic/hook task (and of a controllable task that never opens its port) as a
// /bin/sh script, in two parts: head + " " + tail is the script (the tail is what the shape `sha` passes as
// TaskCommandInfo.Arguments, which prepareTaskCmd joins to the value with single spaces).
func scriptParts(beh string) (string, []string) {
	// the index is taken BEFORE the child announces itself: the harness starts the next child only after the
	// announcement, so no two children can compute the same index
	pre := `n=$(( $(cat "$C17_DIR/pids" 2>/dev/null | wc -l) + 1 )); echo $$ >> "$C17_DIR/pids"; `
	wait := `while [ ! -e "$C17_DIR/go.$n" ]; do sleep 0.02; done;`
	switch beh {
	case "ok", "noport":
		return pre + wait, []string{"exit", "0"}
	case "fail":
		return pre + wait, []string{"exit", "3"}
	case "sig":
		return pre + wait, []string{"kill", "-KILL", "$$"}
	case "fork":
		return pre + "sleep 300 & " + wait, []string{"exit", "0"}
	case "ign":
		// ignores SIGTERM and SIGINT (and so does everything it starts): only SIGKILL ends it before its time
		return "trap '' TERM INT; " + pre + wait, []string{"exit", "0"}
	}
	if lead, members, ok := groupOf(beh); ok {
		// a controllable task that never opens its control port and whose process GROUP has members with signal
		// dispositions of their own (the vh binary as helper, see helperMain); the members are up — dispositions
		// set — before the leader announces itself
		h := ""
		if lead == "ignall" {
			h = "trap '' TERM INT; "
		}
		for _, d := range members {
			h += envCase + "= " + envDir + "= " + envOCC + "= " + envChild + `=helper:` + d + ` "$C17_VH" & `
		}
		h += fmt.Sprintf(`while [ $(ls "$C17_DIR" | grep -c '^helper\.') -lt %d ]; do sleep 0.02; done; `, len(members))
		return h + pre + wait, []string{"exit", "0"}
	}
	return "exit", []string{"0"}
}

// groupOf: the process group of a controllable task that never becomes ready — how the group LEADER (the command
// the executor started: the wrapping shell, or the binary exec'd directly) and the other members of the group treat
// SIGTERM and SIGINT:
//
//	obey    dies of SIGTERM (and of SIGINT)
//	ignterm ignores SIGTERM, dies of SIGINT
//	ignall  ignores SIGTERM and SIGINT: only SIGKILL ends it
//
// `noport` is the group of one (a leader that obeys).
func groupOf(beh string) (leader string, members []string, ok bool) {
	switch beh {
	case "noport":
		return "obey", nil, true
	case "noportfork":
		return "obey", []string{"obey"}, true
	case "noportkid":
		return "obey", []string{"ignall"}, true
	case "noportkidt":
		return "obey", []string{"ignterm"}, true
	case "noportign":
		return "ignall", []string{"ignall"}, true
	case "noportmix":
		return "obey", []string{"obey", "ignterm", "ignall"}, true
	}
	return "", nil, false
}

// unready: the behaviours of a controllable task that never opens its control port
func unready(beh string) bool { _, _, ok := groupOf(beh); return ok }

// helperMain: a member of a task's process group that is not its leader (VH_C17_CHILD=helper:<disposition>, started
// by the leader without a group of its own). It sets its dispositions, says so (file helper.<pid>), and lives for at
// most 300 s. SIGINT is taken through os/signal so that the disposition does not depend on how the helper was
// started (a shell without job control starts `cmd &` with SIGINT ignored).
func helperMain(disp string) {
	ch := make(chan os.Signal, 1)
	switch disp {
	case "ignall":
		signal.Ignore(syscall.SIGTERM, syscall.SIGINT)
	case "ignterm":
		signal.Ignore(syscall.SIGTERM)
		signal.Notify(ch, syscall.SIGINT)
	default:
		signal.Notify(ch, syscall.SIGINT)
	}
	_ = os.WriteFile(filepath.Join(os.Getenv("C17_DIR"), fmt.Sprintf("helper.%d", os.Getpid())), nil, 0o644)
	select {
	case <-ch:
		os.Exit(130)
	case <-time.After(300 * time.Second):
	}
	os.Exit(0)
}

func script(beh string) string {
	h, t := scriptParts(beh)
	return h + " " + strings.Join(t, " ")
}

// childMain: the same behaviours as the scripts, as a real binary that is exec'd directly without arguments
// (command shape `ex`: the vh binary itself, told what to do through its environment).
func childMain(beh string) {
	if d, ok := strings.CutPrefix(beh, "helper:"); ok {
		helperMain(d)
		return
	}
	dir := os.Getenv("C17_DIR")
	if lead, members, ok := groupOf(beh); ok && beh != "noport" {
		// the same groups as the scripts build: the members first (same process group), then the announcement
		if lead == "ignall" {
			signal.Ignore(syscall.SIGTERM, syscall.SIGINT)
		}
		self, _ := os.Executable()
		for _, d := range members {
			c := exec.Command(self)
			c.Env = append(os.Environ(), envChild+"=helper:"+d)
			_ = c.Start()
		}
		for {
			ents, _ := os.ReadDir(dir)
			n := 0
			for _, e := range ents {
				if strings.HasPrefix(e.Name(), "helper.") {
					n++
				}
			}
			if n >= len(members) {
				break
			}
			time.Sleep(20 * time.Millisecond)
		}
	}
	b, _ := os.ReadFile(filepath.Join(dir, "pids"))
	n := strings.Count(string(b), "\n") + 1
	f, err := os.OpenFile(filepath.Join(dir, "pids"), os.O_APPEND|os.O_CREATE|os.O_WRONLY, 0o644)
	if err != nil {
		os.Exit(65)
	}
	fmt.Fprintf(f, "%d\n", os.Getpid())
	f.Close()
	if beh == "fork" {
		c := exec.Command("sleep", "300")
		_ = c.Start() // same process group, outlives us
	}
	if beh == "ign" {
		signal.Ignore(syscall.SIGTERM, syscall.SIGINT)
	}
	for {
		if _, err := os.Stat(filepath.Join(dir, fmt.Sprintf("go.%d", n))); err == nil {
			break
		}
		time.Sleep(20 * time.Millisecond)
	}
	switch beh {
	case "fail":
		os.Exit(3)
	case "sig":
		_ = syscall.Kill(os.Getpid(), syscall.SIGKILL)
		time.Sleep(time.Minute)
	}
	os.Exit(0)
}

// taskInfo builds the TaskInfo of the one task of the case. The command shape decides how the SAME child
// behaviour is expressed as a TaskCommandInfo:
//
//	sh   shell=true,  value = the whole script / the device binary, no arguments
//	sha  shell=true,  value = head of the script / the device binary, arguments = the rest (joined by prepareTaskCmd)
//	ex   shell=false, value = a real binary exec'd directly without arguments (the vh binary in child mode)
//	exa  shell=false, value = a real binary exec'd directly with arguments (/bin/sh -c <script>; the device binary
//	     with two arguments it ignores)
//
// A command that cannot be started (`nobin`) has no shell form (the shell would start and exit 127): ex / exa only.
func (r *runner) taskInfo() mesos.TaskInfo {
	tr, fa := true, false
	tci := common.TaskCommandInfo{}
	self, _ := os.Executable()
	// C17_DIR marks everything the task starts (survivors scan); C17_VH is where a script finds the helper binary
	tci.Env = []string{"C17_DIR=" + r.dir, "C17_VH=" + self}
	switch r.kind {
	case "basic":
		tci.ControlMode = controlmode.BASIC
	case "hook":
		tci.ControlMode = controlmode.HOOK
	default:
		tci.ControlMode = controlmode.DIRECT
		tci.ControlPort = uint64(r.port)
	}
	shell := r.shape == "sh" || r.shape == "sha"
	args := r.shape == "sha" || r.shape == "exa"
	tci.Shell = &fa
	if shell {
		tci.Shell = &tr
	}
	switch {
	case r.beh == "nobin":
		v := filepath.Join(r.dir, "no-such-binary")
		tci.Shell, tci.Value = &fa, &v
		if args {
			tci.Arguments = []string{"--never", "started"}
		}
	case strings.HasPrefix(r.beh, "occ"):
		v := self
		tci.Value = &v
		if args {
			tci.Arguments = []string{"c17-occ-device", r.beh}
		}
		tci.Env = append(tci.Env, envOCC+"="+r.beh+":"+strconv.Itoa(r.port), envCase+"=", envDir+"=")
	default:
		h, t := scriptParts(r.beh)
		switch r.shape {
		case "sha":
			tci.Value, tci.Arguments = &h, t
		case "ex":
			v := self
			tci.Value = &v
			tci.Env = append(tci.Env, envChild+"="+r.beh, envCase+"=", envDir+"=", envOCC+"=")
		case "exa":
			v, sc := "/bin/sh", script(r.beh)
			tci.Value, tci.Arguments = &v, []string{"-c", sc}
		default:
			v := script(r.beh)
			tci.Value = &v
		}
	}
	data, _ := json.Marshal(&tci)
	envS := r.envID.String()
	ti := mesos.TaskInfo{
		Name:     "c17task",
		TaskID:   r.taskID,
		AgentID:  mesos.AgentID{Value: "agent"},
		Executor: &mesos.ExecutorInfo{ExecutorID: mesos.ExecutorID{Value: "exec"}},
		Data:     data,
		Labels:   &mesos.Labels{Labels: []mesos.Label{{Key: "environmentId", Value: &envS}}},
	}
	if r.kind == "nodata" {
		ti.Data = nil
	}
	return ti
}

// pidFile reads the announcements of the children: one line per child, each line the ids the child has to be
// looked for under (its pid; the fake device adds its process group, which is the wrapping shell's pid when the
// command runs through a shell).
func pidFile(dir string) (children int, ids []int) {
	b, _ := os.ReadFile(filepath.Join(dir, "pids"))
	seen := map[int]bool{}
	for _, l := range strings.Split(string(b), "\n") {
		any := false
		for _, f := range strings.Fields(l) {
			if p, err := strconv.Atoi(f); err == nil && p > 1 {
				any = true
				if !seen[p] {
					seen[p] = true
					ids = append(ids, p)
				}
			}
		}
		if any {
			children++
		}
	}
	return children, ids
}

func (r *runner) nChildren() int { n, _ := pidFile(r.dir); return n }

// survivors: the live (non-zombie) processes that belong to the task of this case, however the code under test
// arranged them: a process that IS an announced child, a process whose process GROUP is an announced id (what a
// child forked stays in its group), and any process that carries the task's environment (C17_DIR=<dir> is set in
// TaskCommandInfo.Env only, so exactly the task's children and what they forked inherit it). The check does not
// assume that a child leads a process group of its own. This process and its own group are never counted.
func survivors(dir string, ids []int) []int {
	self, selfGrp := os.Getpid(), syscall.Getpgrp()
	want := map[int]bool{}
	for _, p := range ids {
		want[p] = true
	}
	marker := "C17_DIR=" + dir
	var out []int
	ents, _ := os.ReadDir("/proc")
	for _, e := range ents {
		pid, err := strconv.Atoi(e.Name())
		if err != nil || pid == self || pid <= 1 {
			continue
		}
		b, err := os.ReadFile("/proc/" + e.Name() + "/stat")
		if err != nil {
			continue
		}
		s := string(b)
		i := strings.LastIndexByte(s, ')')
		if i < 0 {
			continue
		}
		f := strings.Fields(s[i+1:])
		if len(f) < 3 || f[0] == "Z" || f[0] == "X" {
			continue
		}
		pgrp, _ := strconv.Atoi(f[2])
		if want[pid] || (pgrp != selfGrp && want[pgrp]) {
			out = append(out, pid)
			continue
		}
		env, err := os.ReadFile("/proc/" + e.Name() + "/environ")
		if err != nil || !strings.Contains(string(env), marker) {
			continue
		}
		for _, kv := range strings.Split(string(env), "\x00") {
			if kv == marker {
				out = append(out, pid)
				break
			}
		}
	}
	return out
}

// killAll: SIGKILL for every announced group (never this process's own), every announced pid and every survivor.
func killAll(dir string) {
	_, ids := pidFile(dir)
	self, selfGrp := os.Getpid(), syscall.Getpgrp()
	for _, p := range ids {
		if p != selfGrp && p != self {
			_ = syscall.Kill(-p, syscall.SIGKILL)
			_ = syscall.Kill(p, syscall.SIGKILL)
		}
	}
	for _, p := range survivors(dir, ids) {
		_ = syscall.Kill(p, syscall.SIGKILL)
	}
}

func (r *runner) transitionMsg(src, evt, dst string) []byte {
	cmd := controlcommands.NewMesosCommand_Transition(r.envID, []controlcommands.MesosCommandTarget{r.target}, src, evt, dst, nil)
	b, _ := json.Marshal(cmd.MakeSingleTarget(r.target))
	return b
}

func (r *runner) triggerMsg() []byte {
	cmd := controlcommands.NewMesosCommand_TriggerHook(r.envID, []controlcommands.MesosCommandTarget{r.target})
	b, _ := json.Marshal(cmd.MakeSingleTarget(r.target))
	return b
}

type stepOutcome int

const (
	stepOK stepOutcome = iota
	stepHang
	stepLoopExit
	stepInconclusive
)

// message feeds a MESSAGE event and waits for the handler goroutine's completion signal.
func (r *runner) message(i int, data []byte, respKind string, spawns bool) stepOutcome {
	m := r.a.mark()
	if !r.feed(&executor.Event{Type: executor.Event_MESSAGE, Message: &executor.Event_Message{Data: data}}) {
		return stepHang
	}
	var got rec
	ok := r.waitFor(func() bool {
		var f bool
		got, f = r.a.find(func(x rec) bool { return x.kind == respKind || x.kind == "L" }, m)
		return f
	}, stepCeiling)
	if !ok {
		return stepHang
	}
	if got.kind == "L" {
		r.a.say("RES %d %s", i, got.a)
		return stepOK
	}
	if respKind == "R" {
		r.a.say("RES %d (r %s %s)", i, got.a, got.b)
	} else {
		r.a.say("RES %d (h %s)", i, got.b)
	}
	// a successful start spawns a child: wait until it has registered itself
	if spawns && got.b == "0" && (respKind == "H" || got.a == "RUNNING") {
		if o := r.childRegistered(); o != stepOK {
			return o
		}
	}
	return stepOK
}

// childRegistered waits for the pid line of the child that was just spawned.
func (r *runner) childRegistered() stepOutcome {
	want := r.started + 1
	if !r.waitFor(func() bool { return r.nChildren() >= want }, stepCeiling) {
		r.a.say("INCONCLUSIVE child did not register")
		return stepInconclusive
	}
	r.started = want
	r.curMark = r.a.mark()
	return stepOK
}

// ---- overlapping requests --------------------------------------------------------

// isRequest: the steps that are requests of the core (events delivered to the executor), as opposed to the
// asynchronous happenings `tick` and `await`.
func isRequest(op string) bool {
	switch op {
	case "start", "stop", "conf", "trigger", "kill":
		return true
	}
	return false
}

// spawnsChild: does the request start a child when it is served (START of a basic task, trigger of a hook)?
func spawnsChild(kind, op string) bool {
	return (kind == "basic" && op == "start") || (kind == "hook" && op == "trigger")
}

// parOK: the overlaps the harness can observe and the model describes. Left out: two requests that both start
// a child (which of the two children the task then refers to is not observable from outside: both write
// t.taskCmd), and an overlapping KILL of a controllable task (ControllableTask.Kill is a long conversation with
// the device — GetState, the teardown walk, Close, the wait and the escalation — whose interleavings with a
// second request are not described by the model; see notes/C17.md for what was seen).
func parOK(kind, a, b string) bool {
	if !isRequest(a) || !isRequest(b) || (spawnsChild(kind, a) && spawnsChild(kind, b)) {
		return false
	}
	return !(kind == "ctl" && (a == "kill" || b == "kill"))
}

type pendingReq struct {
	op   string
	id   string // command id of a MESSAGE request
	resp string // R | H | K
}

// issue hands the event of one request to the event loop and returns as soon as the loop has TAKEN it (its
// nextEventNotify goroutine was waiting in Decode). It does not wait for the handler: the next event can be
// offered at once and is then already waiting when eventLoop asks for it after this event's handler returned —
// back-to-back delivery, as when the agent's stream carries two events in one chunk. The real handlers
// (handleMessageEvent, handleKillEvent) look the task up and serve the request in a goroutine of their own, so
// the first request is in general still being served when the second one is handled.
func (r *runner) issue(op string) (pendingReq, bool) {
	p, e := r.request(op)
	r.fed++
	dl := time.Now().Add(stepCeiling)
	for {
		select {
		case r.a.events <- e:
			return p, true
		case <-time.After(5 * time.Millisecond):
		}
		if r.loopEnded() {
			p.resp = "dead"
			return p, true
		}
		if time.Now().After(dl) {
			return p, false
		}
	}
}

func (r *runner) request(op string) (pendingReq, *executor.Event) {
	var data []byte
	p := pendingReq{op: op, resp: "R"}
	switch op {
	case "start":
		data = r.transitionMsg("CONFIGURED", "START", "RUNNING")
	case "stop":
		data = r.transitionMsg("RUNNING", "STOP", "CONFIGURED")
	case "conf":
		data = r.transitionMsg("STANDBY", "CONFIGURE", "CONFIGURED")
	case "trigger":
		data, p.resp = r.triggerMsg(), "H"
	case "kill":
		p.resp = "K"
		return p, &executor.Event{Type: executor.Event_KILL, Kill: &executor.Event_Kill{TaskID: r.taskID}}
	}
	p.id = commandID(data)
	return p, &executor.Event{Type: executor.Event_MESSAGE, Message: &executor.Event_Message{Data: data}}
}

func pidLive(pid int) bool {
	b, err := os.ReadFile("/proc/" + strconv.Itoa(pid) + "/stat")
	if err != nil {
		return false
	}
	s := string(b)
	i := strings.LastIndexByte(s, ')')
	if i < 0 {
		return false
	}
	f := strings.Fields(s[i+1:])
	return len(f) > 0 && f[0] != "Z" && f[0] != "X"
}

// latestChild: the pid the latest registered child announced (first id of the last line of the pid file).
func latestChild(dir string) int {
	b, _ := os.ReadFile(filepath.Join(dir, "pids"))
	ls := strings.Split(strings.TrimSpace(string(b)), "\n")
	if len(ls) == 0 {
		return 0
	}
	f := strings.Fields(ls[len(ls)-1])
	if len(f) == 0 {
		return 0
	}
	p, _ := strconv.Atoi(f[0])
	return p
}

// overlap: request B is delivered while request A is still being served — as far as the code under test lets it
// be: A's event is fed, and as soon as A's HANDLER has returned (the request itself runs on in the goroutine the
// handler started) B's event is fed; only then are the completion signals of both awaited. Nothing of the task
// is touched by the harness: both requests go through eventLoop and the real handlers.
// Result line: RES i (par rA rB). The second value: a KILL of the pair was carried out.
func (r *runner) overlap(i int, opA, opB string) (stepOutcome, bool) {
	a := r.a
	m := a.mark()
	wasRunning := r.kind == "basic" && r.started > 0 && a.count(func(x rec) bool { return x.kind == "E" }, r.curMark) == 0
	child := latestChild(r.dir)
	pa, ok := r.issue(opA)
	if !ok {
		return stepHang, false
	}
	pb, ok := r.issue(opB)
	if !ok {
		return stepHang, false
	}
	// both handlers have returned when eventLoop asks for the event after B's
	k := r.fed
	if !r.waitFor(func() bool { return atomic.LoadInt32(&r.a.decodes) >= k+1 || r.loopEnded() }, stepCeiling) {
		return stepHang, false
	}
	reqs := []pendingReq{pa, pb}
	// KILLs: one that found no active task was logged inside its handler (already returned); the others were
	// carried out = Kill() was called = a terminal status follows. A's look-up precedes B's: if one of two was
	// refused it is B.
	nKill := 0
	for _, p := range reqs {
		if p.resp == "K" {
			nKill++
		}
	}
	refused := a.count(func(x rec) bool { return x.kind == "K" }, m)
	if r.loopEnded() && nKill > 0 {
		// a KILL ended the event loop (the code before `kill_inactive_ends_loop` was repaired)
		refused = 0
	}
	carried := nKill - refused
	if carried < 0 {
		a.say("INCONCLUSIVE more refused KILLs than KILLs")
		return stepInconclusive, false
	}
	res := make([]string, 2)
	for k, p := range reqs {
		switch p.resp {
		case "dead":
			res[k] = "dead"
		case "K":
			// filled in below
		default:
			var got rec
			found := r.waitFor(func() bool {
				var f bool
				got, f = a.find(func(x rec) bool { return (x.kind == p.resp || x.kind == "L") && x.id == p.id }, m)
				return f
			}, killCeiling)
			if !found {
				return stepHang, false
			}
			switch {
			case got.kind == "L":
				res[k] = got.a
			case p.resp == "R":
				res[k] = fmt.Sprintf("(r %s %s)", got.a, got.b)
			default:
				res[k] = fmt.Sprintf("(h %s)", got.b)
			}
		}
	}
	if carried > 0 {
		if !r.waitFor(func() bool {
			return a.count(func(x rec) bool { return x.kind == "S" && isTerminal(x.a) }, m) >= carried
		}, killCeiling) {
			return stepHang, false
		}
	}
	left := carried
	for k, p := range reqs {
		if p.resp != "K" {
			continue
		}
		switch {
		case r.loopEnded() && left == 0:
			res[k] = "loopexit"
		case left > 0:
			res[k] = "ok"
			left--
		default:
			res[k] = "ignored"
		}
	}
	if carried > 0 && (spawnsChild(r.kind, opA) || spawnsChild(r.kind, opB)) {
		// startBasicTask answers right after it has started its reaper goroutine; what that goroutine does first
		// (it reads t.taskCmd, which a KILL clears) belongs to this step: give it time to be scheduled
		time.Sleep(40 * time.Millisecond)
	}
	a.say("RES %d (par %s %s)", i, res[0], res[1])
	// What the requests left behind. A STOP of a basic task signals the group of the child it finds BEFORE it
	// answers, and both answers are in: a child that was signalled is dead, dying or has SIGKILL pending, and its
	// reaper then reports it (BASIC_TASK_TERMINATED) — that report belongs to this step.
	stopToo := r.kind == "basic" && (opA == "stop" || opB == "stop")
	reports := func() int { return a.count(func(x rec) bool { return x.kind == "E" }, m) }
	expect := 0
	if wasRunning && stopToo && child > 0 && r.signalled(child) {
		expect++
		if !r.waitFor(func() bool { return reports() >= expect }, stepCeiling) {
			a.say("INCONCLUSIVE stopped child was not reaped")
			return stepInconclusive, false
		}
	}
	// a START / trigger that was served started a child: wait until it has registered itself — or, when the STOP
	// of the same pair killed it before it could, until it has been reaped
	for k, p := range reqs {
		if !spawnsChild(r.kind, p.op) || !(res[k] == "(r RUNNING 0)" || res[k] == "(h 0)") {
			continue
		}
		want := r.started + 1
		if !r.waitFor(func() bool { return r.nChildren() >= want || (stopToo && reports() > expect) }, stepCeiling) {
			a.say("INCONCLUSIVE child did not register")
			return stepInconclusive, false
		}
		if r.nChildren() >= want {
			r.started = want
			r.curMark = a.mark()
			if c := latestChild(r.dir); stopToo && reports() == expect && r.signalled(c) {
				if !r.waitFor(func() bool { return reports() > expect }, stepCeiling) {
					a.say("INCONCLUSIVE stopped child was not reaped")
					return stepInconclusive, false
				}
			}
		}
	}
	return stepOK, carried > 0
}

// killPending: is SIGKILL pending for the process (sent, not yet acted upon)?
func killPending(pid int) bool {
	b, err := os.ReadFile("/proc/" + strconv.Itoa(pid) + "/status")
	if err != nil {
		return false
	}
	for _, l := range strings.Split(string(b), "\n") {
		if strings.HasPrefix(l, "SigPnd:") || strings.HasPrefix(l, "ShdPnd:") {
			f := strings.Fields(l)
			if len(f) == 2 {
				if v, err := strconv.ParseUint(f[1], 16, 64); err == nil && v&(1<<(uint(syscall.SIGKILL)-1)) != 0 {
					return true
				}
			}
		}
	}
	return false
}

// signalled: has the process been SIGKILLed? Dead or a zombie: yes. SIGKILL pending: yes, wait for it to die.
// Alive without a pending SIGKILL for 150 ms: no (between taking the signal and becoming a zombie a process
// only runs kernel exit code).
func (r *runner) signalled(pid int) bool {
	dl := time.Now().Add(150 * time.Millisecond)
	for {
		if !pidLive(pid) {
			return true
		}
		if killPending(pid) {
			return r.waitFor(func() bool { return !pidLive(pid) }, stepCeiling)
		}
		if time.Now().After(dl) {
			return false
		}
		time.Sleep(2 * time.Millisecond)
	}
}

func runnerMain(input, dir string) {
	logrus.SetOutput(io.Discard)
	logrus.SetLevel(logrus.WarnLevel)
	a := &agent{events: make(chan *executor.Event), out: bufio.NewWriter(os.Stdout)}
	logrus.AddHook(logHook{a})
	in, err := sx.Parse(input)
	if err != nil || (in.Len() != 3 && in.Len() != 4) {
		a.say("INCONCLUSIVE bad input")
		return
	}
	r := &runner{a: a, dir: dir, kind: in.At(0).Str(), beh: in.At(1).Str(),
		taskID: mesos.TaskID{Value: "task-1"}, envID: uid.New()}
	r.shape = shapeOf(in)
	if !validShape(r.kind, r.beh, r.shape) {
		a.say("INCONCLUSIVE bad command shape")
		return
	}
	r.target = controlcommands.MesosCommandTarget{AgentId: mesos.AgentID{Value: "agent"}, ExecutorId: mesos.ExecutorID{Value: "exec"}, TaskId: r.taskID}
	if r.kind == "ctl" {
		r.port = freePort()
	}
	defer func() { killAll(r.dir) }()

	go func() {
		err := aliexec.RunEventLoopForVerif(a, a)
		a.add(rec{kind: "X"})
		if err != nil {
			a.loopErr.Store(err.Error())
		}
		a.say("LOOPEXIT")
		atomic.StoreInt32(&a.loopEnd, 1)
	}()

	ops := in.At(2)
	sawRunning := func() bool { return a.count(func(x rec) bool { return x.kind == "S" && x.a == "RUNNING" }, 0) > 0 }
	terminalSeen := func() bool { return a.count(func(x rec) bool { return x.kind == "S" && isTerminal(x.a) }, 0) > 0 }
	launched := false
	ticked := false
	// the go file of the (only) child of a controllable task that is not ready has been written
	released := false
	// a KILL was carried out before the timer's position in the schedule and no TASK_RUNNING came afterwards:
	// the timer has been cancelled, `tick` and the end of the schedule have nothing to wait for
	timerDead := false
	basicLike := r.kind == "basic" || r.kind == "hook"
	// the TASK_RUNNING timer of a basic/hook task is scheduled by wall clock (200 ms after Launch); the schedule
	// gives it a position (`tick`, or the very end). If it fired before that position the run is not the
	// schedule that was asked for: inconclusive, never a verdict.
	early := func() bool { return basicLike && !ticked && sawRunning() }
	// afterKill: a KILL of a basic/hook task has just been carried out (its terminal status was seen).
	afterKill := func() bool {
		if basicLike && !ticked {
			// The KILL was carried out before the timer's position. Whether the timer still fires is an
			// observation: absent = cancelled; present although the terminal status was out before the timer
			// was due = reported after the terminal status (it is in the emissions, in order). If the timer was
			// already due when the terminal status was seen, the run is not the schedule that was asked for.
			raced := time.Since(r.launchT) >= runningDelay
			left := time.Until(r.launchT.Add(runningWindow))
			if left < 100*time.Millisecond {
				left = 100 * time.Millisecond
			}
			fired := r.waitFor(sawRunning, left)
			if fired && raced {
				a.say("INCONCLUSIVE running timer was due while the kill was carried out")
				return false
			}
			ticked = true
			timerDead = !fired
		}
		return true
	}
	end := func(i int, o stepOutcome) bool {
		switch o {
		case stepHang:
			a.say("HANG %d", i)
			return true
		case stepInconclusive:
			return true
		}
		return false
	}
	// step 0 is always the LAUNCH of the one task of this case
	a.say("OP 0 launch")
	if !r.feed(&executor.Event{Type: executor.Event_SUBSCRIBED, Subscribed: &executor.Event_Subscribed{
		ExecutorInfo: mesos.ExecutorInfo{ExecutorID: mesos.ExecutorID{Value: "exec"}},
		AgentInfo:    mesos.AgentInfo{Hostname: "localhost"}}}) {
		a.say("HANG 0")
		return
	}
	r.launchT = time.Now()
	if !r.feed(&executor.Event{Type: executor.Event_LAUNCH, Launch: &executor.Event_Launch{Task: r.taskInfo()}}) {
		a.say("HANG 0")
		return
	}
	if r.loopEnded() {
		a.say("RES 0 loopexit")
	} else {
		launched = true
		if r.kind == "nodata" {
			// NewTask has queued TASK_FAILED before the handler returned; it leaves the executor on a later
			// iteration of the loop (sendFailedTasks). Wait for it, so that it is not mistaken for the answer to a
			// later request.
			if !r.waitFor(func() bool {
				return r.loopEnded() || a.count(func(x rec) bool { return x.kind == "S" && isTerminal(x.a) }, 0) > 0
			}, stepCeiling) {
				a.say("INCONCLUSIVE no status for a task without data")
				return
			}
		}
		if r.kind == "ctl" {
			// the child is started asynchronously: wait until the device is ready (occ*: TASK_RUNNING sent),
			// or, for a child that never opens its control port, until it has registered itself,
			// or until the launch failed (terminal status)
			ready := strings.HasPrefix(r.beh, "occ")
			if !r.waitFor(func() bool {
				if a.count(func(x rec) bool { return x.kind == "S" && isTerminal(x.a) }, 0) > 0 {
					return true
				}
				if ready {
					return sawRunning()
				}
				return r.nChildren() >= 1
			}, stepCeiling) {
				a.say("INCONCLUSIVE controllable child did not come up")
				return
			}
			if r.nChildren() >= 1 {
				r.started = 1
				r.curMark = a.mark()
			} else {
				// the launch failed before a child existed; what the Launch goroutine does after reporting that
				// (as the code stands: it panics) is asynchronous — give it a moment to land inside this step
				time.Sleep(time.Second)
			}
		}
		a.say("RES 0 ok")
	}
	for j := 0; j < ops.Len(); j++ {
		i := j + 1
		op := ops.At(j).Str()
		if ops.At(j).IsList {
			op = "par"
		}
		a.say("OP %d %s", i, op)
		if r.loopEnded() {
			// the executor's event loop is gone: nothing can be delivered any more
			if op == "par" {
				a.say("RES %d (par dead dead)", i)
			} else {
				a.say("RES %d dead", i)
			}
			continue
		}
		if early() {
			a.say("INCONCLUSIVE running timer fired before its position in the schedule")
			return
		}
		switch op {
		case "start":
			if end(i, r.message(i, r.transitionMsg("CONFIGURED", "START", "RUNNING"), "R", r.kind == "basic")) {
				return
			}
		case "stop":
			wasRunning := r.kind == "basic" && r.started > 0 && a.count(func(x rec) bool { return x.kind == "E" }, r.curMark) == 0
			m := a.mark()
			if end(i, r.message(i, r.transitionMsg("RUNNING", "STOP", "CONFIGURED"), "R", false)) {
				return
			}
			if got, ok := a.find(func(x rec) bool { return x.kind == "R" }, m); ok && wasRunning && got.b == "0" {
				// a STOP that killed a running child (not reachable in the code as it stands: it panics first)
				if !r.waitFor(func() bool { return a.count(func(x rec) bool { return x.kind == "E" }, m) > 0 }, stepCeiling) {
					a.say("INCONCLUSIVE stopped child was not reaped")
					return
				}
			}
		case "conf":
			if end(i, r.message(i, r.transitionMsg("STANDBY", "CONFIGURE", "CONFIGURED"), "R", false)) {
				return
			}
		case "trigger":
			if end(i, r.message(i, r.triggerMsg(), "H", r.kind == "hook")) {
				return
			}
		case "tick":
			// basic/hook: the 200 ms TASK_RUNNING timer armed by Launch; ctl: the device reached STANDBY
			if !launched || !basicLike {
				a.say("RES %d none", i)
				break
			}
			if timerDead {
				a.say("RES %d ok", i)
				break
			}
			ticked = true
			if !r.waitFor(func() bool { return sawRunning() || r.loopEnded() }, stepCeiling) {
				a.say("HANG %d", i)
				return
			}
			a.say("RES %d ok", i)
		case "kill":
			m := a.mark()
			hadTerminal := a.count(func(x rec) bool { return x.kind == "S" && isTerminal(x.a) }, 0) > 0
			if !r.feed(&executor.Event{Type: executor.Event_KILL, Kill: &executor.Event_Kill{TaskID: r.taskID}}) {
				a.say("HANG %d", i)
				return
			}
			if r.loopEnded() {
				a.say("RES %d loopexit", i)
				break
			}
			if hadTerminal {
				// The task's terminal status is already out and the loop survived the request (not what the code
				// as it stands does): nothing more is owed. Leave a moment for anything that still comes.
				time.Sleep(250 * time.Millisecond)
				a.say("RES %d ignored", i)
				break
			}
			if !r.waitFor(func() bool {
				return a.count(func(x rec) bool { return x.kind == "S" && isTerminal(x.a) }, m) > 0
			}, killCeiling) {
				a.say("HANG %d", i)
				return
			}
			if !afterKill() {
				return
			}
			a.say("RES %d ok", i)
		case "await":
			// let the latest child end on its own
			if r.kind == "ctl" && !strings.HasPrefix(r.beh, "occ") {
				// a controllable task that is not ready (still dialling): nobody waits for its command. The group
				// leader ends (exit 0) and stays a zombie; the other members of its group live on.
				if r.started == 0 || released || terminalSeen() {
					a.say("RES %d none", i)
					break
				}
				leader := latestChild(r.dir)
				_ = os.WriteFile(filepath.Join(r.dir, fmt.Sprintf("go.%d", r.started)), nil, 0o644)
				released = true
				if !r.waitFor(func() bool { return !pidLive(leader) }, stepCeiling) {
					a.say("HANG %d", i)
					return
				}
				a.say("RES %d ok", i)
				break
			}
			if r.started == 0 || (r.kind == "ctl" && !sawRunning()) || a.count(func(x rec) bool { return x.kind == "E" || (r.kind == "ctl" && x.kind == "S" && isTerminal(x.a)) }, r.curMark) > 0 {
				a.say("RES %d none", i)
				break
			}
			m := a.mark()
			_ = os.WriteFile(filepath.Join(r.dir, fmt.Sprintf("go.%d", r.started)), nil, 0o644)
			if !r.waitFor(func() bool {
				return a.count(func(x rec) bool { return x.kind == "E" || (r.kind == "ctl" && x.kind == "S" && isTerminal(x.a)) }, m) > 0
			}, stepCeiling) {
				a.say("HANG %d", i)
				return
			}
			a.say("RES %d ok", i)
		case "giveup":
			// The gRPC dial of ControllableTask.Launch gives up (GRPC_DIAL_TIMEOUT after it began): the launch of a
			// controllable task whose control port never opened fails. Like `tick`, an asynchronous happening of the
			// code under test that the schedule gives a position; every other task has no dial in progress.
			if !launched || r.kind != "ctl" || !unready(r.beh) || r.started == 0 || terminalSeen() {
				a.say("RES %d none", i)
				break
			}
			if !waitEvery(terminalSeen, time.Until(r.launchT.Add(dialCeiling)), 20*time.Millisecond) {
				a.say("HANG %d", i)
				return
			}
			// the failure is reported; the Launch goroutine now terminates the task's process group (TERM, INT,
			// KILL, bounded by the code's two timeouts). The step is over when nothing of the task is alive.
			_, ids := pidFile(r.dir)
			waitEvery(func() bool { return len(survivors(r.dir, ids)) == 0 }, escalationWindow, 100*time.Millisecond)
			a.say("RES %d ok", i)
		case "par":
			el := ops.At(j)
			if el.Len() != 3 || el.At(0).Str() != "par" || !parOK(r.kind, el.At(1).Str(), el.At(2).Str()) {
				a.say("INCONCLUSIVE unsupported overlap %s", el.String())
				return
			}
			o, killed := r.overlap(i, el.At(1).Str(), el.At(2).Str())
			if end(i, o) {
				return
			}
			if killed && !afterKill() {
				return
			}
		default:
			a.say("INCONCLUSIVE unknown op %s", op)
			return
		}
	}
	a.say("OP %d end", ops.Len()+1)
	// final settle: the armed TASK_RUNNING timer of a basic/hook task always fires
	if launched && basicLike && !timerDead && !r.loopEnded() {
		if early() {
			a.say("INCONCLUSIVE running timer fired before its position in the schedule")
			return
		}
		if !r.waitFor(sawRunning, stepCeiling) {
			// 75 times the timer's delay: reported as "did not fire", and only if it reproduces
			a.say("NOTIMER")
		}
	}
	// survivors: give signals a moment to land, then look
	_, ids := pidFile(r.dir)
	alive := len(survivors(r.dir, ids)) > 0
	for k := 0; k < 25 && alive; k++ {
		time.Sleep(20 * time.Millisecond)
		alive = len(survivors(r.dir, ids)) > 0
	}
	sg, _ := os.ReadFile(filepath.Join(r.dir, "sigs"))
	a.say("SIGS %s", strings.Join(strings.Fields(string(sg)), " "))
	a.say("ALIVE %s", b01(alive))
	atomic.StoreInt32(&a.closed, 1)
	killAll(r.dir)
	a.say("DONE")
}
