// Package c18: correspondence harness for property C18 (stub — registers nothing yet).
package c18
