// Package c18: correspondence harness for property C18 ("a restarted core kills
// what it no longer owns, and only that") through the whole-core simulator.
//
//	input  := (K KV0 (ACTION…))      K tasks per environment, KV0: mesos_fid pre-seeded
//	ACTION := (env POINT) | (kill) | (term) | (drop clean|abrupt [heal]) | (destroy N) | (stubborn silent|killing)
//	        | (park N destroy|cleanup) (env configured|running|standby)… (unpark)
//	        | (hide) | (mute) | (heal)      what the master can report in answer to a RECONCILE, see world.go
//	        | (sparse none|exec|agent|both) | (nudge)   which OPTIONAL fields the master's own status updates lack; the master volunteers its view
//	POINT  := launching | configuring | configured | starting | running | stopping | standby | teardown | destroyed
//	obs    := (EV…)  see world.go:observation and lean/Driver/C18.lean
package c18

import (
	"fmt"
	"os"
	"regexp"
	"strings"
	"time"

	"verifharness/fw"
	_ "verifharness/idfacts" // Gen/TaskIdFacts.lean: who writes a task's agentId / executorId, and under which nil tests
	"verifharness/rng"
	"verifharness/sim"
	"verifharness/sx"
)

var disturbances = []action{{"kill", ""}, {"term", ""}, {"drop", "clean"}, {"drop", "abrupt"}}

func mk(k int, kv0 bool, acts ...action) *scenario { return &scenario{k: k, kv0: kv0, acts: acts} }

func cs(s *scenario, tags ...string) fw.Case { return fw.Case{Input: s.String(), Tags: tags} }

func distTag(d action) string {
	if d.arg != "" {
		return d.kind + "-" + d.arg
	}
	return d.kind
}

// the deterministic grid: every point of an environment's life x every disturbance
func grid() []fw.Case {
	var out []fw.Case
	n := 0
	for _, d := range disturbances {
		// before anything was launched
		out = append(out, cs(mk(1, false, d), "point:idle", "dist:"+distTag(d)))
	}
	for _, p := range points {
		for _, d := range disturbances {
			n++
			out = append(out, cs(mk(1+n%2, false, action{"env", p}, d), "point:"+p, "dist:"+distTag(d)))
		}
	}
	// a healthy second environment next to the one at the critical point
	for _, p := range []string{"launching", "configuring", "starting", "stopping", "teardown"} {
		for _, d := range []action{{"kill", ""}, {"drop", "abrupt"}} {
			out = append(out, cs(mk(2, false, action{"env", "running"}, action{"env", p}, d), "two-envs", "point:"+p, "dist:"+distTag(d)))
		}
	}
	// sequences: the new life owns tasks of its own when the next disturbance comes
	seqs := [][]action{
		{{"env", "configured"}, {"kill", ""}, {"env", "configured"}, {"drop", "abrupt"}},
		{{"env", "running"}, {"drop", "clean"}, {"env", "configured"}, {"kill", ""}},
		{{"env", "configured"}, {"kill", ""}, {"kill", ""}},
		{{"env", "running"}, {"term", ""}, {"env", "running"}, {"term", ""}},
		{{"env", "configured"}, {"drop", "abrupt"}, {"drop", "clean"}},
		{{"env", "configured"}, {"kill", ""}, {"env", "running"}, {"kill", ""}, {"env", "configured"}, {"kill", ""}},
		{{"env", "running"}, {"destroy", "0"}, {"kill", ""}},
		{{"env", "configured"}, {"env", "configured"}, {"destroy", "0"}, {"drop", "abrupt"}},
	}
	for i, s := range seqs {
		out = append(out, cs(mk(1+i%3, false, s...), "sequence"))
	}
	// an earlier installation left a framework id behind
	out = append(out,
		cs(mk(1, true, action{"drop", "clean"}), "kv0"),
		cs(mk(2, true, action{"env", "configured"}, action{"kill", ""}), "kv0"),
		cs(mk(1, true, action{"env", "running"}, action{"term", ""}, action{"env", "configured"}, action{"drop", "abrupt"}), "kv0"))
	return out
}

var stubbornModes = []string{"silent", "killing"}

// survivors: orphans that OUTLIVE the KILL of the new life (the KILL is lost / has no effect, or the task hangs
// in TASK_KILLING), followed by further reconciliation rounds in the same life (the stream is dropped, the core
// re-subscribes, the master reports the task alive AGAIN) or by yet another life. The property quantifies over
// "every task of its previous life that Mesos still reports as alive" at every (re-)subscription, so every
// round must kill again: Spec.C18.orphansKilledEachRound.
func survivors() []fw.Case {
	var out []fw.Case
	n := 0
	add := func(tags []string, acts ...action) {
		n++
		out = append(out, cs(mk(1+n%2, false, acts...), append([]string{"survivor"}, tags...)...))
	}
	for _, m := range stubbornModes {
		st := action{"stubborn", m}
		tg := "stubborn:" + m
		// one more round, after a clean and after an abrupt drop; from a settled and from an in-flight point
		add([]string{tg, "rounds:2", "dist:kill"}, action{"env", "running"}, st, action{"kill", ""}, action{"drop", "clean"})
		add([]string{tg, "rounds:2", "dist:kill"}, action{"env", "configured"}, st, action{"kill", ""}, action{"drop", "abrupt"})
		add([]string{tg, "rounds:2", "dist:kill"}, action{"env", "launching"}, st, action{"kill", ""}, action{"drop", "clean"})
		add([]string{tg, "rounds:2", "dist:term"}, action{"env", "running"}, st, action{"term", ""}, action{"drop", "abrupt"})
		// two more rounds
		add([]string{tg, "rounds:3", "dist:kill"}, action{"env", "standby"}, st, action{"kill", ""}, action{"drop", "clean"}, action{"drop", "abrupt"})
		// the new life owns an environment of its own when the survivor is reported again: kill the one, spare the other
		add([]string{tg, "rounds:2", "dist:kill", "owning"}, action{"env", "configured"}, st, action{"kill", ""}, action{"env", "running"}, action{"drop", "clean"})
		// the survivor lives on into a third life, which has to kill it too — and again after a reconnection
		add([]string{tg, "rounds:3", "dist:kill", "lives:3"}, action{"env", "running"}, st, action{"kill", ""}, action{"kill", ""}, action{"drop", "abrupt"})
	}
	return out
}

// randomSurvivor: 1-2 environments at random points, the tasks made stubborn, the core restarted (SIGKILL, less
// often SIGTERM), possibly a settled environment created by the new life, then 1-2 further reconciliation rounds
// (stream drops) or one more restart followed by a drop.
func randomSurvivor(r *rng.R) fw.Case {
	s := &scenario{k: r.Range(1, 3), kv0: r.P(1, 8)}
	mode := rng.Pick(r, stubbornModes)
	if r.P(1, 3) {
		s.acts = append(s.acts, action{"env", rng.Pick(r, settledPoints[:3])})
	}
	if r.P(1, 2) {
		s.acts = append(s.acts, action{"env", rng.Pick(r, inflightPoints)})
	} else {
		s.acts = append(s.acts, action{"env", rng.Pick(r, settledPoints[:3])})
	}
	s.acts = append(s.acts, action{"stubborn", mode})
	if r.P(1, 4) {
		s.acts = append(s.acts, action{"term", ""})
	} else {
		s.acts = append(s.acts, action{"kill", ""})
	}
	if r.P(1, 3) {
		s.acts = append(s.acts, action{"env", rng.Pick(r, settledPoints[:3])})
	}
	if r.P(1, 4) {
		s.acts = append(s.acts, action{"kill", ""})
	}
	for i, n := 0, r.Range(1, 2); i < n; i++ {
		s.acts = append(s.acts, action{"drop", rng.Pick(r, []string{"clean", "abrupt"})})
	}
	return cs(s, "random", "survivor", "stubborn:"+mode)
}

// overlaps: the teardown of one environment OVERLAPS the deployment of others. doKillTasks writes the roster,
// makes its Mesos KILL calls (one HTTP round trip each) and only then returns; acquireTasks of another
// environment shares no lock with it and appends its freshly launched tasks to the roster inside that window.
// (park N VIA) starts the teardown of environment N — VIA destroy: DestroyEnvironment; cleanup: DestroyEnvironment
// keeping the tasks, then CleanupTasks — with the master holding the answers to the KILL calls back (sim.HoldCalls),
// the environments created before (unpark) are deployed in the window, then the answers go out. What the
// property needs of the core here: every task owned by a live environment is still known as owned afterwards
// (GetTasks roster = what GetEnvironments says the environments hold = the model's roster/held), so that the
// reconciliation answer of the next (re-)subscription kills none of them.
func overlaps() []fw.Case {
	var out []fw.Case
	n := 0
	add := func(tags []string, acts ...action) {
		n++
		out = append(out, cs(mk(1+n%2, false, acts...), append([]string{"overlap"}, tags...)...))
	}
	env := func(p string) action { return action{"env", p} }
	park := func(i int, via string) action { return action{"park", fmt.Sprintf("%d %s", i, via)} }
	unpark := action{"unpark", ""}
	// one environment deployed in the window, then a re-subscription
	add([]string{"via:destroy", "meanwhile:1", "dist:drop-clean"}, env("configured"), park(0, "destroy"), env("configured"), unpark, action{"drop", "clean"})
	add([]string{"via:destroy", "meanwhile:1", "dist:drop-abrupt"}, env("running"), park(0, "destroy"), env("running"), unpark, action{"drop", "abrupt"})
	add([]string{"via:cleanup", "meanwhile:1", "dist:drop-clean"}, env("standby"), park(0, "cleanup"), env("configured"), unpark, action{"drop", "clean"})
	// two environments deployed in the window
	add([]string{"via:cleanup", "meanwhile:2", "dist:drop-abrupt"}, env("configured"), park(0, "cleanup"), env("configured"), env("running"), unpark, action{"drop", "abrupt"})
	// the other environment exists BEFORE the teardown starts / is created AFTER it ended
	add([]string{"via:destroy", "meanwhile:0", "before", "dist:drop-clean"}, env("configured"), env("configured"), park(1, "destroy"), unpark, action{"drop", "clean"})
	add([]string{"via:destroy", "meanwhile:0", "after", "dist:drop-clean"}, env("running"), park(0, "destroy"), unpark, env("configured"), action{"drop", "clean"})
	// before AND in the window, two reconciliation rounds
	add([]string{"via:destroy", "meanwhile:1", "before", "rounds:2"}, env("configured"), env("running"), park(0, "destroy"), env("configured"), unpark, action{"drop", "clean"}, action{"drop", "abrupt"})
	// the environment deployed in the window is destroyed in turn, then a re-subscription: nothing of it may be left
	add([]string{"via:destroy", "meanwhile:1", "then-destroyed", "dist:drop-clean"}, env("configured"), park(0, "destroy"), env("configured"), unpark, action{"destroy", "1"}, action{"drop", "clean"})
	// a restart instead: now the tasks deployed in the window ARE orphans and must be killed
	add([]string{"via:destroy", "meanwhile:1", "dist:kill"}, env("configured"), park(0, "destroy"), env("configured"), unpark, action{"kill", ""})
	add([]string{"via:cleanup", "meanwhile:1", "dist:term"}, env("running"), park(0, "cleanup"), env("configured"), unpark, action{"term", ""})
	return out
}

// randomOverlap: optionally an environment before, one environment torn down with its KILL calls parked, 0-2
// settled environments deployed in the window, optionally one after, then 1-2 disturbances (mostly stream drops).
func randomOverlap(r *rng.R) fw.Case {
	s := &scenario{k: r.Range(1, 3), kv0: r.P(1, 8)}
	live := settledPoints[:3]
	envs := 0
	if r.P(1, 3) {
		s.acts = append(s.acts, action{"env", rng.Pick(r, live)})
		envs++
	}
	s.acts = append(s.acts, action{"env", rng.Pick(r, live)})
	via := rng.Pick(r, []string{"destroy", "cleanup"})
	s.acts = append(s.acts, action{"park", fmt.Sprintf("%d %s", envs, via)})
	envs++
	m := r.Range(0, 2)
	for i := 0; i < m; i++ {
		s.acts = append(s.acts, action{"env", rng.Pick(r, live)})
		envs++
	}
	s.acts = append(s.acts, action{"unpark", ""})
	if envs < 4 && r.P(1, 4) {
		s.acts = append(s.acts, action{"env", rng.Pick(r, live)})
	}
	for i, n := 0, r.Range(1, 2); i < n; i++ {
		if r.P(1, 5) {
			s.acts = append(s.acts, rng.Pick(r, []action{{"kill", ""}, {"term", ""}}))
		} else {
			s.acts = append(s.acts, action{"drop", rng.Pick(r, []string{"clean", "abrupt"})})
		}
	}
	return cs(s, "random", "overlap", "via:"+via, fmt.Sprintf("meanwhile:%d", m))
}

// resubs: SEVERAL subscriptions in one life of the core, with reconciliation answers that are not all complete.
// The master answers an implicit RECONCILE with what it knows at that moment: after a master fail-over the agents
// have not re-registered yet, an agent can be partitioned away ((hide): the tasks alive now are left out of the
// answers), the request itself can be lost ((mute)). (heal) ends both; as a suffix of (drop …) it does so while the
// stream is down. The property speaks about "every task of its previous life that Mesos still reports as alive" at
// "every point at which the master connection is dropped and re-established": an orphan the first answer of a life
// did not show must be killed when a LATER subscription's answer shows it (Spec.C18.orphansKilledEachSubscription:
// the KILL is newer than the latest SUBSCRIBE of the life), any number of incomplete rounds earlier; the tasks the
// new life owns itself are spared in every round; and every SUBSCRIBE after the first accepted one — of a core in
// its FIRST life, nothing persisted when it started, just as of a later one — presents the framework id the core
// was given (Spec.C18.identityKept / oneFramework, evaluated on the SUBSCRIBE/SUBSCRIBED pairs of the trace).
// The scripts that heal WITHOUT a later subscription (tag late) are the class of the open finding
// late_orphan_never_reconciled: the core reconciles on SUBSCRIBED only, never again.
func resubs() []fw.Case {
	var out []fw.Case
	n := 0
	add := func(kv0 bool, tags []string, acts ...action) {
		n++
		out = append(out, cs(mk(1+n%2, kv0, acts...), append([]string{"resub"}, tags...)...))
	}
	env := func(p string) action { return action{"env", p} }
	hide, mute, heal, kill := action{"hide", ""}, action{"mute", ""}, action{"heal", ""}, action{"kill", ""}
	drop := func(k string) action { return action{"drop", k} }
	// the first answer of the new life misses the orphan, the answer after a re-subscription shows it
	add(false, []string{"missed:hide", "rounds:2"}, env("running"), hide, kill, drop("clean heal"))
	add(false, []string{"missed:hide", "rounds:2"}, env("configured"), hide, kill, drop("abrupt heal"))
	add(false, []string{"missed:mute", "late", "rounds:2"}, env("running"), mute, kill, drop("clean heal"))
	add(false, []string{"missed:mute", "late", "rounds:2", "point:launching"}, env("launching"), mute, kill, drop("abrupt heal"))
	add(true, []string{"missed:hide", "rounds:2", "kv0"}, env("standby"), hide, kill, drop("clean heal"))
	// two incomplete rounds before the complete one
	add(false, []string{"missed:hide", "rounds:3"}, env("running"), hide, kill, drop("clean"), drop("abrupt heal"))
	add(false, []string{"missed:mute", "late", "rounds:3"}, env("configured"), mute, kill, drop("abrupt"), drop("clean heal"))
	// a PARTIAL first answer: the second environment's tasks are reported (and killed) at once, the first one's later
	add(false, []string{"missed:hide", "partial", "rounds:2"}, env("running"), hide, env("configured"), kill, drop("clean heal"))
	// the new life owns an environment when the orphan shows up at last: kill the one, spare the other
	add(false, []string{"missed:hide", "owning", "rounds:2"}, env("configured"), hide, kill, env("running"), drop("clean heal"))
	add(false, []string{"missed:mute", "late", "owning", "rounds:2"}, env("running"), mute, kill, env("configured"), drop("abrupt heal"))
	// the orphan shows up in round 2, outlives its KILL and must be killed again in round 3
	add(false, []string{"missed:hide", "stubborn:silent", "rounds:3"}, env("running"), hide, action{"stubborn", "silent"}, kill, drop("clean heal"), drop("abrupt"))
	// missed by the first answers of TWO lives
	add(false, []string{"missed:hide", "lives:3", "rounds:2"}, env("running"), hide, kill, kill, drop("clean heal"))
	// the core's OWN tasks are left out of one answer and reported by the next: spared both times
	add(false, []string{"own-hidden", "rounds:3"}, env("running"), hide, drop("clean"), drop("abrupt heal"))
	// reconnections of a core in its first life next to live environments: same framework, nothing killed
	add(false, []string{"first-life", "rounds:4"}, env("running"), drop("clean"), drop("abrupt"), env("configured"), drop("clean"))
	add(false, []string{"first-life", "rounds:3", "point:starting"}, env("configured"), drop("abrupt"), env("starting"), drop("clean"))
	// healed without a later subscription: the core never asks again (open finding late_orphan_never_reconciled)
	add(false, []string{"missed:hide", "late"}, env("running"), hide, kill, heal)
	add(false, []string{"missed:mute", "late"}, env("configured"), mute, kill, heal)
	add(false, []string{"missed:hide", "late", "rounds:2"}, env("running"), hide, kill, heal, drop("clean"))
	return out
}

// randomResub: 1-2 environments of the first life, (hide) after the first or after both, or (mute); a restart;
// possibly an environment of the new life; then 1-3 stream drops, ONE of which heals (or, 1 in 5, a (heal) on its
// own: the late class). Sometimes the orphans are stubborn as well, sometimes the first life reconnects first.
func randomResub(r *rng.R) fw.Case {
	s := &scenario{k: r.Range(1, 3), kv0: r.P(1, 8)}
	how := rng.Pick(r, []string{"hide", "hide", "mute"})
	tags := []string{"random", "resub", "missed:" + how}
	if how == "mute" {
		// the master REPORTS the orphan alive all along, only the request was lost: every quiet point of the new life
		// before the healing re-subscription is in the late class
		tags = append(tags, "late")
	}
	s.acts = append(s.acts, action{"env", rng.Pick(r, settledPoints[:3])})
	if r.P(1, 4) {
		s.acts = append(s.acts, action{"drop", rng.Pick(r, []string{"clean", "abrupt"})})
	}
	second := r.P(1, 2)
	if second && how == "hide" && r.P(1, 2) {
		// only the first environment's tasks are hidden: a partial answer
		s.acts = append(s.acts, action{how, ""})
		how = ""
		tags = append(tags, "partial")
	}
	if second {
		if r.P(1, 2) {
			s.acts = append(s.acts, action{"env", rng.Pick(r, inflightPoints)})
		} else {
			s.acts = append(s.acts, action{"env", rng.Pick(r, settledPoints[:3])})
		}
	}
	if how != "" {
		s.acts = append(s.acts, action{how, ""})
	}
	if r.P(1, 4) {
		m := rng.Pick(r, stubbornModes)
		s.acts = append(s.acts, action{"stubborn", m})
		tags = append(tags, "stubborn:"+m)
	}
	s.acts = append(s.acts, action{"kill", ""})
	if r.P(1, 3) {
		s.acts = append(s.acts, action{"env", rng.Pick(r, settledPoints[:3])})
		tags = append(tags, "owning")
	}
	if r.P(1, 5) {
		s.acts = append(s.acts, action{"heal", ""})
		if how != "mute" {
			tags = append(tags, "late")
		}
		if r.P(1, 2) {
			s.acts = append(s.acts, action{"drop", rng.Pick(r, []string{"clean", "abrupt"})})
		}
		return cs(s, tags...)
	}
	nd := r.Range(1, 3)
	at := r.N(nd)
	for i := 0; i < nd; i++ {
		k := rng.Pick(r, []string{"clean", "abrupt"})
		if i == at {
			k += " heal"
		}
		s.acts = append(s.acts, action{"drop", k})
	}
	return cs(s, append(tags, fmt.Sprintf("rounds:%d", nd+1))...)
}

// sparses: reconciliation answers whose OPTIONAL fields are absent. The answer a master builds to a RECONCILE comes from its
// own task record: executor_id and agent_id are optional in mesos.TaskStatus and a master-built update need not carry them
// (the AliECS executor's always do). Since the roster test, an answer about a task of the core's own live environments goes to
// updateTaskStatus, which copies the ids into the roster task — and Task.isLocked(), what every sweep of unowned tasks
// reads, needs both. The property's second half ("and only that"; "reconciliation answers … never cause tasks owned by a live
// environment to be killed") therefore quantifies over what the answers OMIT too: env up → (sparse …) → re-subscription(s) /
// (nudge) → LATER a sweep: the creation of another environment (pre-deployment Cleanup), CleanupTasks ((park N cleanup)), the
// owner's own destroy, shutdown. At every quiet point every task a listed environment references must be locked
// (Spec.C18.heldLocked), and no KILL may hit one (ownedSpared, "owned" = referenced by a listed environment).
func sparses() []fw.Case {
	var out []fw.Case
	n := 0
	add := func(kv0 bool, tags []string, acts ...action) {
		n++
		out = append(out, cs(mk(1+n%2, kv0, acts...), append([]string{"sparse"}, tags...)...))
	}
	env := func(p string) action { return action{"env", p} }
	sp := func(o string) action { return action{"sparse", o} }
	drop := func(k string) action { return action{"drop", k} }
	nudge, kill, term, hide := action{"nudge", ""}, action{"kill", ""}, action{"term", ""}, action{"hide", ""}
	// a reconnection with sparse answers, LATER another environment is created (its pre-deployment Cleanup sweeps)
	add(false, []string{"omit:exec", "then:create"}, env("running"), sp("exec"), drop("clean"), env("configured"))
	add(false, []string{"omit:agent", "then:create"}, env("configured"), sp("agent"), drop("abrupt"), env("running"))
	add(false, []string{"omit:both", "rounds:3", "then:create"}, env("running"), sp("both"), drop("clean"), drop("abrupt"), env("configured"))
	add(true, []string{"omit:exec", "kv0", "then:create"}, env("standby"), sp("exec"), drop("abrupt"), env("configured"))
	// … LATER CleanupTasks (the kept tasks of ANOTHER environment are swept: the live one's must be spared), then a further round
	add(false, []string{"omit:both", "then:cleanup"}, env("running"), env("configured"), sp("both"), drop("abrupt"),
		action{"park", "1 cleanup"}, action{"unpark", ""}, drop("clean"))
	// … LATER the owner itself destroys the environment (release + KILL must still work), and a new one is created
	add(false, []string{"omit:exec", "then:destroy"}, env("standby"), sp("exec"), drop("clean"), env("configured"), action{"destroy", "0"}, drop("abrupt"))
	// … LATER the core is shut down
	add(false, []string{"omit:exec", "then:term"}, env("running"), sp("exec"), drop("clean"), term)
	// the master volunteers its (sparse) view without any re-subscription
	add(false, []string{"omit:both", "nudge", "then:create"}, env("running"), sp("both"), nudge, env("configured"))
	add(false, []string{"omit:exec", "nudge", "healed", "then:create"}, env("configured"), sp("exec"), nudge, drop("clean"), sp("none"), drop("abrupt"), env("running"))
	// a restart: the answers about the ORPHANS are sparse too (they are killed all the same), then the new life's own
	// environment meets sparse answers after a reconnection
	add(false, []string{"omit:both", "lives:2", "then:create"}, env("running"), sp("both"), kill, env("configured"), drop("clean"), env("running"))
	// the core's own tasks left out of one answer, and reported — sparsely — by the next
	add(false, []string{"omit:exec", "own-hidden", "then:create"}, env("running"), hide, sp("exec"), drop("clean"), drop("abrupt heal"), env("configured"))
	// complete answers again (control: the same script with nothing omitted)
	add(false, []string{"omit:none", "then:create"}, env("running"), sp("none"), drop("clean"), env("configured"))
	return out
}

// randomSparse: 1-2 settled environments, (sparse X), 1-3 of {stream drop, (nudge)} — sometimes healed in between —, then a
// consumer of "locked": another environment, CleanupTasks over a kept environment, the owner's destroy, SIGTERM or SIGKILL,
// and often one more reconnection.
func randomSparse(r *rng.R) fw.Case {
	s := &scenario{k: r.Range(1, 3), kv0: r.P(1, 8)}
	live := settledPoints[:3]
	envs := 1
	s.acts = append(s.acts, action{"env", rng.Pick(r, live)})
	if r.P(1, 3) {
		s.acts = append(s.acts, action{"env", rng.Pick(r, live)})
		envs++
	}
	om := rng.Pick(r, []string{"exec", "exec", "agent", "both"})
	tags := []string{"random", "sparse", "omit:" + om}
	s.acts = append(s.acts, action{"sparse", om})
	for i, n := 0, r.Range(1, 3); i < n; i++ {
		if r.P(1, 4) {
			s.acts = append(s.acts, action{"nudge", ""})
			tags = append(tags, "nudge")
		} else {
			s.acts = append(s.acts, action{"drop", rng.Pick(r, []string{"clean", "abrupt"})})
		}
		if i == 0 && n > 1 && r.P(1, 4) {
			s.acts = append(s.acts, action{"sparse", "none"})
			tags = append(tags, "healed")
		}
	}
	switch r.N(6) {
	case 0, 1, 2:
		s.acts = append(s.acts, action{"env", rng.Pick(r, live)})
		tags = append(tags, "then:create")
	case 3:
		if envs > 1 {
			s.acts = append(s.acts, action{"park", "0 cleanup"}, action{"unpark", ""})
			tags = append(tags, "then:cleanup")
		} else {
			s.acts = append(s.acts, action{"destroy", "0"}, action{"env", rng.Pick(r, live)})
			tags = append(tags, "then:destroy")
		}
	case 4:
		s.acts = append(s.acts, action{"term", ""})
		tags = append(tags, "then:term")
	default:
		s.acts = append(s.acts, action{"kill", ""}, action{"env", rng.Pick(r, live)})
		tags = append(tags, "lives:2")
	}
	if r.P(1, 2) {
		s.acts = append(s.acts, action{"drop", rng.Pick(r, []string{"clean", "abrupt"})})
	}
	return cs(s, tags...)
}

var settledPoints = []string{"configured", "running", "standby", "destroyed"}
var inflightPoints = []string{"launching", "configuring", "starting", "stopping", "teardown"}

// randomScenario: 1-3 disturbances; before each, 0-2 new environments. Inside the core, commands to tasks go
// through ONE queue and environment creations are serialised, so an environment with an operation parked at a
// gate blocks every later creation in the same life until the core's own timeouts (25 s deployment, 90/120 s
// commands) — beyond the harness ceiling. Hence: an in-flight point is always the LAST environment created in
// a life, and after a reconnection (which leaves such an operation stuck) the script creates nothing more.
func randomScenario(r *rng.R) fw.Case {
	s := &scenario{k: r.Range(1, 3), kv0: r.P(1, 8)}
	nd := r.Range(1, 3)
	envs := 0
	blocked := false // an operation is parked in this life
	dropped := false // the stream was dropped in this life
	var alive []int  // indices of settled, destroyable environments of this life
	for d := 0; d < nd; d++ {
		ne := r.Range(0, 2)
		for i := 0; i < ne && envs < 4 && !blocked; i++ {
			if r.P(1, 2) {
				s.acts = append(s.acts, action{"env", rng.Pick(r, inflightPoints)})
				blocked = true
			} else {
				p := rng.Pick(r, settledPoints)
				s.acts = append(s.acts, action{"env", p})
				if p != "destroyed" {
					alive = append(alive, envs)
				}
			}
			envs++
		}
		if len(alive) > 0 && !blocked && r.P(1, 5) {
			k := r.N(len(alive))
			s.acts = append(s.acts, action{"destroy", string(rune('0' + alive[k]))})
			alive = append(alive[:k], alive[k+1:]...)
		}
		dist := rng.Pick(r, disturbances)
		if blocked && dropped && dist.kind == "term" {
			// SIGTERM would wait for the stuck operation's timeout inside the core: crash instead
			dist = action{"kill", ""}
		}
		s.acts = append(s.acts, dist)
		if dist.kind != "drop" {
			blocked, dropped, alive = false, false, nil
		} else {
			dropped = true
		}
	}
	return cs(s, "random")
}

func generate(tier string, r *rng.R) []fw.Case {
	out := grid()
	n, ns, no, nr, nsp := 12, 6, 4, 6, 6
	if tier == "thorough" {
		n, ns, no, nr, nsp = 320, 80, 60, 80, 80
	}
	for i := 0; i < n; i++ {
		out = append(out, randomScenario(r.Fork()))
	}
	// appended after the older cases, so those stay what they were for a given seed
	out = append(out, survivors()...)
	for i := 0; i < ns; i++ {
		out = append(out, randomSurvivor(r.Fork()))
	}
	out = append(out, overlaps()...)
	for i := 0; i < no; i++ {
		out = append(out, randomOverlap(r.Fork()))
	}
	out = append(out, resubs()...)
	for i := 0; i < nr; i++ {
		out = append(out, randomResub(r.Fork()))
	}
	out = append(out, sparses()...)
	for i := 0; i < nsp; i++ {
		out = append(out, randomSparse(r.Fork()))
	}
	return out
}

func search(r *rng.R) []fw.Case {
	var out []fw.Case
	for i := 0; i < 60; i++ {
		out = append(out, randomScenario(r.Fork()))
	}
	for i := 0; i < 30; i++ {
		out = append(out, randomSurvivor(r.Fork()))
	}
	for i := 0; i < 30; i++ {
		out = append(out, randomOverlap(r.Fork()))
	}
	for i := 0; i < 30; i++ {
		out = append(out, randomResub(r.Fork()))
	}
	for i := 0; i < 30; i++ {
		out = append(out, randomSparse(r.Fork()))
	}
	return out
}

func runImpl(input string) (string, error) {
	sc, err := parseScenario(input)
	if err != nil {
		return "(badinput)", nil
	}
	t0 := time.Now()
	obs, err := runScenario(sc, os.Getenv("C18_VERBOSE") != "")
	if os.Getenv("C18_TIMING") != "" {
		fmt.Fprintf(os.Stderr, "C18 %6.1fs %s err=%v\n", time.Since(t0).Seconds(), input, err != nil)
	}
	return obs, err
}

var reRealRecon = regexp.MustCompile(`\(upd t\d+ \w+ (recon|vol) 1[ )]`)

// non-trivial: the master answered a reconciliation about at least one real task
// (so there was something to kill or to spare)
func nontrivial(input, obs string) bool { return reRealRecon.MatchString(obs) }

func shrink(input string) []string {
	sc, err := parseScenario(input)
	if err != nil {
		return nil
	}
	var out []string
	for i := range sc.acts {
		c := &scenario{k: sc.k, kv0: sc.kv0}
		c.acts = append(append([]action{}, sc.acts[:i]...), sc.acts[i+1:]...)
		if _, err := parseScenario(c.String()); err == nil && len(c.acts) > 0 {
			out = append(out, c.String())
		}
	}
	if sc.k > 1 {
		out = append(out, (&scenario{k: sc.k - 1, kv0: sc.kv0, acts: sc.acts}).String())
	}
	if sc.kv0 {
		out = append(out, (&scenario{k: sc.k, acts: sc.acts}).String())
	}
	return out
}

var _ = sx.A
var _ = strings.TrimSpace
var _ = sim.IsInfra

func init() {
	fw.RegisterGen(fw.GenFile{Name: "C18Facts.lean", Make: genFacts})
	fw.Register(&fw.Property{
		ID:         "C18",
		Generate:   generate,
		RunImpl:    runImpl,
		Nontrivial: nontrivial,
		Rule: "the REAL core (child process: core.NewConfig, task.Manager + mesos-go controller, environment.Manager, gRPC server) against the whole-core " +
			"simulator (Mesos master with persistent task table and framework id, Consul KV, workflow repository). GRID (exhaustive over the listed points): " +
			"{no environment, launching (LAUNCH parked), configuring (CONFIGURE reply parked), CONFIGURED, starting (START reply parked), RUNNING, stopping " +
			"(STOP reply parked), STANDBY after RESET, mid-teardown (KILL reaction parked), destroyed} x {SIGKILL+restart, SIGTERM+restart, stream dropped " +
			"cleanly, stream reset abruptly}, 1-2 tasks; the five in-flight points again next to a second RUNNING environment; 8 sequences of 2-3 " +
			"disturbances with environments created by the new life in between; 3 scripts with mesos_fid pre-seeded. RANDOM: 12 (thorough 320) scripts of 1-3 " +
			"disturbances, 0-3 environments at random points, 1-3 tasks, optional destroy. SURVIVORS (tag survivor): the tasks alive before a restart are made " +
			"stubborn (KILL without effect | task hangs in TASK_KILLING), so the orphans OUTLIVE the new life's KILL, and 1-2 further reconciliation rounds follow in the " +
			"same life (clean/abrupt stream drop, re-subscription) or a third life: 14 fixed scripts {silent, killing} x {settled, in-flight, after SIGTERM, 3 rounds, " +
			"new life owning an environment, 3 lives} + 6 (thorough 80) random ones. OVERLAPS (tag overlap): one environment is torn down (via:destroy = DestroyEnvironment, " +
			"via:cleanup = DestroyEnvironment keeping the tasks + CleanupTasks) while the master holds the answers to its KILL calls back, i.e. doKillTasks sits between its two " +
			"roster writes, 0-2 other environments are deployed in that window (meanwhile:N; also: created before / after it), then the answers go out and a re-subscription " +
			"(or a restart) follows: 10 fixed scripts + 4 (thorough 60) random ones. RESUBSCRIPTIONS (tag resub): several subscriptions in one life against a master whose " +
			"reconciliation answers are not all complete — (hide): the agents of the tasks alive now are not registered with the master (fail-over, partition), implicit reconciliation leaves the " +
			"tasks out until (heal); (mute): RECONCILE calls are lost until (heal); (drop … heal): healed while the stream is down — so that an orphan the first answer of a new life (or of two " +
			"lives) did not show is shown by the answer after a later re-subscription (rounds:2|3, partial answers, new life owning an environment, stubborn, the core's own tasks hidden and shown " +
			"again), reconnections of a core in its first life next to live environments (first-life), and the late class (heal without a later subscription; every mute script: open finding " +
			"late_orphan_never_reconciled): 18 fixed scripts + 6 corpus lines + 6 (thorough 80) random ones. SPARSE ANSWERS (tag sparse): (sparse exec|agent|both) — the status updates the MASTER builds " +
			"(its answers to a RECONCILE, the reconciliation updates it volunteers: (nudge)) lack the OPTIONAL fields executor_id / agent_id / both, as a master-built update may — with 1-2 live environments, followed by 1-3 re-subscriptions / nudges and LATER by a sweep " +
			"of unowned tasks: the creation of another environment (pre-deployment Cleanup), CleanupTasks over a kept environment, the owner's own destroy, SIGTERM, or a restart (sparse answers about orphans): 12 fixed scripts + 6 (thorough 80) random ones; every snapshot also lists, per " +
			"environment nobody asked to destroy, the tasks its roles reference that are NOT locked (a state seen twice in a row). A re-subscription that presents another framework id than the one the core was given ends the " +
			"script (observed, not a deadline). Every disturbance is bracketed by barrier-ordered quiet points " +
			"(GetTasks, GetEnvironments with the tasks every environment holds, mesos_fid, master's live rows). non-trivial = the master answered a reconciliation about at least one real task; distinct by input text",
		Shrink:     shrink,
		Search:     search,
		Workers:    8,
		Exhaustive: func(string) bool { return false },
		TrustedBase: []string{
			"harness/sim (whole-core simulator: Mesos master/agents/executors, Consul KV, workflow repository; core child through core.RunForVerif) + sim.InjectUpdate (added for the barrier) + sim.HoldCalls (keeps the HTTP answer of chosen calls back: a call in flight) + sim.HideFromReconcile / SetReconcileSilent (implicit reconciliation leaves chosen tasks out / RECONCILE calls go unanswered) + sim.SetReconcileOmit / InjectTaskStatus (master-built updates lack optional identity fields)",
			"harness/props/c18/world.go: scripts, barrier-based quiescence, projection of the master trace (tasks, environments, framework ids renamed by first appearance)",
			"lean/Driver/C18.lean: the monitor that replays the observed trace as a history of Model/Reconcile.lean and rebuilds the log the Spec is evaluated on",
			"go/ast fact extraction harness/props/c18/facts.go",
		},
		Assumptions: []string{
			"Mesos' reconciliation semantics as documented upstream (implicit reconciliation is answered with the latest state of every non-terminal task of the framework THE MASTER KNOWS at that moment — tasks of agents that are not registered are left out, a request can be lost; SUBSCRIBE with a framework id keeps it, without one a new framework is registered); the simulator stands in for the master",
			"the configuration store answers the read of aliecs/mesos_fid at start-up and accepts its write (the core cannot start without it); nobody else writes the key",
			"one core process at a time; the framework is not PARTITION_AWARE (no TASK_UNREACHABLE)",
			"quiescence is established by a barrier (a reconciliation update about an unknown task, answered by a KILL), which relies on taskman handling its channel sequentially and on the KILL call being synchronous — both read in core/task/manager.go",
		},
	})
}
