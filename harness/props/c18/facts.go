package c18

// Facts about the anchored code, regenerated on every run into
// lean/ControlModel/Gen/C18Facts.lean and tied to the model's configuration
// (Reconcile.Cfg) by the theorems C18_*_is_code. All of them are go/ast facts
// over the working tree of the repository under test:
//
//	core/task/manager.go            NewManager (fid store), handleMessage (KILL branch)
//	core/task/scheduler.go          buildEventHandler (SUBSCRIBED rules), reconciliationCall, runSchedulerController
//	core/task/schedulerstate.go     setupCli (call rule injecting the framework id)
//	core/task/schedutil/mesosutil.go BuildFrameworkInfo (failover timeout, capabilities)
//	core/config.go                  default of mesosFailoverTimeout
//
// A fact that cannot be established is emitted as false / "other" together with
// a comment saying why: the theorem that needs it then fails, and only C18.

import (
	"fmt"
	"go/ast"
	"go/parser"
	"go/token"
	"go/types"
	"os"
	"path/filepath"
	"regexp"
	"sort"
	"strconv"
	"strings"
	"time"
)

type facts struct {
	killGuard        string // "reason+state" | "reason+state+notInRoster" | "other"
	killGuardDetail  string
	killReason       string
	killStates       []string
	killCalls        int
	elseUpdates      bool
	reconOnSubscribe bool
	reconImplicit    bool
	reconEveryTime   bool // the handler reconciliationCall returns makes the call on EVERY invocation
	reconEveryDetail string
	trackBeforeRecon bool
	fidSeeded        bool
	fidWrittenBack   bool
	fidKey           string
	fidFeedsCalls    bool
	rosterFresh      bool
	failoverSet      bool
	failoverDefault  bool
	failoverValue    string
	partitionAware   bool
	killWrites       string // "filter-then-append" | "other"
	killWritesDetail string
	rosterWriters    []string // every write to the roster in package core/task: "<function>:<method>", sorted
	problems         []string
}

func es(e ast.Expr) string {
	if e == nil {
		return ""
	}
	return types.ExprString(e)
}

func parseGo(path string) (*ast.File, error) {
	return parser.ParseFile(token.NewFileSet(), path, nil, 0)
}

func findFunc(f *ast.File, recv, name string) *ast.FuncDecl {
	for _, d := range f.Decls {
		fd, ok := d.(*ast.FuncDecl)
		if !ok || fd.Name.Name != name || fd.Body == nil {
			continue
		}
		if recv == "" && fd.Recv == nil {
			return fd
		}
		if recv != "" && fd.Recv != nil && len(fd.Recv.List) == 1 && strings.TrimPrefix(es(fd.Recv.List[0].Type), "*") == recv {
			return fd
		}
	}
	return nil
}

func unparen(e ast.Expr) ast.Expr {
	for {
		p, ok := e.(*ast.ParenExpr)
		if !ok {
			return e
		}
		e = p.X
	}
}

// flatten splits e at the binary operator op (through parentheses only at the top of each operand).
func flatten(e ast.Expr, op token.Token) []ast.Expr {
	e = unparen(e)
	if b, ok := e.(*ast.BinaryExpr); ok && b.Op == op {
		return append(flatten(b.X, op), flatten(b.Y, op)...)
	}
	return []ast.Expr{e}
}

func containsCall(n ast.Node, fun string) int {
	k := 0
	ast.Inspect(n, func(x ast.Node) bool {
		if c, ok := x.(*ast.CallExpr); ok && es(c.Fun) == fun {
			k++
		}
		return true
	})
	return k
}

func strLit(e ast.Expr) (string, bool) {
	b, ok := e.(*ast.BasicLit)
	if !ok || b.Kind != token.STRING {
		return "", false
	}
	s, err := strconv.Unquote(b.Value)
	return s, err == nil
}

// ---- handleMessage: the KILL branch ---------------------------------------------------

var reReason = regexp.MustCompile(`^\w+\.GetReason\(\)\.String\(\)$`)

func killFacts(f *ast.File, ft *facts) {
	ft.killGuard = "other"
	fd := findFunc(f, "Manager", "handleMessage")
	if fd == nil {
		ft.problems = append(ft.problems, "manager.go: (*Manager).handleMessage not found")
		return
	}
	ft.killCalls = containsCall(fd.Body, "calls.Kill")
	// the case clause of taskop.TaskStatusMessage in the top-level switch over the message type
	var clause *ast.CaseClause
	for _, s := range fd.Body.List {
		sw, ok := s.(*ast.SwitchStmt)
		if !ok {
			continue
		}
		for _, c := range sw.Body.List {
			cc := c.(*ast.CaseClause)
			for _, e := range cc.List {
				if es(e) == "taskop.TaskStatusMessage" {
					clause = cc
				}
			}
		}
	}
	if clause == nil {
		ft.problems = append(ft.problems, "handleMessage: case taskop.TaskStatusMessage not found")
		return
	}
	// the state variable compared in the guard must be the state of the update being handled
	stateVar, statusVar := "", ""
	for _, s := range clause.Body {
		as, ok := s.(*ast.AssignStmt)
		if !ok || len(as.Lhs) != 1 || len(as.Rhs) != 1 {
			continue
		}
		switch r := es(as.Rhs[0]); {
		case r == "tm.status":
			statusVar = es(as.Lhs[0])
		case statusVar != "" && r == statusVar+".GetState()":
			stateVar = es(as.Lhs[0])
		}
	}
	// the KILL must sit in an `if` that is a DIRECT statement of the clause (not nested under another test)
	var killIf *ast.IfStmt
	for _, s := range clause.Body {
		if is, ok := s.(*ast.IfStmt); ok && containsCall(is.Body, "calls.Kill") > 0 {
			if killIf != nil {
				ft.killGuardDetail = "more than one guarded KILL"
				return
			}
			killIf = is
		}
	}
	if killIf == nil || ft.killCalls != 1 {
		ft.killGuardDetail = fmt.Sprintf("%d calls.Kill in handleMessage, none directly guarded at clause level", ft.killCalls)
		return
	}
	if killIf.Init != nil {
		ft.killGuardDetail = "guard has an init statement"
		return
	}
	// the call made with the built KILL must go to the scheduler's caller
	if containsCall(killIf.Body, "calls.CallNoData") != 1 {
		ft.killGuardDetail = "KILL call is not sent with calls.CallNoData"
		return
	}
	// … UNCONDITIONALLY once the guard holds: the body is straight-line code (assignments, declarations and call
	// statements only — no nested test, loop, switch, early return, go/defer, function literal). The model's
	// `handle` KILLs whenever the guard holds; a further condition on the call (a cache of ids already killed,
	// a rate limit, a state test inside the body) is code the model does not describe.
	for _, s := range killIf.Body.List {
		switch s.(type) {
		case *ast.AssignStmt, *ast.ExprStmt, *ast.DeclStmt:
		default:
			ft.killGuardDetail = fmt.Sprintf("the body of the KILL guard is not straight-line code (%T at the guard's top level): the KILL is conditional on more than the guard", s)
			return
		}
	}
	funcLits := 0
	ast.Inspect(killIf.Body, func(x ast.Node) bool {
		if _, ok := x.(*ast.FuncLit); ok {
			funcLits++
		}
		return true
	})
	if funcLits > 0 {
		ft.killGuardDetail = "the body of the KILL guard contains a function literal: the KILL call is not made in line"
		return
	}
	if blk, ok := killIf.Else.(*ast.BlockStmt); ok {
		ft.elseUpdates = containsCall(blk, "m.updateTaskStatus") == 1
	}
	var reason, roster, states, other int
	for _, c := range flatten(killIf.Cond, token.LAND) {
		c = unparen(c)
		b, isBin := c.(*ast.BinaryExpr)
		switch {
		case isBin && b.Op == token.EQL && reReason.MatchString(es(b.X)) && strings.HasPrefix(es(b.X), statusVar+"."):
			if s, ok := strLit(b.Y); ok {
				ft.killReason = s
				reason++
			} else {
				other++
			}
		case isBin && b.Op == token.EQL && es(b.Y) == "nil" &&
			(strings.HasPrefix(es(b.X), "m.GetTask(") || strings.HasPrefix(es(b.X), "m.roster.getByTaskId(")) &&
			strings.Contains(es(b.X), statusVar):
			roster++
		case isBin && b.Op == token.LOR:
			ok := true
			var sts []string
			for _, d := range flatten(c, token.LOR) {
				db, isB := unparen(d).(*ast.BinaryExpr)
				if !isB || db.Op != token.EQL || es(db.X) != stateVar || !strings.HasPrefix(es(db.Y), "mesos.TASK_") {
					ok = false
					break
				}
				sts = append(sts, strings.TrimPrefix(es(db.Y), "mesos."))
			}
			if ok && stateVar != "" {
				ft.killStates = sts
				states++
			} else {
				other++
			}
		default:
			other++
		}
	}
	switch {
	case other == 0 && reason == 1 && states == 1 && roster == 0:
		ft.killGuard = "reason+state"
	case other == 0 && reason == 1 && states == 1 && roster == 1:
		ft.killGuard = "reason+state+notInRoster"
	default:
		ft.killGuardDetail = fmt.Sprintf("guard %q: %d reason tests, %d state lists, %d roster tests, %d unrecognised conjuncts",
			es(killIf.Cond), reason, states, roster, other)
	}
}

// ---- doKillTasks: how a teardown writes the roster --------------------------------------

// isRosterWrite: x is a call m.roster.updateTasks(…) / m.roster.append(…) (any receiver ending in .roster).
func isRosterWrite(x ast.Node) (method string, call *ast.CallExpr, ok bool) {
	c, isCall := x.(*ast.CallExpr)
	if !isCall {
		return "", nil, false
	}
	sel, isSel := c.Fun.(*ast.SelectorExpr)
	if !isSel || !strings.HasSuffix(es(sel.X), ".roster") {
		return "", nil, false
	}
	if sel.Sel.Name == "updateTasks" || sel.Sel.Name == "append" {
		return sel.Sel.Name, c, true
	}
	return "", nil, false
}

func rosterWritesIn(n ast.Node) (out []string) {
	ast.Inspect(n, func(x ast.Node) bool {
		if m, _, ok := isRosterWrite(x); ok {
			out = append(out, m)
		}
		if as, ok := x.(*ast.AssignStmt); ok {
			for _, l := range as.Lhs {
				if strings.HasSuffix(es(l), ".roster") || strings.HasSuffix(es(l), ".roster.tasks") {
					out = append(out, "assign")
				}
			}
		}
		return true
	})
	return
}

// killWriteFacts: the shape of (*Manager).doKillTasks the model's releaseBegin/releaseEnd describe —
//
//	BEFORE the loop that makes the KILL calls the roster is written only by statements
//	    m.roster.updateTasks(m.roster.filtered(func…))          (a FRESH read of the roster, filtered, written at once)
//	IN the loop (`for _, task := range …` with `e := m.doKillTask(task)`) only by
//	    m.roster.append(task)   in the branch `if e != nil`       (the one task whose KILL failed)
//	AFTER the loop not at all.
//
// Anything else — in particular a roster value read before the calls and written after them — is "other".
func killWriteFacts(f *ast.File, ft *facts) {
	ft.killWrites = "other"
	fd := findFunc(f, "Manager", "doKillTasks")
	if fd == nil {
		ft.killWritesDetail = "(*Manager).doKillTasks not found"
		return
	}
	loop := -1
	for i, s := range fd.Body.List {
		if containsCall(s, "m.doKillTask") > 0 {
			if _, ok := s.(*ast.RangeStmt); !ok || loop >= 0 {
				ft.killWritesDetail = "the KILL calls are not made in exactly one top-level range loop"
				return
			}
			loop = i
		}
	}
	if loop < 0 {
		ft.killWritesDetail = "no loop calling m.doKillTask"
		return
	}
	filters := 0
	for _, s := range fd.Body.List[:loop] {
		ws := rosterWritesIn(s)
		if len(ws) == 0 {
			continue
		}
		ok := false
		if e, isE := s.(*ast.ExprStmt); isE && len(ws) == 1 {
			if m, c, isW := isRosterWrite(e.X); isW && m == "updateTasks" && len(c.Args) == 1 {
				if in, isC := c.Args[0].(*ast.CallExpr); isC && es(in.Fun) == "m.roster.filtered" && len(in.Args) == 1 {
					if _, isF := in.Args[0].(*ast.FuncLit); isF {
						ok = true
					}
				}
			}
		}
		if !ok {
			ft.killWritesDetail = "before the KILL calls the roster is written by something other than m.roster.updateTasks(m.roster.filtered(func…)): " + es0(s)
			return
		}
		filters++
	}
	if filters == 0 {
		ft.killWritesDetail = "the tasks are not taken out of the roster before the KILL calls"
		return
	}
	for _, s := range fd.Body.List[loop+1:] {
		if ws := rosterWritesIn(s); len(ws) > 0 {
			ft.killWritesDetail = "the roster is written after the KILL calls: " + es0(s)
			return
		}
	}
	rs := fd.Body.List[loop].(*ast.RangeStmt)
	taskVar := es(rs.Value)
	errVar := ""
	appends := 0
	for _, s := range rs.Body.List {
		switch st := s.(type) {
		case *ast.AssignStmt:
			if len(st.Lhs) == 1 && len(st.Rhs) == 1 && es(st.Rhs[0]) == "m.doKillTask("+taskVar+")" {
				errVar = es(st.Lhs[0])
				continue
			}
		case *ast.IfStmt:
			if errVar != "" && st.Init == nil && es(st.Cond) == errVar+" != nil" {
				for _, b := range st.Body.List {
					ws := rosterWritesIn(b)
					if len(ws) == 0 {
						continue
					}
					if e, isE := b.(*ast.ExprStmt); isE && len(ws) == 1 && es(e.X) == "m.roster.append("+taskVar+")" {
						appends++
						continue
					}
					ft.killWritesDetail = "a failed KILL is answered by a roster write other than m.roster.append(<that task>): " + es0(b)
					return
				}
				if st.Else != nil && len(rosterWritesIn(st.Else)) > 0 {
					ft.killWritesDetail = "the roster is written after a successful KILL call"
					return
				}
				continue
			}
		}
		if len(rosterWritesIn(s)) > 0 {
			ft.killWritesDetail = "roster write in the KILL loop outside `if <err of doKillTask> != nil`: " + es0(s)
			return
		}
	}
	if appends != 1 {
		ft.killWritesDetail = fmt.Sprintf("%d m.roster.append(<task>) in the failure branch of the KILL loop", appends)
		return
	}
	ft.killWrites = "filter-then-append"
}

func es0(s ast.Stmt) string {
	switch st := s.(type) {
	case *ast.ExprStmt:
		return clip(es(st.X))
	case *ast.AssignStmt:
		if len(st.Lhs) > 0 && len(st.Rhs) > 0 {
			return clip(es(st.Lhs[0]) + " " + st.Tok.String() + " " + es(st.Rhs[0]))
		}
	}
	return fmt.Sprintf("%T", s)
}

func clip(s string) string {
	s = strings.Join(strings.Fields(s), " ")
	if len(s) > 90 {
		return s[:90] + "…"
	}
	return s
}

// rosterWriterFacts: every write to a roster in package core/task (the field is unexported: nobody else can).
func rosterWriterFacts(repo string, ft *facts) {
	files, err := filepath.Glob(filepath.Join(repo, "core/task/*.go"))
	if err != nil || len(files) == 0 {
		ft.problems = append(ft.problems, "core/task/*.go not found")
		return
	}
	for _, path := range files {
		if strings.HasSuffix(path, "_test.go") || filepath.Base(path) == "roster.go" {
			continue // roster.go defines updateTasks/append themselves
		}
		f, err := parseGo(path)
		if err != nil {
			ft.problems = append(ft.problems, filepath.Base(path)+": "+err.Error())
			ft.rosterWriters = append(ft.rosterWriters, "unparsable:"+filepath.Base(path))
			continue
		}
		for _, d := range f.Decls {
			fd, ok := d.(*ast.FuncDecl)
			if !ok || fd.Body == nil {
				continue
			}
			for _, w := range rosterWritesIn(fd.Body) {
				ft.rosterWriters = append(ft.rosterWriters, fd.Name.Name+":"+w)
			}
		}
	}
	sort.Strings(ft.rosterWriters)
}

// ---- NewManager: the framework-id store ------------------------------------------------

func fidFacts(f *ast.File, ft *facts) {
	fd := findFunc(f, "", "NewManager")
	if fd == nil {
		ft.problems = append(ft.problems, "manager.go: NewManager not found")
		return
	}
	keyOf := func(c *ast.CallExpr) string {
		if len(c.Args) < 2 {
			return ""
		}
		a, ok1 := strLit(c.Args[0])
		b, ok2 := strLit(c.Args[1])
		if !ok1 || !ok2 {
			return ""
		}
		return a + "/" + b
	}
	var storeVar, setKey, getKey string
	for _, s := range fd.Body.List {
		switch st := s.(type) {
		case *ast.AssignStmt:
			if len(st.Lhs) == 1 && len(st.Rhs) == 1 {
				if c, ok := st.Rhs[0].(*ast.CallExpr); ok && es(c.Fun) == "store.DecorateSingleton" && len(c.Args) == 2 &&
					es(c.Args[0]) == "store.NewInMemorySingleton()" && strings.HasPrefix(es(c.Args[1]), "store.DoSet().AndThen(") {
					storeVar = es(st.Lhs[0])
					// the hook: a func literal whose body writes its value parameter to the runtime entry
					ast.Inspect(c.Args[1], func(x ast.Node) bool {
						fl, ok := x.(*ast.FuncLit)
						if !ok || len(fl.Type.Params.List) != 3 || len(fl.Type.Params.List[1].Names) != 1 {
							return true
						}
						v := fl.Type.Params.List[1].Names[0].Name
						ast.Inspect(fl.Body, func(y ast.Node) bool {
							if cc, ok := y.(*ast.CallExpr); ok && es(cc.Fun) == "the.ConfSvc().SetRuntimeEntry" && len(cc.Args) == 3 && es(cc.Args[2]) == v {
								setKey = keyOf(cc)
							}
							return true
						})
						return false
					})
				}
			}
		case *ast.IfStmt:
			// if v, err := the.ConfSvc().GetRuntimeEntry(a, b); err == nil { store.SetOrPanic(fidStore)(v) }
			as, ok := st.Init.(*ast.AssignStmt)
			if !ok || len(as.Lhs) != 2 || len(as.Rhs) != 1 || es(st.Cond) != es(as.Lhs[1])+" == nil" {
				continue
			}
			c, ok := as.Rhs[0].(*ast.CallExpr)
			if !ok || es(c.Fun) != "the.ConfSvc().GetRuntimeEntry" || storeVar == "" {
				continue
			}
			want := "store.SetOrPanic(" + storeVar + ")(" + es(as.Lhs[0]) + ")"
			for _, b := range st.Body.List {
				if e, ok := b.(*ast.ExprStmt); ok && es(e.X) == want {
					getKey = keyOf(c)
				}
			}
		}
	}
	ft.fidWrittenBack = storeVar != "" && setKey != ""
	ft.fidSeeded = storeVar != "" && getKey != "" && getKey == setKey
	ft.fidKey = setKey
	if getKey != setKey && getKey != "" {
		ft.problems = append(ft.problems, fmt.Sprintf("NewManager reads %q but writes %q", getKey, setKey))
	}
	// the same store is handed to the scheduler, and every life starts with an empty roster
	passes := false
	ast.Inspect(fd.Body, func(x ast.Node) bool {
		if c, ok := x.(*ast.CallExpr); ok && es(c.Fun) == "NewScheduler" && len(c.Args) >= 2 && es(c.Args[1]) == storeVar {
			passes = true
		}
		if kv, ok := x.(*ast.KeyValueExpr); ok && es(kv.Key) == "roster" && es(kv.Value) == "newRoster()" {
			ft.rosterFresh = true
		}
		return true
	})
	if !passes {
		ft.fidSeeded, ft.fidWrittenBack = false, false
		ft.problems = append(ft.problems, "NewManager does not pass the decorated store to NewScheduler")
	}
}

// ---- scheduler.go / schedulerstate.go --------------------------------------------------

func schedulerFacts(sched, state *ast.File, ft *facts) {
	if fd := findFunc(sched, "schedulerState", "reconciliationCall"); fd != nil {
		// reconcileCall := calls.Reconcile(calls.ReconcileTasks(nil)); calls.CallNoData(ctx, state.cli, reconcileCall)
		v := ""
		ast.Inspect(fd.Body, func(x ast.Node) bool {
			if as, ok := x.(*ast.AssignStmt); ok && len(as.Lhs) == 1 && len(as.Rhs) == 1 && es(as.Rhs[0]) == "calls.Reconcile(calls.ReconcileTasks(nil))" {
				v = es(as.Lhs[0])
			}
			if c, ok := x.(*ast.CallExpr); ok && es(c.Fun) == "calls.CallNoData" && len(c.Args) == 3 && v != "" && es(c.Args[2]) == v && es(c.Args[1]) == "state.cli" {
				ft.reconImplicit = true
			}
			return true
		})
		// … on EVERY SUBSCRIBED event the handler is invoked for: reconciliationCall is nothing but
		// `return func(…) error { <straight-line code>; return … }` — no state declared next to the literal that
		// could outlive one event (a sync.Once, a flag, a counter, a timestamp), no test, loop, early return,
		// go/defer or nested function literal inside it. The model's `read` of a SUBSCRIBED always logs a RECONCILE
		// (Cfg.reconcileOnSubscribed); a handler that asks "only the first time", "only if …", "at most every …" is
		// code the model does not describe.
		ft.reconEveryDetail = reconEveryTime(fd)
		ft.reconEveryTime = ft.reconEveryDetail == ""
	} else {
		ft.problems = append(ft.problems, "scheduler.go: reconciliationCall not found")
	}
	if fd := findFunc(sched, "schedulerState", "buildEventHandler"); fd != nil {
		ast.Inspect(fd.Body, func(x ast.Node) bool {
			kv, ok := x.(*ast.KeyValueExpr)
			if !ok || es(kv.Key) != "scheduler.Event_SUBSCRIBED" {
				return true
			}
			c, ok := kv.Value.(*ast.CallExpr)
			if !ok || es(c.Fun) != "eventrules.New" {
				return false
			}
			track, recon := -1, -1
			for i, a := range c.Args {
				s := es(a)
				if strings.HasPrefix(s, "controller.TrackSubscription(fidStore,") && strings.Contains(s, `"mesosFailoverTimeout"`) {
					track = i
				}
				if containsCall(a, "state.reconciliationCall") == 1 && strings.Contains(s, "HandleF(") {
					recon = i
				}
			}
			ft.reconOnSubscribe = recon >= 0
			ft.trackBeforeRecon = track >= 0 && recon > track
			return false
		})
	} else {
		ft.problems = append(ft.problems, "scheduler.go: buildEventHandler not found")
	}
	a, b := false, false
	if fd := findFunc(sched, "", "runSchedulerController"); fd != nil {
		a = containsCall(fd.Body, "controller.WithFrameworkID") == 1 && strings.Contains(bodyText(fd), "controller.WithFrameworkID(store.GetIgnoreErrors(fidStore))") &&
			strings.Contains(bodyText(fd), "state.buildEventHandler(fidStore)")
	}
	if fd := findFunc(state, "schedulerState", "setupCli"); fd != nil {
		b = strings.Contains(bodyText(fd), "callrules.WithFrameworkID(store.GetIgnoreErrors(state.fidStore))")
	}
	ft.fidFeedsCalls = a && b
}

// reconEveryTime returns "" if fd is `return func(…) … { straight-line statements }`, else what is in the way.
func reconEveryTime(fd *ast.FuncDecl) string {
	if len(fd.Body.List) != 1 {
		return fmt.Sprintf("reconciliationCall has %d statements, not the single `return func(…) error {…}`: state next to the handler can outlive a SUBSCRIBED event", len(fd.Body.List))
	}
	ret, ok := fd.Body.List[0].(*ast.ReturnStmt)
	if !ok || len(ret.Results) != 1 {
		return "reconciliationCall does not just return its handler"
	}
	lit, ok := ret.Results[0].(*ast.FuncLit)
	if !ok {
		return "reconciliationCall does not return a function literal: " + clip(es(ret.Results[0]))
	}
	for i, s := range lit.Body.List {
		switch st := s.(type) {
		case *ast.AssignStmt, *ast.ExprStmt, *ast.DeclStmt:
		case *ast.ReturnStmt:
			if i != len(lit.Body.List)-1 {
				return "early return in the handler"
			}
			_ = st
		default:
			return fmt.Sprintf("the handler is not straight-line code (%T at its top level): the RECONCILE call is conditional", s)
		}
	}
	nested, calls := 0, 0
	ast.Inspect(lit.Body, func(x ast.Node) bool {
		switch c := x.(type) {
		case *ast.FuncLit:
			nested++
		case *ast.CallExpr:
			if es(c.Fun) == "calls.CallNoData" {
				calls++
			}
		}
		return true
	})
	if nested > 0 {
		return "the handler contains a function literal: the RECONCILE call is not made in line"
	}
	if calls != 1 {
		return fmt.Sprintf("%d calls.CallNoData in the handler", calls)
	}
	return ""
}

func bodyText(fd *ast.FuncDecl) string {
	var parts []string
	ast.Inspect(fd.Body, func(x ast.Node) bool {
		if c, ok := x.(*ast.CallExpr); ok {
			parts = append(parts, es(c))
		}
		return true
	})
	return strings.Join(parts, "\n")
}

// ---- mesosutil.go / config.go ------------------------------------------------------------

func frameworkFacts(repo string, util *ast.File, ft *facts) {
	if fd := findFunc(util, "", "BuildFrameworkInfo"); fd != nil {
		v := ""
		ast.Inspect(fd.Body, func(x ast.Node) bool {
			if as, ok := x.(*ast.AssignStmt); ok && len(as.Lhs) == 1 && len(as.Rhs) == 1 && es(as.Rhs[0]) == `viper.GetDuration("mesosFailoverTimeout").Seconds()` {
				v = es(as.Lhs[0])
			}
			if is, ok := x.(*ast.IfStmt); ok && v != "" && es(is.Cond) == v+" > 0" {
				for _, s := range is.Body.List {
					if as, ok := s.(*ast.AssignStmt); ok && len(as.Lhs) == 1 && strings.HasSuffix(es(as.Lhs[0]), ".FailoverTimeout") && es(as.Rhs[0]) == "&"+v {
						ft.failoverSet = true
					}
				}
			}
			return true
		})
	}
	src, err := os.ReadFile(filepath.Join(repo, "core/task/schedutil/mesosutil.go"))
	if err == nil {
		ft.partitionAware = strings.Contains(string(src), "PARTITION_AWARE")
	}
	cfg, err := parseGo(filepath.Join(repo, "core/config.go"))
	if err != nil {
		ft.problems = append(ft.problems, "config.go: "+err.Error())
		return
	}
	ast.Inspect(cfg, func(x ast.Node) bool {
		c, ok := x.(*ast.CallExpr)
		if !ok || es(c.Fun) != "viper.SetDefault" || len(c.Args) != 2 {
			return true
		}
		if k, ok := strLit(c.Args[0]); !ok || k != "mesosFailoverTimeout" {
			return true
		}
		// getenvDuration("SCHEDULER_FAILOVER_TIMEOUT", "1000h") or a literal
		lit := ""
		if d, ok := c.Args[1].(*ast.CallExpr); ok && es(d.Fun) == "getenvDuration" && len(d.Args) == 2 {
			lit, _ = strLit(d.Args[1])
		} else if s, ok := strLit(c.Args[1]); ok {
			lit = s
		}
		if d, err := time.ParseDuration(lit); err == nil {
			ft.failoverValue = lit
			ft.failoverDefault = d > 0
		}
		return true
	})
}

func collectFacts(repo string) *facts {
	ft := &facts{killGuard: "other", killWrites: "other"}
	man, err := parseGo(filepath.Join(repo, "core/task/manager.go"))
	if err != nil {
		ft.problems = append(ft.problems, "manager.go: "+err.Error())
	} else {
		killFacts(man, ft)
		fidFacts(man, ft)
		killWriteFacts(man, ft)
	}
	rosterWriterFacts(repo, ft)
	if ft.killWritesDetail != "" {
		ft.problems = append(ft.problems, "doKillTasks: "+ft.killWritesDetail)
	}
	sched, err1 := parseGo(filepath.Join(repo, "core/task/scheduler.go"))
	state, err2 := parseGo(filepath.Join(repo, "core/task/schedulerstate.go"))
	if err1 != nil || err2 != nil {
		ft.problems = append(ft.problems, fmt.Sprintf("scheduler.go/schedulerstate.go: %v %v", err1, err2))
	} else {
		schedulerFacts(sched, state, ft)
	}
	util, err := parseGo(filepath.Join(repo, "core/task/schedutil/mesosutil.go"))
	if err != nil {
		ft.problems = append(ft.problems, "mesosutil.go: "+err.Error())
	} else {
		frameworkFacts(repo, util, ft)
	}
	if ft.killGuardDetail != "" {
		ft.problems = append(ft.problems, "KILL branch: "+ft.killGuardDetail)
	}
	return ft
}

func lb(b bool) string {
	if b {
		return "true"
	}
	return "false"
}

func genFacts(repo string) (string, error) {
	ft := collectFacts(repo)
	var b strings.Builder
	for _, p := range ft.problems {
		fmt.Fprintf(&b, "-- could not establish: %s\n", strings.NewReplacer("\n", " ", "\r", " ").Replace(p))
	}
	b.WriteString("namespace Gen.C18\n\n")
	wb := func(doc, name string, v bool) {
		fmt.Fprintf(&b, "/-- %s -/\ndef %s : Bool := %s\n\n", doc, name, lb(v))
	}
	ws := func(doc, name, v string) { fmt.Fprintf(&b, "/-- %s -/\ndef %s : String := %q\n\n", doc, name, v) }
	ws("go/ast, (*Manager).handleMessage, case taskop.TaskStatusMessage: shape of the condition of the one `if` (a direct statement of the clause) whose body builds calls.Kill and sends it with calls.CallNoData UNCONDITIONALLY (the body is straight-line code: assignments, declarations, call statements; no nested test, loop, return, go/defer or function literal). "+
		"\"reason+state\" = status.GetReason().String() == <literal> && (state == mesos.TASK_… || …), nothing else; "+
		"\"reason+state+notInRoster\" = the same plus a conjunct m.GetTask(<status task id>) == nil (or m.roster.getByTaskId(…) == nil); \"other\" = anything else", "killGuard", ft.killGuard)
	ws("the reason literal of that condition", "killReason", ft.killReason)
	fmt.Fprintf(&b, "/-- the mesos.TASK_… states listed in that condition, in source order -/\ndef killStates : List String := [")
	for i, s := range ft.killStates {
		if i > 0 {
			b.WriteString(", ")
		}
		fmt.Fprintf(&b, "%q", s)
	}
	b.WriteString("]\n\n")
	fmt.Fprintf(&b, "/-- number of calls.Kill call sites in handleMessage -/\ndef killCallsInHandleMessage : Nat := %d\n\n", ft.killCalls)
	wb("the else branch of that `if` hands the update to m.updateTaskStatus (so a KILLed reconciliation update is not also applied to the roster)", "elseUpdatesStatus", ft.elseUpdates)
	wb("go/ast, buildEventHandler: the rule set for scheduler.Event_SUBSCRIBED contains HandleF(state.reconciliationCall())", "reconcileOnSubscribed", ft.reconOnSubscribe)
	wb("go/ast, reconciliationCall: calls.CallNoData(ctx, state.cli, calls.Reconcile(calls.ReconcileTasks(nil))) — an IMPLICIT reconciliation", "reconcileIsImplicit", ft.reconImplicit)
	wb("go/ast, reconciliationCall is exactly `return func(ctx, e) error { <assignments, call statements>; return … }` with one calls.CallNoData in line: nothing next to the handler outlives a SUBSCRIBED event (no sync.Once, flag, counter), no test, loop, early return, go/defer or nested function literal — the RECONCILE goes out on EVERY SUBSCRIBED"+
		func() string {
			if ft.reconEveryDetail != "" {
				return " [NOT SO: " + strings.NewReplacer("\n", " ", "-/", "- /").Replace(ft.reconEveryDetail) + "]"
			}
			return ""
		}(), "reconcileOnEverySubscribed", ft.reconEveryTime)
	wb("go/ast: controller.TrackSubscription(fidStore, viper.GetDuration(\"mesosFailoverTimeout\")) precedes it in the same rule set (the id is stored before the RECONCILE goes out)", "trackSubscriptionBeforeReconcile", ft.trackBeforeRecon)
	wb("go/ast, NewManager: `if v, err := the.ConfSvc().GetRuntimeEntry(A, B); err == nil { store.SetOrPanic(fidStore)(v) }` with (A, B) the key written by the Set hook", "fidSeededFromRuntimeEntry", ft.fidSeeded)
	wb("go/ast, NewManager: fidStore := store.DecorateSingleton(store.NewInMemorySingleton(), store.DoSet().AndThen(func(_, v, _) { … the.ConfSvc().SetRuntimeEntry(A, B, v) … })) and that store is the one passed to NewScheduler", "fidWrittenBackToRuntimeEntry", ft.fidWrittenBack)
	ws("the runtime entry (component/key)", "fidRuntimeKey", ft.fidKey)
	wb("go/ast: runSchedulerController passes controller.WithFrameworkID(store.GetIgnoreErrors(fidStore)) and buildEventHandler(fidStore) to controller.Run; setupCli installs callrules.WithFrameworkID(store.GetIgnoreErrors(state.fidStore))", "fidStoreFeedsSubscribe", ft.fidFeedsCalls)
	wb("go/ast, NewManager: the Manager literal has roster: newRoster() (nothing is restored from a previous life)", "rosterFreshPerLife", ft.rosterFresh)
	wb("go/ast, BuildFrameworkInfo: failoverTimeout := viper.GetDuration(\"mesosFailoverTimeout\").Seconds(); if failoverTimeout > 0 { frameworkInfo.FailoverTimeout = &failoverTimeout }", "failoverTimeoutSet", ft.failoverSet)
	wb("go/ast, core/config.go: the default of mesosFailoverTimeout parses to a positive duration ("+ft.failoverValue+")", "failoverDefaultPositive", ft.failoverDefault)
	wb("mesosutil.go mentions PARTITION_AWARE (the framework would then be sent TASK_UNREACHABLE, which the KILL branch does not list)", "partitionAware", ft.partitionAware)
	ws("go/ast, (*Manager).doKillTasks: how a teardown writes the roster. \"filter-then-append\" = BEFORE the one top-level range loop that makes the KILL calls "+
		"(e := m.doKillTask(task)) the roster is written only by statements m.roster.updateTasks(m.roster.filtered(func…)) — a fresh read, filtered, written at once — "+
		"IN the loop only by m.roster.append(task) in the branch `if e != nil` (the one task whose KILL failed), AFTER the loop not at all; "+
		"\"other\" = anything else, e.g. a roster value read before the calls and written after them", "killTasksRosterWrites", ft.killWrites)
	fmt.Fprintf(&b, "/-- go/ast, package core/task (all non-test files but roster.go): every call <x>.roster.updateTasks(…) / <x>.roster.append(…) and every assignment to <x>.roster[.tasks], as <enclosing function>:<method>, sorted -/\ndef rosterWriteSites : List String := [")
	for i, s := range ft.rosterWriters {
		if i > 0 {
			b.WriteString(", ")
		}
		fmt.Fprintf(&b, "%q", s)
	}
	b.WriteString("]\n\n")
	b.WriteString("end Gen.C18\n")
	return b.String(), nil
}
