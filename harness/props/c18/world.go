package c18

// One C18 world: the real core (child process) against the simulators of
// verifharness/sim. A scenario is a script: bring environments to a point of
// their life, then disturb the core (SIGKILL+restart, SIGTERM+restart, master
// drops the subscription cleanly or abruptly), possibly several times. The
// observation is the master's totally ordered trace, projected on what matters
// for C18 and joined with what the core says it owns (GetTasks/GetEnvironments)
// at the instant of every disturbance.
//
// Quiescence is never inferred from elapsed time: after every disturbance the
// harness injects a reconciliation update about a task nobody knows
// ("barrier"); handleMessage answers it with a KILL call, and because taskman
// handles its channel sequentially and the call is synchronous, the arrival of
// that KILL at the master proves that every update emitted before the barrier
// has been handled completely (including its own KILL call).

import (
	"context"
	"fmt"
	"os"
	"sort"
	"strings"
	"sync"
	"time"

	pb "github.com/AliceO2Group/Control/core/protos"
	mesos "github.com/mesos/mesos-go/api/v1/lib"

	"verifharness/sim"
	"verifharness/sx"
)

// harness deadline of any single wait: reaching it is INCONCLUSIVE, never a verdict (C18_CEILING overrides, for debugging)
var ceiling = func() time.Duration {
	if d, err := time.ParseDuration(os.Getenv("C18_CEILING")); err == nil && d > 0 {
		return d
	}
	return 45 * time.Second
}()

var points = []string{"launching", "configuring", "configured", "starting", "running", "stopping", "standby", "teardown", "destroyed"}

// ---- input ---------------------------------------------------------------------------------

type action struct {
	kind string // env | kill | term | drop | destroy | stubborn | park | unpark | hide | mute | heal | sparse | nudge
	arg  string // env: point; drop: clean|abrupt [heal]; destroy: env index; stubborn: silent|killing; park: "<env index> destroy|cleanup"; sparse: none|exec|agent|both
}

// scenario = (K KV0 (ACTION…))
type scenario struct {
	k    int  // tasks per environment, 1..3
	kv0  bool // an earlier installation left a framework id in aliecs/mesos_fid
	acts []action
}

func parseScenario(in string) (*scenario, error) {
	n, err := sx.Parse(in)
	if err != nil {
		return nil, err
	}
	if !n.IsList || n.Len() != 3 || !n.At(2).IsList {
		return nil, fmt.Errorf("scenario: want (K KV0 (ACTION…))")
	}
	s := &scenario{k: n.At(0).Int(), kv0: n.At(1).Bool()}
	if s.k < 1 || s.k > 3 {
		return nil, fmt.Errorf("scenario: K out of range")
	}
	envs := 0
	parked := false
	var pts []string
	for _, a := range n.At(2).List {
		if !a.IsList || a.Len() < 1 {
			return nil, fmt.Errorf("scenario: bad action")
		}
		act := action{kind: a.At(0).Str()}
		if a.Len() > 1 {
			act.arg = a.At(1).Str()
		}
		for j := 2; j < a.Len(); j++ {
			act.arg += " " + a.At(j).Str()
		}
		switch act.kind {
		case "env":
			ok := false
			for _, p := range points {
				ok = ok || p == act.arg
			}
			if !ok {
				return nil, fmt.Errorf("scenario: bad point %q", act.arg)
			}
			envs++
			pts = append(pts, act.arg)
			if parked && act.arg != "configured" && act.arg != "running" && act.arg != "standby" {
				return nil, fmt.Errorf("scenario: only settled environments while a teardown is parked")
			}
		case "kill", "term":
		case "drop":
			// (drop clean|abrupt [heal]): heal = while the stream is down, every agent (re-)registers with the master
			// and its requests get through again (see hide/mute below): the NEXT reconciliation answer is complete
			if k := strings.TrimSuffix(act.arg, " heal"); k != "clean" && k != "abrupt" {
				return nil, fmt.Errorf("scenario: bad drop kind")
			}
		case "hide", "mute", "heal":
			// What the master can tell the core in answer to an implicit RECONCILE is not always everything that runs:
			// (hide)  the agents of the tasks alive now are not registered with the master from here on (master
			//         fail-over: agents re-register later; network partition): reconciliation answers leave these
			//         tasks out, the tasks run on;
			// (mute)  RECONCILE calls are lost from here on (accepted, never answered);
			// (heal)  both conditions end now — every later answer is complete. As a suffix of (drop …): they end while
			//         the stream is down, so no quiet point lies between the healing and the next subscription.
			if act.arg != "" {
				return nil, fmt.Errorf("scenario: (%s) takes no argument", act.kind)
			}
		case "sparse":
			// From here on the status updates the MASTER builds — its answers to a RECONCILE, the reconciliation updates it
			// volunteers ((nudge)) — lack the OPTIONAL field executor_id (exec), agent_id (agent) or both; (sparse none): complete
			// again. mesos.TaskStatus makes both fields optional; the AliECS executor's updates carry them, a master's own need
			// not (it copies executor_id only if its task record has one). What the core owns must not depend on it.
			if _, ok := sim.ParseStatusOmit(act.arg); !ok {
				return nil, fmt.Errorf("scenario: bad (sparse none|exec|agent|both)")
			}
		case "nudge":
			// the master volunteers a reconciliation update (latest state) about every task it holds alive and would report,
			// without any re-subscription (what an explicit reconciliation, or a master re-sending its view, looks like to the core)
			if act.arg != "" {
				return nil, fmt.Errorf("scenario: (nudge) takes no argument")
			}
		case "stubborn":
			// the tasks alive now outlive every KILL from here on: silent = the KILL has no effect at all (lost
			// on the way to a partitioned agent / ignored), killing = the task reports TASK_KILLING and hangs there
			if act.arg != "silent" && act.arg != "killing" {
				return nil, fmt.Errorf("scenario: bad stubborn mode")
			}
		case "park":
			// (park I destroy|cleanup): environment I is torn down — DestroyEnvironment, or DestroyEnvironment keeping the
			// tasks followed by CleanupTasks — while the master holds the answers to the KILL calls back: doKillTasks is
			// between its two roster writes until (unpark). Only settled environments created meanwhile.
			var i int
			var via string
			if _, e := fmt.Sscanf(act.arg, "%d %s", &i, &via); e != nil || i < 0 || i >= envs || (via != "destroy" && via != "cleanup") {
				return nil, fmt.Errorf("scenario: bad (park I destroy|cleanup)")
			}
			if p := pts[i]; p != "configured" && p != "running" && p != "standby" {
				return nil, fmt.Errorf("scenario: park of an environment at point %s", p)
			}
			if parked {
				return nil, fmt.Errorf("scenario: nested park")
			}
			parked = true
			pts[i] = "destroyed"
		case "unpark":
			if !parked {
				return nil, fmt.Errorf("scenario: unpark without park")
			}
			parked = false
		case "destroy":
			var i int
			if _, e := fmt.Sscanf(act.arg, "%d", &i); e != nil || i < 0 || i >= envs {
				return nil, fmt.Errorf("scenario: destroy of an environment not created before")
			}
			// an environment with an operation in flight refuses the request or makes it wait for the core's
			// 90 s command timeout: nothing to learn for this property
			if p := pts[i]; p != "configured" && p != "running" && p != "standby" {
				return nil, fmt.Errorf("scenario: destroy of an environment at point %s", p)
			}
		default:
			return nil, fmt.Errorf("scenario: unknown action %q", act.kind)
		}
		if parked && act.kind != "park" && act.kind != "env" {
			// a quiet point needs the core to answer a barrier with a KILL call of its own, and every disturbance is
			// bracketed by quiet points
			return nil, fmt.Errorf("scenario: (%s) while a teardown is parked", act.kind)
		}
		s.acts = append(s.acts, act)
	}
	if parked {
		return nil, fmt.Errorf("scenario: park without unpark")
	}
	if envs > 4 || len(s.acts) > 12 {
		return nil, fmt.Errorf("scenario: too long")
	}
	// A task that cannot be killed makes the core's own teardown paths (DestroyEnvironment, the clean-up after a
	// failed operation) run into their internal timeouts: the life that owns such tasks must end at once.
	for i, a := range s.acts {
		if a.kind == "stubborn" && (i+1 >= len(s.acts) || (s.acts[i+1].kind != "kill" && s.acts[i+1].kind != "term")) {
			return nil, fmt.Errorf("scenario: (stubborn …) must be followed by (kill) or (term)")
		}
	}
	return s, nil
}

func (s *scenario) String() string {
	as := sx.L()
	for _, a := range s.acts {
		if a.arg != "" {
			l := sx.L(sx.A(a.kind))
			for _, f := range strings.Fields(a.arg) {
				l.Add(sx.A(f))
			}
			as.Add(l)
		} else {
			as.Add(sx.L(sx.A(a.kind)))
		}
	}
	return sx.L(sx.I(s.k), sx.B(s.kv0), as).String()
}

// ---- the world -----------------------------------------------------------------------------

const presetFid = "c18-preexisting-framework-id"

func taskClassYAML(name string) string {
	return fmt.Sprintf(`name: %s
control:
  mode: direct
wants:
  cpu: 0.1
  memory: 64
command:
  shell: true
  value: "sleep 100000"
`, name)
}

func workflowYAML(k int) string {
	var b strings.Builder
	b.WriteString("name: c18wf\ndefaults:\n  deploy_timeout: 25s\nroles:\n")
	for i := 0; i < k; i++ {
		fmt.Fprintf(&b, "  - name: \"r%d\"\n    constraints:\n      - attribute: machine_id\n        value: \"host%d\"\n    task:\n      load: c18t%d\n", i, i%2+1, i)
	}
	return b.String()
}

// how often the mesos-go lost-disconnect race was hit in this process (reported, never a verdict)
var stuck struct {
	sync.Mutex
	n int
}

type marker struct {
	after int // placed after the trace record with this Seq
	node  *sx.Node
}

type envRec struct {
	idx     int
	id      string // core's environment id ("" until known)
	point   string
	gate    string
	pending chan error // result of the operation left in flight (nil if none)
	cancel  context.CancelFunc
	dead    bool // destroyed, or its core is gone
	asked   bool // the harness has asked for its destruction (the request may still be in flight)
}

type runner struct {
	w        *sim.World
	sc       *scenario
	mu       sync.Mutex
	marks    []marker
	envs     []*envRec
	barriers int
	life     int
	seenEnv  map[string]bool
	parked   *parkRec
	parks    int
	muted    bool // RECONCILE calls are lost at the moment (sim.SetReconcileSilent)
	lostID   bool // a re-subscription presented another framework id than the one the core had been given
}

// a teardown whose KILL calls the master keeps in flight
type parkRec struct {
	e       *envRec
	gate    string
	pending chan error
}

func (r *runner) lastSeq() int {
	tr := r.w.Trace()
	if len(tr) == 0 {
		return 0
	}
	return tr[len(tr)-1].Seq
}

func (r *runner) mark(n *sx.Node) {
	r.mu.Lock()
	defer r.mu.Unlock()
	r.marks = append(r.marks, marker{after: r.lastSeq(), node: n})
}

func gctx() (context.Context, context.CancelFunc) {
	return context.WithTimeout(context.Background(), ceiling)
}

func infraf(f string, a ...any) error { return &sim.InfraError{What: fmt.Sprintf(f, a...)} }

// barrier: see the file comment. rounds ≥ 1; a round is repeated while reconciliation
// answers about real tasks were emitted after the round's injection.
func (r *runner) barrier(rounds int) error {
	if !r.w.CoreAlive() || !r.w.Master.Subscribed() {
		return infraf("barrier without a subscribed core")
	}
	for i := 0; i < 8; i++ {
		r.barriers++
		id := fmt.Sprintf("c18-barrier-%d", r.barriers)
		st, src, reason := mesos.TASK_RUNNING, mesos.SOURCE_MASTER, mesos.REASON_RECONCILIATION
		msg := "Reconciliation: Latest task state"
		before := r.lastSeq()
		r.w.Master.InjectUpdate(mesos.TaskStatus{TaskID: mesos.TaskID{Value: id}, State: &st, Source: &src, Reason: &reason,
			Message: &msg, AgentID: &mesos.AgentID{Value: "agent-host1"}}, "barrier")
		if err := r.w.Master.Wait("the core answers barrier "+id+" with a KILL", ceiling, func(v *sim.View) bool {
			for j := len(v.Trace) - 1; j >= 0 && v.Trace[j].Seq > before; j-- {
				if t := v.Trace[j]; t.Dir == "call" && t.Type == "KILL" && len(t.TaskIDs) == 1 && t.TaskIDs[0] == id {
					return true
				}
			}
			return false
		}); err != nil {
			return err
		}
		// did the master emit reconciliation answers (or anything for a real task) after the injection?
		late := false
		injected := 0
		for _, t := range r.w.Trace() {
			if t.Seq <= before {
				continue
			}
			if t.Dir == "event" && t.Type == "UPDATE" && len(t.TaskIDs) == 1 && t.TaskIDs[0] == id {
				injected = t.Seq
			}
			if injected > 0 && t.Seq > injected && t.Dir == "event" && t.Type == "UPDATE" && t.Delivered {
				late = true
			}
		}
		if !late && i+1 >= rounds {
			return nil
		}
	}
	return infraf("the master kept emitting updates: no quiescent point within 8 barrier rounds")
}

// snapshot records what the core says it owns, and the environments it knows.
// phase "pre" (before a disturbance, and at the end): the picture must be settled — no roster
// task whose environment the core has already forgotten (a clean-up of its own is in progress) —
// which is polled for under the harness ceiling. phase "post": taken as it is, informational.
func (r *runner) snapshot(phase string) error {
	c := r.w.Client()
	if c == nil {
		return infraf("no core")
	}
	envOf := map[string]string{}
	for _, t := range r.w.Tasks() {
		envOf[t.TaskID] = t.EnvID
	}
	var own, envs *sx.Node
	// environments the harness itself asked to destroy let go of their tasks on purpose
	leaving := map[string]bool{}
	for _, e := range r.envs {
		if e.id != "" && (e.dead || e.asked) {
			leaving[e.id] = true
		}
	}
	prevLoose := ""
	err := sim.Poll("the core's roster and environment list agree", ceiling, func() (bool, error) {
		ctx, cancel := context.WithTimeout(context.Background(), 30*time.Second)
		defer cancel()
		er, err := c.GetEnvironments(ctx, &pb.GetEnvironmentsRequest{ShowAll: true, ShowTaskInfos: true})
		if err != nil {
			return false, &sim.InfraError{What: "GetEnvironments", Err: err}
		}
		tr, err := c.GetTasks(ctx, &pb.GetTasksRequest{})
		if err != nil {
			return false, &sim.InfraError{What: "GetTasks", Err: err}
		}
		listed := map[string]bool{}
		looseKey := ""
		envs = sx.L(sx.A("envs"))
		for _, e := range er.GetEnvironments() {
			// … and what its roles hold: the environment's own view of its tasks, independent of the roster
			// … and the tasks its roles reference that are NOT locked (Task.isLocked() false: to every sweep of unowned tasks
			// they are tasks outside any environment) — for an environment nobody asked to destroy
			row := sx.L(sx.A("E:"+e.GetId()), sx.A(e.GetState()))
			loose := sx.L(sx.A("loose"))
			for _, t := range e.GetTasks() {
				if t.GetLocked() {
					row.Add(sx.A("T:" + t.GetTaskId()))
				} else if !leaving[e.GetId()] && t.GetTaskId() != "" {
					loose.Add(sx.A("T:" + t.GetTaskId()))
				}
			}
			if loose.Len() > 1 {
				sort.SliceStable(loose.List[1:], func(i, j int) bool { return loose.List[1+i].String() < loose.List[1+j].String() })
				row.Add(loose)
				looseKey += row.String()
			}
			envs.Add(row)
			listed[e.GetId()] = true
		}
		// a referenced task that is not locked is reported only as a STATE: seen twice in a row (an environment the core
		// gives up by itself lets go of its tasks a moment before it leaves the list)
		if looseKey != prevLoose {
			prevLoose = looseKey
			return false, nil
		}
		own = sx.L(sx.A("own"), sx.A(phase))
		settled := true
		for _, t := range tr.GetTasks() {
			own.Add(sx.L(sx.A("T:"+t.GetTaskId()), sx.B(t.GetLocked()), sx.A(t.GetStatus())))
			if !listed[envOf[t.GetTaskId()]] {
				settled = false
			}
		}
		return settled || phase != "pre", nil
	})
	if err != nil {
		return err
	}
	r.mark(envs)
	r.mark(own)
	return nil
}

func (r *runner) kvMark() {
	v, ok := r.w.Consul.Get("o2/runtime/aliecs/mesos_fid")
	if !ok || v == "" {
		r.mark(sx.L(sx.A("kv"), sx.A("-")))
	} else {
		r.mark(sx.L(sx.A("kv"), sx.A("F:"+v)))
	}
}

// quiet = barrier + what the core owns + the master's live rows.
func (r *runner) quiet(rounds int, phase string) error {
	if err := r.barrier(rounds); err != nil {
		return err
	}
	if err := r.snapshot(phase); err != nil {
		return err
	}
	r.kvMark()
	q := sx.L(sx.A("quiet"), sx.I(r.life))
	hidden := map[string]bool{}
	for _, id := range r.w.Master.HiddenFromReconcile() {
		hidden[id] = true
	}
	for _, t := range r.w.Tasks() {
		if !t.Terminal {
			row := sx.L(sx.A("T:"+t.TaskID), sx.I(t.Epoch), sx.A(strings.TrimPrefix(t.MesosState, "TASK_")))
			if hidden[t.TaskID] {
				row.Add(sx.A("hid")) // alive, but the master would not report it: its agent is not registered
			}
			q.Add(row)
		}
	}
	r.mark(q)
	return nil
}

// hide: the agents of every task alive now are no longer registered with the master (see parseScenario).
func (r *runner) hide() {
	already := map[string]bool{}
	for _, id := range r.w.Master.HiddenFromReconcile() {
		already[id] = true
	}
	var ids []string
	for _, t := range r.w.Tasks() {
		if !t.Terminal && !already[t.TaskID] {
			ids = append(ids, t.TaskID)
		}
	}
	if len(ids) == 0 {
		return
	}
	r.w.Master.HideFromReconcile(ids...)
	n := sx.L(sx.A("hide"))
	for _, id := range ids {
		n.Add(sx.A("T:" + id))
	}
	r.mark(n)
}

// mute: RECONCILE calls are lost from now on.
func (r *runner) mute() {
	if r.muted {
		return
	}
	r.muted = true
	r.w.Master.SetReconcileSilent(true)
	r.mark(sx.L(sx.A("mute")))
}

// heal: every agent is registered again, RECONCILE calls get through again.
func (r *runner) heal() {
	if ids := r.w.Master.UnhideFromReconcile(); len(ids) > 0 {
		n := sx.L(sx.A("unhide"))
		for _, id := range ids {
			n.Add(sx.A("T:" + id))
		}
		r.mark(n)
	}
	if r.muted {
		r.muted = false
		r.w.Master.SetReconcileSilent(false)
		r.mark(sx.L(sx.A("unmute")))
	}
}

// sparse: what the master's own status updates lack from now on (see parseScenario).
func (r *runner) sparse(arg string) {
	o, _ := sim.ParseStatusOmit(arg)
	r.w.Master.SetReconcileOmit(o)
	r.mark(sx.L(sx.A("sparse"), sx.A(arg)))
}

// nudge: the master volunteers a reconciliation update about every task it holds alive (and would report), built like
// its answers to a RECONCILE — lacking what (sparse …) says —, then a quiet point.
func (r *runner) nudge() error {
	if !r.w.CoreAlive() || !r.w.Master.Subscribed() {
		return infraf("nudge without a subscribed core")
	}
	hidden := map[string]bool{}
	for _, id := range r.w.Master.HiddenFromReconcile() {
		hidden[id] = true
	}
	om := r.w.Master.ReconcileOmit()
	for _, t := range r.w.Tasks() {
		if t.Terminal || hidden[t.TaskID] {
			continue
		}
		st, ok := mesos.TaskState_value[t.MesosState]
		if !ok {
			return infraf("nudge: unknown task state %s", t.MesosState)
		}
		if err := r.w.Master.InjectTaskStatus(t.TaskID, mesos.TaskState(st), true, om, volunteered); err != nil {
			return &sim.InfraError{What: "nudge", Err: err}
		}
	}
	return r.quiet(2, "pre")
}

const volunteered = "volunteered"

// stubborn: every task the master holds alive now outlives every KILL from here on (see parseScenario).
// The rules are per task id, so tasks launched later behave normally.
func (r *runner) stubborn(mode string) {
	out := sim.Outcome{Kind: sim.Silent}
	if mode == "killing" {
		out = sim.Outcome{Kind: sim.OK, MesosState: mesos.TASK_KILLING}
	}
	for _, t := range r.w.Tasks() {
		if !t.Terminal {
			r.w.SetOutcome(sim.Selector{TaskID: t.TaskID}, sim.EvKill, out)
		}
	}
}

func (r *runner) class(j int) string { return fmt.Sprintf("c18t%d", j) }

func (r *runner) newEnv(ctx context.Context) (string, string, error) {
	resp, err := r.w.Client().NewEnvironment(ctx, &pb.NewEnvironmentRequest{WorkflowTemplate: "c18wf", Vars: map[string]string{}})
	if err != nil {
		return "", "", err
	}
	return resp.GetEnvironment().GetId(), resp.GetEnvironment().GetState(), nil
}

func (r *runner) control(ctx context.Context, id string, op pb.ControlEnvironmentRequest_Optype) (string, error) {
	resp, err := r.w.Client().ControlEnvironment(ctx, &pb.ControlEnvironmentRequest{Id: id, Type: op})
	if err != nil {
		return "", err
	}
	return resp.GetState(), nil
}

// newEnvID waits for the tasks of an environment the harness has not seen yet to
// appear in the master's table (its id is the launch label) and returns the id.
func (r *runner) awaitLaunched() (string, error) {
	var id string
	err := r.w.Master.Wait("the tasks of the new environment are launched", ceiling, func(v *sim.View) bool {
		n := map[string]int{}
		for _, t := range v.Tasks {
			if !r.seenEnv[t.EnvID] {
				n[t.EnvID]++
			}
		}
		for e, k := range n {
			if k >= r.sc.k {
				id = e
				return true
			}
		}
		return false
	})
	return id, err
}

// held waits until a reaction is parked at gate g; if the operation that should run into the gate
// returns first, waiting longer is pointless.
func (r *runner) held(e *envRec) error {
	return sim.Poll("an operation is parked at gate "+e.gate, ceiling, func() (bool, error) {
		if r.w.Master.Held(e.gate) >= 1 {
			return true, nil
		}
		select {
		case err := <-e.pending:
			e.pending <- err
			return false, infraf("the operation meant to be held at gate %s returned before reaching it: %v", e.gate, err)
		default:
			return false, nil
		}
	})
}

var errStop = fmt.Errorf("c18: script ends early, the observation stands")

// killedHealthy: did the core, in its current life, KILL a task whose last update before the KILL was an
// ordinary (non-reconciliation) one with a non-terminal state?
func (r *runner) killedHealthy() bool {
	last := map[string]sim.Record{}
	for _, t := range r.w.Trace() {
		if t.Epoch != r.life || len(t.TaskIDs) != 1 {
			continue
		}
		id := t.TaskIDs[0]
		switch {
		case t.Dir == "event" && t.Type == "UPDATE":
			last[id] = t
		case t.Dir == "call" && t.Type == "KILL":
			if u, ok := last[id]; ok && u.Reason == "" {
				switch u.State {
				case "TASK_STAGING", "TASK_STARTING", "TASK_RUNNING":
					return true
				}
			}
		}
	}
	return false
}

// bring creates environment number len(r.envs) and takes it to `point`.
func (r *runner) bring(point string) error {
	e := &envRec{idx: len(r.envs), point: point, gate: fmt.Sprintf("g%d", len(r.envs))}
	r.envs = append(r.envs, e)
	c0 := sim.Selector{Class: r.class(0)}
	inflight := func(f func(ctx context.Context) error) {
		ctx, cancel := context.WithCancel(context.Background())
		e.cancel = cancel
		e.pending = make(chan error, 1)
		go func() { e.pending <- f(ctx) }()
	}
	syncNew := func() error {
		ctx, cancel := gctx()
		defer cancel()
		id, st, err := r.newEnv(ctx)
		if err != nil {
			if r.killedHealthy() {
				// not a harness problem: the core itself killed a task it had just launched and that had
				// reported nothing but non-terminal states. The script ends here; what happened is observed.
				return errStop
			}
			return &sim.InfraError{What: "NewEnvironment", Err: err}
		}
		if st != "CONFIGURED" {
			return infraf("NewEnvironment left the environment in %s", st)
		}
		e.id = id
		r.seenEnv[id] = true
		return nil
	}
	syncCtl := func(op pb.ControlEnvironmentRequest_Optype, want ...string) error {
		ctx, cancel := gctx()
		defer cancel()
		st, err := r.control(ctx, e.id, op)
		if err != nil {
			return &sim.InfraError{What: op.String(), Err: err}
		}
		for _, w := range want {
			if w == st {
				return nil
			}
		}
		return infraf("%s left the environment in %s", op, st)
	}
	switch point {
	case "launching", "configuring":
		ev := sim.EvLaunch
		if point == "configuring" {
			ev = "CONFIGURE"
		}
		r.w.SetOutcome(c0, ev, sim.Outcome{Kind: sim.OK, Gate: e.gate, Times: 1})
		inflight(func(ctx context.Context) error { _, _, err := r.newEnv(ctx); return err })
		id, err := r.awaitLaunched()
		if err != nil {
			return err
		}
		e.id = id
		r.seenEnv[id] = true
		return r.held(e)
	case "configured":
		return syncNew()
	case "starting":
		if err := syncNew(); err != nil {
			return err
		}
		r.w.SetOutcome(c0, "START", sim.Outcome{Kind: sim.OK, Gate: e.gate, Times: 1})
		inflight(func(ctx context.Context) error {
			_, err := r.control(ctx, e.id, pb.ControlEnvironmentRequest_START_ACTIVITY)
			return err
		})
		return r.held(e)
	case "running", "stopping":
		if err := syncNew(); err != nil {
			return err
		}
		if err := syncCtl(pb.ControlEnvironmentRequest_START_ACTIVITY, "RUNNING"); err != nil {
			return err
		}
		if point == "running" {
			return nil
		}
		r.w.SetOutcome(c0, "STOP", sim.Outcome{Kind: sim.OK, Gate: e.gate, Times: 1})
		inflight(func(ctx context.Context) error {
			_, err := r.control(ctx, e.id, pb.ControlEnvironmentRequest_STOP_ACTIVITY)
			return err
		})
		return r.held(e)
	case "standby", "teardown", "destroyed":
		if err := syncNew(); err != nil {
			return err
		}
		if err := syncCtl(pb.ControlEnvironmentRequest_RESET, "STANDBY", "DEPLOYED"); err != nil {
			return err
		}
		if point == "standby" {
			return nil
		}
		if point == "teardown" {
			r.w.SetOutcome(c0, sim.EvKill, sim.Outcome{Kind: sim.OK, Gate: e.gate, Times: 1})
			e.asked = true
			r.mark(sx.L(sx.A("destroy"), sx.A("E:"+e.id)))
			inflight(func(ctx context.Context) error {
				_, err := r.w.Client().DestroyEnvironment(ctx, &pb.DestroyEnvironmentRequest{Id: e.id})
				return err
			})
			return r.held(e)
		}
		return r.destroy(e)
	}
	return fmt.Errorf("bad point")
}

func (r *runner) destroy(e *envRec) error {
	if e.id == "" {
		return infraf("destroy of an environment without id")
	}
	e.asked = true
	r.mark(sx.L(sx.A("destroy"), sx.A("E:"+e.id)))
	ctx, cancel := gctx()
	defer cancel()
	_, err := r.w.Client().DestroyEnvironment(ctx, &pb.DestroyEnvironmentRequest{Id: e.id, Force: true, AllowInRunningState: true})
	r.mark(sx.L(sx.A("destroyed"), sx.A("E:"+e.id), sx.B(err == nil)))
	e.dead = true
	if err != nil {
		// the scenario asked for a destroyed environment and the core did not deliver one (seen under load:
		// the tasks are unlocked, the KILLs not sent): the point is not established
		return &sim.InfraError{What: "DestroyEnvironment of a settled environment failed", Err: err}
	}
	// the KILLs are asynchronous to the reply; the barrier of the next quiet point orders them
	return nil
}

func (r *runner) cancelInflight() {
	for _, e := range r.envs {
		if e.cancel != nil {
			e.cancel()
			e.cancel = nil
		}
	}
}

func (r *runner) releaseGates() {
	for _, e := range r.envs {
		r.w.Release(e.gate)
	}
	for i := 1; i <= r.parks; i++ {
		r.w.Release(fmt.Sprintf("park%d", i))
	}
}

// park: tear environment e down with the answers to its KILL calls held back by the master. On return the
// first KILL call has reached the master and its caller — doKillTasks, between its two roster writes — is
// parked in it; the environment is gone from the core's list (TeardownEnvironment is complete).
func (r *runner) park(e *envRec, via string) error {
	if e.id == "" || e.dead {
		return infraf("park of an environment that is not up")
	}
	var ids []string
	for _, t := range r.w.Tasks() {
		if t.EnvID == e.id && !t.Terminal {
			ids = append(ids, t.TaskID)
		}
	}
	if len(ids) == 0 {
		return infraf("park: the environment has no live task")
	}
	r.parks++
	p := &parkRec{e: e, gate: fmt.Sprintf("park%d", r.parks), pending: make(chan error, 1)}
	r.w.Master.HoldCalls("KILL", p.gate, ids...)
	e.asked = true
	r.mark(sx.L(sx.A("destroy"), sx.A("E:"+e.id)))
	c := r.w.Client()
	switch via {
	case "destroy":
		go func() {
			ctx, cancel := gctx()
			defer cancel()
			_, err := c.DestroyEnvironment(ctx, &pb.DestroyEnvironmentRequest{Id: e.id, Force: true, AllowInRunningState: true})
			p.pending <- err
		}()
	case "cleanup":
		ctx, cancel := gctx()
		_, err := c.DestroyEnvironment(ctx, &pb.DestroyEnvironmentRequest{Id: e.id, Force: true, AllowInRunningState: true, KeepTasks: true})
		cancel()
		if err != nil {
			return &sim.InfraError{What: "DestroyEnvironment (keeping the tasks) of a settled environment failed", Err: err}
		}
		go func() {
			ctx, cancel := gctx()
			defer cancel()
			_, err := c.CleanupTasks(ctx, &pb.CleanupTasksRequest{})
			p.pending <- err
		}()
	}
	e.dead = true
	r.parked = p
	return sim.Poll("a KILL call of the teardown is in flight", ceiling, func() (bool, error) {
		if r.w.Master.Held(p.gate) >= 1 {
			return true, nil
		}
		select {
		case err := <-p.pending:
			p.pending <- err
			return false, infraf("the teardown returned without a KILL call reaching the master: %v", err)
		default:
			return false, nil
		}
	})
}

// unpark: the master answers the held KILL calls; the teardown runs to its end.
func (r *runner) unpark() error {
	p := r.parked
	if p == nil {
		return infraf("unpark without park")
	}
	r.parked = nil
	r.w.Release(p.gate)
	select {
	case err := <-p.pending:
		r.mark(sx.L(sx.A("destroyed"), sx.A("E:"+p.e.id), sx.B(err == nil)))
		if err != nil {
			return &sim.InfraError{What: "the parked teardown failed", Err: err}
		}
	case <-time.After(ceiling):
		return infraf("the parked teardown did not return")
	}
	return nil
}

func (r *runner) restart(term bool) error {
	if err := r.quiet(1, "pre"); err != nil {
		return err
	}
	if term {
		r.mark(sx.L(sx.A("term")))
		done := make(chan error, 1)
		go func() { done <- r.w.TermCore() }()
		// a transition parked at a gate would make the shutdown path wait for the core's own 90 s
		// command timeout: let the held replies go once the signal is on its way
		time.Sleep(50 * time.Millisecond)
		r.releaseGates()
		if err := <-done; err != nil {
			return err
		}
		r.mark(sx.L(sx.A("exited")))
	} else {
		r.mark(sx.L(sx.A("killcore")))
		if err := r.w.KillCore(); err != nil {
			return err
		}
	}
	r.cancelInflight()
	for _, e := range r.envs {
		e.dead = true
	}
	r.life++
	r.mark(sx.L(sx.A("start"), sx.I(r.life)))
	if err := r.w.StartCore(); err != nil {
		return err
	}
	return r.quiet(2, "restart")
}

func (r *runner) drop(abrupt, heal bool) error {
	if err := r.quiet(1, "pre"); err != nil {
		return err
	}
	// The barrier's KILL is recorded by the master before its HTTP answer reaches the core. A subscription
	// that ends while a call is in flight trips a race in mesos-go's httpsched (the in-flight call re-installs
	// the "connected" phase over the "disconnected" one; every later SUBSCRIBE is refused locally with
	// "already subscribed" and the core stays deaf for ever). That is a defect of its own (notes/C18.md), but
	// not the subject here: give the answer time to arrive, and recognise the stuck client instead of
	// waiting for the ceiling.
	time.Sleep(150 * time.Millisecond)
	if heal {
		r.heal()
	}
	n := r.lastSeq()
	logPath := r.w.CoreLog()
	// the framework the core is: the id of the SUBSCRIBED it has just been quiet under
	had := r.w.Master.FrameworkID()
	r.w.DropStream(abrupt)
	if err := sim.Poll("the core re-subscribes after the dropped stream", ceiling, func() (bool, error) {
		tr := r.w.Trace()
		sub := false
		for _, t := range tr {
			if t.Seq <= n {
				continue
			}
			if t.Dir == "call" && t.Type == "SUBSCRIBE" && !sub {
				sub = true
				if got := t.Call.GetSubscribe().GetFrameworkInfo().GetID().GetValue(); got != had {
					// Not a harness problem and not a deadline: the core was seen presenting ANOTHER identity (or none)
					// than the one it holds. A master registers a new framework for that; the core's own tasks stay
					// behind under the old one. Nothing that follows can be scripted (the core may never settle on a
					// subscription again): the script ends here, what happened is observed.
					r.lostID = true
				}
			}
			if sub && t.Type == "SUBSCRIBED" {
				return true, nil
			}
		}
		if b, e := os.ReadFile(logPath); e == nil && strings.Contains(string(b), "already subscribed, cannot re-issue a SUBSCRIBE call") {
			stuck.Lock()
			stuck.n++
			stuck.Unlock()
			return false, infraf("the core's mesos-go client lost the disconnect (\"already subscribed, cannot re-issue a SUBSCRIBE call\"): it never re-subscribes")
		}
		return false, nil
	}); err != nil {
		return err
	}
	if r.lostID {
		return errStop
	}
	return r.quiet(2, "post")
}

func runScenario(sc *scenario, verbose bool) (string, error) {
	cfg := sim.Config{Name: "c18", Verbose: verbose, StartCeiling: ceiling}
	if sc.kv0 {
		cfg.KV = map[string]string{"o2/runtime/aliecs/mesos_fid": presetFid}
	}
	w, err := sim.Start(cfg)
	if err != nil {
		return "", err
	}
	defer w.Stop()
	r := &runner{w: w, sc: sc, life: 1, seenEnv: map[string]bool{"": true}}
	defer r.cancelInflight()
	defer r.releaseGates()
	defer w.Master.UnhideFromReconcile()                // drops this master's entry of the simulator's side table
	defer w.Master.SetReconcileOmit(sim.StatusOmit{}) // … and of the other one
	w.AddAgent(sim.AgentSpec{Host: "host1", Detector: "TST"})
	w.AddAgent(sim.AgentSpec{Host: "host2", Detector: "TST"})
	for j := 0; j < sc.k; j++ {
		if err = w.SetTaskClass(r.class(j), taskClassYAML(r.class(j))); err != nil {
			return "", &sim.InfraError{What: "task class", Err: err}
		}
	}
	if err = w.SetWorkflow("c18wf", workflowYAML(sc.k)); err != nil {
		return "", &sim.InfraError{What: "workflow", Err: err}
	}
	// A simulated task reports TASK_RUNNING the instant it is launched; the core appends launched tasks to
	// its roster only after the ACCEPT calls of the offer round returned, and an update handled before that
	// is dropped ("attempted status update of task not in roster") — the deployment then times out. Real
	// tasks take far longer to start than that window: so do these.
	w.SetOutcome(sim.Selector{}, sim.EvLaunch, sim.Outcome{Kind: sim.OK, Delay: 300 * time.Millisecond})
	for _, a := range sc.acts {
		switch a.kind {
		case "env":
			err = r.bring(a.arg)
		case "kill":
			err = r.restart(false)
		case "term":
			err = r.restart(true)
		case "drop":
			err = r.drop(strings.HasPrefix(a.arg, "abrupt"), strings.HasSuffix(a.arg, " heal"))
		case "hide":
			r.hide()
		case "mute":
			r.mute()
		case "heal":
			r.heal()
		case "stubborn":
			r.stubborn(a.arg)
		case "sparse":
			r.sparse(a.arg)
		case "nudge":
			err = r.nudge()
		case "park":
			var i int
			var via string
			fmt.Sscanf(a.arg, "%d %s", &i, &via)
			err = r.park(r.envs[i], via)
		case "unpark":
			err = r.unpark()
		case "destroy":
			var i int
			fmt.Sscanf(a.arg, "%d", &i)
			if e := r.envs[i]; !e.dead {
				if err = r.destroy(e); err == nil {
					err = r.quiet(1, "pre")
				}
			}
		}
		if err == errStop {
			break
		}
		if err != nil {
			if os.Getenv("C18_VERBOSE") != "" {
				if b, e := os.ReadFile(w.CoreLog()); e == nil {
					ls := strings.Split(string(b), "\n")
					if len(ls) > 60 {
						ls = ls[len(ls)-60:]
					}
					fmt.Fprintf(os.Stderr, "---- core log tail (%s)\n%s\n", sc, strings.Join(ls, "\n"))
				}
				for _, t := range w.Trace() {
					fmt.Fprintln(os.Stderr, "   ", t.String())
				}
			}
			if sim.IsInfra(err) {
				return "", fmt.Errorf("%s: action (%s %s): %w", sc, a.kind, a.arg, err)
			}
			return "", &sim.InfraError{What: fmt.Sprintf("%s: action (%s %s)", sc, a.kind, a.arg), Err: err}
		}
	}
	// let everything that was held go, and look once more
	r.releaseGates()
	if r.lostID {
		// no quiet point can be expected of a core that is no longer the framework it was (see drop)
		return r.observation(), nil
	}
	if err = r.quiet(1, "pre"); err != nil {
		return "", fmt.Errorf("%s: final quiet point: %w", sc, err)
	}
	return r.observation(), nil
}

// ---- observation ---------------------------------------------------------------------------

type namer struct {
	prefix string
	m      map[string]int
}

func (n *namer) name(id string) string {
	if i, ok := n.m[id]; ok {
		return fmt.Sprintf("%s%d", n.prefix, i)
	}
	n.m[id] = len(n.m)
	return fmt.Sprintf("%s%d", n.prefix, len(n.m)-1)
}

func short(state string) string { return strings.TrimPrefix(state, "TASK_") }

func (r *runner) observation() string {
	tr := r.w.Trace()
	tasks := &namer{"t", map[string]int{}}
	bars := &namer{"b", map[string]int{}}
	envs := &namer{"e", map[string]int{}}
	fids := &namer{"f", map[string]int{}}
	tname := func(id string) string {
		if strings.HasPrefix(id, "c18-barrier-") {
			return bars.name(id)
		}
		return tasks.name(id)
	}
	envOf := map[string]string{}
	for _, t := range r.w.Tasks() {
		envOf[t.TaskID] = t.EnvID
	}
	if r.sc.kv0 {
		fids.name(presetFid)
	}
	out := sx.L()
	if r.sc.kv0 {
		out.Add(sx.L(sx.A("kv"), sx.A(fids.name(presetFid))))
	} else {
		out.Add(sx.L(sx.A("kv"), sx.A("-")))
	}
	out.Add(sx.L(sx.A("start"), sx.I(1)))
	// rename inside a marker: atoms prefixed T: E: F:
	var ren func(n *sx.Node) *sx.Node
	ren = func(n *sx.Node) *sx.Node {
		if !n.IsList {
			switch {
			case strings.HasPrefix(n.Atom, "T:"):
				return sx.A(tname(n.Atom[2:]))
			case strings.HasPrefix(n.Atom, "E:"):
				return sx.A(envs.name(n.Atom[2:]))
			case strings.HasPrefix(n.Atom, "F:"):
				return sx.A(fids.name(n.Atom[2:]))
			}
			return n
		}
		l := sx.L()
		for _, c := range n.List {
			l.Add(ren(c))
		}
		return l
	}
	sortRows := func(n *sx.Node, from int) {
		rows := n.List[from:]
		sort.SliceStable(rows, func(i, j int) bool { return rows[i].String() < rows[j].String() })
	}
	mi := 0
	flush := func(upto int) {
		for mi < len(r.marks) && r.marks[mi].after <= upto {
			n := ren(r.marks[mi].node)
			switch n.At(0).Str() {
			case "own":
				sortRows(n, 2)
			case "envs":
				for _, row := range n.List[1:] {
					if row.IsList && row.Len() > 2 {
						sortRows(row, 2)
					}
				}
				sortRows(n, 1)
			case "quiet":
				sortRows(n, 2)
			}
			out.Add(n)
			mi++
		}
	}
	for _, t := range tr {
		flush(t.Seq - 1)
		switch {
		case t.Dir == "call" && t.Type == "SUBSCRIBE":
			fi := t.Call.GetSubscribe().GetFrameworkInfo()
			f := "-"
			if id := fi.GetID().GetValue(); id != "" {
				f = fids.name(id)
			}
			out.Add(sx.L(sx.A("sub"), sx.I(t.Epoch), sx.A(f), sx.B(fi.GetFailoverTimeout() > 0)))
		case t.Dir == "event" && t.Type == "SUBSCRIBED":
			out.Add(sx.L(sx.A("subd"), sx.A(fids.name(t.Event.GetSubscribed().GetFrameworkID().GetValue()))))
		case t.Dir == "call" && t.Type == "RECONCILE":
			out.Add(sx.L(sx.A("recon"), sx.I(len(t.TaskIDs)), sx.I(t.HTTP)))
		case t.Dir == "call" && t.Type == "ACCEPT":
			for _, id := range t.TaskIDs {
				out.Add(sx.L(sx.A("launch"), sx.A(envs.name(envOf[id])), sx.A(tname(id))))
			}
		case t.Dir == "event" && t.Type == "UPDATE" && len(t.TaskIDs) == 1:
			reason := "-"
			switch t.Reason {
			case "":
			case "REASON_RECONCILIATION":
				reason = "recon"
				if t.MsgDetail == volunteered {
					reason = "vol" // not the answer to a RECONCILE: the master sent it of its own accord
				}
			default:
				reason = "other"
			}
			u := sx.L(sx.A("upd"), sx.A(tname(t.TaskIDs[0])), sx.A(short(t.State)), sx.A(reason), sx.B(t.Delivered))
			// an update about a task of the master's table that lacks an optional identity field says so
			if _, known := envOf[t.TaskIDs[0]]; known {
				switch {
				case t.AgentID == "" && t.ExecutorID == "":
					u.Add(sx.A("noids"))
				case t.AgentID == "":
					u.Add(sx.A("noagent"))
				case t.ExecutorID == "":
					u.Add(sx.A("noexec"))
				}
			}
			out.Add(u)
		case t.Dir == "call" && t.Type == "KILL" && len(t.TaskIDs) == 1:
			out.Add(sx.L(sx.A("kill"), sx.A(tname(t.TaskIDs[0])), sx.I(t.HTTP)))
		case t.Dir == "call" && t.Type == "TEARDOWN":
			out.Add(sx.L(sx.A("teardown")))
		case t.Dir == "note" && t.Type == "DROPSTREAM":
			out.Add(sx.L(sx.A("drop")))
		}
	}
	flush(1 << 30)
	return out.String()
}
