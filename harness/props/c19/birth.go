package c19

// Close() within the START-UP LATENCY of the writer's two workers.
//
// NewWriterWithTopic only SPAWNS writingLoop and batchingLoop (`go …`): until the Go scheduler runs a
// worker for the first time it has executed nothing.  A topic writer is created lazily by the first
// event published on the topic, and a shutdown can follow that first use at once — then Close() runs
// while accepted events sit in the hand-over channel and neither worker has moved yet.  "Flushed on
// shutdown" is a statement about the instant Close() RETURNS: everything accepted has been handed to
// the write function by then (a write that begins later meets a closed kafka.Writer in production).
//
// Input : (birth (procs P) (busy B) (lat us) (gap g) (prods (kind env task)*) (rounds (n0 n1 …) …))
//
//	one CHILD process per case with runtime.GOMAXPROCS(P) and B goroutines spinning on the Ps; per round a
//	fresh writer (event.NewWriterForVerif: the struct and the two `go` statements of NewWriterWithTopic), the
//	controller publishes n_p events of every producer p, producer by producer, spins g iterations and calls
//	Close() — all in ONE goroutine that does not block or yield in between.  With P = 1 the workers cannot
//	have run when Close() is called (the spawned goroutines wait in the run queue until the controller
//	blocks in Close); with P > 1 the window is the scheduler's latency, widened by the spinning goroutines.
//	(lat us): every write call takes this long.  No hook in /repo steers the schedule.
//
// Obs   : (birth <obs> …) — per round the ordinary observation
//
//	((accepted …) (batches …) (close returned) (left chan buf) (inflight n) (atreturn written late))
//	inflight / atreturn-written are read by the controller right after Close() returned: write calls in
//	progress and events that HAD BEEN handed to the write function at that instant; `late` = write calls
//	that began after it; batches / left are read once the writer has come to rest (everything accepted is
//	written, or a grace period is over — what is missing then is missing from `batches`, the verdict rests
//	on the at-return snapshot, which waits for nothing).  A Close() that does not return within the ceiling
//	ends the child with an error: the case is inconclusive.

import (
	"fmt"
	"os"
	"runtime"
	"strings"
	"syscall"
	"time"

	"github.com/AliceO2Group/Control/common/event"

	"verifharness/fw"
	"verifharness/rng"
	"verifharness/sx"
)

const birthChild = "c19-birth"

const birthGrace = 250 * time.Millisecond

type bprod struct{ kind, env, task int }

type birthInput struct {
	procs, busy, lat, gap int
	prods                 []bprod
	rounds                [][]int
}

func parseBirth(in *sx.Node) (birthInput, error) {
	var bi birthInput
	if in.Len() != 7 || in.At(0).Str() != "birth" {
		return bi, fmt.Errorf("bad input: birth wants six settings")
	}
	want := []string{"procs", "busy", "lat", "gap"}
	vals := make([]int, len(want))
	for i, w := range want {
		f := in.At(i + 1)
		if f.Len() != 2 || f.At(0).Str() != w {
			return bi, fmt.Errorf("bad input: (%s n) expected at position %d", w, i+1)
		}
		vals[i] = f.At(1).Int()
	}
	bi.procs, bi.busy, bi.lat, bi.gap = vals[0], vals[1], vals[2], vals[3]
	if bi.procs < 1 || bi.procs > 16 || bi.busy < 0 || bi.busy > 64 || bi.lat < 0 || bi.lat > 100000 || bi.gap < 0 || bi.gap > 10000000 {
		return bi, fmt.Errorf("bad input: birth settings out of range")
	}
	if bi.procs == 1 && bi.busy > 0 {
		return bi, fmt.Errorf("bad input: spinning goroutines on a single P starve the controller")
	}
	if in.At(5).At(0).Str() != "prods" || in.At(6).At(0).Str() != "rounds" {
		return bi, fmt.Errorf("bad input: (prods …) (rounds …) expected")
	}
	for _, p := range in.At(5).List[1:] {
		if p.Len() != 3 || p.At(0).Int() < 0 || p.At(0).Int() > 8 {
			return bi, fmt.Errorf("bad input: producer %s", p)
		}
		bi.prods = append(bi.prods, bprod{p.At(0).Int(), p.At(1).Int(), p.At(2).Int()})
	}
	if len(bi.prods) == 0 || in.At(6).Len() < 2 || in.At(6).Len() > 1001 {
		return bi, fmt.Errorf("bad input: producers / rounds missing")
	}
	for _, rn := range in.At(6).List[1:] {
		if rn.Len() != len(bi.prods) {
			return bi, fmt.Errorf("bad input: a round wants one count per producer")
		}
		var cs []int
		tot := 0
		for _, c := range rn.List {
			if c.Int() < 0 {
				return bi, fmt.Errorf("bad input: negative count")
			}
			cs = append(cs, c.Int())
			tot += c.Int()
		}
		// the controller must not wait for room in the hand-over channel: it would yield to the workers
		if tot > 5000 {
			return bi, fmt.Errorf("bad input: more than 5000 events in a round")
		}
		bi.rounds = append(bi.rounds, cs)
	}
	return bi, nil
}

// birthRound: one fresh writer, published to and closed by this goroutine without a break.
func birthRound(bi birthInput, counts []int) (*sx.Node, error) {
	r := &runner{parkAt: map[int]bool{}, parkedCh: make(chan int, 1), release: make(chan struct{})}
	r.latNs.Store(int64(bi.lat) * 1000)
	total := 0
	for _, n := range counts {
		total += n
	}
	// everything that can be prepared is prepared before the writer exists
	type pub struct {
		ev interface{}
		ts time.Time
	}
	pubs := make([]pub, 0, total)
	for p, n := range counts {
		pr := bi.prods[p]
		for i := 0; i < n; i++ {
			pubs = append(pubs, pub{mkEvent(pr.kind, pr.env, pr.task), time.Unix(0, int64(p)<<32|int64(i))})
		}
	}
	watchdog := time.AfterFunc(ceiling, func() {
		fmt.Fprintf(os.Stderr, "Close() of a writer closed right after its first use did not return within %v\n", ceiling)
		os.Exit(4)
	})
	// ---- the window: constructor, publications, Close, snapshot — one goroutine, no blocking call in between
	w := event.NewWriterForVerif("verif", r.write)
	for i := range pubs {
		w.WriteEventWithTimestamp(pubs[i].ev, pubs[i].ts)
	}
	spin(bi.gap)
	w.Close()
	r.mu.Lock()
	wAt, cAt, iAt := r.nWritten, r.calls, r.inflight
	r.mu.Unlock()
	// ----
	watchdog.Stop()
	// let the writer come to rest (nothing to wait for when Close() did what it promises)
	t0 := time.Now()
	for {
		r.mu.Lock()
		rest := r.nWritten >= total && r.inflight == 0
		r.mu.Unlock()
		if rest || time.Since(t0) > birthGrace {
			break
		}
		time.Sleep(100 * time.Microsecond)
	}
	cl, _, bl, _ := w.VerifSnapshot()
	r.mu.Lock()
	defer r.mu.Unlock()
	if s, ok := r.bad.Load().(string); ok {
		return nil, fmt.Errorf("harness could not decode a message: %s", s)
	}
	acc := sx.L(sx.A("accepted"))
	for _, n := range counts {
		acc.Add(sx.I(n))
	}
	bs := sx.L(sx.A("batches"))
	for _, b := range r.batches {
		bn := sx.L()
		for _, e := range b {
			bn.Add(sx.L(sx.I(e.p), sx.I(e.seq), sx.I(e.key)))
		}
		bs.Add(bn)
	}
	return sx.L(acc, bs, sx.L(sx.A("close"), sx.A("returned")), sx.L(sx.A("left"), sx.I(cl), sx.I(bl)),
		sx.L(sx.A("inflight"), sx.I(iAt)), sx.L(sx.A("atreturn"), sx.I(wAt), sx.I(r.calls-cAt))), nil
}

func birthCase(input string) (string, error) {
	in, err := sx.Parse(input)
	if err != nil {
		return "", err
	}
	bi, err := parseBirth(in)
	if err != nil {
		return "", err
	}
	runtime.GOMAXPROCS(bi.procs)
	stop := make(chan struct{})
	defer close(stop)
	for i := 0; i < bi.busy; i++ {
		go func() {
			for {
				select {
				case <-stop:
					return
				default:
				}
			}
		}()
	}
	obs := sx.L(sx.A("birth"))
	for i, counts := range bi.rounds {
		rn, err := birthRound(bi, counts)
		if err != nil {
			return "", fmt.Errorf("round %d: %w", i, err)
		}
		obs.Add(rn)
	}
	return obs.String(), nil
}

func birthChildMain(args []string) {
	if len(args) != 1 {
		fmt.Fprintln(os.Stderr, birthChild+": want one argument")
		os.Exit(3)
	}
	obs, err := birthCase(args[0])
	if err != nil {
		fmt.Fprintln(os.Stderr, err)
		os.Exit(3)
	}
	fmt.Println(obs)
}

// runBirth: the parent's side — one child process per case (its own scheduler settings).
func runBirth(input string) (string, error) {
	if in, err := sx.Parse(input); err != nil {
		return "", err
	} else if _, err := parseBirth(in); err != nil {
		return "", err
	}
	cmd := fw.ChildCommand(birthChild, input)
	cmd.SysProcAttr = &syscall.SysProcAttr{Setpgid: true}
	var stdout, stderr strings.Builder
	cmd.Stdout, cmd.Stderr = &stdout, &stderr
	if err := cmd.Start(); err != nil {
		return "", err
	}
	done := make(chan error, 1)
	go func() { done <- cmd.Wait() }()
	select {
	case err := <-done:
		if err != nil {
			return "", fmt.Errorf("birth child: %v: %.400s", err, stderr.String())
		}
	case <-time.After(4 * ceiling):
		_ = syscall.Kill(-cmd.Process.Pid, syscall.SIGKILL)
		<-done
		return "", fmt.Errorf("birth child did not finish within %v", 4*ceiling)
	}
	lines := strings.Split(strings.TrimSpace(stdout.String()), "\n")
	obs := strings.TrimSpace(lines[len(lines)-1])
	if !strings.HasPrefix(obs, "(birth") {
		return "", fmt.Errorf("birth child printed no observation: %.200s / %.200s", stdout.String(), stderr.String())
	}
	return obs, nil
}

// ---- generator ---------------------------------------------------------------------------------

func birthInputText(bi birthInput) string {
	ps := sx.L(sx.A("prods"))
	for _, p := range bi.prods {
		ps.Add(sx.L(sx.I(p.kind), sx.I(p.env), sx.I(p.task)))
	}
	rs := sx.L(sx.A("rounds"))
	for _, cs := range bi.rounds {
		rn := sx.L()
		for _, c := range cs {
			rn.Add(sx.I(c))
		}
		rs.Add(rn)
	}
	return sx.L(sx.A("birth"), sx.L(sx.A("procs"), sx.I(bi.procs)), sx.L(sx.A("busy"), sx.I(bi.busy)),
		sx.L(sx.A("lat"), sx.I(bi.lat)), sx.L(sx.A("gap"), sx.I(bi.gap)), ps, rs).String()
}

func birthCaseOf(bi birthInput) fw.Case {
	most := 0
	for _, cs := range bi.rounds {
		t := 0
		for _, c := range cs {
			t += c
		}
		if t > most {
			most = t
		}
	}
	tags := []string{"birth:close-right-after-first-use", fmt.Sprintf("birth:procs=%d", bi.procs),
		fmt.Sprintf("birth:producers=%d", len(bi.prods)), fmt.Sprintf("birth:events~%d", bucket(most))}
	if bi.procs == 1 {
		tags = append(tags, "birth:workers-not-yet-scheduled(single-P)")
	} else if bi.busy > 0 {
		tags = append(tags, "birth:Ps-saturated-by-spinning-goroutines")
	} else {
		tags = append(tags, "birth:scheduler-latency-only")
	}
	if bi.gap > 0 {
		tags = append(tags, "birth:spin-before-close")
	}
	if bi.lat > 0 {
		tags = append(tags, "birth:broker-latency")
	}
	return fw.Case{Input: birthInputText(bi), Tags: tags}
}

func genBirth(r *rng.R, procs, busy, minRounds, maxRounds int) fw.Case {
	bi := birthInput{procs: procs, busy: busy,
		lat: rng.Pick(r, []int{0, 0, 0, 50, 300}),
		gap: rng.Pick(r, []int{0, 0, 0, 100, 3000, 100000})}
	np := r.Range(1, 3)
	ps := prodsNode(r, np)
	for _, p := range ps.List[1:] {
		bi.prods = append(bi.prods, bprod{p.At(0).Int(), p.At(1).Int(), p.At(2).Int()})
	}
	nr := r.Range(minRounds, maxRounds)
	for i := 0; i < nr; i++ {
		cs := make([]int, np)
		tot := 0
		for p := range cs {
			// a first-ever event on a topic right before the core stops: mostly a handful, sometimes more than a batch
			cs[p] = rng.Pick(r, []int{0, 1, 1, 1, 2, 3, 5, 20, 99, 100, 101, 150, 250})
			tot += cs[p]
		}
		if tot == 0 {
			cs[r.N(np)] = 1
		}
		bi.rounds = append(bi.rounds, cs)
	}
	return birthCaseOf(bi)
}

func genBirthCases(tier string, r *rng.R) []fw.Case {
	single, idle, loaded, maxRounds := 8, 3, 3, 40
	if tier == "thorough" {
		single, idle, loaded, maxRounds = 80, 30, 20, 120
	}
	var cs []fw.Case
	for i := 0; i < single; i++ {
		cs = append(cs, genBirth(r.Fork(), 1, 0, 20, maxRounds))
	}
	for i := 0; i < idle; i++ {
		cs = append(cs, genBirth(r.Fork(), r.Range(2, 4), 0, 20, maxRounds))
	}
	for i := 0; i < loaded; i++ {
		p := r.Range(2, 4)
		cs = append(cs, genBirth(r.Fork(), p, p*r.Range(2, 3), 4, 8))
	}
	return cs
}

func shrinkBirth(in *sx.Node) []string {
	bi, err := parseBirth(in)
	if err != nil {
		return nil
	}
	var out []string
	add := func(x birthInput) {
		if t := birthInputText(x); len(t) < len(in.String()) {
			out = append(out, t)
		}
	}
	if n := len(bi.rounds); n > 1 {
		x := bi
		x.rounds = bi.rounds[:n/2]
		add(x)
		x.rounds = bi.rounds[n/2:]
		add(x)
	}
	// one producer less (its column goes)
	if np := len(bi.prods); np > 1 {
		for drop := np - 1; drop >= 0; drop-- {
			x := bi
			x.prods = append(append([]bprod{}, bi.prods[:drop]...), bi.prods[drop+1:]...)
			x.rounds = nil
			for _, cs := range bi.rounds {
				x.rounds = append(x.rounds, append(append([]int{}, cs[:drop]...), cs[drop+1:]...))
			}
			add(x)
		}
	}
	// fewer events (a candidate must be shorter as text: fewer digits)
	for i, cs := range bi.rounds {
		for p, c := range cs {
			for _, c2 := range []int{1, 9, 99} {
				if c2 < c {
					x := bi
					x.rounds = append([][]int{}, bi.rounds...)
					x.rounds[i] = append([]int{}, cs...)
					x.rounds[i][p] = c2
					add(x)
				}
			}
		}
		if i >= 3 {
			break
		}
	}
	if bi.lat > 0 {
		x := bi
		x.lat = 0
		add(x)
	}
	if bi.gap > 0 {
		x := bi
		x.gap = 0
		add(x)
	}
	if bi.busy > 0 {
		x := bi
		x.busy = 0
		add(x)
	}
	return out
}

func birthNontrivial(in *sx.Node, obs string) bool {
	bi, err := parseBirth(in)
	if err != nil {
		return false
	}
	o, err := sx.Parse(obs)
	if err != nil || o.Len() < 2 {
		return false
	}
	// at least one round in which two or more events were accepted before Close
	for _, cs := range bi.rounds {
		t := 0
		for _, c := range cs {
			t += c
		}
		if t >= 2 {
			return true
		}
	}
	return false
}
