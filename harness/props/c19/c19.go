// Package c19: the Kafka event writer (common/event/writer.go, fifobuffer.go).
//
// The REAL KafkaWriter is built through event.NewWriterForVerif (hook file
// common/event/verif_hooks.go): same struct, same two goroutines, only the broker
// call is replaced by a function that records every batch and can park on demand.
//
// Input  : ((prods (kind env task)*) (park k*) (script op*))   |   (storm N)   |   (registry …) — see registry.go
//	        |   (birth …) — Close() within the start-up latency of the two workers, see birth.go
//
//	prods   producer i publishes payload type `kind` (index in the type switch of
//	        internalEventToKafkaEvent) with environment id number `env` and task id number
//	        `task` (0 = empty string); its events are tagged (i, seq) in TimestampNano
//	park    indices of the write calls (0-based) that block until a (release)
//	op      (pub p n)        the controller publishes n events of producer p, one after the other
//	        (spawn p n gap)  a goroutine does the same with `gap` spin iterations between events
//	        (join)           wait for the spawned producers
//	        (lat us)         every later write call takes this long
//	        (await-parked)   wait until a write call is parked
//	        (release)        let the parked write call return
//	        (await-written)  wait until everything accepted so far has been handed to the write function
//	        (close)          call Close() (in its own goroutine)
//	        (await-done)     wait until the batching loop has posted its done token (hook snapshot) or Close returned
//	        (sleep us)
//	        (hold)           take the FIFO buffer's lock: the batching loop stalls in its next Push, the writing loop in its
//	                         next PopMultiple (only with the writing loop parked in a write call or idle with all written)
//	        (unhold)         give the lock back
//	        (await-blocked)  (while held) wait until the pipeline is at rest — every producer goroutine still running sits in
//	                         the channel send of WriteEventWithTimestamp, the batching loop waits in Push or in the receive —
//	                         and record a snapshot
//	optional fourth element (cap N): build the writer with a hand-over channel of N slots (needs the hook method
//	(*KafkaWriter).VerifNewWithCap of common/event/verif_hooks_cap.go; without it the case is inconclusive)
//	        A run always ends with: join, close (if not yet called), release everything, wait for Close.
//	(storm N) N fresh writers, nothing published, Close at a jittered instant right after construction.
//
// Obs    : ((accepted a0 a1 …) (batches ((p seq key)…)…) (close returned|hung) (left chan buf) (inflight n) (atreturn w late))
//
//	        | (storm N ok a hung b)
//	        atreturn: what the goroutine that called Close() saw right after the call returned — w = events that HAD BEEN
//	        handed to the write function by then, late = write calls that began afterwards (0 0 unless Close returned)
//	        with hold ops or (cap N) a seventh element (snaps (snap (acc a0 a1 …) (chan n) (hand h) (buf n) (written n) (blocked p…))…):
//	        per snapshot the WriteEvent calls that have RETURNED per producer, len(channel), whether the batching loop has a
//	        message in its hand, the buffer's length, events handed to the write function so far, producers waiting in the send
//	batches in write-call order as handed to the write function; key coded 0 = none, n = "e<n>",
//	1000+m = "t<m>"; left = what the hook snapshot shows after Close ended; inflight = write calls
//	still running when Close returned. `hung` is reported ONLY when the goroutine dump proves it: the
//	writing loop of this writer sits in sync.Cond.Wait and its batching loop (the only signaller) is gone.
//	Everything that merely takes long is an infrastructure error (inconclusive), never an observation.
//
// The goroutine schedule is not controllable, so the Lean side works monitor-style: it rebuilds a
// model schedule from the SHAPE of the observation (who is in which batch, batch sizes, how Close
// ended), runs the model on it and prints the model's own observation; agreement = equality.
package c19

import (
	"context"
	"fmt"
	"runtime"
	"strings"
	"sync"
	"sync/atomic"
	"time"

	"github.com/AliceO2Group/Control/common/event"
	pb "github.com/AliceO2Group/Control/common/protos"
	"github.com/segmentio/kafka-go"
	"google.golang.org/protobuf/proto"

	"verifharness/fw"
	"verifharness/rng"
	"verifharness/sx"
)

const ceiling = 30 * time.Second // generous; exceeding it is "inconclusive", never a verdict

func idStr(prefix string, n int) string {
	if n == 0 {
		return ""
	}
	return fmt.Sprintf("%s%d", prefix, n)
}

// mkEvent builds the payload of the given kind (order of the type switch in internalEventToKafkaEvent).
func mkEvent(kind, env, task int) interface{} {
	e, t := idStr("e", env), idStr("t", task)
	switch kind {
	case 0:
		return &pb.Ev_MetaEvent_CoreStart{FrameworkId: "fw"}
	case 1:
		return &pb.Ev_MetaEvent_MesosHeartbeat{}
	case 2:
		return &pb.Ev_MetaEvent_FrameworkEvent{FrameworkId: "fw", Message: "m"}
	case 3:
		return &pb.Ev_TaskEvent{Name: "task", Taskid: t, EnvironmentId: e, State: "RUNNING"}
	case 4:
		return &pb.Ev_RoleEvent{Name: "role", EnvironmentId: e, State: "RUNNING"}
	case 5:
		return &pb.Ev_EnvironmentEvent{EnvironmentId: e, State: "RUNNING"}
	case 6:
		return &pb.Ev_CallEvent{Func: "f()", EnvironmentId: e}
	case 7:
		return &pb.Ev_IntegratedServiceEvent{Name: "dcs", EnvironmentId: e}
	case 8:
		return &pb.Ev_RunEvent{EnvironmentId: e, RunNumber: 1}
	}
	return nil
}

func keyCode(k []byte) int {
	if k == nil {
		return 0
	}
	var n int
	s := string(k)
	if _, err := fmt.Sscanf(s, "e%d", &n); err == nil && s == fmt.Sprintf("e%d", n) && n > 0 {
		return n
	}
	if _, err := fmt.Sscanf(s, "t%d", &n); err == nil && s == fmt.Sprintf("t%d", n) && n > 0 {
		return 1000 + n
	}
	return 9999
}

type wev struct{ p, seq, key int }

type runner struct {
	w        *event.KafkaWriter
	mu       sync.Mutex
	batches  [][]wev
	nWritten int
	calls    int
	inflight int
	parkedNow int // write calls sitting in their park right now
	parkAt   map[int]bool
	parkedCh chan int
	release  chan struct{}
	freeAll  atomic.Bool
	latNs    atomic.Int64
	bad      atomic.Value // string: undecodable message
}

func (r *runner) write(_ context.Context, msgs ...kafka.Message) error {
	b := make([]wev, 0, len(msgs))
	for _, m := range msgs {
		b = append(b, decodeMsg(r, m))
	}
	r.mu.Lock()
	idx := r.calls
	r.calls++
	r.inflight++
	r.batches = append(r.batches, b)
	r.nWritten += len(b)
	park := r.parkAt[idx]
	r.mu.Unlock()
	if park && !r.freeAll.Load() {
		r.mu.Lock()
		r.parkedNow++
		r.mu.Unlock()
		r.parkedCh <- idx
		<-r.release
		r.mu.Lock()
		r.parkedNow--
		r.mu.Unlock()
	}
	if d := r.latNs.Load(); d > 0 {
		t0 := time.Now()
		for time.Since(t0) < time.Duration(d) {
			runtime.Gosched()
		}
	}
	r.mu.Lock()
	r.inflight--
	r.mu.Unlock()
	return nil
}

// notAnEvent is what the observation shows for a message the write function was handed that does not decode as
// an event: every message the harness publishes goes through the real writer's proto.Marshal, so bytes that do
// not decode (or that make the decoder panic: a slice header torn by unsynchronised access to the buffer) were
// produced by the code under test, not by the harness. Producer 9999 does not exist: Spec.C19 rejects it
// ("delivered something nobody published").
var notAnEvent = wev{9999, 0, 9999}

func decodeMsg(r *runner, m kafka.Message) (w wev) {
	defer func() {
		if x := recover(); x != nil {
			r.bad.Store(fmt.Sprintf("decoding panicked: %v", x))
			w = notAnEvent
		}
	}()
	var e pb.Event
	if err := proto.Unmarshal(m.Value, &e); err != nil {
		r.bad.Store("unmarshal: " + err.Error())
		return notAnEvent
	}
	n := e.GetTimestampNano()
	return wev{int(n >> 32), int(n & 0xffffffff), keyCode(m.Key)}
}

func spin(n int) {
	x := 0
	for i := 0; i < n; i++ {
		x += i
	}
	_ = x
}

// provenHung: a proof that Close can never return, not a timeout.
//
//	T0  the hook snapshot shows the done token posted and not taken: the batching loop HAS run up to its
//	    last two statements (ReleaseGoroutines; Done) and the writing loop has not seen the token;
//	T1  a stop-the-world goroutine dump shows no batchingLoop goroutine of this writer (so it has
//	    finished: its Broadcast is in the past) and the writingLoop of this writer in state
//	    [sync.Cond.Wait] (a goroutine that a Broadcast has readied is shown as runnable, not waiting).
//
// Only Push and ReleaseGoroutines signal the condition variable and only the batching loop calls
// them, so nobody will ever wake the writing loop: runningWorkers.Wait() in Close blocks for ever.
func provenHung(w *event.KafkaWriter) bool {
	if _, _, _, tok := w.VerifSnapshot(); !tok {
		return false
	}
	buf := make([]byte, 1<<20)
	for {
		n := runtime.Stack(buf, true)
		if n < len(buf) {
			buf = buf[:n]
			break
		}
		if len(buf) >= 1<<28 {
			return false
		}
		buf = make([]byte, 2*len(buf))
	}
	ptr := fmt.Sprintf("%p", w)
	wl := "(*KafkaWriter).writingLoop(" + ptr
	bl := "(*KafkaWriter).batchingLoop(" + ptr
	writerWaiting, batcherAlive := false, false
	for _, g := range strings.Split(string(buf), "\n\n") {
		if strings.Contains(g, bl) {
			batcherAlive = true
		}
		if strings.Contains(g, wl) {
			head, _, _ := strings.Cut(g, "\n")
			if strings.Contains(head, "[sync.Cond.Wait") && strings.Contains(g, "sync.(*Cond).Wait(") {
				writerWaiting = true
			}
		}
	}
	return writerWaiting && !batcherAlive
}

// awaitClose waits for Close; "hung" only with proof, error at the ceiling.
func awaitClose(w *event.KafkaWriter, done chan struct{}, idle func() bool) (string, error) {
	t0 := time.Now()
	wait := 20 * time.Millisecond
	for {
		select {
		case <-done:
			return "returned", nil
		case <-time.After(wait):
		}
		if idle() && provenHung(w) {
			// re-check once: a proof must be stable
			select {
			case <-done:
				return "returned", nil
			case <-time.After(5 * time.Millisecond):
			}
			if provenHung(w) {
				return "hung", nil
			}
		}
		if time.Since(t0) > ceiling {
			return "", fmt.Errorf("Close neither returned nor provably deadlocked within %v", ceiling)
		}
		if wait < 500*time.Millisecond {
			wait *= 2
		}
	}
}

func poll(cond func() bool, what string) error {
	t0 := time.Now()
	for i := 0; !cond(); i++ {
		if time.Since(t0) > ceiling {
			return fmt.Errorf("waited more than %v for %s", ceiling, what)
		}
		if i < 200 {
			runtime.Gosched()
		} else {
			time.Sleep(50 * time.Microsecond)
		}
	}
	return nil
}

func runStorm(n int) (string, error) {
	ok, hung := 0, 0
	for i := 0; i < n; i++ {
		w := event.NewWriterForVerif("verif", func(context.Context, ...kafka.Message) error { return nil })
		spin((i * 37) % 3000)
		done := make(chan struct{})
		go func() { w.Close(); close(done) }()
		st, err := awaitClose(w, done, func() bool { return true })
		if err != nil {
			return "", err
		}
		if st == "hung" {
			hung++
		} else {
			ok++
		}
	}
	return sx.L(sx.A("storm"), sx.I(n), sx.A("ok"), sx.I(ok), sx.A("hung"), sx.I(hung)).String(), nil
}

func runImpl(input string) (string, error) {
	in, err := sx.Parse(input)
	if err != nil {
		return "", err
	}
	if in.At(0).Str() == "storm" {
		return runStorm(in.At(1).Int())
	}
	if in.At(0).Str() == "registry" {
		return runRegistry(input)
	}
	if in.At(0).Str() == "birth" {
		return runBirth(input)
	}
	type prod struct{ kind, env, task int }
	var prods []prod
	for _, p := range in.At(0).List[1:] {
		prods = append(prods, prod{p.At(0).Int(), p.At(1).Int(), p.At(2).Int()})
	}
	r := &runner{parkAt: map[int]bool{}, parkedCh: make(chan int, 64), release: make(chan struct{})}
	for _, k := range in.At(1).List[1:] {
		r.parkAt[k.Int()] = true
	}
	// optional fourth element (cap N): the capacity-parameterised constructor of the tree under test
	capN := 0
	if in.Len() >= 4 && in.At(3).At(0).Str() == "cap" {
		capN = in.At(3).At(1).Int()
		if capN < 1 {
			return "", fmt.Errorf("bad input: capacity %d", capN)
		}
	}
	usesHold := capN > 0
	for _, op := range in.At(2).List[1:] {
		if n := op.At(0).Str(); n == "hold" || n == "await-blocked" || n == "unhold" {
			usesHold = true
		}
	}
	if capN > 0 {
		ctor := capCtor()
		if ctor == nil {
			return "", fmt.Errorf("the tree under test has no (*KafkaWriter).VerifNewWithCap (common/event/verif_hooks_cap.go)")
		}
		r.w = ctor("verif", r.write, capN)
	} else {
		r.w = event.NewWriterForVerif("verif", r.write)
	}
	hs := &holdState{tags: map[int]uintptr{}}
	if usesHold {
		g, err := gutsOf(r.w)
		if err == nil && capN > 0 && g.ch.Cap() != capN {
			err = fmt.Errorf("VerifNewWithCap(%d) built a channel of capacity %d", capN, g.ch.Cap())
		}
		if err != nil {
			go r.w.Close()
			return "", err
		}
		hs.g = g
	}
	accepted := make([]atomic.Int64, len(prods))
	busy := make([]atomic.Bool, len(prods))
	var wg sync.WaitGroup
	publish := func(p, n, gap int) {
		pr := prods[p]
		for i := 0; i < n; i++ {
			seq := accepted[p].Load()
			r.w.WriteEventWithTimestamp(mkEvent(pr.kind, pr.env, pr.task), time.Unix(0, int64(p)<<32|seq))
			accepted[p].Add(1)
			if gap > 0 {
				spin(gap)
			}
		}
	}
	total := func() int {
		t := 0
		for i := range accepted {
			t += int(accepted[i].Load())
		}
		return t
	}
	closeDone := make(chan struct{})
	closeCalled := false
	inflightAtReturn, writtenAtReturn, callsAtReturn := -1, 0, 0
	doClose := func() {
		closeCalled = true
		go func() {
			r.w.Close()
			// the snapshot of the caller of Close(), taken right after the call returned
			r.mu.Lock()
			inflightAtReturn, writtenAtReturn, callsAtReturn = r.inflight, r.nWritten, r.calls
			r.mu.Unlock()
			close(closeDone)
		}()
	}
	closed := func() bool {
		select {
		case <-closeDone:
			return true
		default:
			return false
		}
	}
	joinAll := func() error {
		ch := make(chan struct{})
		go func() { wg.Wait(); close(ch) }()
		select {
		case <-ch:
			return nil
		case <-time.After(ceiling):
			return fmt.Errorf("producers did not finish within %v", ceiling)
		}
	}
	// on any infrastructure error: unblock everything so that nothing of this case lingers
	bail := func(e error) (string, error) {
		hs.unhold()
		r.freeAll.Store(true)
		for {
			select {
			case r.release <- struct{}{}:
				continue
			case <-time.After(20 * time.Millisecond):
			}
			break
		}
		return "", e
	}
	for _, op := range in.At(2).List[1:] {
		switch op.At(0).Str() {
		case "pub", "spawn":
			p, n := op.At(1).Int(), op.At(2).Int()
			if p >= len(prods) || closeCalled {
				return bail(fmt.Errorf("bad script: %s", op))
			}
			if busy[p].Load() {
				return bail(fmt.Errorf("bad script: producer %d used concurrently", p))
			}
			if op.At(0).Str() == "pub" {
				if hs.held {
					return bail(fmt.Errorf("bad script: synchronous pub while the batching loop is held"))
				}
				publish(p, n, 0)
			} else {
				busy[p].Store(true)
				wg.Add(1)
				gap := op.At(3).Int()
				// registered before the goroutine exists: a snapshot must wait for it to block or finish
				tag := newTag()
				hs.setTag(p, tag)
				go func() {
					defer wg.Done()
					publishLoop(tag, func() { publish(p, n, gap) })
					hs.setTag(p, 0)
					busy[p].Store(false)
				}()
			}
		case "hold":
			// only with the writing loop out of the way (inside a parked write call, or idle with everything
			// written): a batch popped but not yet handed to the write function would be invisible
			r.mu.Lock()
			quiet := r.parkedNow > 0 || r.nWritten == total()
			r.mu.Unlock()
			for i := range busy {
				if busy[i].Load() {
					quiet = false
				}
			}
			if hs.g == nil || hs.held || !quiet {
				return bail(fmt.Errorf("bad script: hold (held=%v, writing loop quiet=%v)", hs.held, quiet))
			}
			hs.hold()
		case "unhold":
			if !hs.held {
				return bail(fmt.Errorf("bad script: unhold without hold"))
			}
			hs.unhold()
		case "await-blocked":
			if !hs.held || closeCalled {
				return bail(fmt.Errorf("bad script: await-blocked needs the batching loop held and the writer open"))
			}
			if err := hs.snapshot(r.w, accepted, func() int { r.mu.Lock(); defer r.mu.Unlock(); return r.nWritten }); err != nil {
				return bail(err)
			}
		case "join":
			if hs.held {
				return bail(fmt.Errorf("bad script: join while the batching loop is held"))
			}
			if err := joinAll(); err != nil {
				return bail(err)
			}
		case "lat":
			r.latNs.Store(int64(op.At(1).Int()) * 1000)
		case "sleep":
			time.Sleep(time.Duration(op.At(1).Int()) * time.Microsecond)
		case "await-parked":
			select {
			case <-r.parkedCh:
			case <-time.After(ceiling):
				return bail(fmt.Errorf("no write call parked within %v", ceiling))
			}
		case "release":
			select {
			case r.release <- struct{}{}:
			case <-time.After(ceiling):
				return bail(fmt.Errorf("nothing to release within %v", ceiling))
			}
		case "await-written":
			if hs.held {
				return bail(fmt.Errorf("bad script: await-written while the batching loop is held"))
			}
			if err := joinAll(); err != nil {
				return bail(err)
			}
			want := total()
			if err := poll(func() bool { r.mu.Lock(); defer r.mu.Unlock(); return r.nWritten >= want }, "everything accepted to be written"); err != nil {
				return bail(err)
			}
		case "close":
			if hs.held {
				return bail(fmt.Errorf("bad script: close while the batching loop is held"))
			}
			if err := joinAll(); err != nil {
				return bail(err)
			}
			if !closeCalled {
				doClose()
			}
		case "await-done":
			if !closeCalled {
				return bail(fmt.Errorf("bad script: await-done before close"))
			}
			if err := poll(func() bool { _, _, _, d := r.w.VerifSnapshot(); return d || closed() }, "the done token"); err != nil {
				return bail(err)
			}
		default:
			return bail(fmt.Errorf("bad script op %s", op))
		}
	}
	hs.unhold()
	if err := joinAll(); err != nil {
		return bail(err)
	}
	if !closeCalled {
		doClose()
	}
	// let every parked write call go
	r.freeAll.Store(true)
	stopRel := make(chan struct{})
	go func() {
		for {
			select {
			case r.release <- struct{}{}:
			case <-stopRel:
				return
			}
		}
	}()
	status, err := awaitClose(r.w, closeDone, func() bool { r.mu.Lock(); defer r.mu.Unlock(); return r.inflight == 0 })
	close(stopRel)
	if err != nil {
		return "", err
	}
	cl, _, bl, _ := r.w.VerifSnapshot()
	r.mu.Lock()
	defer r.mu.Unlock()
	acc := sx.L(sx.A("accepted"))
	for i := range accepted {
		acc.Add(sx.I(int(accepted[i].Load())))
	}
	bs := sx.L(sx.A("batches"))
	for _, b := range r.batches {
		bn := sx.L()
		for _, e := range b {
			bn.Add(sx.L(sx.I(e.p), sx.I(e.seq), sx.I(e.key)))
		}
		bs.Add(bn)
	}
	infl, wAt, late := 0, 0, 0
	if status == "returned" {
		infl, wAt, late = inflightAtReturn, writtenAtReturn, r.calls-callsAtReturn
	}
	obs := sx.L(acc, bs, sx.L(sx.A("close"), sx.A(status)), sx.L(sx.A("left"), sx.I(cl), sx.I(bl)),
		sx.L(sx.A("inflight"), sx.I(infl)), sx.L(sx.A("atreturn"), sx.I(wAt), sx.I(late)))
	if usesHold {
		obs.Add(sx.L(append([]*sx.Node{sx.A("snaps")}, hs.snaps...)...))
	}
	return obs.String(), nil
}

// ---- generator -------------------------------------------------------------------

func prodsNode(r *rng.R, n int) *sx.Node {
	ps := sx.L(sx.A("prods"))
	envs := r.Range(1, 3)
	for i := 0; i < n; i++ {
		kind := rng.Pick(r, []int{5, 5, 5, 4, 6, 7, 8, 3, 3, 0, 1, 2})
		env := r.Range(1, envs)
		if r.P(1, 12) {
			env = 0
		}
		task := 0
		if kind == 3 {
			task = r.Range(0, 3)
		}
		ps.Add(sx.L(sx.I(kind), sx.I(env), sx.I(task)))
	}
	return ps
}

func op(name string, args ...int) *sx.Node {
	n := sx.L(sx.A(name))
	for _, a := range args {
		n.Add(sx.I(a))
	}
	return n
}

func mk(prods, park, script *sx.Node) string { return sx.L(prods, park, script).String() }

// the model schedule "n published, first write parked, Close, batching loop done, release"
func genDrop(r *rng.R, big bool) fw.Case {
	np := r.Range(1, 3)
	script := sx.L(sx.A("script"))
	tot := 0
	for p := 0; p < np; p++ {
		n := r.Range(1, 150)
		if big {
			n = r.Range(100, 1500)
		}
		tot += n
		script.Add(op("pub", p, n))
	}
	script.Add(op("await-parked"), op("close"), op("await-done"), op("release"))
	return fw.Case{Input: mk(prodsNode(r, np), sx.L(sx.A("park"), sx.I(0)), script), Tags: []string{"replay:park-close-release", fmt.Sprintf("events~%d", bucket(tot))}}
}

// everything written before Close is called: nothing to flush
func genQuiescent(r *rng.R) fw.Case {
	np := r.Range(1, 4)
	script := sx.L(sx.A("script"))
	tot := 0
	for p := 0; p < np; p++ {
		n := r.Range(1, 400)
		tot += n
		script.Add(op("spawn", p, n, r.Range(0, 300)))
	}
	if r.Bool() {
		script.Add(op("lat", r.Range(1, 200)))
	}
	script.Add(op("await-written"), op("close"))
	return fw.Case{Input: mk(prodsNode(r, np), sx.L(sx.A("park")), script), Tags: []string{"quiescent-close", fmt.Sprintf("events~%d", bucket(tot))}}
}

// the broker is stuck while producers push more than the channel holds
func genFlood(r *rng.R) fw.Case {
	np := r.Range(1, 3)
	script := sx.L(sx.A("script"), op("pub", 0, 1), op("await-parked"))
	tot := 1
	for p := 0; p < np; p++ {
		n := r.Range(3000, 6000)
		tot += n
		script.Add(op("spawn", p+1, n, 0))
	}
	script.Add(op("join"), op("release"))
	if r.Bool() {
		script.Add(op("await-written"))
	}
	script.Add(op("close"))
	return fw.Case{Input: mk(prodsNode(r, np+1), sx.L(sx.A("park"), sx.I(0)), script), Tags: []string{"flood-while-broker-stuck", fmt.Sprintf("events~%d", bucket(tot))}}
}

func bucket(n int) int {
	for _, b := range []int{10, 100, 1000, 10000} {
		if n <= b {
			return b
		}
	}
	return 100000
}

// random producers / bursts / latencies / parks / close instant
func genRandom(r *rng.R, maxEv int) fw.Case {
	np := r.Range(1, 6)
	script := sx.L(sx.A("script"))
	park := sx.L(sx.A("park"))
	tot := 0
	rounds := r.Range(1, 3)
	parked := false
	if r.P(1, 4) {
		park.Add(sx.I(0))
		parked = true
	}
	if r.P(1, 2) {
		script.Add(op("lat", rng.Pick(r, []int{1, 10, 50, 200, 1000})))
	}
	for k := 0; k < rounds; k++ {
		for p := 0; p < np; p++ {
			if r.P(1, 4) {
				continue
			}
			n := rng.Pick(r, []int{1, 2, 5, 20, 99, 100, 101, 150, 250, 600})
			if n > maxEv {
				n = maxEv
			}
			tot += n
			script.Add(op("spawn", p, n, rng.Pick(r, []int{0, 0, 10, 100, 1000})))
		}
		script.Add(op("join"))
		if parked && k == 0 && tot > 0 {
			script.Add(op("await-parked"))
			if r.Bool() {
				script.Add(op("release"))
				parked = false
			}
		}
		if r.P(1, 3) {
			script.Add(op("sleep", r.Range(1, 500)))
		}
		if r.P(1, 4) {
			script.Add(op("lat", rng.Pick(r, []int{0, 5, 100})))
		}
	}
	tag := "close-right-after-join"
	switch c := r.N(4); {
	case c == 0:
		script.Add(op("sleep", r.Range(1, 2000)))
		tag = "close-after-delay"
	case c == 1 && !parked:
		script.Add(op("await-written"))
		tag = "close-when-written"
	}
	script.Add(op("close"))
	if parked && tot > 0 {
		if r.Bool() {
			script.Add(op("await-done"))
		}
		script.Add(op("release"))
		tag = "close-while-broker-stuck"
	}
	return fw.Case{Input: mk(prodsNode(r, np), park, script), Tags: []string{"random", tag, fmt.Sprintf("producers=%d", np), fmt.Sprintf("events~%d", bucket(tot))}}
}

func generate(tier string, r *rng.R) []fw.Case {
	nRandom, nDrop, nQui, nFlood, nStorm, stormN, maxEv := 700, 60, 60, 4, 3, 2000, 600
	if tier == "thorough" {
		nRandom, nDrop, nQui, nFlood, nStorm, stormN = 6000, 400, 400, 30, 20, 5000
	}
	var cs []fw.Case
	// the design's reproduction, verbatim
	cs = append(cs, fw.Case{Input: "((prods (5 1 0)) (park 0) (script (pub 0 250) (await-parked) (close) (await-done) (release)))",
		Tags: []string{"replay:park-close-release", "events~1000"}})
	for i := 0; i < nDrop; i++ {
		cs = append(cs, genDrop(r.Fork(), i%5 == 4))
	}
	for i := 0; i < nQui; i++ {
		cs = append(cs, genQuiescent(r.Fork()))
	}
	for i := 0; i < nFlood; i++ {
		cs = append(cs, genFlood(r.Fork()))
	}
	for i := 0; i < nRandom; i++ {
		cs = append(cs, genRandom(r.Fork(), maxEv))
	}
	for i := 0; i < nStorm; i++ {
		cs = append(cs, fw.Case{Input: sx.L(sx.A("storm"), sx.I(stormN+i)).String(), Tags: []string{"storm:close-right-after-construction"}})
	}
	// (last, so that the cases above stay what they were for a given seed)
	cs = append(cs, genFullCases(tier, r.Fork())...)
	// the writer registry of core/the (see registry.go); after everything else for the same reason
	cs = append(cs, genRegistryCases(tier, r.Fork())...)
	// Close() within the start-up latency of the two workers (see birth.go); after everything else for the same reason
	cs = append(cs, genBirthCases(tier, r.Fork())...)
	return cs
}

func nontrivial(input, obs string) bool {
	in, err := sx.Parse(input)
	if err != nil {
		return false
	}
	if in.At(0).Str() == "storm" {
		return in.At(1).Int() >= 100
	}
	if in.At(0).Str() == "registry" {
		return registryNontrivial(in, obs)
	}
	if in.At(0).Str() == "birth" {
		return birthNontrivial(in, obs)
	}
	o, err := sx.Parse(obs)
	if err != nil || o.Len() < 5 {
		return false
	}
	tot := 0
	for _, a := range o.At(0).List[1:] {
		tot += a.Int()
	}
	// at least two events accepted and at least one batch reached the write function
	return tot >= 2 && o.At(1).Len() >= 2
}

// shrink: halve a count, drop an op that is not needed for the script to stay valid
func shrinkCands(input string) []string {
	in, err := sx.Parse(input)
	if err != nil || in.At(0).Str() == "storm" {
		return nil
	}
	if in.At(0).Str() == "registry" {
		return shrinkRegistry(in)
	}
	if in.At(0).Str() == "birth" {
		return shrinkBirth(in)
	}
	var out []string
	script := in.At(2)
	for i := 1; i < script.Len(); i++ {
		o := script.At(i)
		name := o.At(0).Str()
		if (name == "pub" || name == "spawn") && o.At(2).Int() > 1 {
			n2 := sx.L(o.List...)
			n2.List = append([]*sx.Node{}, o.List...)
			n2.List[2] = sx.I(o.At(2).Int() / 2)
			s2 := sx.L()
			s2.List = append([]*sx.Node{}, script.List...)
			s2.List[i] = n2
			out = append(out, sx.L(append([]*sx.Node{in.At(0), in.At(1), s2}, in.List[3:]...)...).String())
		}
		if name == "sleep" || name == "lat" || name == "spawn" || name == "pub" {
			s2 := sx.L()
			s2.List = append(append([]*sx.Node{}, script.List[:i]...), script.List[i+1:]...)
			out = append(out, sx.L(append([]*sx.Node{in.At(0), in.At(1), s2}, in.List[3:]...)...).String())
		}
	}
	return out
}

func init() {
	fw.RegisterChild(registryChild, registryChildMain)
	fw.RegisterChild(birthChild, birthChildMain)
	fw.Register(&fw.Property{
		ID:         "C19",
		Generate:   generate,
		RunImpl:    runImpl,
		Nontrivial: nontrivial,
		Rule: "the real KafkaWriter (both goroutines, real FifoBuffer, real conversion to kafka messages) behind a recording write function: " +
			"replays of the model schedule 'n published, first write parked, Close, batching loop done, release' (1..3 producers, up to 1500 events each), " +
			"quiescent closes, floods of 3000..18000 events while the broker call is stuck (channel capacity 10000), random scripts (1..6 producers of all nine payload " +
			"types sharing 1..3 environments, bursts of 1..600 events with spin gaps, write latencies 0..1 ms, parked writes, Close right after the last accept / " +
			"after a delay / when all is written / while the broker is stuck), storms of fresh writers closed right after construction, " +
			"and 'channel full' scenarios: the batching loop is held up in front of the FIFO's lock (fresh writer / after everything was written / first write parked), " +
			"1..3 producers publish more than channel + hand can take (the real 10000 slots; 1..8 slots when the tree has the capacity hook), the pipeline is observed at rest " +
			"(calls returned per producer, channel, hand, buffer, written, who waits in the send — by goroutine dump), then let go, drained and closed; " +
			"and the writer REGISTRY of core/the (one child process per case): 12..30 rounds (thorough ..60), in each 1..3 fresh topics are looked up for the first time by 2..8 callers per topic " +
			"released together by a spinning barrier (the.EventWriterWithTopic, real KafkaWriters on an in-process broker), every caller publishes through the writer it was handed " +
			"(in 2/3 of the cases it looks the writer up again and publishes a second event), then the.ClearEventWriters; broker held until shutdown begins / latencies 0..1 ms; " +
			"observed per (round, topic): which writer every caller was handed (pointer identity), which of them are closed after the shutdown, what the broker had received by then; " +
			"and Close() within the START-UP LATENCY of the two workers (one child process per case): 20..40 rounds (Ps saturated: 4..8; thorough ..120), in each a fresh writer is published to (1..3 producers, " +
			"0..250 events each) and closed at once by ONE goroutine that does not block or yield in between, in a process with GOMAXPROCS 1 (the workers the constructor has just spawned cannot have been " +
			"scheduled when Close() is called), or 2..4 with idle Ps (scheduler latency only) or with 2..3 goroutines per P spinning; write latencies 0..300 us; spin 0..100000 iterations before Close; " +
			"every observation carries what the caller of Close() saw right after the call returned: events handed to the write function by then, write calls in progress, and the write calls that began afterwards; " +
			"non-trivial = at least two events accepted and at least one batch written (storm: >= 100 writers; registry: >= 2 callers per topic; birth: a round with >= 2 events); distinct by input text",
		Shrink:  shrinkCands,
		Workers: 4,
		TrustedBase: []string{
			"harness/props/c19 (script executor, recording write function, decoding of TimestampNano tags, goroutine-dump deadlock proof)",
			"hook common/event/verif_hooks.go (NewWriterForVerif builds the struct NewWriterWithTopic builds with the broker call replaced; VerifSnapshot is read-only)",
			"'channel full' scenarios: reflection on the unexported fields toBatchMessagesChan (len/cap), messageBuffer.cond.L (the FIFO's own lock, taken and released to hold the batching loop up) and messageBuffer.buffer (len, under that lock); goroutine dumps to see who waits where; optional hook method (*KafkaWriter).VerifNewWithCap (common/event/verif_hooks_cap.go: NewWriterForVerif with the channel capacity as a parameter)",
			"Go runtime semantics of channels, sync.Cond, sync.WaitGroup as modelled (no spurious wake-ups, Signal/Broadcast not remembered)",
			"birth stream: runtime.GOMAXPROCS and spinning goroutines in a child process as the only means of delaying the workers' first scheduling (no hook); the at-return snapshot is taken by the goroutine that called Close(), under the recording write function's own mutex, as its next action; go/ast reading of Close / the two loops / the constructor for the WaitGroup discipline (Add(2) before close(chan) before Wait; one Done per worker, last; two go statements)",
			"registry stream: an in-process kafka.RoundTripper (one partition per topic, records what produce requests carry) installed through the exported Transport field of the embedded kafka.Writer, BatchTimeout set to 1 ms, both before the writer's first use; kafka-go's Writer between the write function and that broker; 'closed' = the embedded kafka.Writer answers io.ErrClosedPipe; go/ast reading of core/the/*.go (mutex kind, Lock/defer Unlock as the first two statements, every use of the map inside such a function)",
		},
		Assumptions: []string{
			"no WriteEvent is in progress or issued once Close has been called (send on a closed channel panics; the core calls ClearEventWriters at shutdown only)",
			"the write function returns (finite broker latency); monitoring.Send is a no-op when the metrics endpoint is not running",
			"internal steps of the two loops are not observable: the model schedule is reconstructed from the observed batches and the way Close ended",
		},
	})
	fw.RegisterGen(fw.GenFile{Name: "C19Writer.lean", Make: genFacts})
}
