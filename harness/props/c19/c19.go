// Package c19: correspondence harness for property C19 (stub — registers nothing yet).
package c19
