package c19

// "Channel full" scenarios: the hand-over channel toBatchMessagesChan is filled to its capacity
// while the batching loop is held up, further producers call WriteEvent, and the harness OBSERVES
// that those calls do not return before there is room — a WriteEvent that has returned while its
// event is not in channel ∪ hand ∪ buffer ∪ in flight ∪ written is the violation (Spec.snapOk).
//
// How the batching loop is held up: the harness takes the FIFO buffer's own lock (the sync.Locker
// behind messageBuffer.cond.L, reached by reflection — the field is unexported). That is what a long
// PopMultiple, a GC pause or CPU starvation amounts to for the batching loop: it receives one more
// message from the channel and then waits in Push; the writing loop waits in PopMultiple (or sits in a
// parked write call). In the model these are simply schedules in which no batchPush / writerPop /
// writerWake step occurs for a while; the theorems hold for all schedules. Nothing of the writer is
// replaced or written to: WriteEventWithTimestamp, batchingLoop, writingLoop and the FifoBuffer run
// unchanged.
//
// Capacity: the real constructor's channel has 10000 slots (Gen.C19.chanCap); a few scenarios per run
// fill exactly that. If the tree under test has the verif-tagged method (*KafkaWriter).VerifNewWithCap
// (common/event/verif_hooks_cap.go; looked up by reflection so that the harness also links against a
// tree without it) many more scenarios run with a capacity of 1..8, which the model takes as `cap`
// (every theorem holds for every capacity).

import (
	"context"
	"fmt"
	"reflect"
	"runtime"
	"sort"
	"strings"
	"sync"
	"sync/atomic"
	"time"
	"unsafe"

	"github.com/AliceO2Group/Control/common/event"
	"github.com/AliceO2Group/Control/common/event/topic"
	"github.com/segmentio/kafka-go"

	"verifharness/fw"
	"verifharness/rng"
	"verifharness/sx"
)

type writeFn = func(ctx context.Context, msgs ...kafka.Message) error

// capCtor returns the optional capacity-parameterised constructor of the tree under test, or nil.
func capCtor() func(topic.Topic, writeFn, int) *event.KafkaWriter {
	m := reflect.ValueOf((*event.KafkaWriter)(nil)).MethodByName("VerifNewWithCap")
	if !m.IsValid() {
		return nil
	}
	f, ok := m.Interface().(func(topic.Topic, writeFn, int) *event.KafkaWriter)
	if !ok {
		return nil
	}
	return f
}

// guts: the three unexported places the "channel full" scenarios look at. Read-only, except that
// the FIFO's own lock is taken and released (hold/unhold).
type guts struct {
	ch     reflect.Value // toBatchMessagesChan (Len, Cap)
	locker sync.Locker   // messageBuffer.cond.L — the lock every FIFO operation takes
	buffer reflect.Value // messageBuffer.buffer (Len, read only while the lock is held)
}

func gutsOf(w *event.KafkaWriter) (g *guts, err error) {
	defer func() {
		if r := recover(); r != nil {
			g, err = nil, fmt.Errorf("KafkaWriter internals not as expected: %v", r)
		}
	}()
	v := reflect.ValueOf(w).Elem()
	ch := v.FieldByName("toBatchMessagesChan")
	mb := v.FieldByName("messageBuffer")
	if !ch.IsValid() || ch.Kind() != reflect.Chan || !mb.IsValid() || mb.Kind() != reflect.Struct {
		return nil, fmt.Errorf("KafkaWriter: toBatchMessagesChan / messageBuffer not found")
	}
	cond := mb.FieldByName("cond")
	buf := mb.FieldByName("buffer")
	if !cond.IsValid() || cond.Type() != reflect.TypeOf(sync.Cond{}) || !buf.IsValid() || buf.Kind() != reflect.Slice {
		return nil, fmt.Errorf("FifoBuffer: cond / buffer not found")
	}
	l := (*sync.Cond)(unsafe.Pointer(cond.UnsafeAddr())).L
	if l == nil {
		return nil, fmt.Errorf("FifoBuffer: cond.L is nil")
	}
	return &guts{ch: ch, locker: l, buffer: buf}, nil
}

// publishLoop is the frame by which a producer goroutine of one case is recognised in a goroutine
// dump: tag is unique per (case, producer goroutine) and stays live (it is returned), so the dump
// prints it exactly.
//
//go:noinline
func publishLoop(tag uintptr, body func()) uintptr {
	body()
	return tag
}

var tagCounter atomic.Uint64

func newTag() uintptr { return uintptr(0x7e5700000000 + tagCounter.Add(1)) }

// pipelineAtRest inspects a stop-the-world goroutine dump:
//
//	sending   how many of the producer goroutines with the given tags sit in `[chan send]` inside
//	          WriteEventWithTimestamp
//	batcher   "push": this writer's batching loop is inside FifoBuffer.Push, waiting for the lock (it has a
//	          message in its hand); "recv": it waits in the channel receive (hand empty); "" anything else
func pipelineAtRest(w *event.KafkaWriter, tags []uintptr) (sending int, batcher string) {
	buf := make([]byte, 1<<20)
	for {
		n := runtime.Stack(buf, true)
		if n < len(buf) {
			buf = buf[:n]
			break
		}
		if len(buf) >= 1<<28 {
			return -1, ""
		}
		buf = make([]byte, 2*len(buf))
	}
	bl := "(*KafkaWriter).batchingLoop(" + fmt.Sprintf("%p", w)
	marks := make([]string, len(tags))
	for i, t := range tags {
		marks[i] = fmt.Sprintf("c19.publishLoop(0x%x,", uint64(t))
	}
	for _, g := range strings.Split(string(buf), "\n\n") {
		head, _, _ := strings.Cut(g, "\n")
		if strings.Contains(g, bl) {
			switch {
			case strings.Contains(g, ".Push(") && (strings.Contains(head, "[sync.Mutex.Lock") || strings.Contains(head, "[semacquire")):
				batcher = "push"
			case strings.Contains(head, "[chan receive"):
				batcher = "recv"
			}
			continue
		}
		if !strings.Contains(head, "[chan send") || !strings.Contains(g, ".WriteEventWithTimestamp") {
			continue
		}
		for _, m := range marks {
			if strings.Contains(g, m) {
				sending++
				break
			}
		}
	}
	return sending, batcher
}

// ---- generator ------------------------------------------------------------------------

// split n into k positive parts
func splitN(r *rng.R, n, k int) []int {
	parts := make([]int, k)
	for i := range parts {
		parts[i] = 1
	}
	for left := n - k; left > 0; {
		c := r.Range(1, left)
		if k > 1 && c > left/2+1 {
			c = left/2 + 1
		}
		parts[r.N(k)] += c
		left -= c
	}
	return parts
}

// genFull: [events before] — hold the batching loop — 1..3 producers publish more than the channel
// (plus the batching loop's hand) can take — snapshot(s) — let go — everything written — Close.
// capN == 0: the real constructor (capacity realCap); else the capacity-parameterised hook.
func genFull(r *rng.R, capN, realCap int) fw.Case {
	capEff := realCap
	if capN > 0 {
		capEff = capN
	}
	np := r.Range(1, 3)
	script := sx.L(sx.A("script"))
	park := sx.L(sx.A("park"))
	tags := []string{"chan-full", fmt.Sprintf("chan-full:producers=%d", np)}
	if capN > 0 {
		tags = append(tags, "chan-full:cap=1..8(hook)")
	} else {
		tags = append(tags, "chan-full:cap=real")
	}
	tot := 0
	stuck := r.P(1, 3)
	before := 0
	if stuck || r.Bool() {
		before = r.Range(1, 130)
	}
	switch {
	case stuck:
		// the first write call parks with whatever the first pop took; the rest sits in buffer / hand / channel
		park.Add(sx.I(0))
		script.Add(op("pub", 0, before), op("await-parked"))
		tags = append(tags, "chan-full:broker-stuck")
	case before > 0:
		script.Add(op("pub", 0, before), op("await-written"))
		tags = append(tags, "chan-full:after-written")
	default:
		tags = append(tags, "chan-full:fresh-writer")
	}
	tot += before
	script.Add(op("hold"))
	extraMax := 40
	if capN > 0 {
		extraMax = 2*capN + 3
	}
	fill := capEff + 1 + r.Range(1, extraMax) // at least one call more than channel + hand can take
	for p, n := range splitN(r, fill, np) {
		script.Add(op("spawn", p, n, rng.Pick(r, []int{0, 0, 0, 20, 200})))
		tot += n
	}
	script.Add(op("await-blocked"))
	if r.Bool() {
		// blocked stays blocked
		script.Add(op("sleep", r.Range(100, 1500)), op("await-blocked"))
		tags = append(tags, "chan-full:second-snapshot")
	}
	released := !stuck
	if stuck && r.Bool() {
		script.Add(op("release"))
		released = true
	}
	script.Add(op("unhold"), op("join"))
	if !released {
		script.Add(op("release"))
	}
	if r.P(1, 3) {
		// a second wave into the running pipeline
		for p := 0; p < np; p++ {
			n := r.Range(1, 30)
			script.Add(op("spawn", p, n, 0))
			tot += n
		}
	}
	script.Add(op("await-written"), op("close"))
	tags = append(tags, fmt.Sprintf("events~%d", bucket(tot)))
	in := sx.L(prodsNode(r, np), park, script)
	if capN > 0 {
		in.Add(sx.L(sx.A("cap"), sx.I(capN)))
	}
	return fw.Case{Input: in.String(), Tags: tags}
}

// realChanCap: what the ordinary hook builds (= NewWriterWithTopic's literal, checked in genFacts).
func realChanCap() int {
	w := event.NewWriterForVerif("verif", func(context.Context, ...kafka.Message) error { return nil })
	_, c, _, _ := w.VerifSnapshot()
	go w.Close()
	return c
}

func genFullCases(tier string, r *rng.R) []fw.Case {
	nReal, nSmall := 3, 60
	if tier == "thorough" {
		nReal, nSmall = 12, 600
	}
	rc := realChanCap()
	var cs []fw.Case
	for i := 0; i < nReal; i++ {
		cs = append(cs, genFull(r.Fork(), 0, rc))
	}
	if capCtor() != nil {
		for i := 0; i < nSmall; i++ {
			rr := r.Fork()
			cs = append(cs, genFull(rr, rr.Range(1, 8), rc))
		}
	}
	return cs
}

// ---- pieces of the script executor ------------------------------------------------------

// holdState: what runImpl keeps for hold / unhold / await-blocked.
type holdState struct {
	g         *guts
	held      bool
	bufAtHold int
	snaps     []*sx.Node
	tagMu     sync.Mutex
	tags      map[int]uintptr // producer -> tag of its running goroutine
}

func (h *holdState) setTag(p int, t uintptr) {
	h.tagMu.Lock()
	if t == 0 {
		delete(h.tags, p)
	} else {
		h.tags[p] = t
	}
	h.tagMu.Unlock()
}

func (h *holdState) running() (ps []int, ts []uintptr) {
	h.tagMu.Lock()
	for p := range h.tags {
		ps = append(ps, p)
	}
	sort.Ints(ps)
	for _, p := range ps {
		ts = append(ts, h.tags[p])
	}
	h.tagMu.Unlock()
	return
}

func (h *holdState) hold() {
	h.g.locker.Lock()
	h.bufAtHold = h.g.buffer.Len()
	h.held = true
}

func (h *holdState) unhold() {
	if h.held {
		h.held = false
		h.g.locker.Unlock()
	}
}

// snapshot waits until the pipeline is at rest — every producer goroutine that is still running sits
// in the channel send inside WriteEventWithTimestamp, the batching loop waits in Push (for the lock the
// harness holds) or in the channel receive, and none of the counters moved across the goroutine dump
// that shows this — and records it. Not reaching rest within the ceiling is an infrastructure error.
func (h *holdState) snapshot(w *event.KafkaWriter, accepted []atomic.Int64, nWritten func() int) error {
	read := func() []int64 {
		a := make([]int64, len(accepted))
		for i := range accepted {
			a[i] = accepted[i].Load()
		}
		return a
	}
	t0 := time.Now()
	for i := 0; ; i++ {
		ps, ts := h.running()
		a1, w1, c1 := read(), nWritten(), h.g.ch.Len()
		sending, batcher := pipelineAtRest(w, ts)
		ps2, _ := h.running()
		a2, w2, c2 := read(), nWritten(), h.g.ch.Len()
		if sending == len(ps) && batcher != "" && reflect.DeepEqual(ps, ps2) && reflect.DeepEqual(a1, a2) && w1 == w2 && c1 == c2 {
			acc := sx.L(sx.A("acc"))
			for _, a := range a1 {
				acc.Add(sx.I(int(a)))
			}
			bl := sx.L(sx.A("blocked"))
			for _, p := range ps {
				bl.Add(sx.I(p))
			}
			hand := 0
			if batcher == "push" {
				hand = 1
			}
			h.snaps = append(h.snaps, sx.L(sx.A("snap"), acc, sx.L(sx.A("chan"), sx.I(c1)), sx.L(sx.A("hand"), sx.I(hand)),
				sx.L(sx.A("buf"), sx.I(h.bufAtHold)), sx.L(sx.A("written"), sx.I(w1)), bl))
			return nil
		}
		if time.Since(t0) > ceiling {
			return fmt.Errorf("the pipeline did not come to rest within %v (sending %d of %d running producers, batching loop %q)", ceiling, sending, len(ps), batcher)
		}
		if i < 20 {
			runtime.Gosched()
		} else {
			time.Sleep(100 * time.Microsecond)
		}
	}
}
