package c19

import (
	"context"
	"fmt"
	"go/ast"
	"go/parser"
	"go/token"
	"io/fs"
	"strconv"
	"strings"
	"sync"
	"time"

	"github.com/AliceO2Group/Control/common/event"
	"github.com/segmentio/kafka-go"
)

// ---- go/ast facts ---------------------------------------------------------------------

func funcDecl(f *ast.File, name string) *ast.FuncDecl {
	for _, d := range f.Decls {
		if fd, ok := d.(*ast.FuncDecl); ok && fd.Name.Name == name && fd.Body != nil {
			return fd
		}
	}
	return nil
}

// selector path of a call, e.g. "this.cond.L.Lock" or "w.messageBuffer.PopMultiple"
func callPath(e ast.Expr) string {
	c, ok := e.(*ast.CallExpr)
	if !ok {
		return ""
	}
	return exprPath(c.Fun)
}

func exprPath(e ast.Expr) string {
	switch x := e.(type) {
	case *ast.Ident:
		return x.Name
	case *ast.SelectorExpr:
		return exprPath(x.X) + "." + x.Sel.Name
	case *ast.IndexExpr:
		return exprPath(x.X)
	}
	return "?"
}

func callsIn(n ast.Node, suffix string) []*ast.CallExpr {
	var out []*ast.CallExpr
	ast.Inspect(n, func(x ast.Node) bool {
		if c, ok := x.(*ast.CallExpr); ok && strings.HasSuffix(exprPath(c.Fun), suffix) {
			out = append(out, c)
		}
		return true
	})
	return out
}

func intLit(e ast.Expr) (int, bool) {
	if b, ok := e.(*ast.BasicLit); ok && b.Kind == token.INT {
		n, err := strconv.Atoi(b.Value)
		return n, err == nil
	}
	return 0, false
}

// locked: the whole body runs under the FIFO's lock — the first statement takes it and either the
// second statement is `defer …Unlock()` or the last statement is `…Unlock()` with no return in between.
func locked(fd *ast.FuncDecl) bool {
	if fd == nil || len(fd.Body.List) < 2 {
		return false
	}
	body := fd.Body.List
	first, ok := body[0].(*ast.ExprStmt)
	if !ok || !strings.HasSuffix(callPath(first.X), ".L.Lock") {
		return false
	}
	if d, ok := body[1].(*ast.DeferStmt); ok && strings.HasSuffix(exprPath(d.Call.Fun), ".L.Unlock") {
		return len(callsIn(fd.Body, ".Unlock")) == 1
	}
	last, ok := body[len(body)-1].(*ast.ExprStmt)
	if !ok || !strings.HasSuffix(callPath(last.X), ".L.Unlock") || len(callsIn(fd.Body, ".Unlock")) != 1 {
		return false
	}
	hasReturn := false
	ast.Inspect(fd.Body, func(n ast.Node) bool {
		if _, ok := n.(*ast.ReturnStmt); ok {
			hasReturn = true
		}
		return true
	})
	return !hasReturn
}

type facts struct {
	chanCap, doneChCap, popMax                       int
	drainOnDone, releaseSticky, doneBeforeRelease    bool
	doneCaseReturns, fifoOpsLocked, pushAppendsToEnd bool
	// the hand-over in WriteEventWithTimestamp
	handoverSends, handoverSelects, handoverGoStmts int
	handoverPlainSend                               bool
	// the WaitGroup discipline: who counts the workers, and when
	workersSelfRegister, wgCloseOrder, wgWriterDoneLast, wgBatcherDoneLast, workersSpawned, hookSpawnsWorkers bool
	wgAddCalls, wgCloseAdd, wgDoneCalls, workerGoStmts, loopPrologue                                           int
}

// methodDecl: the method `name` of *KafkaWriter (the DummyWriter has methods of the same names).
func methodDecl(f *ast.File, name string) *ast.FuncDecl {
	for _, d := range f.Decls {
		if fd, ok := d.(*ast.FuncDecl); ok && fd.Name.Name == name && fd.Body != nil && fd.Recv != nil && len(fd.Recv.List) == 1 {
			if st, ok := fd.Recv.List[0].Type.(*ast.StarExpr); ok && exprPath(st.X) == "KafkaWriter" {
				return fd
			}
		}
	}
	return nil
}

// spawnsBothWorkers: the go statements of a constructor — how many, and whether they are exactly
// `go <w>.writingLoop()` and `go <w>.batchingLoop()`, one each.
func spawnsBothWorkers(fd *ast.FuncDecl) (int, bool) {
	n, wl, bl := 0, 0, 0
	ast.Inspect(fd, func(x ast.Node) bool {
		if g, ok := x.(*ast.GoStmt); ok {
			n++
			switch p := exprPath(g.Call.Fun); {
			case strings.HasSuffix(p, ".writingLoop") && len(g.Call.Args) == 0:
				wl++
			case strings.HasSuffix(p, ".batchingLoop") && len(g.Call.Args) == 0:
				bl++
			}
		}
		return true
	})
	return n, n == 2 && wl == 1 && bl == 1
}

// waitGroupFacts: how `runningWorkers` is used.  The model's Close() step is `Add(2); close(chan)` and its
// closeReturn step `Wait()` returning: the ONLY Add of the file is the one in Close(), it has the literal
// argument 2 and stands before close(toBatchMessagesChan), which stands before Wait(), which stands before the
// kafka.Writer is closed (statements of one block, in this order); each worker calls Done() exactly once, as the
// last thing it does (the statement before the `return` of the writing loop's done clause; the last statement of
// the batching loop); workersSelfRegister: an Add inside one of the loops.
func waitGroupFacts(ft *facts, wf *ast.File, wl, bl *ast.FuncDecl, doneCase *ast.CommClause) {
	const add, done = ".runningWorkers.Add", ".runningWorkers.Done"
	ft.wgAddCalls = len(callsIn(wf, add))
	ft.wgDoneCalls = len(callsIn(wf, done))
	ft.workersSelfRegister = len(callsIn(wl, add))+len(callsIn(bl, add)) > 0
	if cl := methodDecl(wf, "Close"); cl != nil {
		// the block that holds the Add / close / Wait statements: the function body or the body of `if w != nil {…}`
		var seq []string
		var scan func(list []ast.Stmt)
		scan = func(list []ast.Stmt) {
			for _, st := range list {
				switch x := st.(type) {
				case *ast.IfStmt:
					if x.Else == nil && x.Init == nil {
						scan(x.Body.List)
						continue
					}
					seq = append(seq, "?")
				case *ast.ExprStmt:
					c, ok := x.X.(*ast.CallExpr)
					if !ok {
						seq = append(seq, "?")
						continue
					}
					switch p := exprPath(c.Fun); {
					case strings.HasSuffix(p, add):
						seq = append(seq, "add")
						if len(c.Args) == 1 {
							if v, ok := intLit(c.Args[0]); ok {
								ft.wgCloseAdd = v
							}
						}
					case p == "close" && len(c.Args) == 1 && strings.HasSuffix(exprPath(c.Args[0]), ".toBatchMessagesChan"):
						seq = append(seq, "close")
					case strings.HasSuffix(p, ".runningWorkers.Wait"):
						seq = append(seq, "wait")
					case strings.HasSuffix(p, ".Writer.Close"):
						seq = append(seq, "wclose")
					default:
						seq = append(seq, "?")
					}
				default:
					seq = append(seq, "?")
				}
			}
		}
		scan(cl.Body.List)
		ft.wgCloseOrder = strings.Join(seq, " ") == "add close wait wclose"
	}
	if n := len(doneCase.Body); n >= 2 && len(callsIn(wl, done)) == 1 {
		_, isRet := doneCase.Body[n-1].(*ast.ReturnStmt)
		es, ok := doneCase.Body[n-2].(*ast.ExprStmt)
		ft.wgWriterDoneLast = isRet && ok && strings.HasSuffix(callPath(es.X), done)
	}
	if n := len(bl.Body.List); n >= 1 && len(callsIn(bl, done)) == 1 {
		es, ok := bl.Body.List[n-1].(*ast.ExprStmt)
		ft.wgBatcherDoneLast = ok && strings.HasSuffix(callPath(es.X), done)
	}
}

// handoverFacts: how WriteEventWithTimestamp (function literals inside it included) puts the message
// into toBatchMessagesChan. handoverPlainSend: there is exactly one send on that channel and it is an
// ordinary statement of a block — not the communication of a select clause — so it blocks until the
// channel takes the message; handoverSelects / handoverGoStmts count every select / go statement in
// the function (there is none: nothing is tried, nothing is finished in the background).
func handoverFacts(ft *facts, fd *ast.FuncDecl) {
	var stack []ast.Node
	plain := 0
	ast.Inspect(fd, func(n ast.Node) bool {
		if n == nil {
			stack = stack[:len(stack)-1]
			return true
		}
		switch x := n.(type) {
		case *ast.SelectStmt:
			ft.handoverSelects++
		case *ast.GoStmt:
			ft.handoverGoStmts++
		case *ast.SendStmt:
			if strings.HasSuffix(exprPath(x.Chan), ".toBatchMessagesChan") {
				ft.handoverSends++
				if len(stack) > 0 {
					if _, ok := stack[len(stack)-1].(*ast.BlockStmt); ok {
						plain++
					}
				}
			}
		}
		stack = append(stack, n)
		return true
	})
	ft.handoverPlainSend = ft.handoverSends == 1 && plain == 1
}

func astFacts(repo string) (facts, error) {
	var ft facts
	fset := token.NewFileSet()
	wf, err := parser.ParseFile(fset, repo+"/common/event/writer.go", nil, 0)
	if err != nil {
		return ft, err
	}
	ff, err := parser.ParseFile(fset, repo+"/common/event/fifobuffer.go", nil, 0)
	if err != nil {
		return ft, err
	}
	// constructor: capacities of the two channels
	ctor := funcDecl(wf, "NewWriterWithTopic")
	if ctor == nil {
		return ft, fmt.Errorf("NewWriterWithTopic not found")
	}
	ft.chanCap, ft.doneChCap = -1, -1
	ast.Inspect(ctor, func(n ast.Node) bool {
		kv, ok := n.(*ast.KeyValueExpr)
		if !ok {
			return true
		}
		k, ok := kv.Key.(*ast.Ident)
		if !ok {
			return true
		}
		if c, ok := kv.Value.(*ast.CallExpr); ok && exprPath(c.Fun) == "make" {
			capv := 0
			if len(c.Args) >= 2 {
				v, ok := intLit(c.Args[1])
				if !ok {
					return true
				}
				capv = v
			}
			switch k.Name {
			case "toBatchMessagesChan":
				ft.chanCap = capv
			case "batchingLoopDoneCh":
				ft.doneChCap = capv
			}
		}
		return true
	})
	if ft.chanCap < 0 || ft.doneChCap < 0 {
		return ft, fmt.Errorf("channel capacities not found in NewWriterWithTopic")
	}
	// (*KafkaWriter).WriteEventWithTimestamp — the DummyWriter has a method of the same name
	var wev *ast.FuncDecl
	for _, d := range wf.Decls {
		if fd, ok := d.(*ast.FuncDecl); ok && fd.Name.Name == "WriteEventWithTimestamp" && fd.Body != nil && fd.Recv != nil && len(fd.Recv.List) == 1 {
			if st, ok := fd.Recv.List[0].Type.(*ast.StarExpr); ok && exprPath(st.X) == "KafkaWriter" {
				wev = fd
			}
		}
	}
	if wev == nil {
		return ft, fmt.Errorf("WriteEventWithTimestamp not found")
	}
	handoverFacts(&ft, wev)
	// writing loop: for { select { case <-done: …; default: PopMultiple(N) … } }
	wl := funcDecl(wf, "writingLoop")
	if wl == nil || len(wl.Body.List) == 0 {
		return ft, fmt.Errorf("writingLoop: unexpected shape")
	}
	// the loop is the last statement; what stands in front of it (nothing, in the code the model describes) is counted
	ft.loopPrologue = len(wl.Body.List) - 1
	loop, ok := wl.Body.List[len(wl.Body.List)-1].(*ast.ForStmt)
	if !ok || loop.Cond != nil || len(loop.Body.List) != 1 {
		return ft, fmt.Errorf("writingLoop: does not end in a bare for{select}")
	}
	sel, ok := loop.Body.List[0].(*ast.SelectStmt)
	if !ok || len(sel.Body.List) != 2 {
		return ft, fmt.Errorf("writingLoop: select with two clauses expected")
	}
	var doneCase, defCase *ast.CommClause
	for _, c := range sel.Body.List {
		cc := c.(*ast.CommClause)
		if cc.Comm == nil {
			defCase = cc
		} else if es, ok := cc.Comm.(*ast.ExprStmt); ok {
			if u, ok := es.X.(*ast.UnaryExpr); ok && u.Op == token.ARROW && strings.HasSuffix(exprPath(u.X), ".batchingLoopDoneCh") {
				doneCase = cc
			}
		}
	}
	if doneCase == nil || defCase == nil {
		return ft, fmt.Errorf("writingLoop: done/default clauses not found")
	}
	pops := callsIn(wl, ".PopMultiple")
	if len(pops) == 0 {
		return ft, fmt.Errorf("writingLoop: no PopMultiple call")
	}
	ft.popMax = -1
	for _, c := range pops {
		v, ok := intLit(c.Args[0])
		if !ok || (ft.popMax >= 0 && v != ft.popMax) {
			return ft, fmt.Errorf("writingLoop: PopMultiple arguments are not one integer literal")
		}
		ft.popMax = v
	}
	if len(callsIn(defCase, ".PopMultiple")) == 0 {
		return ft, fmt.Errorf("writingLoop: default clause does not pop")
	}
	for _, st := range doneCase.Body {
		if len(callsIn(st, ".PopMultiple"))+len(callsIn(st, ".Length"))+len(callsIn(st, ".Pop")) > 0 {
			ft.drainOnDone = true
		}
		if _, ok := st.(*ast.ReturnStmt); ok {
			ft.doneCaseReturns = true
		}
	}
	// batching loop: range; done token; ReleaseGoroutines; Done
	bl := funcDecl(wf, "batchingLoop")
	if bl == nil {
		return ft, fmt.Errorf("batchingLoop not found")
	}
	sendAt, relAt, rangeAt := -1, -1, -1
	for i, st := range bl.Body.List {
		switch x := st.(type) {
		case *ast.RangeStmt:
			if strings.HasSuffix(exprPath(x.X), ".toBatchMessagesChan") && len(callsIn(x.Body, ".Push")) == 1 {
				rangeAt = i
			}
		case *ast.SendStmt:
			if strings.HasSuffix(exprPath(x.Chan), ".batchingLoopDoneCh") {
				sendAt = i
			}
		case *ast.ExprStmt:
			if strings.HasSuffix(callPath(x.X), ".ReleaseGoroutines") {
				relAt = i
			}
		}
	}
	if rangeAt < 0 || sendAt < rangeAt || relAt < rangeAt {
		return ft, fmt.Errorf("batchingLoop: unexpected shape")
	}
	ft.loopPrologue += rangeAt
	ft.doneBeforeRelease = sendAt < relAt
	waitGroupFacts(&ft, wf, wl, bl, doneCase)
	ft.workerGoStmts, ft.workersSpawned = spawnsBothWorkers(ctor)
	if hf, err := parser.ParseFile(fset, repo+"/common/event/verif_hooks.go", nil, 0); err == nil {
		if hk := funcDecl(hf, "NewWriterForVerif"); hk != nil {
			_, ft.hookSpawnsWorkers = spawnsBothWorkers(hk)
		}
	}
	// FIFO
	push, pop, rel := funcDecl(ff, "Push"), funcDecl(ff, "PopMultiple"), funcDecl(ff, "ReleaseGoroutines")
	if push == nil || pop == nil || rel == nil {
		return ft, fmt.Errorf("FifoBuffer methods not found")
	}
	ft.fifoOpsLocked = locked(push) && locked(pop) && locked(rel)
	ast.Inspect(push, func(n ast.Node) bool {
		if as, ok := n.(*ast.AssignStmt); ok && len(as.Rhs) == 1 {
			if c, ok := as.Rhs[0].(*ast.CallExpr); ok && exprPath(c.Fun) == "append" && len(c.Args) == 2 &&
				strings.HasSuffix(exprPath(c.Args[0]), ".buffer") && c.Ellipsis == token.NoPos {
				ft.pushAppendsToEnd = true
			}
		}
		return true
	})
	ast.Inspect(rel, func(n ast.Node) bool {
		if _, ok := n.(*ast.AssignStmt); ok {
			ft.releaseSticky = true
		}
		return true
	})
	return ft, nil
}

// ---- go/ast facts about the writer registry (core/the) -----------------------------------------------

type regFacts struct {
	mutexVars       int  // package-level variables of type sync.Mutex / sync.RWMutex in core/the/eventwriter.go
	plainMutex      bool // … and it is a sync.Mutex
	sharedLockCalls int  // RLock / RUnlock / RLocker / TryLock / TryRLock calls anywhere in core/the (non-test files)
	mapUsers        int  // functions of core/the (non-test files) that mention `writers`
	mapUsersLocked  int  // … whose first two statements are `mu.Lock()` and `defer mu.Unlock()` and that do not touch mu otherwise
	mapUsesOutside  int  // mentions of `writers` outside function bodies, the declaration aside
	getHoldsLock    bool // createOrGetWriter is such a function
	getLookupFirst  bool // its third statement is `if w, ok := writers[topic]; ok { return w }`
	getRegisters    bool // every later mention of the map is `writers[topic] = <call or &literal>` or the final `return writers[topic]`
	clearHoldsLock  bool // ClearEventWriters is such a function
	clearClosesEach bool // it ranges over `writers` and calls Close() on the value in the loop body
	clearEmpties    bool // after the loop: clear(writers) (or writers = make(…))
}

// lockedByMu: first statement `<mu>.Lock()`, second `defer <mu>.Unlock()`, no other mention of <mu>.
func lockedByMu(fd *ast.FuncDecl, mu string) bool {
	if fd == nil || fd.Body == nil || len(fd.Body.List) < 2 {
		return false
	}
	first, ok := fd.Body.List[0].(*ast.ExprStmt)
	if !ok || callPath(first.X) != mu+".Lock" {
		return false
	}
	d, ok := fd.Body.List[1].(*ast.DeferStmt)
	if !ok || exprPath(d.Call.Fun) != mu+".Unlock" {
		return false
	}
	n := 0
	ast.Inspect(fd.Body, func(x ast.Node) bool {
		if id, ok := x.(*ast.Ident); ok && id.Name == mu {
			n++
		}
		return true
	})
	return n == 2
}

func mentions(n ast.Node, name string) int {
	k := 0
	ast.Inspect(n, func(x ast.Node) bool {
		if id, ok := x.(*ast.Ident); ok && id.Name == name {
			k++
		}
		return true
	})
	return k
}

func isIndexOf(e ast.Expr, m string) bool {
	ix, ok := e.(*ast.IndexExpr)
	return ok && exprPath(ix.X) == m
}

func registryFacts(repo string) (regFacts, error) {
	var rf regFacts
	fset := token.NewFileSet()
	pkgs, err := parser.ParseDir(fset, repo+"/core/the", func(fi fs.FileInfo) bool { return !strings.HasSuffix(fi.Name(), "_test.go") }, 0)
	if err != nil {
		return rf, err
	}
	pkg := pkgs["the"]
	if pkg == nil {
		return rf, fmt.Errorf("package the not found in core/the")
	}
	const m = "writers"
	mu := ""
	var get, clr *ast.FuncDecl
	for name, f := range pkg.Files {
		for _, d := range f.Decls {
			switch x := d.(type) {
			case *ast.GenDecl:
				for _, sp := range x.Specs {
					vs, ok := sp.(*ast.ValueSpec)
					if !ok {
						continue
					}
					declares := false
					for _, n := range vs.Names {
						if n.Name == m {
							declares = true
						}
					}
					if strings.HasSuffix(name, "/eventwriter.go") {
						if tp := exprPath(vs.Type); vs.Type != nil && (tp == "sync.Mutex" || tp == "sync.RWMutex") {
							rf.mutexVars += len(vs.Names)
							rf.plainMutex = tp == "sync.Mutex"
							mu = vs.Names[0].Name
						}
					}
					k := mentions(vs, m)
					if declares {
						k--
					}
					rf.mapUsesOutside += k
				}
			case *ast.FuncDecl:
				if x.Body == nil {
					continue
				}
				for _, suffix := range []string{".RLock", ".RUnlock", ".RLocker", ".TryLock", ".TryRLock"} {
					rf.sharedLockCalls += len(callsIn(x, suffix))
				}
				if x.Recv == nil && x.Name.Name == "createOrGetWriter" {
					get = x
				}
				if x.Recv == nil && x.Name.Name == "ClearEventWriters" {
					clr = x
				}
			}
		}
	}
	if rf.mutexVars != 1 || mu == "" {
		// (facts below need the one mutex; report what was found and leave them false)
		mu = "mu"
	}
	for _, f := range pkg.Files {
		for _, d := range f.Decls {
			if fd, ok := d.(*ast.FuncDecl); ok && fd.Body != nil && mentions(fd, m) > 0 {
				rf.mapUsers++
				if lockedByMu(fd, mu) {
					rf.mapUsersLocked++
				}
			}
		}
	}
	if get == nil || clr == nil {
		return rf, fmt.Errorf("createOrGetWriter / ClearEventWriters not found in core/the")
	}
	rf.getHoldsLock = lockedByMu(get, mu)
	rf.clearHoldsLock = lockedByMu(clr, mu)
	// createOrGetWriter: the lookup comes first …
	body := get.Body.List
	lookupAt := -1
	for i, st := range body {
		if mentions(st, m) == 0 {
			continue
		}
		ifs, ok := st.(*ast.IfStmt)
		if ok && ifs.Else == nil && ifs.Init != nil {
			if as, ok := ifs.Init.(*ast.AssignStmt); ok && as.Tok == token.DEFINE && len(as.Lhs) == 2 && len(as.Rhs) == 1 && isIndexOf(as.Rhs[0], m) {
				w, okv := exprPath(as.Lhs[0]), exprPath(as.Lhs[1])
				if exprPath(ifs.Cond) == okv && len(ifs.Body.List) == 1 {
					if r, ok := ifs.Body.List[0].(*ast.ReturnStmt); ok && len(r.Results) == 1 && exprPath(r.Results[0]) == w {
						lookupAt = i
					}
				}
			}
		}
		break // only the FIRST statement that mentions the map counts
	}
	rf.getLookupFirst = rf.getHoldsLock && lookupAt == 2
	// … and everything after it that mentions the map registers a fresh writer or returns the registered one
	if lookupAt >= 0 {
		okAll, assigns, last := true, 0, false
		var walk func(st ast.Stmt, isLast bool)
		walk = func(st ast.Stmt, isLast bool) {
			switch x := st.(type) {
			case *ast.IfStmt:
				if x.Init != nil && mentions(x.Init, m) > 0 || mentions(x.Cond, m) > 0 {
					okAll = false
				}
				for _, b := range x.Body.List {
					walk(b, false)
				}
				if x.Else != nil {
					walk(x.Else, false)
				}
			case *ast.BlockStmt:
				for _, b := range x.List {
					walk(b, false)
				}
			case *ast.AssignStmt:
				if mentions(x, m) == 0 {
					return
				}
				if x.Tok == token.ASSIGN && len(x.Lhs) == 1 && len(x.Rhs) == 1 && isIndexOf(x.Lhs[0], m) && mentions(x.Rhs[0], m) == 0 {
					switch r := x.Rhs[0].(type) {
					case *ast.CallExpr:
						assigns++
						return
					case *ast.UnaryExpr:
						if _, ok := r.X.(*ast.CompositeLit); ok && r.Op == token.AND {
							assigns++
							return
						}
					}
				}
				okAll = false
			case *ast.ReturnStmt:
				if mentions(x, m) == 0 {
					return
				}
				if isLast && len(x.Results) == 1 && isIndexOf(x.Results[0], m) {
					last = true
					return
				}
				okAll = false
			default:
				if mentions(st, m) > 0 {
					okAll = false
				}
			}
		}
		rest := body[lookupAt+1:]
		for i, st := range rest {
			walk(st, i == len(rest)-1)
		}
		rf.getRegisters = okAll && assigns >= 1 && last
	}
	// ClearEventWriters: for _, w := range writers { w.Close() } ; clear(writers)
	rangeAt := -1
	for i, st := range clr.Body.List {
		if rs, ok := st.(*ast.RangeStmt); ok && exprPath(rs.X) == m && rs.Value != nil {
			v := exprPath(rs.Value)
			for _, b := range rs.Body.List {
				if es, ok := b.(*ast.ExprStmt); ok && callPath(es.X) == v+".Close" {
					rf.clearClosesEach = true
				}
			}
			// nothing in the loop leaves it early
			ast.Inspect(rs.Body, func(n ast.Node) bool {
				switch n.(type) {
				case *ast.BranchStmt, *ast.ReturnStmt, *ast.GoStmt:
					rf.clearClosesEach = false
				}
				return true
			})
			rangeAt = i
		}
		if rangeAt >= 0 && i > rangeAt {
			switch x := st.(type) {
			case *ast.ExprStmt:
				if c, ok := x.X.(*ast.CallExpr); ok && exprPath(c.Fun) == "clear" && len(c.Args) == 1 && exprPath(c.Args[0]) == m {
					rf.clearEmpties = true
				}
			case *ast.AssignStmt:
				if len(x.Lhs) == 1 && exprPath(x.Lhs[0]) == m && len(x.Rhs) == 1 && callPath(x.Rhs[0]) == "make" {
					rf.clearEmpties = true
				}
			}
		}
	}
	return rf, nil
}

// ---- tabulations by evaluating the linked code ---------------------------------------------------

// popTable: push 0..len-1 into the real FifoBuffer, PopMultiple(n), then drain.
func popTable() string {
	var b strings.Builder
	first := true
	for ln := 1; ln <= 6; ln++ {
		for n := 0; n <= 8; n++ {
			f := event.NewFifoBuffer[int]()
			for i := 0; i < ln; i++ {
				f.Push(i)
			}
			got := f.PopMultiple(uint(n))
			var rest []int
			for f.Length() > 0 {
				rest = append(rest, f.PopMultiple(1)...)
			}
			if !first {
				b.WriteString(",\n")
			}
			first = false
			fmt.Fprintf(&b, "  (%d, %d, %s, %s)", n, ln, natList(got), natList(rest))
		}
	}
	return b.String()
}

func natList(xs []int) string {
	s := make([]string, len(xs))
	for i, x := range xs {
		s[i] = strconv.Itoa(x)
	}
	return "[" + strings.Join(s, ", ") + "]"
}

// keyTable: one event per (kind, env, task) through the real WriteEvent path; the key the
// write function receives.
func keyTable() (string, error) {
	type row struct{ kind, env, task, key int }
	var mu sync.Mutex
	var keys []int
	w := event.NewWriterForVerif("verif", func(_ context.Context, msgs ...kafka.Message) error {
		mu.Lock()
		for _, m := range msgs {
			keys = append(keys, keyCode(m.Key))
		}
		mu.Unlock()
		return nil
	})
	var rows []row
	for kind := 0; kind <= 8; kind++ {
		for env := 0; env <= 2; env++ {
			for task := 0; task <= 2; task++ {
				rows = append(rows, row{kind, env, task, -1})
				w.WriteEventWithTimestamp(mkEvent(kind, env, task), time.Unix(0, int64(len(rows))))
			}
		}
	}
	if err := poll(func() bool { mu.Lock(); defer mu.Unlock(); return len(keys) == len(rows) }, "the key table events"); err != nil {
		return "", err
	}
	done := make(chan struct{})
	go func() { w.Close(); close(done) }()
	// (a lost wake-up here would leak two goroutines, nothing else: the table is complete already)
	select {
	case <-done:
	case <-time.After(200 * time.Millisecond):
	}
	var b strings.Builder
	for i := range rows {
		if i > 0 {
			b.WriteString(",\n")
		}
		fmt.Fprintf(&b, "  (%d, %d, %d, %d)", rows[i].kind, rows[i].env, rows[i].task, keys[i])
	}
	return b.String(), nil
}

func lb(b bool) string {
	if b {
		return "true"
	}
	return "false"
}

func genFacts(repo string) (string, error) {
	ft, err := astFacts(repo)
	if err != nil {
		return "", err
	}
	// the hook must build the channel the constructor builds
	w := event.NewWriterForVerif("verif", func(context.Context, ...kafka.Message) error { return nil })
	_, hookCap, _, _ := w.VerifSnapshot()
	go w.Close()
	if hookCap != ft.chanCap {
		return "", fmt.Errorf("hook NewWriterForVerif builds a channel of capacity %d, NewWriterWithTopic one of %d", hookCap, ft.chanCap)
	}
	kt, err := keyTable()
	if err != nil {
		return "", err
	}
	var b strings.Builder
	b.WriteString("namespace Gen.C19\n\n")
	fmt.Fprintf(&b, "/-- go/ast, NewWriterWithTopic: `toBatchMessagesChan: make(chan kafka.Message, N)`. -/\ndef chanCap : Nat := %d\n", ft.chanCap)
	fmt.Fprintf(&b, "/-- go/ast, NewWriterWithTopic: capacity of batchingLoopDoneCh. -/\ndef doneChCap : Nat := %d\n", ft.doneChCap)
	fmt.Fprintf(&b, "/-- go/ast, writingLoop: the literal argument of every PopMultiple call. -/\ndef popMax : Nat := %d\n", ft.popMax)
	fmt.Fprintf(&b, "/-- go/ast, writingLoop is `for { select { case <-done: …; default: pop, write } }` and the done clause pops/inspects the buffer before leaving. -/\ndef drainOnDone : Bool := %s\n", lb(ft.drainOnDone))
	fmt.Fprintf(&b, "/-- go/ast: the done clause returns. -/\ndef doneCaseReturns : Bool := %s\n", lb(ft.doneCaseReturns))
	fmt.Fprintf(&b, "/-- go/ast, batchingLoop: range over the channel pushing, then the done token BEFORE ReleaseGoroutines. -/\ndef doneBeforeRelease : Bool := %s\n", lb(ft.doneBeforeRelease))
	fmt.Fprintf(&b, "/-- go/ast, fifobuffer.go: Push, PopMultiple and ReleaseGoroutines start by taking the lock and release it. -/\ndef fifoOpsLocked : Bool := %s\n", lb(ft.fifoOpsLocked))
	fmt.Fprintf(&b, "/-- go/ast: Push is `buffer = append(buffer, value)`. -/\ndef pushAppendsToEnd : Bool := %s\n", lb(ft.pushAppendsToEnd))
	fmt.Fprintf(&b, "/-- go/ast: ReleaseGoroutines assigns something (a sticky released flag). -/\ndef releaseSticky : Bool := %s\n\n", lb(ft.releaseSticky))
	fmt.Fprintf(&b, "/-- go/ast, WriteEventWithTimestamp (function literals included): sends on toBatchMessagesChan. -/\ndef handoverSends : Nat := %d\n", ft.handoverSends)
	fmt.Fprintf(&b, "/-- go/ast: there is exactly one such send and it is an ordinary statement of a block (not the communication of a select clause): it blocks until the channel takes the message. -/\ndef handoverPlainSend : Bool := %s\n", lb(ft.handoverPlainSend))
	fmt.Fprintf(&b, "/-- go/ast: select statements anywhere in WriteEventWithTimestamp. -/\ndef handoverSelects : Nat := %d\n", ft.handoverSelects)
	fmt.Fprintf(&b, "/-- go/ast: go statements anywhere in WriteEventWithTimestamp. -/\ndef handoverGoStmts : Nat := %d\n\n", ft.handoverGoStmts)
	b.WriteString("/-! go/ast, writer.go: the WaitGroup `runningWorkers` — who counts the two workers, and when. -/\n\n")
	fmt.Fprintf(&b, "/-- a `runningWorkers.Add` call inside writingLoop or batchingLoop: the workers register themselves when they start running. -/\ndef workersSelfRegister : Bool := %s\n", lb(ft.workersSelfRegister))
	fmt.Fprintf(&b, "/-- `runningWorkers.Add` calls anywhere in writer.go. -/\ndef wgAddCalls : Nat := %d\n", ft.wgAddCalls)
	fmt.Fprintf(&b, "/-- the literal argument of the Add in (*KafkaWriter).Close (0: none). -/\ndef wgCloseAdd : Nat := %d\n", ft.wgCloseAdd)
	fmt.Fprintf(&b, "/-- (*KafkaWriter).Close is, in this order and nothing else: runningWorkers.Add; close(toBatchMessagesChan); runningWorkers.Wait; Writer.Close. -/\ndef wgCloseOrder : Bool := %s\n", lb(ft.wgCloseOrder))
	fmt.Fprintf(&b, "/-- `runningWorkers.Done` calls anywhere in writer.go (deferred ones included). -/\ndef wgDoneCalls : Nat := %d\n", ft.wgDoneCalls)
	fmt.Fprintf(&b, "/-- writingLoop has one Done call: the statement before the `return` of the done clause. -/\ndef wgWriterDoneLast : Bool := %s\n", lb(ft.wgWriterDoneLast))
	fmt.Fprintf(&b, "/-- batchingLoop has one Done call: its last statement. -/\ndef wgBatcherDoneLast : Bool := %s\n", lb(ft.wgBatcherDoneLast))
	fmt.Fprintf(&b, "/-- go statements in NewWriterWithTopic. -/\ndef workerGoStmts : Nat := %d\n", ft.workerGoStmts)
	fmt.Fprintf(&b, "/-- they are `go writer.writingLoop()` and `go writer.batchingLoop()`, one each. -/\ndef workersSpawned : Bool := %s\n", lb(ft.workersSpawned))
	fmt.Fprintf(&b, "/-- statements in front of the `for` of writingLoop plus in front of the `range` of batchingLoop. -/\ndef loopPrologue : Nat := %d\n", ft.loopPrologue)
	fmt.Fprintf(&b, "/-- the verification hook NewWriterForVerif spawns the same two workers, one each, and nothing else. -/\ndef hookSpawnsWorkers : Bool := %s\n\n", lb(ft.hookSpawnsWorkers))
	rf, err := registryFacts(repo)
	if err != nil {
		return "", err
	}
	b.WriteString("/-! go/ast, core/the/*.go (test files aside): the writer registry. -/\n\n")
	fmt.Fprintf(&b, "/-- package-level variables of type sync.Mutex or sync.RWMutex in core/the/eventwriter.go. -/\ndef regMutexVars : Nat := %d\n", rf.mutexVars)
	fmt.Fprintf(&b, "/-- … it is a sync.Mutex (no shared mode exists). -/\ndef regPlainMutex : Bool := %s\n", lb(rf.plainMutex))
	fmt.Fprintf(&b, "/-- RLock / RUnlock / RLocker / TryLock / TryRLock calls anywhere in core/the. -/\ndef regSharedLockCalls : Nat := %d\n", rf.sharedLockCalls)
	fmt.Fprintf(&b, "/-- functions of core/the that mention the map `writers`. -/\ndef regMapUsers : Nat := %d\n", rf.mapUsers)
	fmt.Fprintf(&b, "/-- … of which start with `mu.Lock(); defer mu.Unlock()` and do not touch mu otherwise. -/\ndef regMapUsersLocked : Nat := %d\n", rf.mapUsersLocked)
	fmt.Fprintf(&b, "/-- mentions of `writers` outside function bodies, its declaration aside. -/\ndef regMapUsesOutside : Nat := %d\n", rf.mapUsesOutside)
	fmt.Fprintf(&b, "/-- createOrGetWriter starts with `mu.Lock(); defer mu.Unlock()` and does not touch mu otherwise: lookup, creation and registration are one critical section. -/\ndef regGetHoldsLock : Bool := %s\n", lb(rf.getHoldsLock))
	fmt.Fprintf(&b, "/-- its third statement — the first that mentions the map — is `if w, ok := writers[topic]; ok { return w }`. -/\ndef regGetLookupFirst : Bool := %s\n", lb(rf.getLookupFirst))
	fmt.Fprintf(&b, "/-- every later mention of the map is `writers[topic] = <constructor call / &literal>` or the final `return writers[topic]`. -/\ndef regGetRegisters : Bool := %s\n", lb(rf.getRegisters))
	fmt.Fprintf(&b, "/-- ClearEventWriters starts with `mu.Lock(); defer mu.Unlock()` and does not touch mu otherwise. -/\ndef regClearHoldsLock : Bool := %s\n", lb(rf.clearHoldsLock))
	fmt.Fprintf(&b, "/-- it ranges over `writers` calling Close() on every value; nothing leaves the loop early. -/\ndef regClearClosesEach : Bool := %s\n", lb(rf.clearClosesEach))
	fmt.Fprintf(&b, "/-- after the loop the map is emptied (`clear(writers)`). -/\ndef regClearEmpties : Bool := %s\n\n", lb(rf.clearEmpties))
	b.WriteString("/-- The linked FifoBuffer evaluated: (n, len, PopMultiple(n) after pushing 0..len-1, what is left). -/\ndef popTable : List (Nat × Nat × List Nat × List Nat) := [\n")
	b.WriteString(popTable())
	b.WriteString("\n]\n\n/-- The linked WriteEventWithTimestamp evaluated through the hook: (kind, env id number, task id number, key code). -/\ndef keyTable : List (Nat × Nat × Nat × Nat) := [\n")
	b.WriteString(kt)
	b.WriteString("\n]\n\nend Gen.C19\n")
	return b.String(), nil
}
