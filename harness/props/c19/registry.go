package c19

// The writer REGISTRY of the core (core/the/eventwriter.go): `writers map[topic]Writer` behind the
// package mutex, createOrGetWriter (lookup, creation and registration of the topic's writer),
// ClearEventWriters (shutdown: Close every registered writer, empty the map).  The per-writer
// statements of this property (order, flush on Close) are statements about a TOPIC only if every
// publisher of the topic is handed the one writer that the shutdown later closes.  This stream
// hammers the real registry:
//
// Input : (registry (callers N) (topics T) (rounds R) (relook b) (gate b) (lat us))
//
//	per round T fresh topics; N goroutines per topic are released together (spinning barrier) and call
//	the.EventWriterWithTopic(topic) — the first lookup of the topic in this epoch; each then publishes
//	its event 0 through the writer it was handed; with (relook 1) it looks the writer up AGAIN and
//	publishes its event 1 through what it is handed then; finally the.ClearEventWriters() (shutdown).
//	The writers are the real KafkaWriters of event.NewWriterWithTopic (viper enableKafka = true, a
//	broker address nobody listens on); no network: the exported Transport field of the embedded
//	kafka.Writer is set to an in-process broker (answers metadata with one partition, records produce
//	requests) and BatchTimeout to 1 ms — both before the writer's first use.  (gate 1): the broker
//	holds every produce request until ClearEventWriters has been CALLED (a broker that is unreachable
//	until shutdown begins); (lat us): every produce request takes this long.
//
// Obs   : (registry (round (topic (first i…) (again i…) (closed b…) (accepted a…) (delivered (c s)…))…)…)
//
//	first     per caller the writer it was handed at the barrier (pointer identity, numbered by first
//	          appearance within the topic), again = the same for the second lookup (empty without relook)
//	closed    per distinct writer handed out: 1 = closed when ClearEventWriters had returned (the embedded
//	          kafka.Writer refuses a — empty — WriteMessages with io.ErrClosedPipe; KafkaWriter.Close closes
//	          it as its last action, after both loops are done)
//	accepted  per caller the WriteEvent calls that have returned
//	delivered the topic's events whose produce request had been answered when ClearEventWriters returned,
//	          in the order the broker answered them: (caller seq)
//
// The registry and viper are process-global: every case runs in a child process of its own.

import (
	"context"
	"errors"
	"fmt"
	"io"
	"net"
	"os"
	"runtime"
	"strings"
	"sync"
	"sync/atomic"
	"syscall"
	"time"

	"github.com/AliceO2Group/Control/common/event"
	"github.com/AliceO2Group/Control/common/event/topic"
	pb "github.com/AliceO2Group/Control/common/protos"
	"github.com/AliceO2Group/Control/core/the"
	"github.com/segmentio/kafka-go"
	"github.com/segmentio/kafka-go/protocol"
	"github.com/segmentio/kafka-go/protocol/metadata"
	"github.com/segmentio/kafka-go/protocol/produce"
	"github.com/spf13/viper"
	"google.golang.org/protobuf/proto"

	"verifharness/fw"
	"verifharness/rng"
	"verifharness/sx"
)

const registryChild = "c19-registry"

type regInput struct {
	callers, topics, rounds, lat int
	relook, gate                 bool
}

func parseRegistry(in *sx.Node) (regInput, error) {
	var ri regInput
	if in.Len() != 7 {
		return ri, fmt.Errorf("bad input: registry wants six settings")
	}
	want := []string{"callers", "topics", "rounds", "relook", "gate", "lat"}
	vals := make([]int, len(want))
	for i, w := range want {
		f := in.At(i + 1)
		if f.Len() != 2 || f.At(0).Str() != w {
			return ri, fmt.Errorf("bad input: (%s n) expected at position %d", w, i+1)
		}
		vals[i] = f.At(1).Int()
	}
	ri = regInput{callers: vals[0], topics: vals[1], rounds: vals[2], relook: vals[3] != 0, gate: vals[4] != 0, lat: vals[5]}
	if ri.callers < 1 || ri.callers > 64 || ri.topics < 1 || ri.topics > 16 || ri.rounds < 1 || ri.rounds > 1000 || ri.lat < 0 || ri.lat > 100000 {
		return ri, fmt.Errorf("bad input: registry settings out of range")
	}
	return ri, nil
}

// ---- the in-process broker --------------------------------------------------------------

type regBroker struct {
	mu        sync.Mutex
	delivered map[string][]wev // per topic, in the order the produce requests were answered
	gate      atomic.Value     // chan struct{}: closed when the shutdown of the current round has been called
	latNs     int64
	bad       atomic.Value // string
}

func (b *regBroker) RoundTrip(_ context.Context, _ net.Addr, req kafka.Request) (kafka.Response, error) {
	switch r := req.(type) {
	case *metadata.Request:
		res := &metadata.Response{
			Brokers:      []metadata.ResponseBroker{{NodeID: 1, Host: "127.0.0.1", Port: 1}},
			ControllerID: 1,
		}
		for _, t := range r.TopicNames {
			res.Topics = append(res.Topics, metadata.ResponseTopic{Name: t,
				Partitions: []metadata.ResponsePartition{{PartitionIndex: 0, LeaderID: 1, ReplicaNodes: []int32{1}, IsrNodes: []int32{1}}}})
		}
		return res, nil
	case *produce.Request:
		res := &produce.Response{}
		type got struct {
			topic string
			evs   []wev
		}
		var gots []got
		for _, t := range r.Topics {
			rt := produce.ResponseTopic{Topic: t.Topic}
			g := got{topic: t.Topic}
			for _, p := range t.Partitions {
				rt.Partitions = append(rt.Partitions, produce.ResponsePartition{Partition: p.Partition})
				if p.RecordSet.Records == nil {
					continue
				}
				for {
					rec, err := p.RecordSet.Records.ReadRecord()
					if err != nil {
						if !errors.Is(err, io.EOF) {
							b.bad.Store("read record: " + err.Error())
						}
						break
					}
					val, err := protocol.ReadAll(rec.Value)
					if err != nil {
						b.bad.Store("read value: " + err.Error())
						continue
					}
					var key []byte
					if rec.Key != nil {
						key, _ = protocol.ReadAll(rec.Key)
					}
					var e pb.Event
					if err := proto.Unmarshal(val, &e); err != nil {
						b.bad.Store("unmarshal: " + err.Error())
						continue
					}
					n := e.GetTimestampNano()
					g.evs = append(g.evs, wev{int(n >> 32), int(n & 0xffffffff), keyCode(key)})
				}
			}
			res.Topics = append(res.Topics, rt)
			gots = append(gots, g)
		}
		if gc, ok := b.gate.Load().(chan struct{}); ok && gc != nil {
			<-gc
		}
		if b.latNs > 0 {
			time.Sleep(time.Duration(b.latNs))
		}
		b.mu.Lock()
		for _, g := range gots {
			b.delivered[g.topic] = append(b.delivered[g.topic], g.evs...)
		}
		b.mu.Unlock()
		return res, nil
	}
	return nil, fmt.Errorf("c19 registry broker: unexpected request %T", req)
}

// ---- one case, in the child process ----------------------------------------------------------

type regWriters struct {
	mu       sync.Mutex
	prepared map[*event.KafkaWriter]bool
	broker   *regBroker
}

// prepare points a writer nobody has published through yet at the in-process broker.
func (rw *regWriters) prepare(w event.Writer) (*event.KafkaWriter, error) {
	kw, ok := w.(*event.KafkaWriter)
	if !ok || kw == nil || kw.Writer == nil {
		return nil, fmt.Errorf("the registry handed out a %T, a *event.KafkaWriter was expected", w)
	}
	rw.mu.Lock()
	defer rw.mu.Unlock()
	if !rw.prepared[kw] {
		kw.Writer.Transport = rw.broker
		kw.Writer.BatchTimeout = time.Millisecond
		rw.prepared[kw] = true
	}
	return kw, nil
}

func isClosed(kw *event.KafkaWriter) bool {
	return errors.Is(kw.Writer.WriteMessages(context.Background()), io.ErrClosedPipe)
}

// within runs f in a goroutine and waits for it at most the ceiling.
func within(what string, f func()) error {
	done := make(chan struct{})
	go func() { f(); close(done) }()
	select {
	case <-done:
		return nil
	case <-time.After(ceiling):
		return fmt.Errorf("%s did not finish within %v", what, ceiling)
	}
}

// released: goroutines wait here until all of them have arrived and the controller lets go; they
// spin (are running, not parked) when there are processors enough for that.
type barrier struct {
	ready, start atomic.Int32
	total        int32
	yield        bool
}

func newBarrier(total int) *barrier {
	return &barrier{total: int32(total), yield: total > runtime.GOMAXPROCS(0)*3/4}
}

func (b *barrier) wait() {
	b.ready.Add(1)
	for b.start.Load() == 0 {
		if b.yield {
			runtime.Gosched()
		}
	}
}

func (b *barrier) release() error {
	t0 := time.Now()
	for b.ready.Load() < b.total {
		runtime.Gosched()
		if time.Since(t0) > ceiling {
			b.start.Store(1)
			return fmt.Errorf("the callers did not reach the barrier within %v", ceiling)
		}
	}
	b.start.Store(1)
	return nil
}

func registryRound(ri regInput, rw *regWriters, round int) (*sx.Node, error) {
	tps := make([]topic.Topic, ri.topics)
	for t := range tps {
		tps[t] = topic.Topic(fmt.Sprintf("verif.c19.r%d.t%d", round, t))
	}
	gate := make(chan struct{})
	if ri.gate {
		rw.broker.gate.Store(gate)
	} else {
		var none chan struct{}
		rw.broker.gate.Store(none)
	}
	first := make([][]event.Writer, ri.topics)
	again := make([][]event.Writer, ri.topics)
	accepted := make([][]atomic.Int32, ri.topics)
	for t := range first {
		first[t] = make([]event.Writer, ri.callers)
		again[t] = make([]event.Writer, ri.callers)
		accepted[t] = make([]atomic.Int32, ri.callers)
	}
	// phase 1: the first lookup of every topic, by all its callers at once
	var wg sync.WaitGroup
	bar := newBarrier(ri.topics * ri.callers)
	for t := 0; t < ri.topics; t++ {
		for c := 0; c < ri.callers; c++ {
			wg.Add(1)
			go func(t, c int) {
				defer wg.Done()
				bar.wait()
				first[t][c] = the.EventWriterWithTopic(tps[t])
			}(t, c)
		}
	}
	if err := bar.release(); err != nil {
		return nil, err
	}
	if err := within("the first lookups", wg.Wait); err != nil {
		return nil, err
	}
	for t := range first {
		for _, w := range first[t] {
			if _, err := rw.prepare(w); err != nil {
				return nil, err
			}
		}
	}
	// phase 2: everybody publishes through what it was handed; with relook a second lookup and a second event
	var perr atomic.Value
	bar2 := newBarrier(ri.topics * ri.callers)
	for t := 0; t < ri.topics; t++ {
		for c := 0; c < ri.callers; c++ {
			wg.Add(1)
			go func(t, c int) {
				defer wg.Done()
				bar2.wait()
				first[t][c].WriteEventWithTimestamp(mkEvent(5, 1, 0), time.Unix(0, int64(c)<<32))
				accepted[t][c].Add(1)
				if ri.relook {
					w2 := the.EventWriterWithTopic(tps[t])
					again[t][c] = w2
					if _, err := rw.prepare(w2); err != nil {
						perr.Store(err)
						return
					}
					w2.WriteEventWithTimestamp(mkEvent(5, 1, 0), time.Unix(0, int64(c)<<32|1))
					accepted[t][c].Add(1)
				}
			}(t, c)
		}
	}
	if err := bar2.release(); err != nil {
		return nil, err
	}
	if err := within("the publishers", wg.Wait); err != nil {
		return nil, err
	}
	if e, ok := perr.Load().(error); ok {
		return nil, e
	}
	// shutdown
	close(gate)
	if err := within("ClearEventWriters", the.ClearEventWriters); err != nil {
		return nil, err
	}
	// what is true at the instant the shutdown has completed
	rw.broker.mu.Lock()
	deliv := make([][]wev, ri.topics)
	for t := range tps {
		deliv[t] = append([]wev(nil), rw.broker.delivered[string(tps[t])]...)
	}
	rw.broker.mu.Unlock()
	rn := sx.L(sx.A("round"))
	var open []*event.KafkaWriter
	for t := range tps {
		ids := map[event.Writer]int{}
		var order []*event.KafkaWriter
		idOf := func(w event.Writer) (int, error) {
			if id, ok := ids[w]; ok {
				return id, nil
			}
			kw, err := rw.prepare(w)
			if err != nil {
				return 0, err
			}
			ids[w] = len(order)
			order = append(order, kw)
			return ids[w], nil
		}
		fn, an, cn, acn, dn := sx.L(sx.A("first")), sx.L(sx.A("again")), sx.L(sx.A("closed")), sx.L(sx.A("accepted")), sx.L(sx.A("delivered"))
		for c := 0; c < ri.callers; c++ {
			id, err := idOf(first[t][c])
			if err != nil {
				return nil, err
			}
			fn.Add(sx.I(id))
		}
		if ri.relook {
			for c := 0; c < ri.callers; c++ {
				id, err := idOf(again[t][c])
				if err != nil {
					return nil, err
				}
				an.Add(sx.I(id))
			}
		}
		for _, kw := range order {
			cl := isClosed(kw)
			cn.Add(sx.B(cl))
			if !cl {
				open = append(open, kw)
			}
		}
		for c := 0; c < ri.callers; c++ {
			acn.Add(sx.I(int(accepted[t][c].Load())))
		}
		for _, e := range deliv[t] {
			dn.Add(sx.L(sx.I(e.p), sx.I(e.seq)))
		}
		rn.Add(sx.L(sx.A("topic"), fn, an, cn, acn, dn))
	}
	// leave nothing of this round behind: writers the shutdown did not close are closed here
	if len(open) > 0 {
		_ = within("closing the writers the shutdown left open", func() {
			var cw sync.WaitGroup
			for _, kw := range open {
				cw.Add(1)
				go func(kw *event.KafkaWriter) {
					defer cw.Done()
					defer func() { _ = recover() }() // (somebody else may be closing it right now: a second close of its channel panics)
					kw.Close()
				}(kw)
			}
			cw.Wait()
		})
	}
	return rn, nil
}

func registryCase(input string) (string, error) {
	in, err := sx.Parse(input)
	if err != nil {
		return "", err
	}
	ri, err := parseRegistry(in)
	if err != nil {
		return "", err
	}
	viper.Set("enableKafka", true)
	viper.Set("kafkaEndpoints", []string{"127.0.0.1:1"})
	rw := &regWriters{prepared: map[*event.KafkaWriter]bool{}, broker: &regBroker{delivered: map[string][]wev{}, latNs: int64(ri.lat) * 1000}}
	obs := sx.L(sx.A("registry"))
	for r := 0; r < ri.rounds; r++ {
		rn, err := registryRound(ri, rw, r)
		if err != nil {
			return "", fmt.Errorf("round %d: %w", r, err)
		}
		obs.Add(rn)
	}
	if s, ok := rw.broker.bad.Load().(string); ok {
		return "", fmt.Errorf("harness could not decode a record: %s", s)
	}
	return obs.String(), nil
}

func registryChildMain(args []string) {
	if len(args) != 1 {
		fmt.Fprintln(os.Stderr, registryChild+": want one argument")
		os.Exit(3)
	}
	obs, err := registryCase(args[0])
	if err != nil {
		fmt.Fprintln(os.Stderr, err)
		os.Exit(3)
	}
	fmt.Println(obs)
}

// runRegistry: the parent's side — one child process per case (its own registry, its own viper).
func runRegistry(input string) (string, error) {
	cmd := fw.ChildCommand(registryChild, input)
	cmd.SysProcAttr = &syscall.SysProcAttr{Setpgid: true}
	var stdout, stderr strings.Builder
	cmd.Stdout, cmd.Stderr = &stdout, &stderr
	if err := cmd.Start(); err != nil {
		return "", err
	}
	done := make(chan error, 1)
	go func() { done <- cmd.Wait() }()
	select {
	case err := <-done:
		if err != nil {
			return "", fmt.Errorf("registry child: %v: %.400s", err, stderr.String())
		}
	case <-time.After(4 * ceiling):
		_ = syscall.Kill(-cmd.Process.Pid, syscall.SIGKILL)
		<-done
		return "", fmt.Errorf("registry child did not finish within %v", 4*ceiling)
	}
	lines := strings.Split(strings.TrimSpace(stdout.String()), "\n")
	obs := strings.TrimSpace(lines[len(lines)-1])
	if !strings.HasPrefix(obs, "(registry") {
		return "", fmt.Errorf("registry child printed no observation: %.200s / %.200s", stdout.String(), stderr.String())
	}
	return obs, nil
}

// ---- generator ---------------------------------------------------------------------------------

func regInputText(ri regInput) string {
	b := func(x bool) int {
		if x {
			return 1
		}
		return 0
	}
	return sx.L(sx.A("registry"), sx.L(sx.A("callers"), sx.I(ri.callers)), sx.L(sx.A("topics"), sx.I(ri.topics)),
		sx.L(sx.A("rounds"), sx.I(ri.rounds)), sx.L(sx.A("relook"), sx.I(b(ri.relook))), sx.L(sx.A("gate"), sx.I(b(ri.gate))),
		sx.L(sx.A("lat"), sx.I(ri.lat))).String()
}

func regCase(ri regInput) fw.Case {
	tags := []string{"registry", fmt.Sprintf("registry:callers=%d", ri.callers), fmt.Sprintf("registry:topics=%d", ri.topics),
		fmt.Sprintf("registry:rounds~%d", bucket(ri.rounds))}
	if ri.relook {
		tags = append(tags, "registry:second-lookup")
	}
	if ri.gate {
		tags = append(tags, "registry:broker-held-until-shutdown")
	}
	if ri.lat > 0 {
		tags = append(tags, "registry:broker-latency")
	}
	return fw.Case{Input: regInputText(ri), Tags: tags}
}

func genRegistryCases(tier string, r *rng.R) []fw.Case {
	n, maxRounds := 16, 30
	if tier == "thorough" {
		n, maxRounds = 120, 60
	}
	var cs []fw.Case
	for i := 0; i < n; i++ {
		ri := regInput{
			callers: rng.Pick(r, []int{2, 3, 4, 6, 8, 8}),
			topics:  rng.Pick(r, []int{1, 1, 2, 3}),
			rounds:  r.Range(12, maxRounds),
			relook:  r.P(2, 3),
			gate:    r.Bool(),
			lat:     rng.Pick(r, []int{0, 0, 50, 300, 1000}),
		}
		if ri.callers*ri.topics > 16 {
			ri.topics = 16 / ri.callers
		}
		cs = append(cs, regCase(ri))
	}
	return cs
}

func shrinkRegistry(in *sx.Node) []string {
	ri, err := parseRegistry(in)
	if err != nil {
		return nil
	}
	var out []string
	add := func(f func(*regInput)) {
		x := ri
		f(&x)
		if x != ri {
			out = append(out, regInputText(x))
		}
	}
	if ri.rounds >= 10 {
		add(func(x *regInput) { x.rounds = 9 }) // (a candidate must be shorter as text)
	} else if ri.rounds > 1 {
		add(func(x *regInput) { x.rounds /= 2 })
	}
	if ri.topics > 1 {
		add(func(x *regInput) { x.topics-- })
	}
	if ri.callers > 2 {
		add(func(x *regInput) { x.callers-- })
	}
	add(func(x *regInput) { x.lat = 0 })
	add(func(x *regInput) { x.gate = false })
	add(func(x *regInput) { x.relook = false })
	return out
}

func registryNontrivial(in *sx.Node, obs string) bool {
	ri, err := parseRegistry(in)
	if err != nil {
		return false
	}
	o, err := sx.Parse(obs)
	// at least two callers asked for the same fresh topic together, and a round was observed
	return err == nil && ri.callers >= 2 && o.Len() >= 2
}
