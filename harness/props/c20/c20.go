// Package c20: correspondence harness for property C20 (stub — registers nothing yet).
package c20
