// Package c20: configuration lookups return the most specific existing entry.
//
// Two kinds of input (S-expressions):
//
//	(parse "s")
//	    runs componentcfg.NewQuery / NewEntriesQuery / NewQueryParameters on s.
//	    obs: ((full F) (entries E) (params P))
//	      F := (ok comp rtNum role entry raw path absraw valid) | (err bad_key valid) | (err other valid)
//	      E := (ok comp rtNum role valid) | (err bad_key valid)
//	      P := (ok process (k v)...) | (err valid)        -- (k v) sorted by key; valid = IsStringValid…(s) on the UNtrimmed s
//
//	(lookup (comp rtNum role entry) ((key kind content)...) ((k v)...))
//	    builds a YAML file whose tree holds the listed entries (key = full "/"-separated key from the root,
//	    kind = val | dir; a dir is an empty map), opens it with the real cfgbackend.NewSource("file://…"),
//	    wraps that source in a recorder, and runs a fresh local.Service over it.
//	    obs: ((probes "key"...) (resolved R) (get G) (getq G) (proc P))
//	      probes   the keys ResolveComponentQuery asked Exists for, in order
//	      R := (ok comp rtNum role entry raw) | (err unresolved) | (err other)
//	      get      GetComponentConfiguration(resolved)   (- when nothing resolved)
//	      getq     GetComponentConfiguration(query)      (no fallback)
//	      proc     GetAndProcessComponentConfiguration(resolved, vars) on ANOTHER fresh service (- when nothing resolved)
//	      G, P := (ok "payload") | (err nopayload|notstring|badkey|load|syntax|badident|exec|other) | -
//
//	(seq ((key kind content)...) (op...))
//	    a HISTORY of requests on one local.Service over a backend that may change in between: see seq.go.
//
//	(conc ((key kind content)...) (req...) rounds)
//	    requests issued CONCURRENTLY (one goroutine each) on one local.Service over an unchanged backend: see conc.go.
package c20

import (
	"bytes"
	"encoding/json"
	"fmt"
	"go/ast"
	"go/parser"
	"go/token"
	"os"
	"path/filepath"
	"reflect"
	"sort"
	"strconv"
	"strings"
	"sync/atomic"

	"github.com/AliceO2Group/Control/apricot/local"
	apricotpb "github.com/AliceO2Group/Control/apricot/protos"
	"github.com/AliceO2Group/Control/configuration/cfgbackend"
	"github.com/AliceO2Group/Control/configuration/componentcfg"
	"github.com/AliceO2Group/Control/configuration/template"
	"gopkg.in/yaml.v3"

	"verifharness/fw"
	"verifharness/rng"
	"verifharness/sx"
)

// ---- recording backend -------------------------------------------------------------

type recorder struct {
	cfgbackend.Source
	probes []string
	// when answer != nil the recorder answers Exists itself (used by the tabulation only)
	answer func(key string) bool
}

func (r *recorder) Exists(key string) (bool, error) {
	r.probes = append(r.probes, key)
	if r.answer != nil {
		return r.answer(key), nil
	}
	return r.Source.Exists(key)
}

// ---- implementation runs -----------------------------------------------------------

func errClass(err error) string {
	m := err.Error()
	switch {
	case strings.Contains(m, "where: fromfile"):
		return "load"
	case strings.Contains(m, "where: checkForValidIdentifiers"):
		return "badident"
	case strings.Contains(m, "where: parser"), strings.Contains(m, "where: lexer"):
		return "syntax"
	case strings.Contains(m, "where: execution"):
		return "exec"
	case strings.Contains(m, "no payload at configuration path"):
		return "nopayload"
	case strings.Contains(m, "string was expected"):
		return "notstring"
	case strings.Contains(m, "bad component configuration key format"):
		return "badkey"
	case strings.Contains(m, "could not resolve configuration path"):
		return "unresolved"
	}
	return "other"
}

func runParse(s string) string {
	full := sx.L(sx.A("full"))
	if q, err := componentcfg.NewQuery(s); err == nil {
		full.Add(sx.L(sx.A("ok"), sx.A(q.Component), sx.I(int(q.RunType)), sx.A(q.RoleName), sx.A(q.EntryKey),
			sx.A(q.Raw()), sx.A(q.Path()), sx.A(q.AbsoluteRaw()), sx.B(componentcfg.IsStringValidQueryPath(s))))
	} else if err == componentcfg.E_BAD_KEY {
		full.Add(sx.L(sx.A("err"), sx.A("bad_key"), sx.B(componentcfg.IsStringValidQueryPath(s))))
	} else {
		full.Add(sx.L(sx.A("err"), sx.A("other"), sx.B(componentcfg.IsStringValidQueryPath(s))))
	}
	ent := sx.L(sx.A("entries"))
	if q, err := componentcfg.NewEntriesQuery(s); err == nil {
		ent.Add(sx.L(sx.A("ok"), sx.A(q.Component), sx.I(int(q.RunType)), sx.A(q.RoleName), sx.B(componentcfg.IsStringValidEntriesQueryPath(s))))
	} else {
		ent.Add(sx.L(sx.A("err"), sx.A("bad_key"), sx.B(componentcfg.IsStringValidEntriesQueryPath(s))))
	}
	par := sx.L(sx.A("params"))
	if p, err := componentcfg.NewQueryParameters(s); err == nil {
		r := sx.L(sx.A("ok"), sx.B(p.ProcessTemplates))
		var ks []string
		for k := range p.VarStack {
			ks = append(ks, k)
		}
		sort.Strings(ks)
		for _, k := range ks {
			r.Add(sx.L(sx.A(k), sx.A(p.VarStack[k])))
		}
		par.Add(r)
	} else {
		par.Add(sx.L(sx.A("err"), sx.B(componentcfg.IsStringValidQueryParameters(s))))
	}
	return sx.L(full, ent, par).String()
}

var fileCtr uint64
var workDir = filepath.Join(os.TempDir(), "verif-c20")

func buildYaml(entries *sx.Node) ([]byte, error) {
	root := map[string]interface{}{}
	for _, e := range entries.List {
		segs := strings.Split(e.At(0).Str(), "/")
		cur := root
		for i, s := range segs {
			if i == len(segs)-1 {
				if _, dup := cur[s]; dup {
					return nil, fmt.Errorf("entry %q collides with another entry", e.At(0).Str())
				}
				if e.At(1).Str() == "dir" {
					cur[s] = map[string]interface{}{}
				} else {
					cur[s] = e.At(2).Str()
				}
				break
			}
			nxt, ok := cur[s]
			if !ok {
				m := map[string]interface{}{}
				cur[s] = m
				cur = m
				continue
			}
			m, isMap := nxt.(map[string]interface{})
			if !isMap {
				return nil, fmt.Errorf("entry %q passes through a value", e.At(0).Str())
			}
			cur = m
		}
	}
	// Written as JSON (a subset of YAML: flow mappings, double-quoted scalars with explicit escapes). yaml.Marshal picks
	// block scalars for strings with leading blanks/newlines, which yaml.Unmarshal then reads back differently or rejects.
	var buf bytes.Buffer
	enc := json.NewEncoder(&buf)
	enc.SetEscapeHTML(false)
	if err := enc.Encode(root); err != nil {
		return nil, err
	}
	// the backend must hold exactly the entries the input lists: read the file back the way the backend will
	var back interface{}
	if err := yaml.Unmarshal(buf.Bytes(), &back); err != nil {
		return nil, fmt.Errorf("generated YAML does not parse: %v", err)
	}
	if !reflect.DeepEqual(back, interface{}(root)) {
		return nil, fmt.Errorf("generated YAML does not read back to the same tree")
	}
	return buf.Bytes(), nil
}

func payloadObs(tag string, payload string, err error) *sx.Node {
	if err != nil {
		return sx.L(sx.A(tag), sx.L(sx.A("err"), sx.A(errClass(err))))
	}
	return sx.L(sx.A(tag), sx.L(sx.A("ok"), sx.A(payload)))
}

func runLookup(in *sx.Node) (string, error) {
	qn := in.At(1)
	query := &componentcfg.Query{Component: qn.At(0).Str(), RunType: apricotpb.RunType(qn.At(1).Int()),
		RoleName: qn.At(2).Str(), EntryKey: qn.At(3).Str()}
	data, err := buildYaml(in.At(2))
	if err != nil {
		return "", err
	}
	if err := os.MkdirAll(workDir, 0o755); err != nil {
		return "", err
	}
	fn := filepath.Join(workDir, fmt.Sprintf("c20-%d-%d.yaml", os.Getpid(), atomic.AddUint64(&fileCtr, 1)))
	if err := os.WriteFile(fn, data, 0o644); err != nil {
		return "", err
	}
	defer os.Remove(fn)
	src, err := cfgbackend.NewSource("file://" + fn)
	if err != nil {
		return "", fmt.Errorf("NewSource: %v", err)
	}
	rec := &recorder{Source: src}
	svc := local.VerifC20NewServiceWithSource(rec)

	vars := map[string]string{}
	for _, kv := range in.At(3).List {
		vars[kv.At(0).Str()] = kv.At(1).Str()
	}

	resolved, rerr := svc.ResolveComponentQuery(query)
	probes := sx.L(sx.A("probes"))
	for _, p := range rec.probes {
		probes.Add(sx.A(p))
	}
	obs := sx.L(probes)
	if rerr != nil {
		c := errClass(rerr)
		if c != "unresolved" {
			c = "other"
		}
		obs.Add(sx.L(sx.A("resolved"), sx.L(sx.A("err"), sx.A(c))))
		obs.Add(sx.L(sx.A("get"), sx.A("-")))
	} else {
		obs.Add(sx.L(sx.A("resolved"), sx.L(sx.A("ok"), sx.A(resolved.Component), sx.I(int(resolved.RunType)),
			sx.A(resolved.RoleName), sx.A(resolved.EntryKey), sx.A(resolved.Raw()))))
		p, e := svc.GetComponentConfiguration(resolved)
		obs.Add(payloadObs("get", p, e))
	}
	p, e := svc.GetComponentConfiguration(query)
	obs.Add(payloadObs("getq", p, e))
	if rerr != nil {
		obs.Add(sx.L(sx.A("proc"), sx.A("-")))
	} else {
		// the template cache is per service: a fresh one, so the payload is a function of (tree, query, vars) only
		svc2 := local.VerifC20NewServiceWithSource(src)
		p, e := svc2.GetAndProcessComponentConfiguration(resolved, vars)
		if e != nil {
			p = ""
		}
		obs.Add(payloadObs("proc", p, e))
	}
	return obs.String(), nil
}

func runImpl(input string) (string, error) {
	in, err := sx.Parse(input)
	if err != nil {
		return "", err
	}
	switch in.At(0).Str() {
	case "parse":
		return runParse(in.At(1).Str()), nil
	case "lookup":
		return runLookup(in)
	case "seq":
		return runSeq(in)
	case "conc":
		return runConc(in)
	}
	return "", fmt.Errorf("unknown case kind %q", in.At(0).Str())
}

// ---- generators --------------------------------------------------------------------

const (
	lower  = "abcdefghijklmnopqrstuvwxyz"
	upper  = "ABCDEFGHIJKLMNOPQRSTUVWXYZ"
	digits = "0123456789"
)

var runTypeNames []string // sorted by number
var runTypeNums []int

func init() {
	for n := range apricotpb.RunType_name {
		runTypeNums = append(runTypeNums, int(n))
	}
	sort.Ints(runTypeNums)
	for _, n := range runTypeNums {
		runTypeNames = append(runTypeNames, apricotpb.RunType_name[int32(n)])
	}
}

func randFrom(r *rng.R, alphabet string, lo, hi int) string {
	n := r.Range(lo, hi)
	var b strings.Builder
	rs := []rune(alphabet)
	for i := 0; i < n; i++ {
		b.WriteRune(rs[r.N(len(rs))])
	}
	return b.String()
}

func genComponent(r *rng.R) string {
	if r.P(1, 3) {
		return rng.Pick(r, []string{"qc", "readout", "readoutcard", "dpl", "stfb", "stfs", "tpc-raw", "its_noise", "QC", "mch-qcmn-epn-full-track-matching"})
	}
	return randFrom(r, lower+upper+digits+"-_", 1, 8)
}
func genRole(r *rng.R) string {
	if r.P(1, 4) {
		return "any"
	}
	if r.P(1, 3) {
		return rng.Pick(r, []string{"flp001", "alio2-cr1-flp146", "epn-12", "ANY", "Any", "role1", "any-role", "anyx"})
	}
	return randFrom(r, lower+upper+digits+"-_", 1, 8)
}
func genEntry(r *rng.R) string {
	if r.P(1, 3) {
		return rng.Pick(r, []string{"entry", "tpc-full-qcmn", "sub/entry12", "a/b/c", "any", "ANY", "cfg", "x_1"})
	}
	s := randFrom(r, lower+upper+digits+"-_", 1, 6)
	for r.P(1, 4) {
		s += "/" + randFrom(r, lower+upper+digits+"-_", 1, 5)
	}
	return s
}
func genRunTypeName(r *rng.R) string { return rng.Pick(r, runTypeNames) }

var spaces = []string{" ", "\t", "\n", "\r", "\v", "\f", "\u0085", "\u00a0", "\u2003", "\u3000", "\u1680", "\u2028"}
var oddChars = []string{".", ":", "=", "&", "+", "%", "\u00e9", "\u00df", "\u200b", "\ufeff", "[", "]", "\"", ",", "{", "}", "~", "@", "`", "^", "\\", "'", "(", ")", "*", "?", "|", "$", "#", "!", ";", "<", ">", "\x7f"}

func genValidPath(r *rng.R) string {
	return genComponent(r) + "/" + genRunTypeName(r) + "/" + genRole(r) + "/" + genEntry(r)
}

func mutate(r *rng.R, s string) (string, string) {
	rs := []rune(s)
	switch r.N(12) {
	case 0: // drop a char
		if len(rs) > 0 {
			i := r.N(len(rs))
			return string(rs[:i]) + string(rs[i+1:]), "mut-drop"
		}
	case 1: // insert an odd char
		i := r.N(len(rs) + 1)
		return string(rs[:i]) + rng.Pick(r, oddChars) + string(rs[i:]), "mut-oddchar"
	case 2: // insert a space inside
		i := r.N(len(rs) + 1)
		return string(rs[:i]) + rng.Pick(r, spaces) + string(rs[i:]), "mut-innerspace"
	case 3: // lower-case the run type
		parts := strings.Split(s, "/")
		if len(parts) > 1 {
			parts[1] = strings.ToLower(parts[1])
			return strings.Join(parts, "/"), "mut-lower-runtype"
		}
	case 4: // unknown run type of the right shape
		parts := strings.Split(s, "/")
		if len(parts) > 1 {
			parts[1] = rng.Pick(r, []string{"PHYSIC", "PHYSICS2", "ANY_", "X", "CALIBRATION_", "300", "0", "_", "-", "NULLL", "TECHNICAL-RUN"})
			return strings.Join(parts, "/"), "mut-unknown-runtype"
		}
	case 5: // drop a segment
		parts := strings.Split(s, "/")
		i := r.N(len(parts))
		parts = append(parts[:i:i], parts[i+1:]...)
		return strings.Join(parts, "/"), "mut-drop-segment"
	case 6: // double a slash
		i := strings.Index(s, "/")
		if i >= 0 {
			k := r.N(strings.Count(s, "/"))
			idx := 0
			for j := 0; j < len(s); j++ {
				if s[j] == '/' {
					if idx == k {
						return s[:j] + "/" + s[j:], "mut-double-slash"
					}
					idx++
				}
			}
		}
	case 7:
		return "/" + s, "mut-leading-slash"
	case 8:
		return s + "/", "mut-trailing-slash"
	case 9: // newline then a second path (anchoring)
		return s + "\n" + genValidPath(r), "mut-multiline"
	case 10: // absolute prefix
		return "o2/components/" + s, "mut-absolute"
	case 11:
		return strings.Replace(s, "/", rng.Pick(r, []string{"\\", "//", " / ", "|"}), 1), "mut-separator"
	}
	return s + "?", "mut-oddchar"
}

func genParams(r *rng.R) string {
	n := r.Range(1, 4)
	var parts []string
	for i := 0; i < n; i++ {
		k := randFrom(r, lower+upper+digits+"-_", 1, 6)
		if r.P(1, 4) {
			k = "process"
		}
		v := randFrom(r, lower+upper+digits+"-_,\"[]", 1, 8)
		if k == "process" && r.P(4, 5) {
			v = rng.Pick(r, []string{"true", "false", "1", "0", "t", "F", "TRUE", "True", "False", "yes", "tRue", "T"})
		}
		parts = append(parts, k+"="+v)
	}
	if r.P(1, 6) && len(parts) > 1 {
		parts[len(parts)-1] = strings.SplitN(parts[0], "=", 2)[0] + "=dup"
	}
	return strings.Join(parts, "&")
}

func genParseCase(r *rng.R) fw.Case {
	var s string
	tags := []string{"parse"}
	switch r.N(10) {
	case 0, 1, 2:
		s = genValidPath(r)
		tags = append(tags, "parse:valid-path")
	case 3:
		s = genComponent(r) + "/" + genRunTypeName(r) + "/" + genRole(r)
		tags = append(tags, "parse:valid-entries-path")
	case 4:
		s = genParams(r)
		tags = append(tags, "parse:params")
		if r.P(1, 3) {
			var t string
			s, t = mutate(r, s)
			tags = append(tags, "parse:"+t)
		}
	case 5: // random soup over the interesting alphabet
		s = randFrom(r, "aZ0-_/ /AB&=\",[]\n", 0, 12)
		tags = append(tags, "parse:soup")
	default:
		var t string
		s, t = mutate(r, genValidPath(r))
		if r.P(1, 4) {
			s, _ = mutate(r, s)
		}
		tags = append(tags, "parse:"+t)
	}
	if r.P(1, 3) { // surrounding blanks
		pre, post := "", ""
		for r.P(1, 2) {
			pre += rng.Pick(r, spaces)
		}
		for r.P(1, 2) {
			post += rng.Pick(r, spaces)
		}
		if pre+post != "" {
			s = pre + s + post
			tags = append(tags, "parse:surrounding-blanks")
		}
	}
	return fw.Case{Input: sx.L(sx.A("parse"), sx.A(s)).String(), Tags: tags}
}

// ---- lookup cases ------------------------------------------------------------------

type shape struct {
	comp  string
	rt    int
	role  string
	entry string
}

var shapes = []shape{
	{"qc", 1, "flp001", "tpc-raw"},                        // the ordinary case: four distinct candidates
	{"readout-card", 6, "any", "cfg"},                     // role is already the fallback: exact≡rt/any, ANY/role≡ANY/any
	{"dpl_x", 300, "epn-12", "sub/dir/entry"},             // run type is already ANY, nested entry
	{"c", 300, "any", "e"},                                // all four coincide
	{"Comp9", 0, "ANY", "any"},                            // NULL run type, role "ANY" (not the fallback), entry called "any"
	{"a-b_c", 2, "r", "e/"},                               // entry with trailing slash (the backend trims it)
	{"x", 14, "anyrole", "d//e"},                          // empty path segment inside the entry
	{"mch-qcmn-epn-full-track-matching", 13, "alio2-cr1-flp146", "ANY/any"}, // entry that spells the fallback names
}

func candPaths(s shape) [4]string {
	rtn := apricotpb.RunType_name[int32(s.rt)]
	return [4]string{
		"o2/components/" + s.comp + "/" + rtn + "/" + s.role + "/" + s.entry,
		"o2/components/" + s.comp + "/ANY/" + s.role + "/" + s.entry,
		"o2/components/" + s.comp + "/" + rtn + "/any/" + s.entry,
		"o2/components/" + s.comp + "/ANY/any/" + s.entry,
	}
}

var contentVariants = []string{
	"plain payload, no template",
	"{\"host\":\"{{ host }}\",\"n\":{{n}},\"missing\":\"{{ nothere }}\",\"obj\":{\"a\":{\"b\":1}}}",
}

var varVariants = [][][2]string{
	{{"host", "alio2-cr1-flp146.cern.ch"}, {"n", "42"}, {"unused", "zzz"}},
}

func lookupCase(s shape, kinds []int, distinct []string, content string, vars [][2]string, tags []string) fw.Case {
	ents := sx.L()
	for i, p := range distinct {
		key := strings.TrimRight(p, "/")
		switch kinds[i] {
		case 1:
			ents.Add(sx.L(sx.A(key), sx.A("val"), sx.A(fmt.Sprintf("cand%d:", i)+content)))
		case 2:
			ents.Add(sx.L(sx.A(key), sx.A("dir"), sx.A("")))
		}
	}
	// distractors: same tree, other component / run type / role / entry, and a key outside o2/components
	rtn := apricotpb.RunType_name[int32(s.rt)]
	other := "PHYSICS"
	if rtn == "PHYSICS" {
		other = "COSMICS"
	}
	have := map[string]bool{}
	for _, e := range ents.List {
		have[e.At(0).Str()] = true
	}
	for _, d := range [][2]string{
		{"o2/components/" + s.comp + "X/" + rtn + "/" + s.role + "/distract", "other component"},
		{"o2/components/" + s.comp + "/" + other + "/other-role/distract", "other run type"},
		{"o2/components/" + s.comp + "/" + rtn + "/" + s.role + "/zz-distract", "other entry"},
		{"o2/components/" + s.comp + "/ANY/any/zz-distract", "other entry"},
		{"o2/runtime/aliecs/vars/x", "1"},
	} {
		if !have[d[0]] {
			have[d[0]] = true
			ents.Add(sx.L(sx.A(d[0]), sx.A("val"), sx.A(d[1])))
		}
	}
	vs := sx.L()
	for _, kv := range vars {
		vs.Add(sx.L(sx.A(kv[0]), sx.A(kv[1])))
	}
	q := sx.L(sx.A(s.comp), sx.I(s.rt), sx.A(s.role), sx.A(s.entry))
	return fw.Case{Input: sx.L(sx.A("lookup"), q, ents, vs).String(), Tags: tags}
}

// exhaustiveLookups: every shape × every assignment {absent,val,dir} of the distinct candidate paths × content variants.
func exhaustiveLookups() []fw.Case {
	var cs []fw.Case
	for si, s := range shapes {
		cp := candPaths(s)
		var distinct []string
		for _, p := range cp {
			seen := false
			for _, d := range distinct {
				if d == p {
					seen = true
				}
			}
			if !seen {
				distinct = append(distinct, p)
			}
		}
		n := 1
		for range distinct {
			n *= 3
		}
		for a := 0; a < n; a++ {
			kinds := make([]int, len(distinct))
			x := a
			pat := 0
			for i := range distinct {
				kinds[i] = x % 3
				x /= 3
			}
			for ci, p := range cp {
				for i, d := range distinct {
					if d == p && kinds[i] != 0 {
						pat |= 1 << ci
					}
				}
			}
			for vi, content := range contentVariants {
				hasDir := false
				for _, k := range kinds {
					if k == 2 {
						hasDir = true
					}
				}
				if vi > 0 && hasDir {
					continue // dirs carry no content: one content variant is enough
				}
				tags := []string{"lookup", "lookup:exhaustive", fmt.Sprintf("lookup:pattern=%04b", pat), fmt.Sprintf("lookup:shape=%d", si)}
				if hasDir {
					tags = append(tags, "lookup:with-dir")
				}
				cs = append(cs, lookupCase(s, kinds, distinct, content, varVariants[0], tags))
			}
		}
	}
	return cs
}

var identStart = lower + upper + "_"

func genContent(r *rng.R, names []string) string {
	var b strings.Builder
	n := r.Range(0, 6)
	for i := 0; i < n; i++ {
		if r.P(1, 2) {
			// text: anything but the three opening digraphs {{ {% {#
			alpha := []rune("ab {}\":,[]01<>&'%#-\n\té")
			t := ""
			for k := r.Range(0, 8); k > 0; k-- {
				c := alpha[r.N(len(alpha))]
				if strings.HasSuffix(t, "{") && (c == '{' || c == '%' || c == '#') {
					continue
				}
				t += string(c)
			}
			if strings.HasSuffix(t, "{") {
				t += " "
			}
			if strings.HasSuffix(b.String(), "{") && (strings.HasPrefix(t, "{") || strings.HasPrefix(t, "%") || strings.HasPrefix(t, "#")) {
				t = " " + t
			}
			b.WriteString(t)
		} else {
			name := rng.Pick(r, names)
			b.WriteString("{{" + randFrom(r, " \t", 0, 2) + name + randFrom(r, " \t\r", 0, 2) + "}}")
		}
	}
	return b.String()
}

func genLookupCase(r *rng.R) fw.Case {
	s := shape{genComponent(r), rng.Pick(r, runTypeNums), genRole(r), genEntry(r)}
	cp := candPaths(s)
	var distinct []string
	for _, p := range cp {
		seen := false
		for _, d := range distinct {
			if d == p {
				seen = true
			}
		}
		if !seen {
			distinct = append(distinct, p)
		}
	}
	kinds := make([]int, len(distinct))
	for i := range kinds {
		kinds[i] = rng.Pick(r, []int{0, 0, 1, 1, 1, 2})
	}
	names := []string{"a", "b1", "_x", "host", "Run_Type", "nothere", "x9_"}
	content := genContent(r, names)
	var vars [][2]string
	tags := []string{"lookup", "lookup:random"}
	used := map[string]bool{}
	for _, n := range names[:6] {
		if r.P(1, 2) {
			k := n
			if r.P(1, 8) {
				k = " " + k + " " // keys are trimmed by the service
				tags = append(tags, "lookup:padded-var-key")
			}
			if used[strings.TrimSpace(k)] {
				continue
			}
			used[strings.TrimSpace(k)] = true
			vars = append(vars, [2]string{k, randFrom(r, "ab <>&\"'{}1é", 0, 6)})
		}
	}
	if r.P(1, 12) {
		vars = append(vars, [2]string{rng.Pick(r, []string{"bad-key", "a.b", "", "x y", "é"}), "v"})
		tags = append(tags, "lookup:invalid-var-key")
	}
	if strings.Contains(content, "{{") {
		tags = append(tags, "lookup:templated")
	}
	return lookupCase(s, kinds, distinct, content, vars, tags)
}

func generate(tier string, r *rng.R) []fw.Case {
	nParse, nLookup, nSeq, nConc := 50000, 3000, 3000, 60
	if tier == "thorough" {
		nParse, nLookup, nSeq, nConc = 400000, 30000, 30000, 1200
	}
	cs := exhaustiveLookups()
	cs = append(cs, fixedSeqs()...)
	cs = append(cs, fixedConcs()...)
	for i := 0; i < nLookup; i++ {
		cs = append(cs, genLookupCase(r.Fork()))
	}
	for i := 0; i < nSeq; i++ {
		cs = append(cs, genSeqCase(r.Fork()))
	}
	for i := 0; i < nParse; i++ {
		cs = append(cs, genParseCase(r.Fork()))
	}
	// last, so that the streams of the older classes stay what they were for a given seed
	for i := 0; i < nConc; i++ {
		cs = append(cs, genConcCase(r.Fork()))
	}
	return cs
}

func nontrivial(input, obs string) bool {
	in, err := sx.Parse(input)
	if err != nil {
		return false
	}
	switch in.At(0).Str() {
	case "parse":
		// at least two '/' or one '=': the string could plausibly be a path or a parameter list
		s := in.At(1).Str()
		return strings.Count(s, "/") >= 2 || strings.Contains(s, "=")
	case "lookup":
		// a tree with at least four entries (candidates and distractors)
		return in.At(2).Len() >= 4
	case "seq":
		// a history with at least two processed requests
		return seqNontrivial(in)
	case "conc":
		return concNontrivial(in)
	}
	return false
}

func shrinkCands(input string) []string {
	in, err := sx.Parse(input)
	if err != nil {
		return nil
	}
	var out []string
	switch in.At(0).Str() {
	case "parse":
		rs := []rune(in.At(1).Str())
		for i := range rs {
			out = append(out, sx.L(sx.A("parse"), sx.A(string(rs[:i])+string(rs[i+1:]))).String())
		}
	case "lookup":
		ents := in.At(2)
		for i := range ents.List {
			n := sx.L()
			n.List = append(append([]*sx.Node{}, ents.List[:i]...), ents.List[i+1:]...)
			out = append(out, sx.L(sx.A("lookup"), in.At(1), n, in.At(3)).String())
		}
		vars := in.At(3)
		for i := range vars.List {
			n := sx.L()
			n.List = append(append([]*sx.Node{}, vars.List[:i]...), vars.List[i+1:]...)
			out = append(out, sx.L(sx.A("lookup"), in.At(1), ents, n).String())
		}
	case "seq":
		out = seqShrink(in)
	case "conc":
		out = concShrink(in)
	}
	return out
}

func init() {
	fw.Register(&fw.Property{
		ID:         "C20",
		Generate:   generate,
		RunImpl:    runImpl,
		Nontrivial: nontrivial,
		Rule: "lookup: 8 query shapes (distinct / role already 'any' / run type already ANY / all coincide / NULL run type / trailing-slash, " +
			"empty-segment and fallback-named entries) x EVERY assignment {absent,value,directory} of the distinct candidate entries (covers all 16 " +
			"existence patterns; exhaustive) x 2 contents, plus random shapes/contents/variables, each through a fresh local.Service over a generated " +
			"YAML file (real YamlSource wrapped in an Exists-recorder); seq: histories of 3-12 requests (GetAndProcess direct or after ResolveComponentQuery, " +
			"GetComponentConfiguration, InvalidateComponentTemplateCache, backend put/del) on ONE local.Service, over 1-4 fallback directories of one component " +
			"holding snippets and entries that include / extend each other (s0<s1<base<mid<entries, nested sub/ directory, full-path and unloadable " +
			"references), every request with an independent random subset of 6 variable names, queries repeated with other variables, 1 in 4 histories " +
			"with backend changes (half of them followed by an invalidation), plus 11 fixed histories; conc: 3-10 requests (ResolveComponentQuery alone / followed by " +
			"GetComponentConfiguration / followed by GetAndProcess, direct Get and GetAndProcess; the same request from several goroutines 1 time in 4) issued by one goroutine each on ONE " +
			"local.Service over ONE real file source whose file is never modified, released together by a barrier 4-10 times and issued 4 times back to back each time, over candidate trees " +
			"(each fallback candidate absent/value/directory, biased to present) and the include/extend directories of the seq class, every answer compared with the model's " +
			"schedule-free answer and with the answer of the request alone on a fresh service, plus, for the ordinary shape, all 16 existence patterns asked by 8 goroutines; parse: grammar-generated component/RUNTYPE/role/entry strings, entries " +
			"paths and parameter lists, 12 mutation operators, random soup, surrounding Unicode blanks, through NewQuery/NewEntriesQuery/" +
			"NewQueryParameters; non-trivial = lookup with >=4 tree entries, seq with >=2 processed requests, conc with >=2 requests and >=2 rounds, or parse string with >=2 '/' or a '='; distinct by input text",
		Shrink:     shrinkCands,
		Exhaustive: func(string) bool { return false },
		Workers:    1,
		TrustedBase: []string{
			"harness/props/c20 (YAML tree builder, Exists recorder, error-class mapping, barrier runner of the concurrent cases)",
			"Go regexp, strings.TrimSpace, net/url.ParseQuery, gopkg.in/yaml.v3, pongo2 lexer/parser (modelled: text, {{ name }}, {% include \"f\" %}, {% extends \"f\" %}, top-level {% block %})",
			"/repo/apricot/local/verif_hook_c20.go (build tag verif): constructor for a Service over a given cfgbackend.Source",
			"pongo2's process-wide autoescape switch, read at every Execute (what the linked service writes for a supplied value is tabulated on every run; the switch's only call site is a go/ast fact)",
		},
		Assumptions: []string{
			"lookup cases run a fresh Service per case; seq cases run a whole history on one Service (template cache modelled as path -> backend snapshot at compile time)",
			"conc cases: the configuration does not change while requests are in flight (model: every atomic probe reads the same tree; go/ast pins that YamlSource.refresh publishes only completely built trees); the unsynchronised pointer write/read of YamlSource.data yields one of the two complete trees (word-sized store; not promised by the Go memory model)",
			"include/extends chains are acyclic (the real loader recurses without a guard; cyclic inputs are refused by the harness)",
			"variable keys are distinct after strings.TrimSpace (otherwise Go map iteration order decides which value wins)",
			"strings are valid UTF-8",
		},
	})
	fw.RegisterGen(fw.GenFile{Name: "QueryTables.lean", Make: genTables})
}

// ---- tabulation --------------------------------------------------------------------

func leanChar(c rune) string {
	if (c >= 'a' && c <= 'z') || (c >= 'A' && c <= 'Z') || (c >= '0' && c <= '9') || strings.ContainsRune("-_/=&,.:^$()[]{}+*?|\" ", c) {
		return "'" + string(c) + "'"
	}
	return fmt.Sprintf("Char.ofNat %d", c)
}

func leanChars(s string) string {
	var parts []string
	for _, c := range s {
		parts = append(parts, leanChar(c))
	}
	return "[" + strings.Join(parts, ", ") + "]"
}

// ranges of all Unicode scalar values satisfying pred, merged.
func ranges(pred func(c rune) bool) string {
	var parts []string
	lo := rune(-1)
	prev := rune(-1)
	flush := func() {
		if lo >= 0 {
			parts = append(parts, fmt.Sprintf("(%d, %d)", lo, prev))
		}
	}
	for c := rune(0); c <= 0x10FFFF; c++ {
		if c >= 0xD800 && c <= 0xDFFF {
			continue
		}
		if pred(c) {
			if lo < 0 {
				lo = c
			} else if prev != c-1 {
				flush()
				lo = c
			}
			prev = c
		} else if lo >= 0 {
			flush()
			lo = -1
		}
	}
	flush()
	return "[" + strings.Join(parts, ", ") + "]"
}

// regexSources extracts the literal arguments of regexp.MustCompile in query.go by go/ast.
func regexSources(repo string) (map[string]string, error) {
	fset := token.NewFileSet()
	f, err := parser.ParseFile(fset, repo+"/configuration/componentcfg/query.go", nil, 0)
	if err != nil {
		return nil, err
	}
	out := map[string]string{}
	ast.Inspect(f, func(n ast.Node) bool {
		vs, ok := n.(*ast.ValueSpec)
		if !ok || len(vs.Names) != 1 || len(vs.Values) != 1 {
			return true
		}
		call, ok := vs.Values[0].(*ast.CallExpr)
		if !ok || len(call.Args) != 1 {
			return true
		}
		sel, ok := call.Fun.(*ast.SelectorExpr)
		if !ok || sel.Sel.Name != "MustCompile" {
			return true
		}
		lit, ok := call.Args[0].(*ast.BasicLit)
		if !ok {
			return true
		}
		s, err := strconv.Unquote(lit.Value)
		if err == nil {
			out[vs.Names[0].Name] = s
		}
		return true
	})
	return out, nil
}

// templateSetFacts: (selectors applied to the TemplateSet variable inside GetAndProcessComponentConfiguration, number of other
// references to it, functions of apricot/local mentioning the field templateSets).
func templateSetFacts(repo string) (uses []string, others int, users []string, err error) {
	fset := token.NewFileSet()
	pkgs, err := parser.ParseDir(fset, repo+"/apricot/local", func(fi os.FileInfo) bool { return !strings.HasSuffix(fi.Name(), "_test.go") }, 0)
	if err != nil {
		return nil, 0, nil, err
	}
	found := false
	userSet := map[string]bool{}
	for _, pkg := range pkgs {
		for _, f := range pkg.Files {
			for _, d := range f.Decls {
				fd, ok := d.(*ast.FuncDecl)
				if !ok || fd.Body == nil {
					continue
				}
				ast.Inspect(fd.Body, func(n ast.Node) bool {
					if se, ok := n.(*ast.SelectorExpr); ok && se.Sel.Name == "templateSets" {
						userSet[fd.Name.Name] = true
					}
					return true
				})
				if fd.Name.Name != "GetAndProcessComponentConfiguration" || fd.Recv == nil {
					continue
				}
				found = true
				// the variable: left-hand side of the assignment from templateSetForBasePath
				varName := ""
				ast.Inspect(fd.Body, func(n ast.Node) bool {
					as, ok := n.(*ast.AssignStmt)
					if !ok || len(as.Lhs) != 1 || len(as.Rhs) != 1 {
						return true
					}
					call, ok := as.Rhs[0].(*ast.CallExpr)
					if !ok {
						return true
					}
					if se, ok := call.Fun.(*ast.SelectorExpr); ok && se.Sel.Name == "templateSetForBasePath" {
						if id, ok := as.Lhs[0].(*ast.Ident); ok {
							varName = id.Name
						}
					}
					return true
				})
				if varName == "" {
					return nil, 0, nil, fmt.Errorf("GetAndProcessComponentConfiguration: no variable assigned from templateSetForBasePath")
				}
				selected := map[*ast.Ident]bool{}
				ast.Inspect(fd.Body, func(n ast.Node) bool {
					if se, ok := n.(*ast.SelectorExpr); ok {
						if id, ok := se.X.(*ast.Ident); ok && id.Name == varName {
							uses = append(uses, se.Sel.Name)
							selected[id] = true
						}
					}
					return true
				})
				total := 0
				ast.Inspect(fd.Body, func(n ast.Node) bool {
					if id, ok := n.(*ast.Ident); ok && id.Name == varName && !selected[id] {
						total++
					}
					return true
				})
				others = total - 1 // minus the defining occurrence
			}
		}
	}
	if !found {
		return nil, 0, nil, fmt.Errorf("method GetAndProcessComponentConfiguration not found in apricot/local")
	}
	for u := range userSet {
		users = append(users, u)
	}
	sort.Strings(users)
	return uses, others, users, nil
}

func genTables(repo string) (string, error) {
	var b strings.Builder
	b.WriteString("namespace Gen.C20\n\n")

	// 1. regular expression sources (go/ast)
	srcs, err := regexSources(repo)
	if err != nil {
		return "", err
	}
	for _, name := range []string{"inputFullRegex", "inputEntriesRegex", "inputParametersRegex"} {
		s, ok := srcs[name]
		if !ok {
			return "", fmt.Errorf("regexp %s not found in query.go", name)
		}
		fmt.Fprintf(&b, "/-- literal argument of regexp.MustCompile for `%s` (go/ast). -/\ndef %sSrc : List Char := %s\n\n", name, name, leanChars(s))
	}

	// 2. character classes by evaluating the linked recognisers on every Unicode scalar value at each position
	v := componentcfg.IsStringValidQueryPath
	e := componentcfg.IsStringValidEntriesQueryPath
	p := componentcfg.IsStringValidQueryParameters
	classes := []struct {
		name, doc string
		pred      func(c rune) bool
	}{
		{"fullComponentClass", "c such that IsStringValidQueryPath(c + \"/A/a/a\")", func(c rune) bool { return v(string(c) + "/A/a/a") }},
		{"fullRunTypeClass", "c such that IsStringValidQueryPath(\"a/\" + c + \"/a/a\")", func(c rune) bool { return v("a/" + string(c) + "/a/a") }},
		{"fullRoleClass", "c such that IsStringValidQueryPath(\"a/A/\" + c + \"/a\")", func(c rune) bool { return v("a/A/" + string(c) + "/a") }},
		{"fullEntryClass", "c such that IsStringValidQueryPath(\"a/A/a/a\" + c)", func(c rune) bool { return v("a/A/a/a" + string(c)) }},
		{"entriesComponentClass", "c such that IsStringValidEntriesQueryPath(c + \"/A/a\")", func(c rune) bool { return e(string(c) + "/A/a") }},
		{"entriesRunTypeClass", "…(\"a/\" + c + \"/a\")", func(c rune) bool { return e("a/" + string(c) + "/a") }},
		{"entriesRoleClass", "…(\"a/A/\" + c)", func(c rune) bool { return e("a/A/" + string(c)) }},
		{"paramKeyClass", "c such that IsStringValidQueryParameters(c + \"=a\")", func(c rune) bool { return p(string(c) + "=a") }},
		{"paramValueClass", "c such that IsStringValidQueryParameters(\"a=\" + c)", func(c rune) bool { return p("a=" + string(c)) }},
		{"paramKey2Class", "c such that IsStringValidQueryParameters(\"a=a&\" + c + \"=a\")", func(c rune) bool { return p("a=a&" + string(c) + "=a") }},
		{"paramValue2Class", "c such that IsStringValidQueryParameters(\"a=a&a=\" + c)", func(c rune) bool { return p("a=a&a=" + string(c)) }},
		{"spaceClass", "c trimmed by NewQuery: NewQuery(c + \"a/ANY/a/a\") succeeds although the regexp rejects the untrimmed string", func(c rune) bool {
			s := string(c) + "a/ANY/a/a"
			_, err := componentcfg.NewQuery(s)
			return err == nil && !v(s)
		}},
	}
	for _, c := range classes {
		fmt.Fprintf(&b, "/-- %s — all Unicode scalar values, as merged inclusive ranges. -/\ndef %s : List (Nat × Nat) := %s\n\n", c.doc, c.name, ranges(c.pred))
	}

	// 3. run types and constants
	b.WriteString("/-- apricotpb.RunType_name, sorted by number. -/\ndef runTypeName : List (Nat × List Char) := [\n")
	for i, n := range runTypeNums {
		sep := ","
		if i == len(runTypeNums)-1 {
			sep = ""
		}
		fmt.Fprintf(&b, "  (%d, %s)%s\n", n, leanChars(apricotpb.RunType_name[int32(n)]), sep)
	}
	b.WriteString("]\n\n/-- apricotpb.RunType_value, sorted by number then name. -/\ndef runTypeValue : List (List Char × Nat) := [\n")
	type nv struct {
		n string
		v int
	}
	var nvs []nv
	for n, val := range apricotpb.RunType_value {
		nvs = append(nvs, nv{n, int(val)})
	}
	sort.Slice(nvs, func(i, j int) bool {
		if nvs[i].v != nvs[j].v {
			return nvs[i].v < nvs[j].v
		}
		return nvs[i].n < nvs[j].n
	})
	for i, x := range nvs {
		sep := ","
		if i == len(nvs)-1 {
			sep = ""
		}
		fmt.Fprintf(&b, "  (%s, %d)%s\n", leanChars(x.n), x.v, sep)
	}
	b.WriteString("]\n\n")
	fmt.Fprintf(&b, "def fallbackRunType : Nat := %d\n", int(componentcfg.FALLBACK_RUNTYPE))
	fmt.Fprintf(&b, "def fallbackRoleName : List Char := %s\n", leanChars(componentcfg.FALLBACK_ROLENAME))
	fmt.Fprintf(&b, "def configComponentsPath : List Char := %s\n", leanChars(componentcfg.ConfigComponentsPath))
	fmt.Fprintf(&b, "def separator : List Char := %s\n\n", leanChars(componentcfg.SEPARATOR))

	// 4. the fallback: probes and result of the linked resolveComponentQuery for all 16 existence patterns
	q := &componentcfg.Query{Component: "cmp", RunType: apricotpb.RunType_PHYSICS, RoleName: "role1", EntryKey: "ent"}
	cands := []string{
		"o2/components/cmp/PHYSICS/role1/ent", "o2/components/cmp/ANY/role1/ent",
		"o2/components/cmp/PHYSICS/any/ent", "o2/components/cmp/ANY/any/ent",
	}
	idx := func(key string) int {
		for i, c := range cands {
			if c == key {
				return i
			}
		}
		return 99
	}
	b.WriteString("/-- For each existence pattern (bit i = candidate i exists; candidates numbered 0 exact, 1 ANY/role, 2 runtype/any,\n    3 ANY/any): the sequence of candidates the linked resolveComponentQuery probed with Exists, and the candidate it\n    returned (none = error). Recorded by running local.Service.ResolveComponentQuery on a recording backend. -/\ndef resolveTable : List (List Nat × Option Nat) := [\n")
	for pat := 0; pat < 16; pat++ {
		rec := &recorder{answer: func(key string) bool {
			i := idx(key)
			return i < 4 && pat&(1<<i) != 0
		}}
		svc := local.VerifC20NewServiceWithSource(rec)
		res, err := svc.ResolveComponentQuery(q)
		var ps []string
		for _, k := range rec.probes {
			ps = append(ps, strconv.Itoa(idx(k)))
		}
		r := "none"
		if err == nil {
			r = fmt.Sprintf("some %d", idx(res.AbsoluteRaw()))
		}
		sep := ","
		if pat == 15 {
			sep = ""
		}
		fmt.Fprintf(&b, "  ([%s], %s)%s\n", strings.Join(ps, ", "), r, sep)
	}
	b.WriteString("]\n\n")

	// 4b. cross-request state of the processing path (go/ast over apricot/local): what GetAndProcessComponentConfiguration
	// does with the per-base-path template set it obtains, and which functions touch the map of template sets
	uses, others, users, err := templateSetFacts(repo)
	if err != nil {
		return "", err
	}
	strList := func(xs []string) string {
		var ps []string
		for _, x := range xs {
			ps = append(ps, leanChars(x))
		}
		return "[" + strings.Join(ps, ", ") + "]"
	}
	fmt.Fprintf(&b, "/-- selectors applied to the variable holding the cached *pongo2.TemplateSet in GetAndProcessComponentConfiguration, in\n    source order (go/ast). -/\ndef tplSetUses : List (List Char) := %s\n\n", strList(uses))
	fmt.Fprintf(&b, "/-- other references to that variable (passed on, assigned, …) besides its definition and the selectors above. -/\ndef tplSetOtherRefs : Nat := %d\n\n", others)
	fmt.Fprintf(&b, "/-- functions of package apricot/local (non-test files) that mention the field `templateSets`, sorted. -/\ndef templateSetsUsers : List (List Char) := %s\n\n", strList(users))

	// 5. names bound by the service besides the supplied variables
	var fn []string
	for k := range template.MakeUtilFuncMap(map[string]string{}) {
		fn = append(fn, k)
	}
	sort.Strings(fn)
	b.WriteString("/-- keys of template.MakeUtilFuncMap: bound in every template execution on top of the supplied variables. -/\ndef utilFuncNames : List (List Char) := [\n")
	for i, k := range fn {
		sep := ","
		if i == len(fn)-1 {
			sep = ""
		}
		fmt.Fprintf(&b, "  %s%s\n", leanChars(k), sep)
	}
	b.WriteString("]\n\n")

	// 6. what the concurrent-lookup model assumes about the file backend (go/ast over yamlsource.go)
	facts, err := genConcFacts(repo)
	if err != nil {
		return "", err
	}
	b.WriteString(facts)

	// 7. the substitution clause: what the linked service writes for a supplied value, and who touches pongo2's switch
	sfacts, err := genSubstFacts(repo)
	if err != nil {
		return "", err
	}
	b.WriteString(sfacts)
	b.WriteString("end Gen.C20\n")
	return b.String(), nil
}
