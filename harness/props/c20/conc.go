// Concurrent lookups on ONE local.Service over an UNCHANGED configuration.
//
//	(conc ((key kind content)...) (req...) rounds)
//	    req := (res   (comp rtNum role entry))             ResolveComponentQuery(query)
//	         | (get   (comp rtNum role entry))             GetComponentConfiguration(query)
//	         | (rget  (comp rtNum role entry))             ResolveComponentQuery(query), then GetComponentConfiguration(resolved)
//	         | (proc  (comp rtNum role entry) ((k v)...))  GetAndProcessComponentConfiguration(query, vars)
//	         | (rproc (comp rtNum role entry) ((k v)...))  ResolveComponentQuery(query), then GetAndProcess…(resolved, vars)
//
//	One goroutine per request (the list is a multiset: the same request may occur several times). All goroutines share
//	ONE local.Service over ONE real cfgbackend file source; the file is written once and never touched again. `rounds`
//	times a barrier releases all goroutines together and each issues its request concBurst times back to back; every
//	answer is recorded. Before that, every request is issued ALONE on a fresh service over a fresh source.
//
//	obs: one item per request, in order:  (A (A'...))
//	    A    the answer of the request issued alone
//	    A'…  the DISTINCT answers the request received while the others were running, sorted
//	    A := (r R -) for res | G for get | (r R G) for rget | P for proc | (r R P) for rproc      (R, G, P as in seq.go)
//
//	The model knows no schedule: its answer to a request is a function of (tree, request) — Props/C20.lean proves that
//	this is what every interleaving of the requests' atomic steps yields — so it prints (A (A)) per request, and any
//	second answer, or a first one that differs, is a disagreement. `rounds` only says how hard the harness tries; the
//	model ignores it. Nothing here is timed: a verdict never depends on a deadline.
package c20

import (
	"fmt"
	"go/ast"
	"go/parser"
	"go/token"
	"os"
	"path/filepath"
	"sort"
	"strings"
	"sync"
	"sync/atomic"

	"github.com/AliceO2Group/Control/apricot/local"
	"github.com/AliceO2Group/Control/configuration/cfgbackend"
	"github.com/AliceO2Group/Control/configuration/componentcfg"

	"verifharness/fw"
	"verifharness/rng"
	"verifharness/sx"
)

// concBurst: requests each goroutine issues back to back between two barriers.
const concBurst = 4

// maxConcRounds bounds the work a (hand-written or shrunk) input can ask for.
const maxConcRounds = 2000

func resolvedObs(resolved *componentcfg.Query, rerr error) *sx.Node {
	if rerr != nil {
		c := errClass(rerr)
		if c != "unresolved" {
			c = "other"
		}
		return sx.L(sx.A("err"), sx.A(c))
	}
	return sx.L(sx.A("ok"), sx.A(resolved.Component), sx.I(int(resolved.RunType)),
		sx.A(resolved.RoleName), sx.A(resolved.EntryKey), sx.A(resolved.Raw()))
}

func payObs(p string, e error) *sx.Node {
	if e != nil {
		return sx.L(sx.A("err"), sx.A(errClass(e)))
	}
	return sx.L(sx.A("ok"), sx.A(p))
}

// concAnswer issues one request on svc and returns its canonical answer.
func concAnswer(svc *local.Service, rq *sx.Node) (*sx.Node, error) {
	q := queryOf(rq.At(1))
	switch rq.At(0).Str() {
	case "res":
		r, e := svc.ResolveComponentQuery(q)
		return sx.L(sx.A("r"), resolvedObs(r, e), sx.A("-")), nil
	case "get":
		return payObs(svc.GetComponentConfiguration(q)), nil
	case "rget":
		r, e := svc.ResolveComponentQuery(q)
		if e != nil {
			return sx.L(sx.A("r"), resolvedObs(r, e), sx.A("-")), nil
		}
		return sx.L(sx.A("r"), resolvedObs(r, nil), payObs(svc.GetComponentConfiguration(r))), nil
	case "proc":
		return payObs(svc.GetAndProcessComponentConfiguration(q, varsOf(rq.At(2)))), nil
	case "rproc":
		r, e := svc.ResolveComponentQuery(q)
		if e != nil {
			return sx.L(sx.A("r"), resolvedObs(r, e), sx.A("-")), nil
		}
		return sx.L(sx.A("r"), resolvedObs(r, nil), payObs(svc.GetAndProcessComponentConfiguration(r, varsOf(rq.At(2))))), nil
	}
	return nil, fmt.Errorf("unknown request %q", rq.At(0).Str())
}

// concGuard refuses inputs whose processed entries sit on a cyclic include/extends chain (the real loader has no guard).
func concGuard(t *seqTree, rq *sx.Node) error {
	k := rq.At(0).Str()
	if k != "proc" && k != "rproc" {
		return nil
	}
	q := queryOf(rq.At(1))
	cands := []*componentcfg.Query{q}
	if k == "rproc" {
		cands = append(cands, q.WithFallbackRunType(), q.WithFallbackRoleName(), q.WithFallbackRoleName().WithFallbackRunType())
	}
	for _, c := range cands {
		path := c.Path()
		base := ""
		if i := strings.LastIndex(path, "/"); i >= 0 {
			base = path[:i]
		}
		if err := t.acyclicFrom(base, path, 0); err != nil {
			return err
		}
	}
	return nil
}

func runConc(in *sx.Node) (string, error) {
	t := newSeqTree(in.At(1))
	reqs := in.At(2).List
	rounds := in.At(3).Int()
	if rounds < 1 || rounds > maxConcRounds {
		return "", fmt.Errorf("conc: rounds %d outside 1..%d", rounds, maxConcRounds)
	}
	if len(reqs) == 0 || len(reqs) > 64 {
		return "", fmt.Errorf("conc: %d requests (1..64 goroutines supported)", len(reqs))
	}
	for _, rq := range reqs {
		if err := concGuard(t, rq); err != nil {
			return "", err
		}
	}
	if err := os.MkdirAll(workDir, 0o755); err != nil {
		return "", err
	}
	fn := filepath.Join(workDir, fmt.Sprintf("c20-conc-%d-%d.yaml", os.Getpid(), atomic.AddUint64(&fileCtr, 1)))
	if err := t.write(fn); err != nil {
		return "", err
	}
	defer os.Remove(fn)

	// 1. every request alone: a fresh service over a fresh source
	alone := make([]*sx.Node, len(reqs))
	for i, rq := range reqs {
		src, err := cfgbackend.NewSource("file://" + fn)
		if err != nil {
			return "", fmt.Errorf("NewSource: %v", err)
		}
		a, err := concAnswer(local.VerifC20NewServiceWithSource(src), rq)
		if err != nil {
			return "", err
		}
		alone[i] = a
	}

	// 2. all requests together, on one service over one source
	src, err := cfgbackend.NewSource("file://" + fn)
	if err != nil {
		return "", fmt.Errorf("NewSource: %v", err)
	}
	svc := local.VerifC20NewServiceWithSource(src)
	seen := make([]map[string]bool, len(reqs))
	errs := make([]error, len(reqs))
	panics := make([]string, len(reqs))
	gates := make([]chan struct{}, rounds)
	for r := range gates {
		gates[r] = make(chan struct{})
	}
	ready := make(chan struct{}, len(reqs))
	var done sync.WaitGroup
	for i := range reqs {
		seen[i] = map[string]bool{}
		done.Add(1)
		go func(i int) {
			defer done.Done()
			stopped := false
			for r := 0; r < rounds; r++ {
				ready <- struct{}{} // standing at the barrier of round r
				<-gates[r]
				if stopped {
					continue // keep the barrier protocol going for the others
				}
				func() {
					defer func() {
						if p := recover(); p != nil {
							panics[i] = fmt.Sprint(p)
							stopped = true
						}
					}()
					for b := 0; b < concBurst; b++ {
						a, err := concAnswer(svc, reqs[i])
						if err != nil {
							errs[i] = err
							stopped = true
							return
						}
						seen[i][a.String()] = true
					}
				}()
			}
		}(i)
	}
	for r := 0; r < rounds; r++ {
		for range reqs {
			<-ready // every goroutine stands at the barrier (it finished round r-1) …
		}
		close(gates[r]) // … and all are released together
	}
	done.Wait()
	for i := range reqs {
		if errs[i] != nil {
			return "", errs[i]
		}
		if panics[i] != "" {
			panic(panics[i]) // becomes the observation (panic "...") in the framework
		}
	}
	obs := sx.L()
	for i := range reqs {
		var as []string
		for a := range seen[i] {
			as = append(as, a)
		}
		sort.Strings(as)
		l := sx.L()
		for _, a := range as {
			n, err := sx.Parse(a)
			if err != nil {
				return "", err
			}
			l.Add(n)
		}
		obs.Add(sx.L(alone[i], l))
	}
	return obs.String(), nil
}

// ---- generator ------------------------------------------------------------------------

var concKinds = []string{"res", "rget", "rget", "get", "rproc", "rproc", "proc"}

func concReq(kind string, q, vars *sx.Node) *sx.Node {
	if kind == "proc" || kind == "rproc" {
		return sx.L(sx.A(kind), q, vars)
	}
	return sx.L(sx.A(kind), q)
}

func concRounds(r *rng.R) int { return rng.Pick(r, []int{4, 6, 8, 10}) }

// candTree: a tree built around the four fallback candidates of one query (each absent / a value / a directory, biased
// towards present so that a lost probe changes the answer), plus the distractors of the lookup cases.
func genConcCandCase(r *rng.R) fw.Case {
	s := shape{rng.Pick(r, []string{"qc", "readout", "dpl_x", "tpc-raw", "Comp9"}), rng.Pick(r, runTypeNums),
		rng.Pick(r, []string{"flp001", "epn-12", "role1", "any", "alio2-cr1-flp146"}), rng.Pick(r, []string{"e", "entry1", "tpc-raw", "sub/entry12", "a/b/c", "any"})}
	cp := candPaths(s)
	var distinct []string
	for _, p := range cp {
		seen := false
		for _, d := range distinct {
			if d == p {
				seen = true
			}
		}
		if !seen {
			distinct = append(distinct, p)
		}
	}
	kinds := make([]int, len(distinct))
	for i := range kinds {
		kinds[i] = rng.Pick(r, []int{0, 0, 1, 1, 1, 1, 1, 1, 1, 2})
	}
	names := []string{"a", "b1", "_x", "host", "mode", "who"}
	content := "plain payload"
	tags := map[string]bool{"conc:cand-tree": true}
	if r.P(1, 2) {
		content = genContent(r, names)
		tags["conc:templated"] = true
	}
	lc, err := sx.Parse(lookupCase(s, kinds, distinct, content, nil, nil).Input)
	if err != nil {
		panic(err)
	}
	ents := lc.At(2)
	// 1 case in 3 supplies values with the characters an HTML-escaping template engine would rewrite
	alpha := "ab 1é{}%=,"
	escapeProne := r.P(1, 3)
	if escapeProne {
		alpha = "ab <>&\"'1"
		tags["conc:escape-prone-values"] = true
	}
	vars := func() *sx.Node {
		vs := sx.L()
		for _, n := range names {
			if r.P(1, 2) {
				vs.Add(sx.L(sx.A(n), sx.A(randFrom(r, alpha, 0, 5))))
			}
		}
		return vs
	}
	query := func() *sx.Node {
		rt, role, entry := s.rt, s.role, s.entry
		switch r.N(10) {
		case 0:
			rt = 300
		case 1:
			role = "any"
		case 2:
			role = "zz-other" // only the role-independent candidates can answer
		case 3:
			rt = rng.Pick(r, runTypeNums)
		case 4:
			entry = rng.Pick(r, []string{"nothere", "zz-distract"})
		}
		return sx.L(sx.A(s.comp), sx.I(rt), sx.A(role), sx.A(entry))
	}
	reqs := sx.L()
	n := r.Range(3, 10)
	for i := 0; i < n; i++ {
		if i > 0 && r.P(1, 4) {
			reqs.Add(rng.Pick(r, reqs.List)) // the same request from a second goroutine
			tags["conc:dup-request"] = true
			continue
		}
		k := rng.Pick(r, concKinds)
		tags["conc:"+k] = true
		reqs.Add(concReq(k, query(), vars()))
	}
	return concCase(ents, reqs, concRounds(r), tags, "conc:random")
}

// kitTree: the directories of snippets and entries that include / extend each other (seq.go), asked concurrently; the
// template sets of the service are shared by the goroutines.
func genConcKitCase(r *rng.R) fw.Case {
	g := &seqGen{r: r, comp: rng.Pick(r, []string{"qc", "readout", "dpl_x", "tpc-raw"}), rt: rng.Pick(r, runTypeNums),
		role: rng.Pick(r, []string{"flp001", "epn-12", "any", "role1"}), present: map[string][]string{}, ents: sx.L(), tags: map[string]bool{}}
	g.populate()
	tags := map[string]bool{"conc:kit-tree": true}
	escapeProne := r.P(1, 3)
	if escapeProne {
		tags["conc:escape-prone-values"] = true
	}
	reqs := sx.L()
	n := r.Range(3, 10)
	for i := 0; i < n; i++ {
		if i > 0 && r.P(1, 4) {
			reqs.Add(rng.Pick(r, reqs.List))
			tags["conc:dup-request"] = true
			continue
		}
		k := rng.Pick(r, concKinds)
		tags["conc:"+k] = true
		reqs.Add(concReq(k, g.query(), g.vars(escapeProne)))
	}
	return concCase(g.ents, reqs, concRounds(r), tags, "conc:random")
}

func concCase(ents, reqs *sx.Node, rounds int, tags map[string]bool, origin string) fw.Case {
	ts := []string{"conc", origin}
	for t := range tags {
		ts = append(ts, t)
	}
	switch n := reqs.Len(); {
	case n <= 4:
		ts = append(ts, "conc:goroutines<=4")
	case n <= 8:
		ts = append(ts, "conc:goroutines<=8")
	default:
		ts = append(ts, "conc:goroutines>8")
	}
	sortStrings(ts[2:])
	return fw.Case{Input: sx.L(sx.A("conc"), ents, reqs, sx.I(rounds)).String(), Tags: ts}
}

func genConcCase(r *rng.R) fw.Case {
	if r.P(3, 5) {
		return genConcCandCase(r)
	}
	return genConcKitCase(r)
}

// fixedConcs: independent of the seed. For the ordinary query shape, EVERY existence pattern of the four candidates,
// each asked by eight goroutines at once (the exact query and three variants, resolution alone / with the raw payload /
// with the processed payload, and direct reads); plus the two-level tree of the repository's own configuration style.
func fixedConcs() []fw.Case {
	s := shapes[0]
	cp := candPaths(s)
	q := func(rt int, role, entry string) *sx.Node {
		return sx.L(sx.A(s.comp), sx.I(rt), sx.A(role), sx.A(entry))
	}
	vs := sx.L(sx.L(sx.A("host"), sx.A("flp001")), sx.L(sx.A("n"), sx.A("42")))
	var cs []fw.Case
	for pat := 0; pat < 16; pat++ {
		kinds := make([]int, 4)
		for i := range kinds {
			if pat&(1<<i) != 0 {
				kinds[i] = 1
			}
		}
		lc, err := sx.Parse(lookupCase(s, kinds, cp[:], "host={{ host }} n={{n}}", nil, nil).Input)
		if err != nil {
			panic(err)
		}
		reqs := sx.L(
			concReq("rget", q(s.rt, s.role, s.entry), nil),
			concReq("res", q(s.rt, s.role, s.entry), nil),
			concReq("rproc", q(s.rt, s.role, s.entry), vs),
			concReq("rget", q(s.rt, "zz-other", s.entry), nil),
			concReq("res", q(300, s.role, s.entry), nil),
			concReq("get", q(s.rt, s.role, s.entry), nil),
			concReq("get", q(300, "any", s.entry), nil),
			concReq("proc", q(300, "any", s.entry), vs),
		)
		cs = append(cs, concCase(lc.At(2), reqs, 5, map[string]bool{fmt.Sprintf("conc:fixed:pattern=%04b", pat): true}, "conc:fixed"))
	}
	return cs
}

func concNontrivial(in *sx.Node) bool {
	// at least two requests in flight, released together more than once
	return in.At(2).Len() >= 2 && in.At(3).Int() >= 2
}

func concShrink(in *sx.Node) []string {
	var out []string
	ents, reqs, rounds := in.At(1), in.At(2), in.At(3)
	without := func(n *sx.Node, i int) *sx.Node {
		m := sx.L()
		m.List = append(append([]*sx.Node{}, n.List[:i]...), n.List[i+1:]...)
		return m
	}
	// never fewer than two requests (one alone cannot race), never fewer rounds (the failure is a matter of chance)
	if reqs.Len() > 2 {
		for i := range reqs.List {
			out = append(out, sx.L(sx.A("conc"), ents, without(reqs, i), rounds).String())
		}
	}
	for i := range ents.List {
		out = append(out, sx.L(sx.A("conc"), without(ents, i), reqs, rounds).String())
	}
	for i, rq := range reqs.List {
		if k := rq.At(0).Str(); (k == "proc" || k == "rproc") && rq.At(2).Len() > 0 {
			m := sx.L()
			m.List = append([]*sx.Node{}, reqs.List...)
			m.List[i] = sx.L(rq.At(0), rq.At(1), sx.L())
			out = append(out, sx.L(sx.A("conc"), ents, m, rounds).String())
		}
	}
	return out
}

// ---- go/ast facts about the backend the model's "immutable tree" stands for -----------

// refreshFacts reads configuration/cfgbackend/yamlsource.go:
//
//	writes: every assignment to the receiver's field `data` inside (*YamlSource).refresh, in source order, as
//	        (the assigned value is nil, the statement sits in a block that ends in `return` — an error exit —,
//	         the statement comes after the call of intfToItem, i.e. after the file was read, parsed and converted)
//	elemWrites: statements in refresh / Exists / Get / GetRecursive / IsDir / GetKeysByPrefix that change an element of a map or slice
//	        (m[k] = v, m[k]++, delete(m, k)): the lookup path never modifies a tree it has published.
func refreshFacts(repo string) (writes [][3]bool, elemWrites int, err error) {
	fset := token.NewFileSet()
	f, err := parser.ParseFile(fset, repo+"/configuration/cfgbackend/yamlsource.go", nil, 0)
	if err != nil {
		return nil, 0, err
	}
	readPath := map[string]bool{"refresh": true, "Exists": true, "Get": true, "GetRecursive": true, "IsDir": true, "GetKeysByPrefix": true}
	foundRefresh := false
	for _, d := range f.Decls {
		fd, ok := d.(*ast.FuncDecl)
		if !ok || fd.Body == nil || fd.Recv == nil || len(fd.Recv.List) != 1 || !readPath[fd.Name.Name] {
			continue
		}
		star, ok := fd.Recv.List[0].Type.(*ast.StarExpr)
		if !ok {
			continue
		}
		if id, ok := star.X.(*ast.Ident); !ok || id.Name != "YamlSource" {
			continue
		}
		ast.Inspect(fd.Body, func(n ast.Node) bool {
			switch x := n.(type) {
			case *ast.AssignStmt:
				for _, l := range x.Lhs {
					if _, ok := l.(*ast.IndexExpr); ok {
						elemWrites++
					}
				}
			case *ast.IncDecStmt:
				if _, ok := x.X.(*ast.IndexExpr); ok {
					elemWrites++
				}
			case *ast.CallExpr:
				if id, ok := x.Fun.(*ast.Ident); ok && id.Name == "delete" {
					elemWrites++
				}
			}
			return true
		})
		if fd.Name.Name != "refresh" {
			continue
		}
		foundRefresh = true
		recv := ""
		if len(fd.Recv.List[0].Names) == 1 {
			recv = fd.Recv.List[0].Names[0].Name
		}
		converted := token.NoPos
		ast.Inspect(fd.Body, func(n ast.Node) bool {
			if c, ok := n.(*ast.CallExpr); ok {
				if id, ok := c.Fun.(*ast.Ident); ok && id.Name == "intfToItem" && converted == token.NoPos {
					converted = c.End()
				}
			}
			return true
		})
		var walk func(stmts []ast.Stmt, errorExit bool)
		visitBlock := func(b *ast.BlockStmt, outer bool) {
			if b == nil {
				return
			}
			exit := outer
			if len(b.List) > 0 {
				if _, ok := b.List[len(b.List)-1].(*ast.ReturnStmt); ok {
					exit = true
				}
			}
			walk(b.List, exit)
		}
		walk = func(stmts []ast.Stmt, errorExit bool) {
			for _, st := range stmts {
				switch x := st.(type) {
				case *ast.AssignStmt:
					for i, l := range x.Lhs {
						se, ok := l.(*ast.SelectorExpr)
						if !ok || se.Sel.Name != "data" {
							continue
						}
						if id, ok := se.X.(*ast.Ident); !ok || id.Name != recv {
							continue
						}
						isNil := false
						if len(x.Rhs) == len(x.Lhs) {
							if id, ok := x.Rhs[i].(*ast.Ident); ok && id.Name == "nil" {
								isNil = true
							}
						}
						writes = append(writes, [3]bool{isNil, errorExit, converted != token.NoPos && x.Pos() > converted})
					}
				case *ast.IfStmt:
					for cur := x; cur != nil; {
						visitBlock(cur.Body, errorExit)
						switch e := cur.Else.(type) {
						case *ast.IfStmt:
							cur = e
						case *ast.BlockStmt:
							visitBlock(e, errorExit)
							cur = nil
						default:
							cur = nil
						}
					}
				case *ast.BlockStmt:
					visitBlock(x, errorExit)
				case *ast.ForStmt:
					visitBlock(x.Body, errorExit)
				case *ast.RangeStmt:
					visitBlock(x.Body, errorExit)
				case *ast.SwitchStmt:
					for _, c := range x.Body.List {
						if cc, ok := c.(*ast.CaseClause); ok {
							walk(cc.Body, errorExit)
						}
					}
				case *ast.DeferStmt, *ast.GoStmt:
					// a write hidden in a closure: report it as an unconditional early nil-write so that the tie breaks
					ast.Inspect(x, func(n ast.Node) bool {
						if se, ok := n.(*ast.SelectorExpr); ok && se.Sel.Name == "data" {
							writes = append(writes, [3]bool{true, false, false})
						}
						return true
					})
				}
			}
		}
		// the function body itself is not an error exit, although it ends in `return`
		walk(fd.Body.List, false)
	}
	if !foundRefresh {
		return nil, 0, fmt.Errorf("method (*YamlSource).refresh not found in yamlsource.go")
	}
	return writes, elemWrites, nil
}

func genConcFacts(repo string) (string, error) {
	writes, elem, err := refreshFacts(repo)
	if err != nil {
		return "", err
	}
	var b strings.Builder
	var ws []string
	for _, w := range writes {
		ws = append(ws, fmt.Sprintf("(%v, %v, %v)", w[0], w[1], w[2]))
	}
	fmt.Fprintf(&b, "/-- every assignment to `yc.data` in (*YamlSource).refresh, in source order (go/ast): (the value is nil, the statement\n    sits in a block ending in `return`, it comes after the call of intfToItem). -/\ndef refreshDataWrites : List (Bool × Bool × Bool) := [%s]\n\n", strings.Join(ws, ", "))
	fmt.Fprintf(&b, "/-- statements changing a map/slice element in refresh, Exists, Get, GetRecursive, IsDir, GetKeysByPrefix of YamlSource (go/ast). -/\ndef readPathElemWrites : Nat := %d\n\n", elem)
	return b.String(), nil
}
