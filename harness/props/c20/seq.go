// Sequences of requests on ONE local.Service (the per-base-path pongo2 template sets live in the service across
// requests), over a YAML backend that may change between requests.
//
//	(seq ((key kind content)...) (op...))
//	    op := (proc  (comp rtNum role entry) ((k v)...))   GetAndProcessComponentConfiguration(query, vars)
//	        | (rproc (comp rtNum role entry) ((k v)...))   ResolveComponentQuery(query), then GetAndProcess…(resolved, vars)
//	        | (get   (comp rtNum role entry))              GetComponentConfiguration(query)
//	        | (inval)                                      InvalidateComponentTemplateCache()
//	        | (put key content)                            the backend changes: key now holds the value `content`
//	        | (del key)                                    the backend changes: key is gone
//	    obs: one item per op, in order:
//	      proc, get   (ok "payload") | (err class)
//	      rproc       (r R P)   R := (ok comp rtNum role entry raw) | (err unresolved) | (err other);  P as for proc, - when unresolved
//	      inval, put, del   -
//
// Contents are written in the template fragment  text | {{ name }} | {% include "f" %} | {% extends "f" %} |
// {% block b %} … {% endblock [b] %}  (blocks at top level only, bodies without blocks).
package c20

import (
	"fmt"
	"os"
	"path/filepath"
	"regexp"
	"strings"
	"sync/atomic"

	"github.com/AliceO2Group/Control/apricot/local"
	apricotpb "github.com/AliceO2Group/Control/apricot/protos"
	"github.com/AliceO2Group/Control/configuration/cfgbackend"
	"github.com/AliceO2Group/Control/configuration/componentcfg"

	"verifharness/fw"
	"verifharness/rng"
	"verifharness/sx"
)

// ---- running a sequence on the real code ---------------------------------------------

type seqTree struct {
	keys []string // insertion order
	ent  map[string]*sx.Node
}

func newSeqTree(entries *sx.Node) *seqTree {
	t := &seqTree{ent: map[string]*sx.Node{}}
	for _, e := range entries.List {
		t.set(e.At(0).Str(), e)
	}
	return t
}

func (t *seqTree) set(key string, e *sx.Node) {
	if _, ok := t.ent[key]; !ok {
		t.keys = append(t.keys, key)
	}
	t.ent[key] = e
}

func (t *seqTree) del(key string) {
	if _, ok := t.ent[key]; !ok {
		return
	}
	delete(t.ent, key)
	for i, k := range t.keys {
		if k == key {
			t.keys = append(t.keys[:i:i], t.keys[i+1:]...)
			break
		}
	}
}

func (t *seqTree) node() *sx.Node {
	n := sx.L()
	for _, k := range t.keys {
		n.Add(t.ent[k])
	}
	return n
}

func (t *seqTree) write(fn string) error {
	data, err := buildYaml(t.node())
	if err != nil {
		return err
	}
	return os.WriteFile(fn, data, 0o644)
}

var refRe = regexp.MustCompile(`\{%[ \t\r]*(?:include|extends)[ \t\r]*"([^"]*)"`)

// refusesCycle: the real loader recurses without any guard, so a cyclic include/extends chain overflows the stack of the
// whole process. The generator never builds one; a hand-written or shrunk input that does is refused (err ⇒ inconclusive).
func (t *seqTree) acyclicFrom(base, path string, depth int) error {
	if depth > 16 {
		return fmt.Errorf("include/extends chain from %q deeper than 16 (cyclic?): refused, the real loader would overflow the stack", path)
	}
	e, ok := t.ent["o2/components/"+strings.Trim(strings.TrimSpace(path), "/")]
	if !ok || e.At(1).Str() != "val" {
		return nil
	}
	for _, m := range refRe.FindAllStringSubmatch(e.At(2).Str(), -1) {
		name := m[1]
		switch {
		case strings.HasPrefix(name, "/"), strings.HasPrefix(name, base), base == "":
		default:
			name = base + "/" + name
		}
		if err := t.acyclicFrom(base, name, depth+1); err != nil {
			return err
		}
	}
	return nil
}

func queryOf(qn *sx.Node) *componentcfg.Query {
	return &componentcfg.Query{Component: qn.At(0).Str(), RunType: apricotpb.RunType(qn.At(1).Int()),
		RoleName: qn.At(2).Str(), EntryKey: qn.At(3).Str()}
}

func varsOf(vn *sx.Node) map[string]string {
	vars := map[string]string{}
	for _, kv := range vn.List {
		vars[kv.At(0).Str()] = kv.At(1).Str()
	}
	return vars
}

func procObs(svc *local.Service, t *seqTree, q *componentcfg.Query, vars map[string]string) (*sx.Node, error) {
	path := q.Path()
	base := ""
	if i := strings.LastIndex(path, "/"); i >= 0 {
		base = path[:i]
	}
	if err := t.acyclicFrom(base, path, 0); err != nil {
		return nil, err
	}
	p, e := svc.GetAndProcessComponentConfiguration(q, vars)
	if e != nil {
		return sx.L(sx.A("err"), sx.A(errClass(e))), nil
	}
	return sx.L(sx.A("ok"), sx.A(p)), nil
}

func runSeq(in *sx.Node) (string, error) {
	t := newSeqTree(in.At(1))
	if err := os.MkdirAll(workDir, 0o755); err != nil {
		return "", err
	}
	fn := filepath.Join(workDir, fmt.Sprintf("c20-seq-%d-%d.yaml", os.Getpid(), atomic.AddUint64(&fileCtr, 1)))
	if err := t.write(fn); err != nil {
		return "", err
	}
	defer os.Remove(fn)
	src, err := cfgbackend.NewSource("file://" + fn)
	if err != nil {
		return "", fmt.Errorf("NewSource: %v", err)
	}
	svc := local.VerifC20NewServiceWithSource(src) // ONE service for the whole sequence
	obs := sx.L()
	for _, op := range in.At(2).List {
		switch op.At(0).Str() {
		case "proc":
			o, err := procObs(svc, t, queryOf(op.At(1)), varsOf(op.At(2)))
			if err != nil {
				return "", err
			}
			obs.Add(o)
		case "rproc":
			resolved, rerr := svc.ResolveComponentQuery(queryOf(op.At(1)))
			if rerr != nil {
				c := errClass(rerr)
				if c != "unresolved" {
					c = "other"
				}
				obs.Add(sx.L(sx.A("r"), sx.L(sx.A("err"), sx.A(c)), sx.A("-")))
				break
			}
			o, err := procObs(svc, t, resolved, varsOf(op.At(2)))
			if err != nil {
				return "", err
			}
			obs.Add(sx.L(sx.A("r"), sx.L(sx.A("ok"), sx.A(resolved.Component), sx.I(int(resolved.RunType)),
				sx.A(resolved.RoleName), sx.A(resolved.EntryKey), sx.A(resolved.Raw())), o))
		case "get":
			p, e := svc.GetComponentConfiguration(queryOf(op.At(1)))
			if e != nil {
				obs.Add(sx.L(sx.A("err"), sx.A(errClass(e))))
			} else {
				obs.Add(sx.L(sx.A("ok"), sx.A(p)))
			}
		case "inval":
			svc.InvalidateComponentTemplateCache()
			obs.Add(sx.A("-"))
		case "put":
			key := op.At(1).Str()
			t.set(key, sx.L(sx.A(key), sx.A("val"), sx.A(op.At(2).Str())))
			if err := t.write(fn); err != nil {
				return "", err
			}
			obs.Add(sx.A("-"))
		case "del":
			t.del(op.At(1).Str())
			if err := t.write(fn); err != nil {
				return "", err
			}
			obs.Add(sx.A("-"))
		default:
			return "", fmt.Errorf("unknown op %q", op.At(0).Str())
		}
	}
	return obs.String(), nil
}

// ---- generator ------------------------------------------------------------------------

var seqVarNames = []string{"a", "b1", "_x", "host", "mode", "who"}

// cbuf builds a content string piece by piece without ever forming {{ {% {# across or inside text pieces.
type cbuf struct{ s string }

func (c *cbuf) text(r *rng.R, maxLen int) {
	alpha := []rune("ab {}\":,[]01%#-\n\té=")
	t := ""
	for k := r.Range(1, maxLen); k > 0; k-- {
		ch := alpha[r.N(len(alpha))]
		if strings.HasSuffix(c.s+t, "{") && (ch == '{' || ch == '%' || ch == '#') {
			continue
		}
		t += string(ch)
	}
	c.s += t
	if strings.HasSuffix(c.s, "{") {
		c.s += " "
	}
}

func (c *cbuf) variable(r *rng.R) {
	c.s += "{{" + randFrom(r, " \t", 0, 2) + rng.Pick(r, seqVarNames) + randFrom(r, " \t\r", 0, 2) + "}}"
}

func tagText(r *rng.R, words ...string) string {
	s := "{%" + randFrom(r, " \t", 0, 2)
	for i, w := range words {
		if i > 0 {
			if strings.HasPrefix(w, "\"") {
				s += randFrom(r, " \t", 0, 2)
			} else {
				s += randFrom(r, " \t", 1, 2)
			}
		}
		s += w
	}
	return s + randFrom(r, " \t\r", 0, 2) + "%}"
}

func (c *cbuf) include(r *rng.R, name string) { c.s += tagText(r, "include", "\""+name+"\"") }
func (c *cbuf) extends(r *rng.R, name string) { c.s += tagText(r, "extends", "\""+name+"\"") }

// pieces: n random pieces of text / variables / includes of the given snippets.
func (c *cbuf) pieces(r *rng.R, n int, incl []string) {
	for i := 0; i < n; i++ {
		switch {
		case len(incl) > 0 && r.P(1, 4):
			c.include(r, rng.Pick(r, incl))
		case r.P(1, 2):
			c.variable(r)
		default:
			c.text(r, 6)
		}
	}
}

func (c *cbuf) block(r *rng.R, name string, incl []string) {
	c.s += tagText(r, "block", name)
	c.pieces(r, r.Range(0, 3), incl)
	if r.P(1, 3) {
		c.s += tagText(r, "endblock", name)
	} else {
		c.s += tagText(r, "endblock")
	}
}

// kitContent: the content of the entry `name` of a directory. References only go DOWN the order
// s0 < s1 < base < mid < (everything else), so no chain is cyclic, also after any sequence of (put …).
// absBase is the directory's path (component/RUNTYPE/role[/sub]) for includes spelled with the full path.
func kitContent(r *rng.R, name, absBase string) (string, []string) {
	c := &cbuf{}
	var tags []string
	switch name {
	case "s0":
		c.pieces(r, r.Range(1, 3), nil)
	case "s1":
		c.pieces(r, r.Range(0, 2), nil)
		c.include(r, "s0")
		c.pieces(r, r.Range(0, 1), nil)
	case "base":
		c.pieces(r, r.Range(0, 2), []string{"s0"})
		c.block(r, "p", []string{"s0"})
		c.pieces(r, r.Range(0, 2), nil)
		if r.P(2, 3) {
			c.block(r, "q", nil)
		}
	case "mid":
		if r.P(1, 3) {
			c.text(r, 4) // ignored: only the blocks of a child count
		}
		c.extends(r, "base")
		c.block(r, rng.Pick(r, []string{"p", "q"}), []string{"s0", "s1"})
	default:
		switch k := r.N(16); {
		case k < 3: // the plain fragment
			c.pieces(r, r.Range(0, 5), nil)
			tags = append(tags, "seq:entry-plain")
		case k < 8: // includes
			c.pieces(r, r.Range(1, 5), []string{"s0", "s1", "s0", "base"})
			if !strings.Contains(c.s, "{%") {
				c.include(r, rng.Pick(r, []string{"s0", "s1"}))
			}
			tags = append(tags, "seq:entry-include")
		case k < 11: // extends base or mid, overriding blocks (zz is defined by no parent)
			if r.P(1, 4) {
				c.text(r, 4)
			}
			c.extends(r, rng.Pick(r, []string{"base", "base", "mid"}))
			names := []string{"p", "q", "zz"}
			rng.Shuffle(r, names)
			for _, b := range names[:r.Range(0, 2)] {
				if r.P(1, 3) {
					c.text(r, 3)
				}
				c.block(r, b, []string{"s0", "s1"})
			}
			if r.P(1, 6) {
				c.include(r, "s0") // outside any block: loaded, never rendered
			}
			tags = append(tags, "seq:entry-extends")
		case k < 12: // includes a template that itself extends
			c.pieces(r, r.Range(0, 2), nil)
			c.include(r, "mid")
			c.pieces(r, r.Range(0, 2), []string{"s0"})
			tags = append(tags, "seq:entry-include-of-child")
		case k < 14: // include spelled with the directory's full path
			c.pieces(r, r.Range(0, 2), nil)
			c.include(r, absBase+"/"+rng.Pick(r, []string{"s0", "s1"}))
			tags = append(tags, "seq:entry-include-fullpath")
		default: // references that cannot be loaded
			c.pieces(r, r.Range(0, 2), nil)
			bad := rng.Pick(r, []string{"nothere", "bad.name", "/s0", "dir", absBase + "x", "s0/"})
			if r.P(1, 3) {
				c.extends(r, bad)
			} else {
				c.include(r, bad)
			}
			tags = append(tags, "seq:entry-unloadable-ref")
		}
	}
	return c.s, tags
}

type seqGen struct {
	r       *rng.R
	comp    string
	rt      int
	role    string
	dirs    []string            // directory paths below o2/components/, most specific first
	present map[string][]string // dir → names present
	ents    *sx.Node
	tags    map[string]bool
}

func (g *seqGen) tag(ts ...string) {
	for _, t := range ts {
		g.tags[t] = true
	}
}

var kitNames = []string{"s0", "s1", "base", "mid", "e0", "e1", "e2", "sub/s0", "sub/x"}

func kitKind(name string) string {
	if i := strings.LastIndex(name, "/"); i >= 0 {
		name = name[i+1:]
	}
	if name == "x" {
		return "e9"
	}
	return name
}

func (g *seqGen) contentFor(dir, name string) string {
	base := dir
	if i := strings.LastIndex(name, "/"); i >= 0 {
		base = dir + "/" + name[:i]
	}
	s, tags := kitContent(g.r, kitKind(name), base)
	g.tag(tags...)
	return s
}

func (g *seqGen) populate() {
	rtn := apricotpb.RunType_name[int32(g.rt)]
	all := []string{g.comp + "/" + rtn + "/" + g.role, g.comp + "/ANY/" + g.role, g.comp + "/" + rtn + "/any", g.comp + "/ANY/any"}
	seen := map[string]bool{}
	for _, d := range all {
		if seen[d] {
			continue
		}
		seen[d] = true
		if !g.r.P(3, 5) && d != g.comp+"/ANY/any" {
			continue
		}
		g.dirs = append(g.dirs, d)
		for _, n := range kitNames {
			snippet := strings.HasPrefix(kitKind(n), "s") || n == "base" || n == "mid"
			if (snippet && g.r.P(9, 10)) || (!snippet && g.r.P(1, 2)) {
				g.present[d] = append(g.present[d], n)
				g.ents.Add(sx.L(sx.A("o2/components/"+d+"/"+n), sx.A("val"), sx.A(g.contentFor(d, n))))
			}
		}
		if g.r.P(1, 3) {
			g.ents.Add(sx.L(sx.A("o2/components/"+d+"/dir"), sx.A("dir"), sx.A("")))
		}
	}
	// something outside the component
	g.ents.Add(sx.L(sx.A("o2/components/"+g.comp+"X/ANY/any/e0"), sx.A("val"), sx.A("other component {{ a }}")))
}

func (g *seqGen) vars(escapeProne bool) *sx.Node {
	vs := sx.L()
	alpha := "ab 1é{}%=,"
	if escapeProne {
		alpha = "ab <>&\"'1"
	}
	for _, n := range seqVarNames {
		if g.r.P(1, 2) {
			k := n
			if g.r.P(1, 12) {
				k = " " + k + "\t"
				g.tag("seq:padded-var-key")
			}
			vs.Add(sx.L(sx.A(k), sx.A(randFrom(g.r, alpha, 0, 5))))
		}
	}
	if g.r.P(1, 24) {
		vs.Add(sx.L(sx.A(rng.Pick(g.r, []string{"bad-key", "a.b", "", "x y"})), sx.A("v")))
		g.tag("seq:invalid-var-key")
	}
	return vs
}

func (g *seqGen) query() *sx.Node {
	rt, role := g.rt, g.role
	if g.r.P(1, 3) {
		rt = 300
	}
	if g.r.P(1, 3) {
		role = "any"
	}
	entry := rng.Pick(g.r, []string{"e0", "e0", "e1", "e1", "e2", "sub/x", "s1", "mid", "nothere"})
	return sx.L(sx.A(g.comp), sx.I(rt), sx.A(role), sx.A(entry))
}

// answeringDir: the first of the generated directories, in fallback order, that held the query's entry when the tree
// was generated ("" if none) — only a hint for where to aim a backend change.
func (g *seqGen) answeringDir(q *sx.Node) string {
	rtn := apricotpb.RunType_name[int32(q.At(1).Int())]
	role, entry := q.At(2).Str(), q.At(3).Str()
	for _, d := range []string{g.comp + "/" + rtn + "/" + role, g.comp + "/ANY/" + role, g.comp + "/" + rtn + "/any", g.comp + "/ANY/any"} {
		for _, n := range g.present[d] {
			if n == entry {
				return d
			}
		}
	}
	return ""
}

func genSeqCase(r *rng.R) fw.Case {
	g := &seqGen{r: r, comp: rng.Pick(r, []string{"qc", "readout", "dpl_x", "tpc-raw"}), rt: rng.Pick(r, runTypeNums),
		role: rng.Pick(r, []string{"flp001", "epn-12", "any", "role1"}), present: map[string][]string{}, ents: sx.L(), tags: map[string]bool{}}
	g.populate()
	escapeProne := r.P(1, 4) // values with & < > " ' : substituted as supplied since the repair of autoescape_html
	if escapeProne {
		g.tag("seq:escape-prone-values")
	}
	changes := r.P(1, 4) // does the backend change during this sequence?
	ops := sx.L()
	n := r.Range(3, 9)
	var recent []*sx.Node // queries already asked: asking them again (with other variables) is the point
	put := false
	for i := 0; i < n; i++ {
		switch k := r.N(20); {
		case k < 1:
			ops.Add(sx.L(sx.A("inval")))
			g.tag("seq:inval")
		case k < 3:
			ops.Add(sx.L(sx.A("get"), g.query()))
		case k < 6 && changes:
			d := rng.Pick(r, g.dirs)
			name := rng.Pick(r, kitNames)
			var again *sx.Node
			if len(recent) > 0 && r.P(2, 3) {
				// aim at something that may be compiled by now: an entry that was asked for, in the directory the
				// request was (probably) answered from, or one of the snippets it may refer to
				again = rng.Pick(r, recent)
				name = again.At(3).Str()
				if dd := g.answeringDir(again); dd != "" {
					d = dd
				}
				if r.P(1, 2) {
					sub := ""
					if i := strings.LastIndex(name, "/"); i >= 0 {
						sub = name[:i+1]
					}
					name = sub + rng.Pick(r, []string{"s0", "s1", "base", "mid"})
					if sub != "" {
						name = sub + "s0"
					}
				}
				g.tag("seq:change-aimed-at-asked-entry")
			}
			key := "o2/components/" + d + "/" + name
			if r.P(1, 6) {
				ops.Add(sx.L(sx.A("del"), sx.A(key)))
				g.tag("seq:del")
			} else {
				ops.Add(sx.L(sx.A("put"), sx.A(key), sx.A(g.contentFor(d, name))))
				g.tag("seq:put")
			}
			put = true
			if r.P(1, 2) {
				ops.Add(sx.L(sx.A("inval")))
				g.tag("seq:inval")
			}
			if again != nil && r.P(2, 3) {
				ops.Add(sx.L(sx.A(rng.Pick(r, []string{"rproc", "rproc", "proc"})), again, g.vars(escapeProne)))
				g.tag("seq:repeated-query")
			}
		default:
			var q *sx.Node
			if len(recent) > 0 && r.P(1, 2) {
				q = rng.Pick(r, recent)
				g.tag("seq:repeated-query")
			} else {
				q = g.query()
				recent = append(recent, q)
			}
			kind := "rproc"
			if r.P(1, 3) {
				kind = "proc"
			}
			ops.Add(sx.L(sx.A(kind), q, g.vars(escapeProne)))
		}
	}
	if put {
		g.tag("seq:backend-changes")
	}
	tags := []string{"seq", "seq:random"}
	for t := range g.tags {
		tags = append(tags, t)
	}
	sortStrings(tags[2:])
	return fw.Case{Input: sx.L(sx.A("seq"), g.ents, ops).String(), Tags: tags}
}

func sortStrings(s []string) {
	for i := 1; i < len(s); i++ {
		for j := i; j > 0 && s[j] < s[j-1]; j-- {
			s[j], s[j-1] = s[j-1], s[j]
		}
	}
}

// fixedSeqs: the canonical histories, independent of the seed.
func fixedSeqs() []fw.Case {
	dir := "o2/components/qc/ANY/any/"
	ent := func(kv ...string) *sx.Node {
		n := sx.L()
		for i := 0; i+1 < len(kv); i += 2 {
			n.Add(sx.L(sx.A(kv[i]), sx.A("val"), sx.A(kv[i+1])))
		}
		return n
	}
	q := func(comp string, rt int, role, entry string) *sx.Node {
		return sx.L(sx.A(comp), sx.I(rt), sx.A(role), sx.A(entry))
	}
	vs := func(kv ...string) *sx.Node {
		n := sx.L()
		for i := 0; i+1 < len(kv); i += 2 {
			n.Add(sx.L(sx.A(kv[i]), sx.A(kv[i+1])))
		}
		return n
	}
	proc := func(qn, v *sx.Node) *sx.Node { return sx.L(sx.A("proc"), qn, v) }
	rproc := func(qn, v *sx.Node) *sx.Node { return sx.L(sx.A("rproc"), qn, v) }
	inval := sx.L(sx.A("inval"))
	tree := ent(
		dir+"greeting", "[{{ who }}|{{ mode }}] {% include \"tail\" %}",
		dir+"tail", "tail={{ mode }}",
		dir+"other", "other={{ who }}",
		dir+"base", "<{% block p %}dp {{ who }}{% endblock %}|{% block q %}dq{% endblock q %}>",
		dir+"child", "ignored{% extends \"base\" %}{% block q %}cq {{ mode }} {% include \"tail\" %}{% endblock %}",
		"o2/components/qc/PHYSICS/flp001/greeting", "exact {{ who }}/{{ mode }}",
		"o2/components/qc/PHYSICS/flp001/sub/x", "x={{ mode }} {% include \"y\" %}",
		"o2/components/qc/PHYSICS/flp001/sub/y", "y={{ who }}",
	)
	g := q("qc", 300, "any", "greeting")
	mk := func(name string, ops ...*sx.Node) fw.Case {
		return fw.Case{Input: sx.L(sx.A("seq"), tree, sx.L(ops...)).String(), Tags: []string{"seq", "seq:fixed", "seq:fixed:" + name}}
	}
	return []fw.Case{
		mk("same-entry-fewer-vars", proc(g, vs("who", "alice", "mode", "fast")), proc(g, vs("who", "bob", "mode", "slow")),
			proc(g, vs("who", "carol")), proc(g, vs()), proc(g, vs("who", "dave", "mode", "fast"))),
		mk("other-entry-same-dir", proc(g, vs("who", "alice", "mode", "fast")), proc(q("qc", 300, "any", "other"), vs()),
			proc(q("qc", 300, "any", "tail"), vs("who", "x")), proc(q("qc", 300, "any", "child"), vs())),
		mk("fallback-shares-dir", rproc(q("qc", 2, "flp002", "greeting"), vs("who", "alice", "mode", "fast")),
			rproc(q("qc", 14, "epn", "other"), vs()), rproc(q("qc", 1, "flp001", "greeting"), vs("mode", "m")),
			rproc(q("qc", 1, "flp001", "other"), vs("mode", "m"))),
		mk("different-dirs", proc(q("qc", 1, "flp001", "greeting"), vs("who", "alice", "mode", "fast")), proc(g, vs()),
			proc(q("qc", 1, "flp001", "sub/x"), vs("who", "w")), proc(q("qc", 1, "flp001", "greeting"), vs())),
		mk("inval-between", proc(g, vs("who", "alice", "mode", "fast")), inval, proc(g, vs("who", "carol")), inval, proc(g, vs())),
		mk("extends", proc(q("qc", 300, "any", "child"), vs("who", "alice", "mode", "fast")), proc(q("qc", 300, "any", "base"), vs()),
			proc(q("qc", 300, "any", "child"), vs())),
		mk("unloadable-then-present", proc(q("qc", 300, "any", "later"), vs("a", "1")),
			sx.L(sx.A("put"), sx.A(dir+"later"), sx.A("later {{ a }}")), proc(q("qc", 300, "any", "later"), vs("a", "2")),
			proc(q("qc", 300, "any", "later"), vs())),
		mk("badident-then-fine", proc(g, vs("bad-key", "1")), proc(g, vs("who", "w"))),
		mk("backend-change-invalidated", proc(g, vs("who", "alice")), sx.L(sx.A("put"), sx.A(dir+"tail"), sx.A("TAIL {{ who }}")), inval,
			proc(g, vs("mode", "m")), sx.L(sx.A("get"), q("qc", 300, "any", "tail"))),
		mk("backend-change-not-invalidated", proc(g, vs("who", "alice")), sx.L(sx.A("put"), sx.A(dir+"greeting"), sx.A("new greeting {{ who }}")),
			sx.L(sx.A("get"), g), proc(g, vs("who", "bob")), inval, proc(g, vs("who", "bob"))),
		mk("snippet-change-not-invalidated", proc(g, vs("mode", "m")), sx.L(sx.A("put"), sx.A(dir+"tail"), sx.A("TAIL {{ who }}")),
			proc(g, vs("mode", "m")), proc(q("qc", 300, "any", "child"), vs("mode", "m"))),
	}
}

func seqNontrivial(in *sx.Node) bool {
	n := 0
	for _, op := range in.At(2).List {
		if k := op.At(0).Str(); k == "proc" || k == "rproc" {
			n++
		}
	}
	return n >= 2
}

func seqShrink(in *sx.Node) []string {
	var out []string
	ents, ops := in.At(1), in.At(2)
	without := func(n *sx.Node, i int) *sx.Node {
		m := sx.L()
		m.List = append(append([]*sx.Node{}, n.List[:i]...), n.List[i+1:]...)
		return m
	}
	for i := range ops.List {
		out = append(out, sx.L(sx.A("seq"), ents, without(ops, i)).String())
	}
	for i := range ents.List {
		out = append(out, sx.L(sx.A("seq"), without(ents, i), ops).String())
	}
	for i, op := range ops.List {
		if k := op.At(0).Str(); k == "proc" || k == "rproc" {
			for j := range op.At(2).List {
				m := sx.L()
				m.List = append([]*sx.Node{}, ops.List...)
				m.List[i] = sx.L(op.At(0), op.At(1), without(op.At(2), j))
				out = append(out, sx.L(sx.A("seq"), ents, m).String())
			}
		}
	}
	return out
}
