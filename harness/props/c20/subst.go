package c20

// Tabulation for the substitution clause ("…templated with exactly the variables supplied"): what the LINKED
// local.Service writes into a payload for a supplied value, probed through the real
// GetAndProcessComponentConfiguration on a real file source, and where the repository touches pongo2's process-wide
// autoescape switch (go/ast). Compared with the model's `codeCfg` / `legacyCfg` by C20_substitution_is_code and
// C20_escape_is_pongo2 (Props/C20.lean).

import (
	"fmt"
	"go/ast"
	"go/parser"
	"go/token"
	"os"
	"path/filepath"
	"sort"
	"strings"

	"github.com/AliceO2Group/Control/apricot/local"
	apricotpb "github.com/AliceO2Group/Control/apricot/protos"
	"github.com/AliceO2Group/Control/configuration/cfgbackend"
	"github.com/AliceO2Group/Control/configuration/componentcfg"

	"verifharness/sx"
)

// substProbeValues: every ASCII character by itself (the five characters pongo2's escape filter rewrites among them),
// a non-ASCII one, and a few realistic values (the witness of finding autoescape_html first).
func substProbeValues() []string {
	var vs []string
	for c := 1; c < 128; c++ {
		vs = append(vs, string(rune(c)))
	}
	vs = append(vs, "é", `["flp1","flp2"]`, `"x"&`, `<a href='x'>&amp;</a>`, `a&&b<<c>>d""e''f`, "")
	return vs
}

// renderProbes runs the real service: entry `plain` is `{{ v }}`, entry `forced` the same inside an explicit
// {% autoescape on %} block (what pongo2 does to a value when autoescaping IS on, whatever the process-wide switch).
func renderProbes() (plain, forced [][2]string, err error) {
	dir := "o2/components/cmp/ANY/any/"
	ents := sx.L(
		sx.L(sx.A(dir+"plain"), sx.A("val"), sx.A("{{ v }}")),
		sx.L(sx.A(dir+"forced"), sx.A("val"), sx.A("{% autoescape on %}{{ v }}{% endautoescape %}")),
	)
	data, err := buildYaml(ents)
	if err != nil {
		return nil, nil, err
	}
	if err := os.MkdirAll(workDir, 0o755); err != nil {
		return nil, nil, err
	}
	fn := filepath.Join(workDir, fmt.Sprintf("c20-subst-%d.yaml", os.Getpid()))
	if err := os.WriteFile(fn, data, 0o644); err != nil {
		return nil, nil, err
	}
	defer os.Remove(fn)
	src, err := cfgbackend.NewSource("file://" + fn)
	if err != nil {
		return nil, nil, fmt.Errorf("NewSource: %v", err)
	}
	svc := local.VerifC20NewServiceWithSource(src)
	ask := func(entry, v string) (string, error) {
		q := &componentcfg.Query{Component: "cmp", RunType: apricotpb.RunType_ANY, RoleName: "any", EntryKey: entry}
		p, e := svc.GetAndProcessComponentConfiguration(q, map[string]string{"v": v})
		if e != nil {
			return "", fmt.Errorf("substitution probe %s with %q: %v", entry, v, e)
		}
		return p, nil
	}
	for _, v := range substProbeValues() {
		p, e := ask("plain", v)
		if e != nil {
			return nil, nil, e
		}
		plain = append(plain, [2]string{v, p})
		f, e := ask("forced", v)
		if e != nil {
			return nil, nil, e
		}
		forced = append(forced, [2]string{v, f})
	}
	return plain, forced, nil
}

// autoescapeSwitches: every call of a function named SetAutoescape in the non-test Go files of the repository:
// (directory of the package, enclosing function, "false"/"true"/"other" = the argument).
func autoescapeSwitches(repo string) ([][3]string, error) {
	var out [][3]string
	err := filepath.Walk(repo, func(path string, info os.FileInfo, err error) error {
		if err != nil {
			return err
		}
		if info.IsDir() {
			n := info.Name()
			if path != repo && (strings.HasPrefix(n, ".") || n == "vendor" || n == "node_modules") {
				return filepath.SkipDir
			}
			return nil
		}
		if !strings.HasSuffix(path, ".go") || strings.HasSuffix(path, "_test.go") {
			return nil
		}
		raw, err := os.ReadFile(path)
		if err != nil {
			return err
		}
		if !strings.Contains(string(raw), "SetAutoescape") {
			return nil
		}
		fset := token.NewFileSet()
		f, err := parser.ParseFile(fset, path, raw, 0)
		if err != nil {
			return err
		}
		rel, _ := filepath.Rel(repo, filepath.Dir(path))
		for _, d := range f.Decls {
			fd, ok := d.(*ast.FuncDecl)
			if !ok || fd.Body == nil {
				// a call in a package-level initialiser would be reported with an empty function name
				ast.Inspect(d, func(n ast.Node) bool {
					if c, ok := n.(*ast.CallExpr); ok && isSetAutoescape(c) {
						out = append(out, [3]string{filepath.ToSlash(rel), "", argText(c)})
					}
					return true
				})
				continue
			}
			ast.Inspect(fd.Body, func(n ast.Node) bool {
				if c, ok := n.(*ast.CallExpr); ok && isSetAutoescape(c) {
					out = append(out, [3]string{filepath.ToSlash(rel), fd.Name.Name, argText(c)})
				}
				return true
			})
		}
		return nil
	})
	if err != nil {
		return nil, err
	}
	sort.Slice(out, func(i, j int) bool { return strings.Join(out[i][:], "\x00") < strings.Join(out[j][:], "\x00") })
	return out, nil
}

func isSetAutoescape(c *ast.CallExpr) bool {
	switch f := c.Fun.(type) {
	case *ast.SelectorExpr:
		return f.Sel.Name == "SetAutoescape"
	case *ast.Ident:
		return f.Name == "SetAutoescape"
	}
	return false
}

func argText(c *ast.CallExpr) string {
	if len(c.Args) == 1 {
		if id, ok := c.Args[0].(*ast.Ident); ok && (id.Name == "false" || id.Name == "true") {
			return id.Name
		}
	}
	return "other"
}

func genSubstFacts(repo string) (string, error) {
	plain, forced, err := renderProbes()
	if err != nil {
		return "", err
	}
	sw, err := autoescapeSwitches(repo)
	if err != nil {
		return "", err
	}
	var b strings.Builder
	table := func(name, doc string, rows [][2]string) {
		fmt.Fprintf(&b, "/-- %s -/\ndef %s : List (List Char × List Char) := [\n", doc, name)
		for i, r := range rows {
			sep := ","
			if i == len(rows)-1 {
				sep = ""
			}
			fmt.Fprintf(&b, "  (%s, %s)%s\n", leanChars(r[0]), leanChars(r[1]), sep)
		}
		b.WriteString("]\n\n")
	}
	table("substProbes", "(value supplied for v, payload) of the linked local.Service.GetAndProcessComponentConfiguration on the entry `{{ v }}`:\n    every ASCII character by itself, a non-ASCII one, some realistic values.", plain)
	table("escapeProbes", "the same values on the entry `{% autoescape on %}{{ v }}{% endautoescape %}`: what pongo2 writes when autoescaping is on.", forced)
	var rows []string
	for _, s := range sw {
		rows = append(rows, fmt.Sprintf("(%s, %s, %s)", leanChars(s[0]), leanChars(s[1]), leanChars(s[2])))
	}
	fmt.Fprintf(&b, "/-- every call of SetAutoescape in the repository's non-test Go files (go/ast): (package directory, enclosing function,\n    argument false/true/other), sorted. -/\ndef autoescapeSwitches : List (List Char × List Char × List Char) := [%s]\n\n", strings.Join(rows, ", "))
	return b.String(), nil
}
