// Package rng: one splitmix64 state per run; every random choice of every
// generator derives from it, so (VERIF_SEED, case index) replays a case.
package rng

type R struct{ s uint64 }

func New(seed uint64) *R { return &R{s: seed} }

func (r *R) U64() uint64 {
	r.s += 0x9E3779B97F4A7C15
	z := r.s
	z = (z ^ (z >> 30)) * 0xBF58476D1CE4E5B9
	z = (z ^ (z >> 27)) * 0x94D049BB133111EB
	return z ^ (z >> 31)
}

// Fork derives an independent stream (per case).
func (r *R) Fork() *R { return &R{s: r.U64()} }

// N returns a value in [0,n).
func (r *R) N(n int) int {
	if n <= 0 {
		return 0
	}
	return int(r.U64() % uint64(n))
}

// Range returns a value in [lo,hi].
func (r *R) Range(lo, hi int) int { return lo + r.N(hi-lo+1) }

func (r *R) Bool() bool { return r.U64()&1 == 1 }

// P returns true with probability num/den.
func (r *R) P(num, den int) bool { return r.N(den) < num }

func Pick[T any](r *R, xs []T) T { return xs[r.N(len(xs))] }

func Shuffle[T any](r *R, xs []T) {
	for i := len(xs) - 1; i > 0; i-- {
		j := r.N(i + 1)
		xs[i], xs[j] = xs[j], xs[i]
	}
}
