#!/bin/sh
# Build cmd/simsmoke against /repo with a private module file, so that a
# concurrent `build.sh` (which rewrites harness/go.mod, possibly pointing at a
# mutation worktree) cannot interfere. Output: /verif/.work/bin/simsmoke
set -e
export GOFLAGS=-mod=mod GOPROXY=off GOSUMDB=off GOTOOLCHAIN=local
REPO="${VERIF_REPO:-/repo}"
cd "$(dirname "$0")/.."
mkdir -p /verif/.work/bin /verif/.work/simmod
MOD=/verif/.work/simmod/go.mod
{
  echo "module verifharness"; echo; echo "go 1.22"; echo
  echo "require github.com/AliceO2Group/Control v0.0.0"
  echo "replace github.com/AliceO2Group/Control => $REPO"
  grep '^replace' "$REPO/go.mod" | grep -v 'AliceO2Group/Control '
} > "$MOD"
cp "$REPO/go.sum" /verif/.work/simmod/go.sum
go build -modfile="$MOD" -tags verif -o /verif/.work/bin/simsmoke ./cmd/simsmoke
go vet -modfile="$MOD" -tags verif ./sim ./cmd/simsmoke
