package sim

import (
	"encoding/json"
	"fmt"
	"net"
	"os"
	"sync"
	"time"

	"github.com/AliceO2Group/Control/common/event"
	"github.com/AliceO2Group/Control/common/event/topic"
	"github.com/AliceO2Group/Control/core"
	"github.com/AliceO2Group/Control/core/integration"
	"github.com/AliceO2Group/Control/core/integration/testplugin"
	"github.com/AliceO2Group/Control/core/the"
	"github.com/sirupsen/logrus"
	"google.golang.org/protobuf/encoding/protojson"
	"google.golang.org/protobuf/proto"

	"verifharness/fw"
)

// ChildName is the fw child entry that runs the real core.
const ChildName = "simcore"

func init() {
	fw.RegisterChild(ChildName, coreChildMain)
}

// coreChildMain is the core process: the real core.NewConfig (flags from the
// command line, settings from the Consul simulator) followed by
// core.RunForVerif (= core.Run with the gRPC server on the listener inherited
// as fd 3). It never returns.
//
//	env SIM_LOG     log file (logrus text output)
//	env SIM_EVENTS  JSON-lines file receiving every event the core publishes
//	                (all topics; replaces the Kafka/dummy writers)
func coreChildMain(args []string) {
	ppid := os.Getppid()
	go func() { // never outlive the harness
		for {
			time.Sleep(300 * time.Millisecond)
			if os.Getppid() != ppid {
				os.Exit(3)
			}
		}
	}()
	fail := func(what string, err error) {
		fmt.Fprintf(os.Stderr, "simcore: %s: %v\n", what, err)
		logrus.Errorf("simcore: %s: %v", what, err)
		os.Exit(4)
	}
	if p := os.Getenv("SIM_LOG"); p != "" {
		f, err := os.OpenFile(p, os.O_CREATE|os.O_WRONLY|os.O_APPEND, 0o644)
		if err != nil {
			fail("open log", err)
		}
		logrus.SetOutput(f)
	}
	logrus.SetLevel(logrus.InfoLevel)
	logrus.SetFormatter(&logrus.TextFormatter{DisableColors: true, FullTimestamp: true, TimestampFormat: "15:04:05.000"})

	// the only plugin linked in is the repository's no-op test plugin
	// (enable with --integrationPlugins=testplugin)
	integration.RegisterPlugin("testplugin", "testPluginEndpoint", testplugin.NewPlugin)

	if err := core.NewConfig(); err != nil {
		fail("core.NewConfig", err)
	}
	if p := os.Getenv("SIM_EVENTS"); p != "" {
		f, err := os.OpenFile(p, os.O_CREATE|os.O_WRONLY|os.O_APPEND, 0o644)
		if err != nil {
			fail("open events", err)
		}
		rec := &eventRecorder{f: f}
		for _, t := range []topic.Topic{topic.Root, topic.Run, topic.Environment, topic.Role, topic.Task, topic.Call, topic.Core, topic.IntegratedService} {
			the.SetEventWriterForVerif(t, &topicWriter{rec: rec, topic: string(t)})
		}
	}
	lis, err := net.FileListener(os.NewFile(3, "grpc-listener"))
	if err != nil {
		fail("inherit listener", err)
	}
	h, err := core.RunForVerif(lis)
	if err != nil {
		fail("core.RunForVerif", err)
	}
	err = <-h.ServeErr
	fail("grpc Serve returned", err)
}

type eventRecorder struct {
	mu  sync.Mutex
	f   *os.File
	seq int
}

type topicWriter struct {
	rec   *eventRecorder
	topic string
}

// CoreEvent is one event the core published (what would go to Kafka).
type CoreEvent struct {
	Seq     int             `json:"seq"`
	Topic   string          `json:"topic"`
	Type    string          `json:"type"` // Go type of the payload, e.g. *protos.Ev_EnvironmentEvent
	Payload json.RawMessage `json:"payload"`
	Epoch   int             `json:"-"` // core incarnation (filled by the reader)
}

func (w *topicWriter) WriteEvent(e interface{}) { w.WriteEventWithTimestamp(e, time.Now()) }

func (w *topicWriter) WriteEventWithTimestamp(e interface{}, _ time.Time) {
	var payload []byte
	if pm, ok := e.(proto.Message); ok {
		payload, _ = protojson.Marshal(pm)
	} else {
		payload, _ = json.Marshal(e)
	}
	if len(payload) == 0 {
		payload = []byte("null")
	}
	w.rec.mu.Lock()
	defer w.rec.mu.Unlock()
	w.rec.seq++
	line, err := json.Marshal(CoreEvent{Seq: w.rec.seq, Topic: w.topic, Type: fmt.Sprintf("%T", e), Payload: payload})
	if err == nil {
		w.rec.f.Write(append(line, '\n'))
	}
}

func (w *topicWriter) Close() {}

var _ event.Writer = (*topicWriter)(nil)
