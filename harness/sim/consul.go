package sim

import (
	"encoding/base64"
	"encoding/json"
	"io"
	"net"
	"net/http"
	"sort"
	"strconv"
	"strings"
	"sync"
)

// Consul is a Consul KV simulator: the subset of /v1/kv the hashicorp client
// used by configuration/cfgbackend/consulsource.go issues (GET with
// ?recurse / ?keys[&separator] / ?consistent / ?index, PUT with ?cas=, DELETE
// with ?recurse / ?cas=). One global raft-like index; every write bumps it.
type Consul struct {
	mu    sync.Mutex
	kv    map[string]*kvEntry
	index uint64
	ops   []KVOp

	lis net.Listener
	srv *http.Server
}

type kvEntry struct {
	Value       []byte
	Flags       uint64
	CreateIndex uint64
	ModifyIndex uint64
}

// KVOp is one request the KV simulator served.
type KVOp struct {
	Seq    int
	Method string // GET PUT DELETE
	Key    string
	Query  string // raw query
	Value  string // PUT body
	OK     bool   // PUT/DELETE outcome (CAS), GET: key(s) found
}

func newConsul() (*Consul, error) {
	c := &Consul{kv: map[string]*kvEntry{}, index: 10}
	lis, err := net.Listen("tcp4", "127.0.0.1:0")
	if err != nil {
		return nil, err
	}
	c.lis = lis
	mux := http.NewServeMux()
	mux.HandleFunc("/v1/kv/", c.handle)
	c.srv = &http.Server{Handler: mux}
	go c.srv.Serve(lis)
	return c, nil
}

// Addr is host:port of the simulator.
func (c *Consul) Addr() string { return c.lis.Addr().String() }

func (c *Consul) close() { c.srv.Close() }

// Put stores a key (harness side).
func (c *Consul) Put(key, value string) {
	c.mu.Lock()
	defer c.mu.Unlock()
	c.put(strings.TrimLeft(key, "/"), []byte(value), 0)
}

// Get reads a key (harness side).
func (c *Consul) Get(key string) (string, bool) {
	c.mu.Lock()
	defer c.mu.Unlock()
	e, ok := c.kv[strings.TrimLeft(key, "/")]
	if !ok {
		return "", false
	}
	return string(e.Value), true
}

// Delete removes a key (harness side).
func (c *Consul) Delete(key string) {
	c.mu.Lock()
	defer c.mu.Unlock()
	if _, ok := c.kv[key]; ok {
		delete(c.kv, key)
		c.index++
	}
}

// Dump returns a copy of the whole tree.
func (c *Consul) Dump() map[string]string {
	c.mu.Lock()
	defer c.mu.Unlock()
	m := make(map[string]string, len(c.kv))
	for k, e := range c.kv {
		m[k] = string(e.Value)
	}
	return m
}

// Ops returns the requests served so far.
func (c *Consul) Ops() []KVOp {
	c.mu.Lock()
	defer c.mu.Unlock()
	return append([]KVOp(nil), c.ops...)
}

func (c *Consul) put(key string, val []byte, flags uint64) {
	c.index++
	if e, ok := c.kv[key]; ok {
		e.Value, e.Flags, e.ModifyIndex = val, flags, c.index
		return
	}
	c.kv[key] = &kvEntry{Value: val, Flags: flags, CreateIndex: c.index, ModifyIndex: c.index}
}

type kvJSON struct {
	LockIndex   uint64
	Key         string
	Flags       uint64
	Value       *string
	CreateIndex uint64
	ModifyIndex uint64
}

func (c *Consul) handle(w http.ResponseWriter, r *http.Request) {
	key := strings.TrimPrefix(r.URL.Path, "/v1/kv/")
	q := r.URL.Query()
	c.mu.Lock()
	defer c.mu.Unlock()
	op := KVOp{Seq: len(c.ops) + 1, Method: r.Method, Key: key, Query: r.URL.RawQuery}
	defer func() { c.ops = append(c.ops, op) }()
	setIdx := func() {
		w.Header().Set("X-Consul-Index", strconv.FormatUint(c.index, 10))
		w.Header().Set("X-Consul-KnownLeader", "true")
		w.Header().Set("X-Consul-LastContact", "0")
		w.Header().Set("Content-Type", "application/json")
	}
	switch r.Method {
	case http.MethodGet:
		_, recurse := q["recurse"]
		_, keysOnly := q["keys"]
		var matched []string
		if recurse || keysOnly {
			for k := range c.kv {
				if strings.HasPrefix(k, key) {
					matched = append(matched, k)
				}
			}
			sort.Strings(matched)
		} else if _, ok := c.kv[key]; ok {
			matched = []string{key}
		}
		setIdx()
		if len(matched) == 0 {
			w.WriteHeader(http.StatusNotFound)
			return
		}
		op.OK = true
		if keysOnly {
			sep := q.Get("separator")
			seen := map[string]bool{}
			out := []string{}
			for _, k := range matched {
				if sep != "" {
					if i := strings.Index(k[len(key):], sep); i >= 0 {
						k = k[:len(key)+i+len(sep)]
					}
				}
				if !seen[k] {
					seen[k] = true
					out = append(out, k)
				}
			}
			json.NewEncoder(w).Encode(out)
			return
		}
		out := make([]kvJSON, 0, len(matched))
		for _, k := range matched {
			e := c.kv[k]
			v := base64.StdEncoding.EncodeToString(e.Value)
			out = append(out, kvJSON{Key: k, Flags: e.Flags, Value: &v, CreateIndex: e.CreateIndex, ModifyIndex: e.ModifyIndex})
		}
		json.NewEncoder(w).Encode(out)
	case http.MethodPut:
		body, _ := io.ReadAll(r.Body)
		op.Value = string(body)
		flags, _ := strconv.ParseUint(q.Get("flags"), 10, 64)
		ok := true
		if casS, has := q["cas"]; has {
			cas, _ := strconv.ParseUint(casS[0], 10, 64)
			e, exists := c.kv[key]
			if cas == 0 {
				ok = !exists
			} else {
				ok = exists && e.ModifyIndex == cas
			}
		}
		if ok {
			c.put(key, body, flags)
		}
		op.OK = ok
		setIdx()
		if ok {
			io.WriteString(w, "true")
		} else {
			io.WriteString(w, "false")
		}
	case http.MethodDelete:
		ok := true
		if _, recurse := q["recurse"]; recurse {
			for k := range c.kv {
				if strings.HasPrefix(k, key) {
					delete(c.kv, k)
				}
			}
			c.index++
		} else if casS, has := q["cas"]; has {
			cas, _ := strconv.ParseUint(casS[0], 10, 64)
			e, exists := c.kv[key]
			ok = exists && (cas == 0 || e.ModifyIndex == cas)
			if ok {
				delete(c.kv, key)
				c.index++
			}
		} else if _, exists := c.kv[key]; exists {
			delete(c.kv, key)
			c.index++
		}
		op.OK = ok
		setIdx()
		if ok {
			io.WriteString(w, "true")
		} else {
			io.WriteString(w, "false")
		}
	default:
		w.WriteHeader(http.StatusMethodNotAllowed)
	}
}
