package sim

import (
	"encoding/json"
	"errors"
	"fmt"
	"net/http"
	"time"

	"github.com/AliceO2Group/Control/common/controlmode"
	"github.com/AliceO2Group/Control/common/event"
	"github.com/AliceO2Group/Control/core/controlcommands"
	pb "github.com/AliceO2Group/Control/executor/protos"
	mesos "github.com/mesos/mesos-go/api/v1/lib"
	"github.com/mesos/mesos-go/api/v1/lib/scheduler"
	"github.com/rs/xid"
)

// The executor simulators speak the wire format of /repo/executor: commands
// arrive as JSON controlcommands.MesosCommand_Transition / _TriggerHook inside a
// Mesos MESSAGE, replies are JSON controlcommands.MesosCommandResponse_* (built
// with the repository's own constructors), device events are
// common/event.DeviceEvent values, status updates carry SOURCE_EXECUTOR, a
// UUID and the environmentId label like executor.newStatus.

type rule struct {
	sel  Selector
	ev   string
	out  Outcome
	left int // remaining applications; -1 sticky
}

type gate struct {
	open    bool
	waiting []func()
}

// SetOutcome scripts the reaction of the tasks matched by sel to `event`
// (a transition event name, EvAny, EvLaunch, EvKill or EvHook). Later rules
// take precedence over earlier ones; exhausted rules (Times) are skipped.
func (m *Master) SetOutcome(sel Selector, event string, out Outcome) {
	m.mu.Lock()
	defer m.mu.Unlock()
	left := -1
	if out.Times > 0 {
		left = out.Times
	}
	m.rules = append(m.rules, &rule{sel: sel, ev: event, out: out, left: left})
}

// ClearOutcomes removes every scripted outcome (all tasks behave OK).
func (m *Master) ClearOutcomes() {
	m.mu.Lock()
	defer m.mu.Unlock()
	m.rules = nil
}

// Release opens a gate: reactions held by Outcome.Gate == name run now (in
// the order they arrived), later ones are not held any more.
func (m *Master) Release(name string) {
	m.mu.Lock()
	g := m.gates[name]
	if g == nil {
		g = &gate{}
		m.gates[name] = g
	}
	g.open = true
	w := g.waiting
	g.waiting = nil
	m.mu.Unlock()
	for _, f := range w {
		f()
	}
}

// Held returns the number of reactions currently parked at a gate.
func (m *Master) Held(name string) int {
	m.mu.Lock()
	defer m.mu.Unlock()
	if g := m.gates[name]; g != nil {
		return len(g.waiting)
	}
	return 0
}

func (m *Master) outcomeLocked(t *simTask, ev string) Outcome {
	for i := len(m.rules) - 1; i >= 0; i-- {
		r := m.rules[i]
		if r.left == 0 || !r.sel.matches(t) {
			continue
		}
		if r.ev == ev || (r.ev == EvAny && ev != EvLaunch && ev != EvKill && ev != EvHook) {
			if r.left > 0 {
				r.left--
			}
			return r.out
		}
	}
	return Outcome{Kind: OK}
}

// peekOutcomeLocked is outcomeLocked without consuming a `Times` rule.
func (m *Master) peekOutcomeLocked(t *simTask, ev string) Outcome {
	for i := len(m.rules) - 1; i >= 0; i-- {
		r := m.rules[i]
		if r.left == 0 || !r.sel.matches(t) {
			continue
		}
		if r.ev == ev || (r.ev == EvAny && ev != EvLaunch && ev != EvKill && ev != EvHook) {
			return r.out
		}
	}
	return Outcome{Kind: OK}
}

func decodeCommand(data []byte) *CommandInfo {
	var c struct {
		controlcommands.MesosCommand_Transition
	}
	if err := json.Unmarshal(data, &c); err != nil {
		return nil
	}
	ci := &CommandInfo{Name: c.Name, ID: c.Id.String(), EnvID: c.EnvironmentId.String(), Event: c.Event,
		Source: c.Source, Destination: c.Destination, Arguments: c.Arguments, TimeoutNs: int64(c.ResponseTimeout)}
	if len(c.TargetList) == 1 {
		ci.TaskID = c.TargetList[0].TaskId.Value
	}
	return ci
}

// messageLocked handles a framework→executor MESSAGE call.
func (m *Master) messageLocked(msg *scheduler.Call_Message, rec *Record) (int, []func()) {
	data := msg.GetData()
	ci := rec.Cmd
	ex := m.execs[msg.GetAgentID().Value+"/"+msg.GetExecutorID().Value]
	if ci == nil || ci.TaskID == "" || ex == nil || !ex.alive {
		// unknown/dead executor or undecodable payload: a real master/agent drops the message
		rec.MsgDetail = "dropped: no such executor or bad payload"
		return http.StatusAccepted, nil
	}
	t := m.tasks[ci.TaskID]
	if t == nil || t.terminal || t.execID != ex.id || t.state != mesos.TASK_RUNNING {
		// executor.handleMessageEvent: "no active task" → error logged, no reply
		rec.MsgDetail = "dropped: no active task " + ci.TaskID
		return http.StatusAccepted, nil
	}
	evName := ci.Event
	if ci.Name == "MesosCommand_TriggerHook" {
		evName = EvHook
	}
	// Undeliverable is decided here because it changes the HTTP answer.
	// Peek without consuming: consume through outcomeLocked only once.
	out := m.outcomeLocked(t, evName)
	if out.Kind == Undeliverable {
		rec.MsgDetail = "scripted undeliverable"
		return http.StatusServiceUnavailable, nil
	}
	t.commands++
	payload := append([]byte(nil), data...)
	return http.StatusAccepted, []func(){func() { m.react(t, evName, &delivered{data: payload, ci: ci, out: &out}) }}
}

type delivered struct {
	data []byte
	ci   *CommandInfo
	out  *Outcome // already selected (so a Times rule is consumed once)
}

// react runs the scripted reaction of task t to ev (after gate and delay).
func (m *Master) react(t *simTask, ev string, d *delivered) {
	m.mu.Lock()
	var out Outcome
	if d != nil && d.out != nil {
		out = *d.out
	} else {
		out = m.outcomeLocked(t, ev)
	}
	run := func() {
		if out.Delay > 0 {
			time.AfterFunc(out.Delay, func() { m.perform(t, ev, d, out) })
		} else {
			m.perform(t, ev, d, out)
		}
	}
	if out.Gate != "" {
		g := m.gates[out.Gate]
		if g == nil {
			g = &gate{}
			m.gates[out.Gate] = g
		}
		if !g.open {
			g.waiting = append(g.waiting, run)
			m.changedLocked()
			m.mu.Unlock()
			return
		}
	}
	m.mu.Unlock()
	run()
}

func (m *Master) perform(t *simTask, ev string, d *delivered, out Outcome) {
	m.mu.Lock()
	defer m.mu.Unlock()
	if t.terminal {
		return
	}
	die := func() {
		st := out.MesosState
		if st == mesos.TASK_STARTING { // zero value = unset
			st = mesos.TASK_FAILED
		}
		m.updateLocked(t, st, mesos.SOURCE_EXECUTOR, nil, "simulated task death")
	}
	switch ev {
	case EvLaunch:
		switch out.Kind {
		case Silent:
		case Die, FailStay, FailError:
			die()
		default:
			m.updateLocked(t, mesos.TASK_RUNNING, mesos.SOURCE_EXECUTOR, nil, "")
			if t.mode == controlmode.DIRECT || t.mode == controlmode.FAIRMQ {
				// executable.ControllableTask announces the PID right after TASK_RUNNING
				pid := event.NewAnnounceTaskPIDEvent(t.id, int32(10000+len(m.order)))
				if b, err := json.Marshal(pid); err == nil {
					m.emitMessageLocked(t, b, "AnnounceTaskPIDEvent", "")
				}
			}
		}
	case EvKill:
		switch out.Kind {
		case Silent:
		default:
			st := out.MesosState
			if st == mesos.TASK_STARTING { // zero value = unset
				// basic/hook tasks answer Kill with TASK_FINISHED, controllable ones with TASK_KILLED
				if t.mode == controlmode.BASIC || t.mode == controlmode.HOOK {
					st = mesos.TASK_FINISHED
				} else {
					st = mesos.TASK_KILLED
				}
				if t.state == mesos.TASK_STAGING {
					st = mesos.TASK_KILLED
				}
			}
			m.updateLocked(t, st, mesos.SOURCE_EXECUTOR, nil, "")
		}
	case EvHook:
		var cmd controlcommands.MesosCommand_TriggerHook
		if err := json.Unmarshal(d.data, &cmd); err != nil {
			return
		}
		var rerr error
		switch out.Kind {
		case Silent:
			return
		case Die:
			die()
			return
		case FailStay, FailError:
			rerr = errors.New(orDefault(out.Error, "simulated hook start failure"))
		}
		resp := controlcommands.NewMesosCommandResponse_TriggerHook(&cmd, rerr, t.id)
		if out.Kind == ForeignID {
			resp.CommandId = xid.New()
		}
		b, _ := json.Marshal(resp)
		detail := fmt.Sprintf("MesosCommand_TriggerHook id=%s err=%q", resp.CommandId, resp.ErrorString)
		m.emitMessageLocked(t, b, "MesosCommandResponse", detail)
		if out.Kind == Duplicate {
			m.emitMessageLocked(t, b, "MesosCommandResponse", detail+" (duplicate)")
		}
		if rerr == nil {
			// the hook's process ends: BASIC_TASK_TERMINATED with its exit code
			m.deviceEventLocked(t, pb.DeviceEventType_BASIC_TASK_TERMINATED, out.ExitCode, true, finalFor(out.ExitCode))
		}
	default: // a transition
		var cmd controlcommands.MesosCommand_Transition
		if err := json.Unmarshal(d.data, &cmd); err != nil {
			return
		}
		var rerr error
		state := cmd.Destination
		switch out.Kind {
		case Silent:
			return
		case Die:
			die()
			return
		case FailStay:
			rerr = errors.New(orDefault(out.Error, "simulated transition failure"))
			state = t.fsm
		case FailError:
			rerr = errors.New(orDefault(out.Error, "simulated transition failure"))
			state = "ERROR"
		}
		prev := t.fsm
		t.fsm = state
		resp := controlcommands.NewMesosCommandResponse_Transition(&cmd, rerr, state, t.id)
		if out.Kind == ForeignID {
			resp.CommandId = xid.New()
		}
		b, _ := json.Marshal(resp)
		detail := fmt.Sprintf("MesosCommand_Transition %s id=%s state=%s err=%q", cmd.Event, resp.CommandId, state, resp.ErrorString)
		m.emitMessageLocked(t, b, "MesosCommandResponse", detail)
		if out.Kind == Duplicate {
			m.emitMessageLocked(t, b, "MesosCommandResponse", detail+" (duplicate)")
		}
		// a basic task's process is killed by STOP: the executor then reports its termination
		if t.mode == controlmode.BASIC && rerr == nil && cmd.Event == "STOP" && prev == "RUNNING" {
			m.deviceEventLocked(t, pb.DeviceEventType_BASIC_TASK_TERMINATED, -1, false, mesos.TASK_KILLED)
		}
	}
}

func orDefault(s, d string) string {
	if s == "" {
		return d
	}
	return s
}

func finalFor(exit int) mesos.TaskState {
	if exit == 0 {
		return mesos.TASK_FINISHED
	}
	return mesos.TASK_FAILED
}

func (m *Master) emitMessageLocked(t *simTask, data []byte, msgType, detail string) {
	m.emitLocked(&scheduler.Event{Type: scheduler.Event_MESSAGE, Message: &scheduler.Event_Message{
		AgentID: mesos.AgentID{Value: t.agentID}, ExecutorID: mesos.ExecutorID{Value: t.execID}, Data: data}},
		Record{Type: "MESSAGE", TaskIDs: []string{t.id}, AgentID: t.agentID, ExecutorID: t.execID, MsgType: msgType, MsgDetail: detail})
}

func (m *Master) deviceEventLocked(t *simTask, typ pb.DeviceEventType, exit int, voluntary bool, final mesos.TaskState) {
	origin := event.DeviceEventOrigin{AgentId: mesos.AgentID{Value: t.agentID}, ExecutorId: mesos.ExecutorID{Value: t.execID}, TaskId: mesos.TaskID{Value: t.id}}
	de := event.NewDeviceEvent(origin, typ)
	if de == nil {
		return
	}
	de.SetLabels(map[string]string{"environmentId": t.envID})
	if btt, ok := de.(*event.BasicTaskTerminated); ok {
		btt.ExitCode = exit
		btt.VoluntaryTermination = voluntary
		btt.FinalMesosState = final
	}
	b, err := json.Marshal(de)
	if err != nil {
		return
	}
	m.emitMessageLocked(t, b, "DeviceEvent", fmt.Sprintf("%s exit=%d", typ.String(), exit))
}

// ---- injections ----------------------------------------------------------------------

// InjectStatus makes the task's executor report a status update (terminal
// states end the simulated task).
func (m *Master) InjectStatus(taskID string, st mesos.TaskState, msg string) error {
	m.mu.Lock()
	defer m.mu.Unlock()
	t := m.tasks[taskID]
	if t == nil {
		return fmt.Errorf("sim: no task %s", taskID)
	}
	m.updateLocked(t, st, mesos.SOURCE_EXECUTOR, nil, msg)
	return nil
}

// InjectDeviceEvent makes the task's executor send a device event
// (END_OF_STREAM, TASK_INTERNAL_ERROR, BASIC_TASK_TERMINATED with exit code).
// TASK_INTERNAL_ERROR also moves the simulated process to ERROR.
func (m *Master) InjectDeviceEvent(taskID string, typ pb.DeviceEventType, exitCode int) error {
	m.mu.Lock()
	defer m.mu.Unlock()
	t := m.tasks[taskID]
	if t == nil {
		return fmt.Errorf("sim: no task %s", taskID)
	}
	if typ == pb.DeviceEventType_TASK_INTERNAL_ERROR {
		t.fsm = "ERROR"
	}
	m.deviceEventLocked(t, typ, exitCode, true, finalFor(exitCode))
	return nil
}

// InjectExecutorFailure emits FAILURE{agent, executor, status}. With
// withUpdates the executor's live tasks first get TASK_FAILED
// (REASON_EXECUTOR_TERMINATED, SOURCE_AGENT) as a real agent reports them.
func (m *Master) InjectExecutorFailure(agentID, executorID string, status int32, withUpdates bool) {
	m.mu.Lock()
	defer m.mu.Unlock()
	if ex := m.execs[agentID+"/"+executorID]; ex != nil {
		ex.alive = false
	}
	for _, id := range m.order {
		t := m.tasks[id]
		if t.agentID == agentID && t.execID == executorID && !t.terminal {
			if withUpdates {
				r := mesos.REASON_EXECUTOR_TERMINATED
				m.updateLocked(t, mesos.TASK_FAILED, mesos.SOURCE_AGENT, &r, "Executor terminated")
			} else {
				t.terminal, t.state, t.fsm = true, mesos.TASK_FAILED, "DONE"
			}
		}
	}
	m.emitLocked(&scheduler.Event{Type: scheduler.Event_FAILURE, Failure: &scheduler.Event_Failure{
		AgentID: &mesos.AgentID{Value: agentID}, ExecutorID: &mesos.ExecutorID{Value: executorID}, Status: &status}},
		Record{Type: "FAILURE", AgentID: agentID, ExecutorID: executorID})
}

// InjectAgentFailure emits FAILURE{agent} and marks the agent down. With
// withUpdates its live tasks first get TASK_LOST (REASON_AGENT_REMOVED, SOURCE_MASTER).
func (m *Master) InjectAgentFailure(agentID string, withUpdates bool) {
	m.mu.Lock()
	defer m.mu.Unlock()
	if a := m.agentByID(agentID); a != nil {
		a.Down = true
	}
	for id, o := range m.offers {
		if o.agent.ID == agentID {
			delete(m.offers, id)
		}
	}
	for _, ex := range m.execs {
		if ex.agentID == agentID {
			ex.alive = false
		}
	}
	for _, id := range m.order {
		t := m.tasks[id]
		if t.agentID == agentID && !t.terminal {
			if withUpdates {
				r := mesos.REASON_AGENT_REMOVED
				m.updateLocked(t, mesos.TASK_LOST, mesos.SOURCE_MASTER, &r, "Agent removed")
			} else {
				t.terminal, t.state, t.fsm = true, mesos.TASK_LOST, "DONE"
			}
		}
	}
	m.emitLocked(&scheduler.Event{Type: scheduler.Event_FAILURE, Failure: &scheduler.Event_Failure{
		AgentID: &mesos.AgentID{Value: agentID}}}, Record{Type: "FAILURE", AgentID: agentID})
}

// InjectMessage sends raw bytes as an executor→framework MESSAGE.
func (m *Master) InjectMessage(agentID, executorID string, data []byte) {
	m.mu.Lock()
	defer m.mu.Unlock()
	m.emitLocked(&scheduler.Event{Type: scheduler.Event_MESSAGE, Message: &scheduler.Event_Message{
		AgentID: mesos.AgentID{Value: agentID}, ExecutorID: mesos.ExecutorID{Value: executorID}, Data: data}},
		Record{Type: "MESSAGE", AgentID: agentID, ExecutorID: executorID, MsgType: "raw"})
}
