package sim

import (
	"net/http"

	"github.com/mesos/mesos-go/api/v1/lib/scheduler"
)

// Calls "in flight" (added for C18; nothing is held unless HoldCalls was used).
//
// A real master answers a scheduler call after an HTTP round trip of its own
// (up to the core's mesosApiTimeout); the goroutine of the core that made the
// call is parked in it meanwhile, and everything the core does concurrently runs
// inside that window. HoldCalls makes the window as long as a script needs: the
// call is accepted and recorded as usual (Seq order = arrival order), its HTTP
// answer — and the reactions that follow the answer — are kept back until
// Release(gate). Other calls are served normally.

type callHold struct {
	typ   string          // Record.Type: "KILL", "ACCEPT", …
	tasks map[string]bool // empty: every call of the type
	gate  string
}

// HoldCalls keeps back the HTTP answer of every later call of type callType
// (Record.Type, e.g. "KILL") that names one of taskIDs (none given: any call of
// the type) until Release(gate); once the gate is open nothing is held any more.
func (m *Master) HoldCalls(callType, gateName string, taskIDs ...string) {
	m.mu.Lock()
	defer m.mu.Unlock()
	h := &callHold{typ: callType, gate: gateName, tasks: map[string]bool{}}
	for _, id := range taskIDs {
		h.tasks[id] = true
	}
	m.holds = append(m.holds, h)
	if m.gates[gateName] == nil {
		m.gates[gateName] = &gate{}
	}
}

// holdCall parks the handler of an accepted call while a hold applies to it.
func (m *Master) holdCall(call *scheduler.Call, r *http.Request) {
	m.mu.Lock()
	if len(m.holds) == 0 {
		m.mu.Unlock()
		return
	}
	rec := Record{}
	m.fillRecord(&rec, call)
	var ch chan struct{}
	for _, h := range m.holds {
		if h.typ != call.Type.String() {
			continue
		}
		hit := len(h.tasks) == 0
		for _, id := range rec.TaskIDs {
			hit = hit || h.tasks[id]
		}
		g := m.gates[h.gate]
		if !hit || g == nil || g.open {
			continue
		}
		ch = make(chan struct{})
		c := ch
		g.waiting = append(g.waiting, func() { close(c) })
		m.changedLocked()
		break
	}
	m.mu.Unlock()
	if ch != nil {
		select {
		case <-ch:
		case <-r.Context().Done(): // the caller gave up (timeout, process gone)
		}
	}
}
