package sim

import (
	mesos "github.com/mesos/mesos-go/api/v1/lib"
	"github.com/mesos/mesos-go/api/v1/lib/scheduler"
)

// InjectUpdate writes an UPDATE event carrying exactly the given status to the
// subscription stream, without looking at or touching the task table (added for
// C18: a reconciliation answer about a task nobody knows is a deterministic
// barrier — the core's KILL for it proves every earlier update was handled).
// Nothing is remembered for re-sending; a status with a UUID is acknowledged by
// the core as usual and the ACKNOWLEDGE is simply recorded.
func (m *Master) InjectUpdate(s mesos.TaskStatus, note string) {
	m.mu.Lock()
	defer m.mu.Unlock()
	m.emitLocked(&scheduler.Event{Type: scheduler.Event_UPDATE, Update: &scheduler.Event_Update{Status: s}},
		Record{Type: "UPDATE", TaskIDs: []string{s.TaskID.Value}, State: s.GetState().String(), Reason: reasonOf(&s),
			Source: s.GetSource().String(), AgentID: s.GetAgentID().GetValue(), ExecutorID: s.GetExecutorID().GetValue(),
			MsgDetail: note})
}
