package sim

import (
	"encoding/json"
	"fmt"
	"io"
	"net"
	"net/http"
	"sort"
	"strings"
	"sync"
	"time"

	"github.com/AliceO2Group/Control/common"
	"github.com/AliceO2Group/Control/common/controlmode"
	"github.com/AliceO2Group/Control/common/utils"
	mesos "github.com/mesos/mesos-go/api/v1/lib"
	"github.com/mesos/mesos-go/api/v1/lib/recordio"
	"github.com/mesos/mesos-go/api/v1/lib/resources"
	"github.com/mesos/mesos-go/api/v1/lib/scheduler"
	"github.com/pborman/uuid"
)

// MasterConfig tunes the Mesos master simulator.
type MasterConfig struct {
	// OffersOnSubscribe: send one OFFERS event (one offer per agent with free
	// resources) right after SUBSCRIBED, as a real master does. Default true.
	OffersOnSubscribe *bool
	// HeartbeatInterval announced in SUBSCRIBED and used for HEARTBEAT events
	// (not recorded in the trace). Default 15s, as Mesos.
	HeartbeatInterval time.Duration
	// ReconcileSilent: record RECONCILE calls but do not answer them.
	ReconcileSilent bool
	// NoOffers: never send offers by itself (SUBSCRIBE/REVIVE); use World.SendOffers.
	NoOffers bool
}

// Master simulates the scheduler endpoint of a Mesos master (HTTP v1
// /api/v1/scheduler, protobuf bodies, RecordIO-framed event stream) together
// with its agents, executors and tasks.
type Master struct {
	mu  sync.Mutex
	chg chan struct{} // closed and replaced on every change (wait support)
	cfg MasterConfig

	lis net.Listener
	srv *http.Server

	seq   int
	epoch int
	trace []Record

	fwID      string
	fwCounter int

	agents  []*Agent
	offers  map[string]*liveOffer
	offerN  int
	tasks   map[string]*simTask
	order   []string // task ids in launch order
	execs   map[string]*simExec
	stream  *stream
	streamN int

	suppressed bool
	reconAs    map[string]mesos.TaskState // per-task override of the reconciliation answer
	rules      []*rule
	gates      map[string]*gate
	unacked    []*pendingUpdate
	holds      []*callHold // see hold_call.go (empty unless HoldCalls was used)
}

type liveOffer struct {
	id    string
	agent *Agent
	res   mesos.Resources
}

type simExec struct {
	agentID, id string
	alive       bool
	info        *mesos.ExecutorInfo
}

type simTask struct {
	id, name, class, agentID, host, execID, envID, fwID string
	mode                                                controlmode.ControlMode
	info                                                mesos.TaskInfo
	state                                               mesos.TaskState
	fsm                                                 string
	terminal                                            bool
	kills, commands                                     int
	refusedKills                                        int // KILL calls naming it that the master answered with an error (scripted)
	launchSeq, epoch                                    int
}

type pendingUpdate struct {
	uuid   string
	status mesos.TaskStatus
}

type stream struct {
	id     string
	q      []*scheduler.Event
	wake   chan struct{}
	closed chan struct{} // closed by the master to drop the stream
	abrupt bool
	gone   bool
}

func newMaster(cfg MasterConfig) (*Master, error) {
	if cfg.HeartbeatInterval <= 0 {
		cfg.HeartbeatInterval = 15 * time.Second
	}
	m := &Master{
		cfg:    cfg,
		chg:    make(chan struct{}),
		offers: map[string]*liveOffer{},
		tasks:  map[string]*simTask{},
		execs:  map[string]*simExec{},
		gates:  map[string]*gate{},
	}
	lis, err := net.Listen("tcp4", "127.0.0.1:0")
	if err != nil {
		return nil, err
	}
	m.lis = lis
	mux := http.NewServeMux()
	mux.HandleFunc("/api/v1/scheduler", m.handle)
	m.srv = &http.Server{Handler: mux}
	go m.srv.Serve(lis)
	return m, nil
}

// URL is the value for the core's --mesosUrl.
func (m *Master) URL() string { return "http://" + m.lis.Addr().String() + "/api/v1/scheduler" }

func (m *Master) close() {
	m.mu.Lock()
	m.dropStreamLocked(true)
	m.mu.Unlock()
	m.srv.Close()
}

func (m *Master) changedLocked() {
	close(m.chg)
	m.chg = make(chan struct{})
}

func (m *Master) setEpoch(e int) {
	m.mu.Lock()
	m.epoch = e
	m.mu.Unlock()
}

// ---- trace -----------------------------------------------------------------------

func (m *Master) recordLocked(r Record) *Record {
	m.seq++
	r.Seq = m.seq
	r.Epoch = m.epoch
	r.When = time.Now()
	m.trace = append(m.trace, r)
	m.changedLocked()
	return &m.trace[len(m.trace)-1]
}

// Trace returns a copy of the whole trace (calls and events, Seq order).
func (m *Master) Trace() []Record {
	m.mu.Lock()
	defer m.mu.Unlock()
	return append([]Record(nil), m.trace...)
}

// Unacked is the number of status updates (with UUID) the framework has not acknowledged yet
// (the master re-sends them after the next SUBSCRIBE).
func (m *Master) Unacked() int {
	m.mu.Lock()
	defer m.mu.Unlock()
	return len(m.unacked)
}

// Tasks returns the task table in launch order.
func (m *Master) Tasks() []TaskRecord {
	m.mu.Lock()
	defer m.mu.Unlock()
	return m.tasksLocked()
}

func (m *Master) tasksLocked() []TaskRecord {
	out := make([]TaskRecord, 0, len(m.order))
	for _, id := range m.order {
		t := m.tasks[id]
		info := t.info
		out = append(out, TaskRecord{TaskID: t.id, Name: t.name, Class: t.class, AgentID: t.agentID, Host: t.host,
			ExecutorID: t.execID, EnvID: t.envID, ControlMode: t.mode.String(), MesosState: t.state.String(),
			Terminal: t.terminal, FSM: t.fsm, Kills: t.kills, RefusedKills: t.refusedKills, Commands: t.commands, LaunchSeq: t.launchSeq,
			Epoch: t.epoch, FrameworkID: t.fwID, Info: &info})
	}
	return out
}

// View is what a wait predicate sees.
type View struct {
	Trace      []Record
	Tasks      []TaskRecord
	Subscribed bool
}

// Wait blocks until pred holds on the master's state, re-evaluating after
// every change. The ceiling is a harness deadline: reaching it is an InfraError.
// pred runs under the master's lock: it must only look at the View.
func (m *Master) Wait(what string, ceiling time.Duration, pred func(v *View) bool) error {
	timer := time.NewTimer(ceiling)
	defer timer.Stop()
	for {
		m.mu.Lock()
		v := &View{Trace: m.trace, Tasks: m.tasksLocked(), Subscribed: m.stream != nil}
		ok := pred(v)
		ch := m.chg
		m.mu.Unlock()
		if ok {
			return nil
		}
		select {
		case <-ch:
		case <-timer.C:
			return infra("wait ceiling reached: "+what, nil)
		}
	}
}

// ---- agents and offers -------------------------------------------------------------

func (m *Master) addAgent(a *Agent) {
	m.mu.Lock()
	defer m.mu.Unlock()
	m.agents = append(m.agents, a)
	m.changedLocked()
}

func (m *Master) agentByID(id string) *Agent {
	for _, a := range m.agents {
		if a.ID == id {
			return a
		}
	}
	return nil
}

func agentTotal(a *Agent) mesos.Resources {
	var r mesos.Resources
	r.Add1(resources.NewCPUs(a.CPUs).Resource)
	r.Add1(resources.NewMemory(a.Mem).Resource)
	rb := resources.BuildRanges()
	for _, p := range a.Ports {
		rb = rb.Span(p[0], p[1])
	}
	r.Add1(resources.Build().Name(resources.NamePorts).Ranges(rb.Ranges.Sort().Squash()).Resource)
	return r
}

func (m *Master) freeLocked(a *Agent) mesos.Resources {
	free := agentTotal(a)
	for _, id := range m.order {
		t := m.tasks[id]
		if t.agentID == a.ID && !t.terminal {
			free.Subtract(t.info.Resources...)
		}
	}
	return free
}

// sendOffersLocked emits one OFFERS event with an offer for every agent that is
// up, has no outstanding offer and has cpus left. Returns the number of offers.
func (m *Master) sendOffersLocked() int {
	if m.stream == nil {
		return 0
	}
	var offs []mesos.Offer
	var ids, hosts []string
	for _, a := range m.agents {
		if m.offerWithheld(a) { // offer_withhold.go: nothing is withheld unless WithholdOffers was used
			continue
		}
		if a.Down {
			continue
		}
		outstanding := false
		for _, o := range m.offers {
			if o.agent == a {
				outstanding = true
			}
		}
		if outstanding {
			continue
		}
		free := m.freeLocked(a)
		if cpus, ok := resources.CPUs(free...); !ok || cpus <= 0 {
			continue
		}
		m.offerN++
		o := &liveOffer{id: fmt.Sprintf("offer-%d", m.offerN), agent: a, res: free}
		m.offers[o.id] = o
		mo := mesos.Offer{
			ID:          mesos.OfferID{Value: o.id},
			FrameworkID: mesos.FrameworkID{Value: m.fwID},
			AgentID:     mesos.AgentID{Value: a.ID},
			Hostname:    a.Hostname,
			Resources:   free.Clone(),
		}
		keys := make([]string, 0, len(a.Attrs))
		for k := range a.Attrs {
			keys = append(keys, k)
		}
		sort.Strings(keys)
		for _, k := range keys {
			mo.Attributes = append(mo.Attributes, mesos.Attribute{Name: k, Type: mesos.TEXT, Text: &mesos.Value_Text{Value: a.Attrs[k]}})
		}
		var exs []string
		for _, e := range m.execs {
			if e.agentID == a.ID && e.alive {
				exs = append(exs, e.id)
			}
		}
		sort.Strings(exs)
		for _, e := range exs {
			mo.ExecutorIDs = append(mo.ExecutorIDs, mesos.ExecutorID{Value: e})
		}
		m.scrubOffer(a, &mo) // offer_nohostname.go: every offer is complete unless BlankOfferHostname was used
		offs = append(offs, mo)
		ids = append(ids, o.id)
		hosts = append(hosts, a.Hostname)
	}
	if len(offs) == 0 {
		return 0
	}
	ev := &scheduler.Event{Type: scheduler.Event_OFFERS, Offers: &scheduler.Event_Offers{Offers: offs}}
	m.emitLocked(ev, Record{Type: "OFFERS", OfferIDs: ids, Hosts: hosts})
	return len(offs)
}

// ---- event stream ------------------------------------------------------------------

func (m *Master) emitLocked(ev *scheduler.Event, rec Record) {
	rec.Dir = "event"
	rec.Event = ev
	if m.stream != nil {
		rec.Delivered = true
		rec.StreamID = m.stream.id
		m.stream.q = append(m.stream.q, ev)
		select {
		case m.stream.wake <- struct{}{}:
		default:
		}
	}
	m.recordLocked(rec)
}

func (m *Master) dropStreamLocked(abrupt bool) {
	if m.stream == nil {
		return
	}
	m.stream.abrupt = abrupt
	m.stream.gone = true
	close(m.stream.closed)
	m.stream = nil
	// outstanding offers are rescinded when the framework disconnects
	m.offers = map[string]*liveOffer{}
	m.changedLocked()
}

func (m *Master) handle(w http.ResponseWriter, r *http.Request) {
	body, err := io.ReadAll(r.Body)
	if err != nil {
		http.Error(w, err.Error(), http.StatusBadRequest)
		return
	}
	var call scheduler.Call
	if err = call.Unmarshal(body); err != nil {
		http.Error(w, "malformed call: "+err.Error(), http.StatusBadRequest)
		return
	}
	if call.Type == scheduler.Call_SUBSCRIBE {
		m.subscribe(w, r, &call)
		return
	}
	status, after := m.dispatch(&call, r.Header.Get("Mesos-Stream-Id"))
	if status == http.StatusAccepted {
		m.holdCall(&call, r) // returns at once unless HoldCalls asked for calls like this one to be kept in flight
	}
	if status != http.StatusAccepted {
		http.Error(w, "simulated master: call refused", status)
	} else {
		w.WriteHeader(status)
	}
	if f, ok := w.(http.Flusher); ok {
		f.Flush()
	}
	// reactions (status updates, replies) follow the 202, as with a real master
	for _, f := range after {
		f()
	}
}

func (m *Master) subscribe(w http.ResponseWriter, r *http.Request, call *scheduler.Call) {
	fl, ok := w.(http.Flusher)
	if !ok {
		http.Error(w, "no flusher", 500)
		return
	}
	m.mu.Lock()
	// a new subscription for the framework closes the previous one
	m.dropStreamLocked(false)
	m.streamN++
	st := &stream{id: fmt.Sprintf("stream-%d", m.streamN), wake: make(chan struct{}, 1), closed: make(chan struct{})}
	fwid := call.GetFrameworkID().GetValue()
	if fwid == "" {
		fwid = call.GetSubscribe().GetFrameworkInfo().GetID().GetValue()
	}
	if fwid == "" {
		m.fwCounter++
		fwid = fmt.Sprintf("sim-framework-%04d", m.fwCounter)
	}
	m.fwID = fwid
	m.suppressed = false
	m.recordLocked(Record{Dir: "call", Type: "SUBSCRIBE", StreamID: st.id, HTTP: 200, Call: call,
		MsgDetail: "framework_id=" + call.GetSubscribe().GetFrameworkInfo().GetID().GetValue()})
	m.stream = st
	hb := m.cfg.HeartbeatInterval.Seconds()
	m.emitLocked(&scheduler.Event{Type: scheduler.Event_SUBSCRIBED, Subscribed: &scheduler.Event_Subscribed{
		FrameworkID: &mesos.FrameworkID{Value: fwid}, HeartbeatIntervalSeconds: &hb}},
		Record{Type: "SUBSCRIBED", MsgDetail: "framework_id=" + fwid})
	// status updates never acknowledged are sent again
	for _, pu := range m.unacked {
		s := pu.status
		m.emitLocked(&scheduler.Event{Type: scheduler.Event_UPDATE, Update: &scheduler.Event_Update{Status: s}},
			Record{Type: "UPDATE", TaskIDs: []string{s.TaskID.Value}, State: s.GetState().String(), Reason: reasonOf(&s),
				Source: s.GetSource().String(), AgentID: s.GetAgentID().GetValue(), ExecutorID: s.GetExecutorID().GetValue(), MsgDetail: "resent (unacknowledged)"})
	}
	if (m.cfg.OffersOnSubscribe == nil || *m.cfg.OffersOnSubscribe) && !m.cfg.NoOffers {
		m.sendOffersLocked()
	}
	m.mu.Unlock()

	w.Header().Set("Content-Type", "application/x-protobuf")
	w.Header().Set("Mesos-Stream-Id", st.id)
	w.WriteHeader(http.StatusOK)
	fl.Flush()
	rw := recordio.NewWriter(w)
	hbT := time.NewTicker(m.cfg.HeartbeatInterval)
	defer hbT.Stop()
	write := func(ev *scheduler.Event) bool {
		b, err := ev.Marshal()
		if err != nil {
			return false
		}
		if err = rw.WriteFrame(b); err != nil {
			return false
		}
		fl.Flush()
		return true
	}
	for {
		select {
		case <-st.wake:
			m.mu.Lock()
			q := st.q
			st.q = nil
			m.mu.Unlock()
			for _, ev := range q {
				if !write(ev) {
					m.clientGone(st)
					return
				}
			}
		case <-hbT.C:
			if !write(&scheduler.Event{Type: scheduler.Event_HEARTBEAT}) {
				m.clientGone(st)
				return
			}
		case <-st.closed:
			if st.abrupt {
				panic(http.ErrAbortHandler) // tear the connection down without a final chunk
			}
			return
		case <-r.Context().Done():
			m.clientGone(st)
			return
		}
	}
}

func (m *Master) clientGone(st *stream) {
	m.mu.Lock()
	defer m.mu.Unlock()
	if m.stream == st {
		m.stream = nil
		st.gone = true
		m.offers = map[string]*liveOffer{}
		m.recordLocked(Record{Dir: "note", Type: "DISCONNECTED", StreamID: st.id, MsgDetail: "scheduler closed the subscription connection"})
	}
}

// ---- calls -------------------------------------------------------------------------

func reasonOf(s *mesos.TaskStatus) string {
	if s.Reason == nil {
		return ""
	}
	return s.Reason.String()
}

// dispatch handles one non-SUBSCRIBE call under the lock and returns the HTTP
// status plus the reactions to run after the response was written.
func (m *Master) dispatch(call *scheduler.Call, streamID string) (int, []func()) {
	m.mu.Lock()
	defer m.mu.Unlock()
	rec := Record{Dir: "call", Type: call.Type.String(), StreamID: streamID, HTTP: http.StatusAccepted, Call: call}
	if m.stream == nil || streamID != m.stream.id {
		// real master: 403 "Framework is not subscribed" / 400 on a stale stream id
		rec.HTTP = http.StatusForbidden
		m.fillRecord(&rec, call)
		m.recordLocked(rec)
		return rec.HTTP, nil
	}
	var after []func()
	m.fillRecord(&rec, call)
	switch call.Type {
	case scheduler.Call_ACCEPT:
		r := m.recordLocked(rec)
		after = m.acceptLocked(call.GetAccept(), r)
		return http.StatusAccepted, after
	case scheduler.Call_DECLINE:
		for _, o := range call.GetDecline().GetOfferIDs() {
			delete(m.offers, o.Value)
		}
	case scheduler.Call_REVIVE:
		m.suppressed = false
		if !m.cfg.NoOffers {
			after = append(after, func() {
				m.mu.Lock()
				m.sendOffersLocked()
				m.mu.Unlock()
			})
		}
	case scheduler.Call_SUPPRESS:
		m.suppressed = true
	case scheduler.Call_KILL:
		status, a := m.killLocked(call.GetKill(), &rec)
		if status != http.StatusAccepted {
			// scripted refusal (Outcome Undeliverable for EvKill): the master answers the call itself with an error
			rec.HTTP = status
			m.recordLocked(rec)
			return status, nil
		}
		after = a
	case scheduler.Call_MESSAGE:
		status, a := m.messageLocked(call.GetMessage(), &rec)
		rec.HTTP = status
		m.recordLocked(rec)
		return status, a
	case scheduler.Call_ACKNOWLEDGE:
		u := string(call.GetAcknowledge().GetUUID())
		for i, pu := range m.unacked {
			if pu.uuid == u {
				m.unacked = append(m.unacked[:i], m.unacked[i+1:]...)
				break
			}
		}
	case scheduler.Call_RECONCILE:
		if !m.cfg.ReconcileSilent {
			tasks := call.GetReconcile().GetTasks()
			after = append(after, func() { m.reconcile(tasks) })
		}
	case scheduler.Call_TEARDOWN:
		after = append(after, func() {
			m.mu.Lock()
			for _, id := range m.order {
				if t := m.tasks[id]; !t.terminal && t.fwID == m.fwID {
					t.terminal = true
					t.state = mesos.TASK_KILLED
					t.fsm = "DONE"
				}
			}
			m.dropStreamLocked(false)
			m.mu.Unlock()
		})
	}
	m.recordLocked(rec)
	return http.StatusAccepted, after
}

func (m *Master) fillRecord(rec *Record, call *scheduler.Call) {
	switch call.Type {
	case scheduler.Call_ACCEPT:
		for _, o := range call.GetAccept().GetOfferIDs() {
			rec.OfferIDs = append(rec.OfferIDs, o.Value)
			if lo := m.offers[o.Value]; lo != nil {
				rec.Hosts = append(rec.Hosts, lo.agent.Hostname)
				rec.AgentID = lo.agent.ID
			}
		}
		for _, op := range call.GetAccept().GetOperations() {
			for _, ti := range op.GetLaunch().GetTaskInfos() {
				rec.TaskIDs = append(rec.TaskIDs, ti.TaskID.Value)
			}
		}
	case scheduler.Call_DECLINE:
		for _, o := range call.GetDecline().GetOfferIDs() {
			rec.OfferIDs = append(rec.OfferIDs, o.Value)
			if lo := m.offers[o.Value]; lo != nil {
				rec.Hosts = append(rec.Hosts, lo.agent.Hostname)
			}
		}
		sort.Strings(rec.OfferIDs)
	case scheduler.Call_KILL:
		rec.TaskIDs = []string{call.GetKill().GetTaskID().Value}
		rec.AgentID = call.GetKill().GetAgentID().GetValue()
	case scheduler.Call_ACKNOWLEDGE:
		rec.TaskIDs = []string{call.GetAcknowledge().GetTaskID().Value}
		rec.AgentID = call.GetAcknowledge().GetAgentID().Value
	case scheduler.Call_RECONCILE:
		for _, t := range call.GetReconcile().GetTasks() {
			rec.TaskIDs = append(rec.TaskIDs, t.TaskID.Value)
		}
	case scheduler.Call_MESSAGE:
		rec.AgentID = call.GetMessage().GetAgentID().Value
		rec.ExecutorID = call.GetMessage().GetExecutorID().Value
		rec.Cmd = decodeCommand(call.GetMessage().GetData())
		if rec.Cmd != nil && rec.Cmd.TaskID != "" {
			rec.TaskIDs = []string{rec.Cmd.TaskID}
		}
	}
}

func (m *Master) statusLocked(t *simTask, st mesos.TaskState, src mesos.TaskStatus_Source, reason *mesos.TaskStatus_Reason, msg string, withUUID bool) mesos.TaskStatus {
	now := float64(time.Now().UnixNano()) / 1e9
	s := mesos.TaskStatus{
		TaskID:    mesos.TaskID{Value: t.id},
		State:     &st,
		Source:    &src,
		Reason:    reason,
		AgentID:   &mesos.AgentID{Value: t.agentID},
		Timestamp: &now,
	}
	if msg != "" {
		s.Message = &msg
	}
	if t.execID != "" {
		s.ExecutorID = &mesos.ExecutorID{Value: t.execID}
	}
	if t.envID != "" {
		e := t.envID
		s.Labels = &mesos.Labels{Labels: []mesos.Label{{Key: "environmentId", Value: &e}}}
	}
	if withUUID {
		s.UUID = []byte(uuid.NewRandom())
	}
	return s
}

// updateLocked changes the task's Mesos state and emits the UPDATE.
func (m *Master) updateLocked(t *simTask, st mesos.TaskState, src mesos.TaskStatus_Source, reason *mesos.TaskStatus_Reason, msg string) {
	t.state = st
	switch st {
	case mesos.TASK_FINISHED, mesos.TASK_FAILED, mesos.TASK_KILLED, mesos.TASK_ERROR, mesos.TASK_LOST, mesos.TASK_DROPPED, mesos.TASK_GONE:
		t.terminal = true
		if t.fsm != "ERROR" {
			t.fsm = "DONE"
		}
	}
	s := m.statusLocked(t, st, src, reason, msg, true)
	m.unacked = append(m.unacked, &pendingUpdate{uuid: string(s.UUID), status: s})
	m.emitLocked(&scheduler.Event{Type: scheduler.Event_UPDATE, Update: &scheduler.Event_Update{Status: s}},
		Record{Type: "UPDATE", TaskIDs: []string{t.id}, State: st.String(), Reason: reasonOf(&s), Source: src.String(),
			AgentID: t.agentID, ExecutorID: t.execID})
}

func (m *Master) acceptLocked(acc *scheduler.Call_Accept, rec *Record) []func() {
	var after []func()
	var offered mesos.Resources
	var agent *Agent
	valid := true
	for _, oid := range acc.GetOfferIDs() {
		lo := m.offers[oid.Value]
		if lo == nil {
			valid = false
			continue
		}
		delete(m.offers, oid.Value)
		if agent != nil && agent != lo.agent {
			valid = false
		}
		agent = lo.agent
		offered.Add(lo.res...)
	}
	for _, op := range acc.GetOperations() {
		if op.Type != mesos.Offer_Operation_LAUNCH {
			continue
		}
		for _, ti := range op.GetLaunch().GetTaskInfos() {
			ti := ti
			t := m.newTask(&ti, rec.Seq)
			if old, dup := m.tasks[t.id]; dup {
				_ = old
				// duplicate id: TASK_ERROR for the new one, the old one is untouched
				r := mesos.REASON_TASK_INVALID
				ghost := *t
				after = append(after, func() {
					m.mu.Lock()
					s := m.statusLocked(&ghost, mesos.TASK_ERROR, mesos.SOURCE_MASTER, &r, "Task has duplicate ID", true)
					m.emitLocked(&scheduler.Event{Type: scheduler.Event_UPDATE, Update: &scheduler.Event_Update{Status: s}},
						Record{Type: "UPDATE", TaskIDs: []string{ghost.id}, State: "TASK_ERROR", Reason: r.String(), Source: "SOURCE_MASTER"})
					m.mu.Unlock()
				})
				continue
			}
			m.tasks[t.id] = t
			m.order = append(m.order, t.id)
			if !valid || agent == nil || agent.ID != t.agentID {
				r := mesos.REASON_INVALID_OFFERS
				after = append(after, func() {
					m.mu.Lock()
					m.updateLocked(t, mesos.TASK_LOST, mesos.SOURCE_MASTER, &r, "Task launched with invalid offers")
					m.mu.Unlock()
				})
				continue
			}
			need := mesos.Resources(ti.Resources).Clone()
			ek := t.agentID + "/" + t.execID
			ex := m.execs[ek]
			if (ex == nil || !ex.alive) && ti.Executor != nil {
				need.Add(ti.Executor.Resources...)
			}
			if !resources.ContainsAll(offered, need) {
				r := mesos.REASON_TASK_INVALID
				after = append(after, func() {
					m.mu.Lock()
					m.updateLocked(t, mesos.TASK_ERROR, mesos.SOURCE_MASTER, &r, "Task uses more resources than offered")
					m.mu.Unlock()
				})
				continue
			}
			offered.Subtract(need...)
			if ex == nil || !ex.alive {
				m.execs[ek] = &simExec{agentID: t.agentID, id: t.execID, alive: true, info: ti.Executor}
			}
			after = append(after, func() { m.react(t, EvLaunch, nil) })
		}
	}
	return after
}

func (m *Master) newTask(ti *mesos.TaskInfo, seq int) *simTask {
	t := &simTask{id: ti.TaskID.Value, name: ti.Name, agentID: ti.AgentID.Value, info: *ti, state: mesos.TASK_STAGING,
		fsm: "STANDBY", launchSeq: seq, epoch: m.epoch, fwID: m.fwID}
	if a := m.agentByID(t.agentID); a != nil {
		t.host = a.Hostname
	}
	if ti.Executor != nil {
		t.execID = ti.Executor.ExecutorID.Value
	}
	if c, err := utils.ExtractTaskClassName(ti.Name); err == nil {
		t.class = c
	} else if i := strings.LastIndex(ti.Name, "#"); i > 0 {
		t.class = ti.Name[:i]
	}
	for _, l := range ti.GetLabels().GetLabels() {
		if l.Key == "environmentId" && l.Value != nil {
			t.envID = *l.Value
		}
	}
	var tci common.TaskCommandInfo
	if err := json.Unmarshal(ti.Data, &tci); err == nil {
		t.mode = tci.ControlMode
	}
	return t
}

func (m *Master) killLocked(k *scheduler.Call_Kill, rec *Record) (int, []func()) {
	t := m.tasks[k.GetTaskID().Value]
	if t == nil || t.terminal {
		return http.StatusAccepted, nil // a real master only logs "cannot kill unknown task"
	}
	// Undeliverable for EvKill (nothing is refused unless a script asks for it): the master answers the KILL call
	// itself with HTTP 503 — a scheduler-API fault; the task learns nothing and keeps running. The rule is looked at
	// without being consumed; every other outcome is selected in react, as ever.
	if m.peekOutcomeLocked(t, EvKill).Kind == Undeliverable {
		m.outcomeLocked(t, EvKill) // consume (Times)
		t.refusedKills++
		rec.MsgDetail = "scripted refusal of the KILL call"
		return http.StatusServiceUnavailable, nil
	}
	t.kills++
	return http.StatusAccepted, []func(){func() { m.react(t, EvKill, nil) }}
}

func (m *Master) reconcile(explicit []scheduler.Call_Reconcile_Task) {
	m.mu.Lock()
	defer m.mu.Unlock()
	r := mesos.REASON_RECONCILIATION
	send := func(id, agentID string, st mesos.TaskState, t *simTask) {
		var s mesos.TaskStatus
		if t != nil {
			s = m.statusLocked(t, st, mesos.SOURCE_MASTER, &r, "Reconciliation: Latest task state", false)
			m.sparsifyReconcile(&s) // sparse_status.go: nothing is omitted unless SetReconcileOmit was used
		} else {
			src := mesos.SOURCE_MASTER
			msg := "Reconciliation: Task is unknown"
			s = mesos.TaskStatus{TaskID: mesos.TaskID{Value: id}, State: &st, Source: &src, Reason: &r, Message: &msg}
			if agentID != "" {
				s.AgentID = &mesos.AgentID{Value: agentID}
			}
		}
		m.emitLocked(&scheduler.Event{Type: scheduler.Event_UPDATE, Update: &scheduler.Event_Update{Status: s}},
			Record{Type: "UPDATE", TaskIDs: []string{id}, State: st.String(), Reason: r.String(), Source: "SOURCE_MASTER",
				AgentID: s.GetAgentID().GetValue(), ExecutorID: s.GetExecutorID().GetValue()})
	}
	stateOf := func(t *simTask) mesos.TaskState {
		if st, ok := m.reconAs[t.id]; ok {
			return st
		}
		return t.state
	}
	if len(explicit) == 0 {
		// implicit: latest state of every non-terminal task of the framework
		for _, id := range m.order {
			if m.hiddenFromReconcile(id) { // recon_view.go: nothing is hidden unless HideFromReconcile was used
				continue
			}
			if t := m.tasks[id]; !t.terminal && t.fwID == m.fwID {
				send(t.id, t.agentID, stateOf(t), t)
			}
		}
		return
	}
	for _, e := range explicit {
		if t := m.tasks[e.TaskID.Value]; t != nil && t.fwID == m.fwID {
			send(t.id, t.agentID, stateOf(t), t)
		} else {
			send(e.TaskID.Value, e.GetAgentID().GetValue(), mesos.TASK_LOST, nil)
		}
	}
}

// ---- harness-side controls ---------------------------------------------------------

// DropStream closes the event stream from the master's side (the core is
// expected to re-subscribe). abrupt=true resets the connection mid-stream,
// false ends the chunked response cleanly (EOF).
func (m *Master) DropStream(abrupt bool) {
	m.mu.Lock()
	defer m.mu.Unlock()
	if m.stream != nil {
		m.recordLocked(Record{Dir: "note", Type: "DROPSTREAM", StreamID: m.stream.id, MsgDetail: fmt.Sprintf("abrupt=%v", abrupt)})
	}
	m.dropStreamLocked(abrupt)
}

// SendOffers makes the master emit an OFFERS event now; returns the number of offers.
func (m *Master) SendOffers() int {
	m.mu.Lock()
	defer m.mu.Unlock()
	return m.sendOffersLocked()
}

// Subscribed reports whether a subscription stream is currently connected.
func (m *Master) Subscribed() bool {
	m.mu.Lock()
	defer m.mu.Unlock()
	return m.stream != nil
}

// FrameworkID is the id handed out in the last SUBSCRIBED.
func (m *Master) FrameworkID() string {
	m.mu.Lock()
	defer m.mu.Unlock()
	return m.fwID
}

// SetAgentDown marks an agent as gone (no more offers) or back.
func (m *Master) SetAgentDown(agentID string, down bool) {
	m.mu.Lock()
	defer m.mu.Unlock()
	if a := m.agentByID(agentID); a != nil {
		a.Down = down
		for id, o := range m.offers {
			if o.agent == a && down {
				delete(m.offers, id)
			}
		}
	}
}

// SetReconcileAnswer makes reconciliation report `st` for the task instead of
// its latest state (pass nil to remove the override).
func (m *Master) SetReconcileAnswer(taskID string, st *mesos.TaskState) {
	m.mu.Lock()
	defer m.mu.Unlock()
	if m.reconAs == nil {
		m.reconAs = map[string]mesos.TaskState{}
	}
	if st == nil {
		delete(m.reconAs, taskID)
	} else {
		m.reconAs[taskID] = *st
	}
}

// ForgetTerminalTasks drops terminal rows from the task table (between
// scenarios that share a World).
func (m *Master) ForgetTerminalTasks() {
	m.mu.Lock()
	defer m.mu.Unlock()
	var keep []string
	for _, id := range m.order {
		if m.tasks[id].terminal {
			delete(m.tasks, id)
		} else {
			keep = append(keep, id)
		}
	}
	m.order = keep
}
