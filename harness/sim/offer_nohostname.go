package sim

import (
	"sync"

	mesos "github.com/mesos/mesos-go/api/v1/lib"
)

// Offers whose placement data is incomplete (added for C06; every offer is complete unless BlankOfferHostname was used).
//
// mesos.Offer.Hostname is a plain string field: an offer that arrives without it (a master that does not know the
// agent's hostname yet, a field lost in a proxy / codec) decodes to the empty string without any error. The ids of an
// offer (offer id, agent id) cannot be empty in the same way: the master could not match the ACCEPT that follows to an
// agent. The core pre-matches offers on the attribute `machine_id` and on resources, never on the hostname, so it
// launches on such an offer like on any other; what it copies from the offer into its own task record
// (newTaskForMesosOffer: hostname, agentId, offerId) then lacks the hostname.
//
//	BlankOfferHostname("h2", true)
//
// from now on every OFFERS event the master emits carries, for the agent on host h2, an offer with an EMPTY hostname
// (everything else — ids, attributes, resources, executor ids — as ever); BlankOfferHostname("h2", false) restores it.
// The master's own bookkeeping (task table: TaskRecord.Host, trace: Record.Hosts) keeps the agent's real hostname: it is
// the master's knowledge, not what the framework was told.
//
// The state lives in a side table, not in Master, so that master.go only needs the one call in sendOffersLocked.

var offerNoHostname = struct {
	sync.Mutex
	hosts map[*Master]map[string]bool
}{hosts: map[*Master]map[string]bool{}}

// BlankOfferHostname switches the empty hostname in the offers for the agent on `host` on or off.
func (m *Master) BlankOfferHostname(host string, on bool) {
	offerNoHostname.Lock()
	defer offerNoHostname.Unlock()
	hs := offerNoHostname.hosts[m]
	if !on {
		delete(hs, host)
		if len(hs) == 0 {
			delete(offerNoHostname.hosts, m)
		}
		return
	}
	if hs == nil {
		hs = map[string]bool{}
		offerNoHostname.hosts[m] = hs
	}
	hs[host] = true
}

// BlankOfferHostnames lists the hosts whose offers carry no hostname at present.
func (m *Master) BlankOfferHostnames() []string {
	offerNoHostname.Lock()
	defer offerNoHostname.Unlock()
	var out []string
	for h := range offerNoHostname.hosts[m] {
		out = append(out, h)
	}
	return out
}

// scrubOffer is the call sendOffersLocked makes on every offer it has put together (with m.mu held; the side table has
// its own lock and is never held while m.mu is taken).
func (m *Master) scrubOffer(a *Agent, o *mesos.Offer) {
	offerNoHostname.Lock()
	defer offerNoHostname.Unlock()
	if offerNoHostname.hosts[m][a.Hostname] {
		o.Hostname = ""
	}
}
