package sim

import "sync"

// Offers that arrive late (added for C02; nothing is withheld unless WithholdOffers was used).
//
// A real master answers REVIVE with what its allocator has to give at that moment: an agent whose
// resources are still held by another framework's filter, that is re-registering, or whose offer is
// on its way back from a DECLINE, is simply missing from the next OFFERS event and turns up one or
// more rounds later ("the Mesos master has not been able to provide the resources we need in the
// offers round immediately after reviving", core/task/manager.go). WithholdOffers scripts exactly that:
//
//	WithholdOffers([][]string{{"h1"}, {"h1", "h2"}, {}})
//
// the next OFFERS event the master would emit (SUBSCRIBE, REVIVE, SendOffers) carries no offer for
// host h1, the one after it none for h1 and h2, the third one is complete again, and so is every later
// one. A round is consumed whenever the master goes through its agents to make offers while a
// subscription is connected — also when the event ends up empty and is not sent (keep an agent that
// is never withheld if the core must see every round).
//
// The state lives in a side table, not in Master, so that master.go only needs the one test in
// sendOffersLocked.

var offerWithhold = struct {
	sync.Mutex
	plan map[*Master]*withholdPlan
}{plan: map[*Master]*withholdPlan{}}

type withholdPlan struct {
	rounds [][]string      // hosts left out, per round still to come
	now    map[string]bool // hosts left out of the round being made
}

// WithholdOffers replaces the plan: round i (counted from the next OFFERS event on) leaves out the
// agents on hosts rounds[i]. An empty plan restores normal behaviour.
func (m *Master) WithholdOffers(rounds [][]string) {
	offerWithhold.Lock()
	defer offerWithhold.Unlock()
	if len(rounds) == 0 {
		delete(offerWithhold.plan, m)
		return
	}
	p := &withholdPlan{}
	for _, r := range rounds {
		p.rounds = append(p.rounds, append([]string(nil), r...))
	}
	offerWithhold.plan[m] = p
}

// WithheldRoundsLeft is the number of scripted rounds that have not been made yet.
func (m *Master) WithheldRoundsLeft() int {
	offerWithhold.Lock()
	defer offerWithhold.Unlock()
	if p := offerWithhold.plan[m]; p != nil {
		return len(p.rounds)
	}
	return 0
}

// offerWithheld is the test sendOffersLocked makes per agent, first thing in its loop (called with m.mu
// held; the side table has its own lock and is never held while m.mu is taken). The first agent of
// the master's list opens a new round.
func (m *Master) offerWithheld(a *Agent) bool {
	offerWithhold.Lock()
	defer offerWithhold.Unlock()
	p := offerWithhold.plan[m]
	if p == nil {
		return false
	}
	if len(m.agents) > 0 && a == m.agents[0] {
		p.now = map[string]bool{}
		if len(p.rounds) == 0 {
			delete(offerWithhold.plan, m)
			return false
		}
		for _, h := range p.rounds[0] {
			p.now[h] = true
		}
		p.rounds = p.rounds[1:]
	}
	return p.now[a.Hostname]
}
