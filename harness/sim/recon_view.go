package sim

import (
	"sort"
	"sync"
)

// Incomplete reconciliation (added for C18; nothing changes unless one of these is used).
//
// A real master answers an implicit RECONCILE with what IT knows at that moment, and that can be
// less than what runs: right after a master fail-over the agents have not re-registered yet, an
// agent can be partitioned away, and a scheduler call can be lost on the way to a leader that is
// just stepping down. Mesos says so itself ("the master's reply … may be incomplete: reconcile
// again later"). Two controls:
//
//	HideFromReconcile(ids…)   the tasks' agent is not registered with this master: implicit
//	                          reconciliation answers leave the tasks out (they keep running,
//	                          status updates and KILLs reach them as ever) until
//	UnhideFromReconcile(ids…) the agent has (re-)registered (no ids: every hidden task)
//	SetReconcileSilent(on)    RECONCILE calls are accepted and recorded, but never answered
//	                          (MasterConfig.ReconcileSilent, switchable at run time): the request is lost
//
// The state lives in a side table, not in Master, so that master.go only needs the one test in
// reconcile().

var reconView = struct {
	sync.Mutex
	hidden map[*Master]map[string]bool
}{hidden: map[*Master]map[string]bool{}}

// HideFromReconcile leaves the tasks out of every later answer to an implicit RECONCILE.
func (m *Master) HideFromReconcile(taskIDs ...string) {
	reconView.Lock()
	defer reconView.Unlock()
	h := reconView.hidden[m]
	if h == nil {
		h = map[string]bool{}
		reconView.hidden[m] = h
	}
	for _, id := range taskIDs {
		h[id] = true
	}
}

// UnhideFromReconcile makes the tasks (none given: all hidden ones) reportable again; it returns the
// ids that were hidden, sorted.
func (m *Master) UnhideFromReconcile(taskIDs ...string) []string {
	reconView.Lock()
	defer reconView.Unlock()
	h := reconView.hidden[m]
	var out []string
	if len(taskIDs) == 0 {
		for id := range h {
			out = append(out, id)
		}
		delete(reconView.hidden, m)
	} else {
		for _, id := range taskIDs {
			if h[id] {
				out = append(out, id)
				delete(h, id)
			}
		}
		if len(h) == 0 {
			delete(reconView.hidden, m)
		}
	}
	sort.Strings(out)
	return out
}

// HiddenFromReconcile is the sorted list of task ids currently left out of reconciliation answers.
func (m *Master) HiddenFromReconcile() []string {
	reconView.Lock()
	defer reconView.Unlock()
	var out []string
	for id := range reconView.hidden[m] {
		out = append(out, id)
	}
	sort.Strings(out)
	return out
}

// hiddenFromReconcile is the test reconcile() makes per task (called with m.mu held; the side table has
// its own lock and is never held while m.mu is taken).
func (m *Master) hiddenFromReconcile(id string) bool {
	reconView.Lock()
	defer reconView.Unlock()
	return reconView.hidden[m][id]
}

// SetReconcileSilent switches MasterConfig.ReconcileSilent at run time.
func (m *Master) SetReconcileSilent(on bool) {
	m.mu.Lock()
	defer m.mu.Unlock()
	m.cfg.ReconcileSilent = on
}
