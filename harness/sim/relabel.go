package sim

import "fmt"

// RelabelTask changes what the task's executor believes the task's environment to
// be (added for C03; nothing changes unless it is called).
//
// A real executor stamps every message about a task — status updates (TaskStatus
// labels) and device events — with the label `environmentId` = the environment id
// it was given when the task was LAUNCHED (taskBase.knownEnvironmentId, never
// updated). The simulated executor does the same (simTask.envID, read from the
// TaskInfo labels at launch). For a task that was released by the environment it
// was launched for (destroyed with keepTasks) and belongs to a later one
// (acquireTasks with reuseUnlockedTasks), or for an executor that sends no such
// label, that id is NOT the id of the environment the task belongs to: the core
// knows the latter through the task's parent role.
//
// From now on every message about the task carries envID as its `environmentId`
// label; "" = no usable label (status updates carry no labels at all, device
// events an empty value: both parse to uid.NilID() in the core). Nothing else of
// the task changes; TaskRecord.EnvID reports the new value.
func (m *Master) RelabelTask(taskID, envID string) error {
	m.mu.Lock()
	defer m.mu.Unlock()
	t := m.tasks[taskID]
	if t == nil {
		return fmt.Errorf("sim: no task %s", taskID)
	}
	t.envID = envID
	return nil
}
