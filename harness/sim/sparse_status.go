package sim

import (
	"fmt"
	"sync"

	mesos "github.com/mesos/mesos-go/api/v1/lib"
	"github.com/mesos/mesos-go/api/v1/lib/scheduler"
)

// Status updates whose OPTIONAL fields are absent (added for C04 / C18; nothing changes unless one of these is used).
//
// mesos.TaskStatus.agent_id and .executor_id are optional. Every update the AliECS executor sends carries both —
// and so does every update this simulator makes on an executor's behalf. An update BUILT BY THE MASTER need not: the
// answer to a reconciliation is put together from the master's own task record (a real master copies executor_id only
// if its record has one, and right after a fail-over its records are what the agents have re-registered so far), a
// TASK_LOST / TASK_DROPPED it generates itself has neither executor nor — sometimes — agent. A scheduler must not
// depend on what such an update omits. Two controls:
//
//	SetReconcileOmit(o)       from now on every answer of this master to a RECONCILE about a task of its table
//	                          (implicit or explicit) lacks the fields named by o (zero value: complete again)
//	InjectTaskStatus(id, …)   the master sends ONE update about a task of its table, built like its other updates,
//	                          minus the fields named by o: as a reconciliation answer it volunteers
//	                          (SOURCE_MASTER, REASON_RECONCILIATION, no UUID) or as an ordinary update it relays
//	                          (SOURCE_EXECUTOR, UUID: acknowledged by the core as usual). The task table is not touched.
//
// The state lives in a side table, not in Master, so that master.go only needs the one call in reconcile().

// StatusOmit names the optional identity fields an update lacks.
type StatusOmit struct {
	AgentID    bool
	ExecutorID bool
}

func (o StatusOmit) String() string {
	switch {
	case o.AgentID && o.ExecutorID:
		return "both"
	case o.AgentID:
		return "agent"
	case o.ExecutorID:
		return "exec"
	}
	return "none"
}

// ParseStatusOmit: none | exec | agent | both.
func ParseStatusOmit(s string) (StatusOmit, bool) {
	switch s {
	case "none":
		return StatusOmit{}, true
	case "exec":
		return StatusOmit{ExecutorID: true}, true
	case "agent":
		return StatusOmit{AgentID: true}, true
	case "both":
		return StatusOmit{AgentID: true, ExecutorID: true}, true
	}
	return StatusOmit{}, false
}

func (o StatusOmit) strip(s *mesos.TaskStatus) {
	if o.AgentID {
		s.AgentID = nil
	}
	if o.ExecutorID {
		s.ExecutorID = nil
	}
}

var sparseStatus = struct {
	sync.Mutex
	recon map[*Master]StatusOmit
}{recon: map[*Master]StatusOmit{}}

// SetReconcileOmit makes every later reconciliation answer about a known task lack the given fields
// (StatusOmit{}: complete answers again; also drops this master's entry of the side table).
func (m *Master) SetReconcileOmit(o StatusOmit) {
	sparseStatus.Lock()
	defer sparseStatus.Unlock()
	if o == (StatusOmit{}) {
		delete(sparseStatus.recon, m)
		return
	}
	sparseStatus.recon[m] = o
}

// ReconcileOmit is what reconciliation answers lack at present.
func (m *Master) ReconcileOmit() StatusOmit {
	sparseStatus.Lock()
	defer sparseStatus.Unlock()
	return sparseStatus.recon[m]
}

// sparsifyReconcile is the call reconcile() makes per answer about a known task (with m.mu held; the side table has
// its own lock and is never held while m.mu is taken).
func (m *Master) sparsifyReconcile(s *mesos.TaskStatus) {
	sparseStatus.Lock()
	o := sparseStatus.recon[m]
	sparseStatus.Unlock()
	o.strip(s)
}

// InjectTaskStatus: see the file comment. An error means the task is not in the master's table.
func (m *Master) InjectTaskStatus(taskID string, st mesos.TaskState, asReconciliation bool, omit StatusOmit, note string) error {
	m.mu.Lock()
	defer m.mu.Unlock()
	t := m.tasks[taskID]
	if t == nil {
		return fmt.Errorf("sim: InjectTaskStatus: no task %s", taskID)
	}
	var s mesos.TaskStatus
	if asReconciliation {
		r := mesos.REASON_RECONCILIATION
		s = m.statusLocked(t, st, mesos.SOURCE_MASTER, &r, "Reconciliation: Latest task state", false)
	} else {
		s = m.statusLocked(t, st, mesos.SOURCE_EXECUTOR, nil, "", true)
	}
	omit.strip(&s)
	m.emitLocked(&scheduler.Event{Type: scheduler.Event_UPDATE, Update: &scheduler.Event_Update{Status: s}},
		Record{Type: "UPDATE", TaskIDs: []string{t.id}, State: st.String(), Reason: reasonOf(&s), Source: s.GetSource().String(),
			AgentID: s.GetAgentID().GetValue(), ExecutorID: s.GetExecutorID().GetValue(), MsgDetail: note})
	return nil
}
