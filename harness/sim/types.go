package sim

import (
	"errors"
	"fmt"
	"time"

	mesos "github.com/mesos/mesos-go/api/v1/lib"
	"github.com/mesos/mesos-go/api/v1/lib/scheduler"
)

// InfraError marks a failure of the harness infrastructure (simulator start,
// child start, subscription, a wait ceiling reached). Property harnesses must
// treat it as INCONCLUSIVE, never as a verdict.
type InfraError struct {
	What string
	Err  error
}

func (e *InfraError) Error() string {
	if e.Err != nil {
		return "sim infrastructure: " + e.What + ": " + e.Err.Error()
	}
	return "sim infrastructure: " + e.What
}
func (e *InfraError) Unwrap() error { return e.Err }

// IsInfra reports whether err is (or wraps) an InfraError.
func IsInfra(err error) bool {
	var ie *InfraError
	return errors.As(err, &ie)
}

func infra(what string, err error) error { return &InfraError{What: what, Err: err} }

// ---- agents --------------------------------------------------------------------

// Agent describes one simulated Mesos agent. Every offer for it carries the
// attributes (as TEXT attributes; the core matches constraints on them and
// pre-matches on `machine_id`) and what is left of cpus/mem/ports.
type Agent struct {
	ID       string
	Hostname string
	Attrs    map[string]string
	CPUs     float64
	Mem      float64
	Ports    [][2]uint64 // inclusive ranges; the core needs ports >= 30000 for control ports (>= 9000 for bound channels)
	Down     bool        // no offers while down
}

// ---- the trace -------------------------------------------------------------------

// CommandInfo is the decoded payload of a framework→executor MESSAGE.
type CommandInfo struct {
	Name        string            // MesosCommand_Transition | MesosCommand_TriggerHook
	ID          string            // command id (xid)
	EnvID       string            // environment id
	Event       string            // transition event (CONFIGURE, START, …)
	Source      string            // expected source state
	Destination string            // destination state
	TaskID      string            // the single target
	Arguments   map[string]string // pushed properties
	TimeoutNs   int64
}

// Record is one entry of the master's totally ordered trace: a call received
// from the core or an event written to the core's subscription stream.
// Seq is assigned under the master's lock when the call is accepted / when the
// event is enqueued for the stream, so Seq order = the order in which the
// simulated master saw/produced things.
type Record struct {
	Seq   int
	Epoch int    // core incarnation (1 = first child); 0 before any core
	Dir   string // "call" (core→master), "event" (master→core) or "note" (DROPSTREAM / DISCONNECTED markers)
	Type  string // SUBSCRIBE ACCEPT DECLINE KILL MESSAGE RECONCILE REVIVE ACKNOWLEDGE SUPPRESS TEARDOWN … / SUBSCRIBED OFFERS UPDATE MESSAGE FAILURE RESCIND HEARTBEAT ERROR
	// joined fields (empty when not applicable)
	StreamID   string
	OfferIDs   []string
	TaskIDs    []string // ACCEPT: launched tasks; KILL/ACKNOWLEDGE: the task; RECONCILE: explicit tasks; MESSAGE: target task; UPDATE: the task
	AgentID    string
	ExecutorID string
	Hosts      []string     // OFFERS/ACCEPT: hostnames
	Cmd        *CommandInfo // MESSAGE call
	// UPDATE event
	State  string // TASK_RUNNING …
	Reason string
	Source string
	// MESSAGE event (executor→framework)
	MsgType   string // MesosCommandResponse | DeviceEvent | AnnounceTaskPIDEvent
	MsgDetail string // response: "<cmdName> id=<id> state=<s> err=<e>"; device event: type name
	// HTTP status the call was answered with (202, 200 for SUBSCRIBE, 503 for a scripted undeliverable, 403 not subscribed)
	HTTP int
	// Delivered is false for events produced while no stream was connected
	// (UPDATEs are kept and re-sent after the next SUBSCRIBE, the rest is dropped as Mesos does).
	Delivered bool
	When      time.Time

	Call  *scheduler.Call  `json:"-"`
	Event *scheduler.Event `json:"-"`
}

func (r Record) String() string {
	s := fmt.Sprintf("#%d e%d %-5s %-11s", r.Seq, r.Epoch, r.Dir, r.Type)
	if r.HTTP != 0 && r.HTTP != 202 && r.HTTP != 200 {
		s += fmt.Sprintf(" http=%d", r.HTTP)
	}
	if len(r.Hosts) > 0 {
		s += fmt.Sprintf(" hosts=%v", r.Hosts)
	}
	if len(r.OfferIDs) > 0 {
		s += fmt.Sprintf(" offers=%v", r.OfferIDs)
	}
	if len(r.TaskIDs) > 0 {
		s += fmt.Sprintf(" tasks=%v", r.TaskIDs)
	}
	if r.State != "" {
		s += " " + r.State
	}
	if r.Reason != "" {
		s += " reason=" + r.Reason
	}
	if r.Cmd != nil {
		if r.Cmd.Event != "" {
			s += fmt.Sprintf(" %s %s:%s→%s id=%s", r.Cmd.Name, r.Cmd.Event, r.Cmd.Source, r.Cmd.Destination, r.Cmd.ID)
		} else {
			s += fmt.Sprintf(" %s id=%s", r.Cmd.Name, r.Cmd.ID)
		}
	}
	if r.MsgType != "" {
		s += " " + r.MsgType + " " + r.MsgDetail
	}
	if r.MsgType == "" && r.MsgDetail != "" {
		s += " " + r.MsgDetail
	}
	if r.Dir == "event" && !r.Delivered {
		s += " (not delivered)"
	}
	return s
}

// TaskRecord is a snapshot of one row of the master's task table. The table
// lives in the harness process and survives core restarts.
type TaskRecord struct {
	TaskID       string
	Name         string // TaskInfo.Name = <class id>#<task id>
	Class        string // short class name (file name under tasks/)
	AgentID      string
	Host         string
	ExecutorID   string
	EnvID        string // label environmentId at launch
	ControlMode  string // direct fairmq basic hook
	MesosState   string // TASK_STAGING TASK_RUNNING TASK_KILLED …
	Terminal     bool
	FSM          string // state of the simulated process: STANDBY CONFIGURED RUNNING ERROR DONE
	Kills        int    // KILL calls received for it
	RefusedKills int    // KILL calls naming it that the master refused (Outcome Undeliverable for EvKill)
	Commands     int    // MESSAGE commands delivered to it
	LaunchSeq    int    // Seq of the ACCEPT that launched it
	Epoch        int    // core incarnation that launched it
	FrameworkID  string
	Info         *mesos.TaskInfo `json:"-"`
}

// ---- outcome scripts ---------------------------------------------------------------

// Selector picks simulated tasks; empty fields match anything.
type Selector struct {
	Class  string // short task class name
	Host   string // agent hostname
	TaskID string
}

func (s Selector) matches(t *simTask) bool {
	return (s.Class == "" || s.Class == t.class) &&
		(s.Host == "" || s.Host == t.host) &&
		(s.TaskID == "" || s.TaskID == t.id)
}

// Kind of scripted reaction.
type Kind int

const (
	// OK: the command succeeds: the task reaches the destination state and replies
	// without error (LAUNCH: TASK_RUNNING; KILL: terminal update; HOOK: reply, then
	// BASIC_TASK_TERMINATED with ExitCode).
	OK Kind = iota
	// FailStay: error reply, the task stays in the source state.
	FailStay
	// FailError: error reply, the task reports state ERROR.
	FailError
	// Undeliverable: the master answers the MESSAGE call itself with HTTP 503
	// and delivers nothing. (mesos-go's scheduler client treats any failed call
	// as loss of the master and re-subscribes.) For EvKill: the master answers the
	// KILL call with HTTP 503 (the call fails at the caller), the task keeps running
	// and TaskRecord.Kills does not count it (RefusedKills does).
	Undeliverable
	// Silent: the command is delivered and never answered; nothing changes.
	// (LAUNCH: the task stays TASK_STAGING; KILL: the kill is ignored.)
	Silent
	// Die: no reply; the task terminates and a terminal status update
	// (MesosState, default TASK_FAILED) is sent instead.
	Die
	// Duplicate: like OK but the reply is sent twice.
	Duplicate
	// ForeignID: the reply carries a fresh command id the core never issued; the
	// task does perform the transition.
	ForeignID
)

func (k Kind) String() string {
	return [...]string{"OK", "FailStay", "FailError", "Undeliverable", "Silent", "Die", "Duplicate", "ForeignID"}[k]
}

// Outcome is what a simulated task does when it gets a given command.
type Outcome struct {
	Kind       Kind
	Error      string          // error text for FailStay/FailError (default "simulated failure")
	MesosState mesos.TaskState // terminal state for Die (default TASK_FAILED) and KILL (default by control mode); the zero value TASK_STARTING means unset
	ExitCode   int             // HOOK / basic task termination
	// Gate, if set, holds the whole reaction until World.Release(Gate) — a
	// "late reply" is OK+Gate released after the core gave up. Delay is added
	// after the gate (a timer inside the simulated task, not a harness wait).
	Gate  string
	Delay time.Duration
	// Times > 0: apply this many times, then fall back to the next matching
	// rule / the default. 0: sticky.
	Times int
}

// Pseudo-events for SetOutcome besides transition event names.
const (
	EvLaunch = "LAUNCH" // reaction to being launched by an ACCEPT
	EvKill   = "KILL"   // reaction to a KILL call
	EvHook   = "HOOK"   // reaction to MesosCommand_TriggerHook
	EvAny    = "*"      // any transition event (not LAUNCH/KILL/HOOK)
)
