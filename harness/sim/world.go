// Package sim is the whole-core simulator: it runs the real AliECS core
// (task.Manager + scheduler controller, environment.Manager, gRPC RpcServer) in
// a child process against a Mesos master simulator (with agents, executors and
// tasks), a Consul KV simulator and a local git repository of workflows, all
// living in the calling (harness) process. See README.md.
package sim

import (
	"bufio"
	"context"
	"encoding/json"
	"fmt"
	"net"
	"os"
	"os/exec"
	"path/filepath"
	"sort"
	"strings"
	"sync"
	"sync/atomic"
	"syscall"
	"time"

	pb "github.com/AliceO2Group/Control/core/protos"
	"google.golang.org/grpc"
	"google.golang.org/grpc/credentials/insecure"

	"verifharness/fw"
)

// Config of a simulated world.
type Config struct {
	// Name tags directories and log files (letters/digits only). Default "w".
	Name string
	// Master tunes the Mesos master simulator.
	Master MasterConfig
	// CoreFlags are extra command-line flags for the core (without the leading
	// "--"), e.g. {"reuseUnlockedTasks": "true"}. They override the defaults below.
	CoreFlags map[string]string
	// CoreSettings is the YAML stored at o2/components/aliecs/ANY/any/settings,
	// which core.NewConfig reads into viper (may be empty).
	CoreSettings string
	// Defaults / Vars populate o2/runtime/aliecs/defaults/* and …/vars/*.
	// deploy_timeout lives here (core default 90s).
	Defaults map[string]string
	Vars     map[string]string
	// KV is stored verbatim in the Consul simulator before the core starts.
	KV map[string]string
	// Verbose runs the core with --verbose (debug log in the core log file).
	Verbose bool
	// StartCeiling bounds every infrastructure wait of Start/RestartCore
	// (child start, gRPC up, SUBSCRIBED). Default 120s. Missing it is an InfraError.
	StartCeiling time.Duration
	// NoCore starts only the simulators; call StartCore later.
	NoCore bool
}

// World is one running set of simulators plus (at most) one core child.
type World struct {
	Master *Master
	Consul *Consul
	Repo   *Repo

	cfg  Config
	dir  string // /verif/.work/sim/<pid>-<name>-<n>
	mu   sync.Mutex
	core *coreProc
	ep   int // core incarnations started
}

type coreProc struct {
	cmd     *exec.Cmd
	addr    string
	conn    *grpc.ClientConn
	client  pb.ControlClient
	exited  chan struct{}
	exitErr error
	logPath string
	evPath  string
	epoch   int
}

var worldN int32

// WorkRoot is where worlds keep their files.
const WorkRoot = "/verif/.work/sim"

// Start brings up Consul, master and repository simulators and (unless
// cfg.NoCore) a core child, and returns once the core is subscribed and serves gRPC.
func Start(cfg Config) (*World, error) {
	if cfg.Name == "" {
		cfg.Name = "w"
	}
	if cfg.StartCeiling <= 0 {
		cfg.StartCeiling = 120 * time.Second
	}
	gcStale()
	n := atomic.AddInt32(&worldN, 1)
	tag := fmt.Sprintf("%s%d", cfg.Name, n)
	w := &World{cfg: cfg, dir: filepath.Join(WorkRoot, fmt.Sprintf("%d-%s", os.Getpid(), tag))}
	os.RemoveAll(w.dir)
	if err := os.MkdirAll(filepath.Join(w.dir, "core", "repos"), 0o755); err != nil {
		return nil, infra("mkdir", err)
	}
	var err error
	if w.Consul, err = newConsul(); err != nil {
		return nil, infra("consul simulator", err)
	}
	if w.Master, err = newMaster(cfg.Master); err != nil {
		w.Consul.close()
		return nil, infra("master simulator", err)
	}
	if w.Repo, err = newRepo(tag); err != nil {
		w.Consul.close()
		w.Master.close()
		return nil, infra("workflow repository", err)
	}
	// configuration tree
	w.Consul.Put("o2/components/aliecs/ANY/any/settings", cfg.CoreSettings)
	w.Consul.Put("o2/runtime/aliecs/default_repo", w.Repo.Path())
	w.Consul.Put("o2/runtime/aliecs/default_revisions", "{}")
	for k, v := range cfg.Defaults {
		w.Consul.Put("o2/runtime/aliecs/defaults/"+k, v)
	}
	for k, v := range cfg.Vars {
		w.Consul.Put("o2/runtime/aliecs/vars/"+k, v)
	}
	for k, v := range cfg.KV {
		w.Consul.Put(k, v)
	}
	if !cfg.NoCore {
		if err = w.StartCore(); err != nil {
			w.Stop()
			return nil, err
		}
	}
	return w, nil
}

// gcStale removes scratch directories left behind by harness processes that no longer exist.
func gcStale() {
	for _, pat := range []string{filepath.Join(WorkRoot, "*"), "/tmp/verifsim-*"} {
		ms, _ := filepath.Glob(pat)
		for _, p := range ms {
			base := strings.TrimPrefix(filepath.Base(p), "verifsim-")
			var pid int
			if _, err := fmt.Sscanf(base, "%d-", &pid); err != nil || pid <= 0 || pid == os.Getpid() {
				continue
			}
			if err := syscall.Kill(pid, 0); err == syscall.ESRCH {
				os.RemoveAll(p)
			}
		}
	}
}

// Dir is the world's scratch directory (core logs, event files).
func (w *World) Dir() string { return w.dir }

// AgentSpec describes an agent to add.
type AgentSpec struct {
	Host     string
	Attrs    map[string]string // offered as TEXT attributes; machine_id defaults to Host
	CPUs     float64           // default 16
	Mem      float64           // MB, default 65536
	Ports    [][2]uint64       // default {{9000, 9999}, {30000, 31000}}
	Detector string            // if set, the host is entered in the inventory (o2/hardware/detectors/<det>/flps/<host>/ and o2/hardware/flps/<host>/)
}

// AddAgent registers an agent with the master (offers from the next round on)
// and, if Detector is set, in the Consul inventory. Returns the agent id.
func (w *World) AddAgent(s AgentSpec) string {
	a := &Agent{ID: "agent-" + s.Host, Hostname: s.Host, Attrs: map[string]string{}, CPUs: s.CPUs, Mem: s.Mem, Ports: s.Ports}
	for k, v := range s.Attrs {
		a.Attrs[k] = v
	}
	if _, ok := a.Attrs["machine_id"]; !ok {
		a.Attrs["machine_id"] = s.Host
	}
	if a.CPUs == 0 {
		a.CPUs = 16
	}
	if a.Mem == 0 {
		a.Mem = 65536
	}
	if len(a.Ports) == 0 {
		a.Ports = [][2]uint64{{9000, 9999}, {30000, 31000}}
	}
	if s.Detector != "" {
		w.Consul.Put("o2/hardware/detectors/"+s.Detector+"/flps/"+s.Host+"/cards", "{}")
		w.Consul.Put("o2/hardware/flps/"+s.Host+"/cards", "{}")
	}
	w.Master.addAgent(a)
	return a.ID
}

// SetWorkflow / SetTaskClass write templates into the repository.
func (w *World) SetWorkflow(name, yaml string) error  { return w.Repo.SetWorkflow(name, yaml) }
func (w *World) SetTaskClass(name, yaml string) error { return w.Repo.SetTaskClass(name, yaml) }

// SetOutcome scripts simulated tasks (see Master.SetOutcome).
func (w *World) SetOutcome(sel Selector, event string, out Outcome) {
	w.Master.SetOutcome(sel, event, out)
}

// Release opens a gate (see Outcome.Gate).
func (w *World) Release(gate string) { w.Master.Release(gate) }

// Calls returns the calls the master received (Seq order).
func (w *World) Calls() []Record {
	var out []Record
	for _, r := range w.Master.Trace() {
		if r.Dir == "call" {
			out = append(out, r)
		}
	}
	return out
}

// Trace returns calls and events interleaved in Seq order.
func (w *World) Trace() []Record { return w.Master.Trace() }

// Tasks returns the master's task table.
func (w *World) Tasks() []TaskRecord { return w.Master.Tasks() }

// DropStream severs the subscription from the master's side.
func (w *World) DropStream(abrupt bool) { w.Master.DropStream(abrupt) }

// ---- core child -------------------------------------------------------------------

// StartCore launches a core child against the (already running) simulators and
// waits until it serves gRPC and its scheduler is CONNECTED (SUBSCRIBED handled).
func (w *World) StartCore() error {
	w.mu.Lock()
	defer w.mu.Unlock()
	if w.core != nil {
		select {
		case <-w.core.exited:
		default:
			return fmt.Errorf("sim: core already running")
		}
	}
	w.ep++
	epoch := w.ep
	w.Master.setEpoch(epoch)

	lis, err := net.Listen("tcp4", "127.0.0.1:0")
	if err != nil {
		return infra("grpc listener", err)
	}
	lf, err := lis.(*net.TCPListener).File()
	if err != nil {
		lis.Close()
		return infra("grpc listener file", err)
	}
	addr := lis.Addr().String()
	lis.Close() // the dup in lf keeps the socket open

	flags := map[string]string{
		"mesosUrl":         w.Master.URL(),
		"configServiceUri": "consul://" + w.Consul.Addr(),
		"coreWorkingDir":   filepath.Join(w.dir, "core"),
		"enableKafka":      "false",
		"executor":         "/opt/o2/bin/o2-aliecs-executor",
		"controlPort":      addr[strings.LastIndex(addr, ":")+1:],
		"instanceName":     "verif sim " + filepath.Base(w.dir),
	}
	if w.cfg.Verbose {
		flags["verbose"] = "true"
	}
	for k, v := range w.cfg.CoreFlags {
		flags[k] = v
	}
	keys := make([]string, 0, len(flags))
	for k := range flags {
		keys = append(keys, k)
	}
	sort.Strings(keys)
	var args []string
	for _, k := range keys {
		args = append(args, "--"+k+"="+flags[k])
	}
	cp := &coreProc{addr: addr, exited: make(chan struct{}), epoch: epoch,
		logPath: filepath.Join(w.dir, fmt.Sprintf("core.%d.log", epoch)),
		evPath:  filepath.Join(w.dir, fmt.Sprintf("events.%d.jsonl", epoch))}
	cmd := fw.ChildCommand(ChildName, args...)
	cmd.Env = append(cmd.Env, "SIM_LOG="+cp.logPath, "SIM_EVENTS="+cp.evPath)
	cmd.ExtraFiles = []*os.File{lf}
	cmd.SysProcAttr = &syscall.SysProcAttr{Setpgid: true}
	cmd.Dir = filepath.Join(w.dir, "core")
	errf, _ := os.OpenFile(filepath.Join(w.dir, fmt.Sprintf("core.%d.stderr", epoch)), os.O_CREATE|os.O_WRONLY|os.O_TRUNC, 0o644)
	cmd.Stderr, cmd.Stdout = errf, errf
	if err = cmd.Start(); err != nil {
		lf.Close()
		return infra("start core child", err)
	}
	lf.Close()
	if errf != nil {
		errf.Close()
	}
	cp.cmd = cmd
	go func() {
		cp.exitErr = cmd.Wait()
		close(cp.exited)
	}()
	w.core = cp

	conn, err := grpc.Dial(addr, grpc.WithTransportCredentials(insecure.NewCredentials()),
		grpc.WithDefaultCallOptions(grpc.MaxCallRecvMsgSize(64<<20)))
	if err != nil {
		w.killLocked(cp)
		return infra("grpc dial", err)
	}
	cp.conn = conn
	cp.client = pb.NewControlClient(conn)

	deadline := time.Now().Add(w.cfg.StartCeiling)
	for {
		select {
		case <-cp.exited:
			return infra(fmt.Sprintf("core child exited during start (%v); log tail:\n%s", cp.exitErr, w.logTail(cp, 25)), nil)
		default:
		}
		ctx, cancel := context.WithTimeout(context.Background(), 2*time.Second)
		fi, err := cp.client.GetFrameworkInfo(ctx, &pb.GetFrameworkInfoRequest{}, grpc.WaitForReady(true))
		cancel()
		if err == nil && fi.GetState() == "CONNECTED" && w.Master.Subscribed() {
			return nil
		}
		if time.Now().After(deadline) {
			w.killLocked(cp)
			return infra(fmt.Sprintf("core not CONNECTED within %s (last: %v / %v); log tail:\n%s", w.cfg.StartCeiling, fi.GetState(), err, w.logTail(cp, 25)), nil)
		}
		time.Sleep(20 * time.Millisecond)
	}
}

func (w *World) logTail(cp *coreProc, n int) string {
	var lines []string
	for _, p := range []string{cp.logPath, strings.TrimSuffix(cp.logPath, ".log") + ".stderr"} {
		b, _ := os.ReadFile(p)
		ls := strings.Split(strings.TrimRight(string(b), "\n"), "\n")
		if len(ls) > n {
			ls = ls[len(ls)-n:]
		}
		lines = append(lines, ls...)
	}
	return strings.Join(lines, "\n")
}

// Client is the gRPC client of the running core (nil if none).
func (w *World) Client() pb.ControlClient {
	w.mu.Lock()
	defer w.mu.Unlock()
	if w.core == nil {
		return nil
	}
	return w.core.client
}

// CoreAlive reports whether the core child is running.
func (w *World) CoreAlive() bool {
	w.mu.Lock()
	defer w.mu.Unlock()
	if w.core == nil {
		return false
	}
	select {
	case <-w.core.exited:
		return false
	default:
		return true
	}
}

// CoreLog is the path of the current core's log file.
func (w *World) CoreLog() string {
	w.mu.Lock()
	defer w.mu.Unlock()
	if w.core == nil {
		return ""
	}
	return w.core.logPath
}

func (w *World) killLocked(cp *coreProc) {
	if cp == nil {
		return
	}
	if cp.cmd.Process != nil {
		syscall.Kill(-cp.cmd.Process.Pid, syscall.SIGKILL)
	}
	<-cp.exited
	if cp.conn != nil {
		cp.conn.Close()
		cp.conn = nil
	}
}

// KillCore kills the core child with SIGKILL (a crash) and waits for it to be
// gone and for the master to notice the closed subscription.
func (w *World) KillCore() error {
	w.mu.Lock()
	cp := w.core
	w.killLocked(cp)
	w.mu.Unlock()
	if cp == nil {
		return nil
	}
	return w.Master.Wait("master notices the dead core", w.cfg.StartCeiling, func(v *View) bool { return !v.Subscribed })
}

// TermCore sends SIGTERM (the core's own shutdown path: stop/reset/teardown of
// every environment, Cleanup, EmergencyKillTasks, exit 143) and waits for exit.
func (w *World) TermCore() error {
	w.mu.Lock()
	cp := w.core
	w.mu.Unlock()
	if cp == nil {
		return nil
	}
	cp.cmd.Process.Signal(syscall.SIGTERM)
	select {
	case <-cp.exited:
	case <-time.After(w.cfg.StartCeiling):
		w.mu.Lock()
		w.killLocked(cp)
		w.mu.Unlock()
		return infra("core did not exit after SIGTERM", nil)
	}
	w.mu.Lock()
	w.killLocked(cp)
	w.mu.Unlock()
	return nil
}

// RestartCore = KillCore + StartCore against the same simulators (the master's
// task table, the KV store incl. mesos_fid, and the repository survive).
func (w *World) RestartCore() error {
	if err := w.KillCore(); err != nil {
		return err
	}
	return w.StartCore()
}

// Stop kills the core and the simulators and removes the world's files
// (set SIM_KEEP=1 to keep the scratch directory for debugging).
func (w *World) Stop() {
	w.mu.Lock()
	w.killLocked(w.core)
	w.mu.Unlock()
	w.Master.close()
	w.Consul.close()
	w.Repo.close()
	if os.Getenv("SIM_KEEP") == "" {
		os.RemoveAll(w.dir)
	}
}

// CoreEvents returns what the cores published so far (all incarnations, in order).
func (w *World) CoreEvents() []CoreEvent {
	w.mu.Lock()
	n := w.ep
	w.mu.Unlock()
	var out []CoreEvent
	for e := 1; e <= n; e++ {
		f, err := os.Open(filepath.Join(w.dir, fmt.Sprintf("events.%d.jsonl", e)))
		if err != nil {
			continue
		}
		sc := bufio.NewScanner(f)
		sc.Buffer(make([]byte, 1<<20), 64<<20)
		for sc.Scan() {
			var ce CoreEvent
			if json.Unmarshal(sc.Bytes(), &ce) == nil {
				ce.Epoch = e
				out = append(out, ce)
			}
		}
		f.Close()
	}
	return out
}

// ---- waits on the core's own view (through its gRPC API) -------------------------------

// Poll evaluates cond until it holds; cond returning an error aborts. Reaching
// the ceiling is an InfraError (the caller reports INCONCLUSIVE).
func Poll(what string, ceiling time.Duration, cond func() (bool, error)) error {
	deadline := time.Now().Add(ceiling)
	for {
		ok, err := cond()
		if err != nil {
			return err
		}
		if ok {
			return nil
		}
		if time.Now().After(deadline) {
			return infra("wait ceiling reached: "+what, nil)
		}
		time.Sleep(15 * time.Millisecond)
	}
}

// EnvState asks the core for the state of an environment ("" + nil error if
// the core no longer knows it).
func (w *World) EnvState(id string) (string, error) {
	c := w.Client()
	if c == nil {
		return "", infra("no core", nil)
	}
	ctx, cancel := context.WithTimeout(context.Background(), 30*time.Second)
	defer cancel()
	r, err := c.GetEnvironment(ctx, &pb.GetEnvironmentRequest{Id: id})
	if err != nil {
		if strings.Contains(err.Error(), "no environment with id") || strings.Contains(err.Error(), "not found") {
			return "", nil
		}
		return "", err
	}
	return r.GetEnvironment().GetState(), nil
}

// WaitEnvState polls GetEnvironment until the state is one of `states`
// ("" = environment gone); returns the state reached.
func (w *World) WaitEnvState(id string, ceiling time.Duration, states ...string) (string, error) {
	var got string
	err := Poll(fmt.Sprintf("environment %s in %v", id, states), ceiling, func() (bool, error) {
		s, err := w.EnvState(id)
		if err != nil {
			return false, err
		}
		got = s
		for _, x := range states {
			if x == s {
				return true, nil
			}
		}
		return false, nil
	})
	return got, err
}
