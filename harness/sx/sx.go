// Package sx is the Go side of the S-expression wire format shared with
// lean/ControlModel/Basic.lean (SExp): atom | "(" sexp* ")".
package sx

import (
	"fmt"
	"strconv"
	"strings"
)

type Node struct {
	Atom   string
	List   []*Node
	IsList bool
}

func A(s string) *Node          { return &Node{Atom: s} }
func I(i int) *Node             { return &Node{Atom: strconv.Itoa(i)} }
func I64(i int64) *Node         { return &Node{Atom: strconv.FormatInt(i, 10)} }
func U64(i uint64) *Node        { return &Node{Atom: strconv.FormatUint(i, 10)} }
func L(xs ...*Node) *Node       { return &Node{List: xs, IsList: true} }
func F(f string, a ...any) *Node { return &Node{Atom: fmt.Sprintf(f, a...)} }
func B(b bool) *Node {
	if b {
		return A("1")
	}
	return A("0")
}

// Strs builds a list of atoms.
func Strs(ss []string) *Node {
	n := L()
	for _, s := range ss {
		n.List = append(n.List, A(s))
	}
	return n
}

func (n *Node) Add(xs ...*Node) *Node { n.List = append(n.List, xs...); n.IsList = true; return n }

func needsQuote(s string) bool {
	if s == "" {
		return true
	}
	return strings.ContainsAny(s, " ()\"\n\t\\\r")
}

func quote(s string) string {
	var b strings.Builder
	b.WriteByte('"')
	for _, c := range s {
		switch c {
		case '"':
			b.WriteString("\\\"")
		case '\\':
			b.WriteString("\\\\")
		case '\n':
			b.WriteString("\\n")
		case '\t':
			b.WriteString("\\t")
		case '\r':
			b.WriteString("\\r")
		default:
			b.WriteRune(c)
		}
	}
	b.WriteByte('"')
	return b.String()
}

func (n *Node) String() string {
	var b strings.Builder
	n.write(&b)
	return b.String()
}

func (n *Node) write(b *strings.Builder) {
	if !n.IsList {
		if needsQuote(n.Atom) {
			b.WriteString(quote(n.Atom))
		} else {
			b.WriteString(n.Atom)
		}
		return
	}
	b.WriteByte('(')
	for i, x := range n.List {
		if i > 0 {
			b.WriteByte(' ')
		}
		x.write(b)
	}
	b.WriteByte(')')
}

// Parse parses one S-expression.
func Parse(s string) (*Node, error) {
	p := &parser{s: []rune(s)}
	n, err := p.one()
	if err != nil {
		return nil, err
	}
	p.ws()
	if p.i != len(p.s) {
		return nil, fmt.Errorf("trailing input at %d", p.i)
	}
	return n, nil
}

func MustParse(s string) *Node {
	n, err := Parse(s)
	if err != nil {
		panic(fmt.Sprintf("sx.MustParse(%q): %v", s, err))
	}
	return n
}

type parser struct {
	s []rune
	i int
}

func (p *parser) ws() {
	for p.i < len(p.s) && (p.s[p.i] == ' ' || p.s[p.i] == '\t' || p.s[p.i] == '\n' || p.s[p.i] == '\r') {
		p.i++
	}
}

func (p *parser) one() (*Node, error) {
	p.ws()
	if p.i >= len(p.s) {
		return nil, fmt.Errorf("unexpected end")
	}
	c := p.s[p.i]
	switch {
	case c == '(':
		p.i++
		n := L()
		for {
			p.ws()
			if p.i >= len(p.s) {
				return nil, fmt.Errorf("unclosed list")
			}
			if p.s[p.i] == ')' {
				p.i++
				return n, nil
			}
			x, err := p.one()
			if err != nil {
				return nil, err
			}
			n.List = append(n.List, x)
		}
	case c == ')':
		return nil, fmt.Errorf("unexpected ) at %d", p.i)
	case c == '"':
		p.i++
		var b strings.Builder
		for {
			if p.i >= len(p.s) {
				return nil, fmt.Errorf("unclosed string")
			}
			c := p.s[p.i]
			p.i++
			if c == '"' {
				return A(b.String()), nil
			}
			if c == '\\' && p.i < len(p.s) {
				d := p.s[p.i]
				p.i++
				switch d {
				case 'n':
					b.WriteRune('\n')
				case 't':
					b.WriteRune('\t')
				case 'r':
					b.WriteRune('\r')
				default:
					b.WriteRune(d)
				}
				continue
			}
			b.WriteRune(c)
		}
	default:
		st := p.i
		for p.i < len(p.s) {
			c := p.s[p.i]
			if c == ' ' || c == '(' || c == ')' || c == '\t' || c == '\n' || c == '\r' {
				break
			}
			p.i++
		}
		return A(string(p.s[st:p.i])), nil
	}
}

// Accessors (panic-free; zero values on mismatch).
func (n *Node) Len() int {
	if n == nil {
		return 0
	}
	return len(n.List)
}
func (n *Node) At(i int) *Node {
	if n == nil || i < 0 || i >= len(n.List) {
		return &Node{}
	}
	return n.List[i]
}
func (n *Node) Int() int {
	v, _ := strconv.Atoi(n.Atom)
	return v
}
func (n *Node) Int64() int64 {
	v, _ := strconv.ParseInt(n.Atom, 10, 64)
	return v
}
func (n *Node) Bool() bool { return n.Atom == "1" || n.Atom == "true" }
func (n *Node) Str() string { return n.Atom }
