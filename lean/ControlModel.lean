-- Root of the `ControlModel` library: shared utilities only.
-- Models, generated tables, proofs and property files are built by name
-- (`lake build ControlModel.Props.C11`), see /verif/check.
import ControlModel.Basic
