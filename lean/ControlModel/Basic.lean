/-
  ControlModel.Basic — shared, core-only utilities.

  * `SExp`: the wire format of the correspondence line protocol. The Go harness
    (harness/sx) prints the same grammar:  atom | "(" sexp* ")" , atoms are
    runs of non-blank, non-paren characters; a quoted atom "…" may contain
    blanks/parens (escapes: \" \\ \n \t).
  * association-list helpers used by several models.

  Nothing here is part of a theorem statement except the assoc helpers.
-/

inductive SExp where
  | atom (s : String)
  | list (xs : List SExp)
  deriving Repr, Inhabited, BEq

namespace SExp

private def needsQuote (s : String) : Bool :=
  s.isEmpty || s.any (fun c => c == ' ' || c == '(' || c == ')' || c == '"' || c == '\n' || c == '\t' || c == '\r' || c == '\\')

private def quote (s : String) : String :=
  let body := s.foldl (fun acc c =>
    match c with
    | '"' => acc ++ "\\\""
    | '\\' => acc ++ "\\\\"
    | '\n' => acc ++ "\\n"
    | '\t' => acc ++ "\\t"
    | '\r' => acc ++ "\\r"
    | c => acc.push c) ""
  "\"" ++ body ++ "\""

partial def toStr : SExp → String
  | atom s => if needsQuote s then quote s else s
  | list xs => "(" ++ " ".intercalate (xs.map toStr) ++ ")"

instance : ToString SExp := ⟨toStr⟩

/-- Tokeniser + parser. Returns `none` on malformed input. -/
private partial def parseQuoted (cs : List Char) (acc : String) : Option (String × List Char) :=
  match cs with
  | [] => none
  | '"' :: rest => some (acc, rest)
  | '\\' :: 'n' :: rest => parseQuoted rest (acc.push '\n')
  | '\\' :: 't' :: rest => parseQuoted rest (acc.push '\t')
  | '\\' :: 'r' :: rest => parseQuoted rest (acc.push '\r')
  | '\\' :: c :: rest => parseQuoted rest (acc.push c)
  | c :: rest => parseQuoted rest (acc.push c)

private partial def parseAtom (cs : List Char) (acc : String) : String × List Char :=
  match cs with
  | [] => (acc, [])
  | c :: rest =>
    if c == ' ' || c == '(' || c == ')' || c == '\t' || c == '\n' || c == '\r' then (acc, cs)
    else parseAtom rest (acc.push c)

mutual
private partial def parseOne (cs : List Char) : Option (SExp × List Char) :=
  match cs with
  | [] => none
  | c :: rest =>
    if c == ' ' || c == '\t' || c == '\n' || c == '\r' then parseOne rest
    else if c == '(' then
      match parseMany rest [] with
      | some (xs, rest') => some (list xs, rest')
      | none => none
    else if c == ')' then none
    else if c == '"' then
      match parseQuoted rest "" with
      | some (s, rest') => some (atom s, rest')
      | none => none
    else
      let (s, rest') := parseAtom cs ""
      some (atom s, rest')

private partial def parseMany (cs : List Char) (acc : List SExp) : Option (List SExp × List Char) :=
  match cs with
  | [] => none
  | c :: rest =>
    if c == ' ' || c == '\t' || c == '\n' || c == '\r' then parseMany rest acc
    else if c == ')' then some (acc.reverse, rest)
    else
      match parseOne cs with
      | some (x, rest') => parseMany rest' (x :: acc)
      | none => none
end

def parse (s : String) : Option SExp :=
  match parseOne s.toList with
  | some (x, rest) => if rest.all (fun c => c == ' ' || c == '\n' || c == '\r' || c == '\t') then some x else none
  | none => none

/-- Split a protocol line "a\tb\tc" into its tab-separated fields. -/
def fields (line : String) : List String :=
  ((line.dropEndWhile (fun c => c == '\n' || c == '\r')).toString.splitOn "\t")

def nat? : SExp → Option Nat
  | atom s => s.toNat?
  | _ => none

def int? : SExp → Option Int
  | atom s => s.toInt?
  | _ => none

def str? : SExp → Option String
  | atom s => some s
  | _ => none

def list? : SExp → Option (List SExp)
  | list xs => some xs
  | _ => none

def bool? : SExp → Option Bool
  | atom "1" => some true
  | atom "true" => some true
  | atom "0" => some false
  | atom "false" => some false
  | _ => none

def ofBool (b : Bool) : SExp := atom (if b then "1" else "0")
def ofNat (n : Nat) : SExp := atom (toString n)
def ofInt (n : Int) : SExp := atom (toString n)

end SExp

/-- Map a partial function over a list, failing if any element fails. -/
def List.mapM? {α β} (f : α → Option β) : List α → Option (List β)
  | [] => some []
  | x :: xs => do
    let y ← f x
    let ys ← List.mapM? f xs
    pure (y :: ys)

namespace Assoc

/-- First binding of `k` in an association list. -/
def get {α β} [BEq α] : List (α × β) → α → Option β
  | [], _ => none
  | (k', v) :: rest, k => if k' == k then some v else get rest k

/-- Insert or overwrite the first binding of `k`. -/
def set {α β} [BEq α] : List (α × β) → α → β → List (α × β)
  | [], k, v => [(k, v)]
  | (k', v') :: rest, k, v => if k' == k then (k, v) :: rest else (k', v') :: set rest k v

def erase {α β} [BEq α] : List (α × β) → α → List (α × β)
  | [], _ => []
  | (k', v') :: rest, k => if k' == k then rest else (k', v') :: erase rest k

end Assoc
