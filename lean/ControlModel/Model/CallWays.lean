/-
  Model/CallWays — the WAYS a call hook can fail, and `(*Call).Call()`'s two failure exits.

  core/workflow/callable/call.go, `func (c *Call) Call() error`:

      err = fields.Execute(…)                       -- evaluate "{{" + c.Func + "}}"
      if err != nil { …DONE_ERROR event…; return err }
      …
      if errMsg, ok = c.VarStack["__call_error"]; ok && len(errMsg) > 0 { …DONE_ERROR event…; return errors.New(errMsg) }
      …DONE_OK event…
      return nil

  The environment machine (Model/Env) only ever sees whether that return value is nil: `Start` sends it
  to the await channel, `Await` returns what it receives, `AwaitAll` keeps the non-nil ones, and
  handleHooks looks at the hook's `Critical` trait and at nothing of the error. So a hook's script in
  Model/Env is a `List Bool`. Here the script says HOW an execution fails; `Way.eval` says what the
  evaluation of the call expression leaves behind in that case, `callReturnsErr` is `Call()`'s exit
  logic over it, and `KHook.toHook` forgets the way. `codeCall` is the exit logic of the code as it is
  (pinned against the source by `C09_call_exits_are_code`); `mergedExit` is NOT the code: the first
  exit falling through to the `__call_error` test, whose look-up overwrites the message.
-/
import ControlModel.Model.Env

namespace EnvM

/-- How one execution of a call hook fails. -/
inductive Way where
  | callError   -- the plugin writes a non-empty `__call_error`
  | reason      -- … and `__call_error_reason`
  | timeout     -- the plugin waits out `__call_timeout`, then reports the expired deadline through `__call_error`
  | cancelled   -- the plugin reports its own cancelled request through `__call_error`
  | goErr       -- the plugin function returns a Go error to the expression evaluator
  | both        -- the plugin function writes `__call_error` AND returns a Go error
  | panic       -- the plugin function panics (the evaluator recovers: an error)
  | noFunc      -- the plugin does not export the function
  | noPlugin    -- the expression names a plugin that is not loaded in this core instance
  | badExpr     -- the expression does not compile
  deriving DecidableEq, Repr, Inhabited

def Way.all : List Way :=
  [.callError, .reason, .timeout, .cancelled, .goErr, .both, .panic, .noFunc, .noPlugin, .badExpr]

/-- The outcome atom of the input format (`1` = by `__call_error`, the way there was before). -/
def Way.name : Way → String
  | .callError => "1" | .reason => "reason" | .timeout => "timeout" | .cancelled => "cancelled"
  | .goErr => "goerr" | .both => "both" | .panic => "panic" | .noFunc => "nofunc"
  | .noPlugin => "noplugin" | .badExpr => "badexpr"

def Way.parse? (s : String) : Option Way := Way.all.find? (fun w => w.name == s)

/-- The outcome of one execution of a call hook (of a task hook: `fail .callError` stands for its
    non-zero exit code). -/
inductive Outcome where
  | ok
  | fail (w : Way)
  deriving DecidableEq, Repr, Inhabited

def Outcome.isFail : Outcome → Bool
  | .ok => false
  | .fail _ => true

/-- What evaluating the call expression leaves behind, as far as `Call()` looks. -/
structure Eval where
  /-- `fields.Execute` returned a non-nil error -/
  evalErr : Bool
  /-- afterwards the call's VarStack holds a non-empty `__call_error` -/
  callError : Bool
  deriving DecidableEq, Repr

def Way.eval : Way → Eval
  | .callError => ⟨false, true⟩
  | .reason => ⟨false, true⟩
  | .timeout => ⟨false, true⟩
  | .cancelled => ⟨false, true⟩
  | .goErr => ⟨true, false⟩
  | .both => ⟨true, true⟩
  | .panic => ⟨true, false⟩
  | .noFunc => ⟨true, false⟩
  | .noPlugin => ⟨true, false⟩
  | .badExpr => ⟨true, false⟩

def Outcome.eval : Outcome → Eval
  | .ok => ⟨false, false⟩
  | .fail w => w.eval

/-- The two failure exits of `(*Call).Call()`. -/
structure CallCfg where
  /-- `if err != nil { …; return err }` right after `fields.Execute` -/
  evalErrExits : Bool
  /-- `if errMsg, ok = c.VarStack["__call_error"]; ok && len(errMsg) > 0 { …; return errors.New(errMsg) }` -/
  callErrorExits : Bool
  deriving DecidableEq, Repr

/-- The code as it is. -/
def codeCall : CallCfg := ⟨true, true⟩

/-- NOT the code: one exit for both failures — the evaluation error only stored in `errMsg`, which the
    `__call_error` look-up then overwrites. -/
def mergedExit : CallCfg := ⟨false, true⟩

/-- `(*Call).Call()`: is the returned error non-nil? -/
def callReturnsErr (cfg : CallCfg) (ev : Eval) : Bool :=
  (ev.evalErr && cfg.evalErrExits) || (ev.callError && cfg.callErrorExits)

/-- A hook whose script says how each execution fails. -/
structure KHook where
  id : Nat
  isTask : Bool
  critical : Bool
  trig : Moment
  tw : Int
  await : Moment
  aw : Int
  /-- outcome of the k-th execution; beyond the list: succeeds -/
  outcomes : List Outcome
  deriving Repr, Inhabited

/-- What the environment machine sees of the hook: per execution, whether `Call()` returns an error. -/
def KHook.toHook (cfg : CallCfg) (h : KHook) : Hook :=
  { id := h.id, isTask := h.isTask, critical := h.critical, trig := h.trig, tw := h.tw, await := h.await, aw := h.aw,
    outcomes := h.outcomes.map fun o => callReturnsErr cfg o.eval }

/-- The hook with the ways forgotten: an execution fails or it does not. -/
def KHook.forget (h : KHook) : Hook :=
  { id := h.id, isTask := h.isTask, critical := h.critical, trig := h.trig, tw := h.tw, await := h.await, aw := h.aw,
    outcomes := h.outcomes.map Outcome.isFail }

/-- Two hooks that differ at most in the WAY their failing executions fail. -/
def KHook.sameButWays (a b : KHook) : Prop :=
  a.id = b.id ∧ a.isTask = b.isTask ∧ a.critical = b.critical ∧ a.trig = b.trig ∧ a.tw = b.tw ∧
  a.await = b.await ∧ a.aw = b.aw ∧ a.outcomes.map Outcome.isFail = b.outcomes.map Outcome.isFail

/-- Two hook sets that differ at most in the ways their failing executions fail. -/
inductive SameButWays : List KHook → List KHook → Prop
  | nil : SameButWays [] []
  | cons {a b : KHook} {as bs : List KHook} : a.sameButWays b → SameButWays as bs → SameButWays (a :: as) (b :: bs)

/-- Every failing execution of the hook fails the way `w` instead. -/
def KHook.withWay (w : Way) (h : KHook) : KHook :=
  { h with outcomes := h.outcomes.map fun o => match o with | .ok => .ok | .fail _ => .fail w }

end EnvM
